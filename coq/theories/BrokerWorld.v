(* C03, broker side: the closed loop  client + connection + conforming broker.

   Outbound.v / OutboundInv.v / OutboundRefine.v prove the CLIENT side of C03 (what the
   client stores, resends and when it reuses an identifier).  This file closes the loop with
   a small transition system [wstep] over

     - the client, reduced to its four exactly-once numbers [cst] = (compl, recvd, acc2, max2)
       ([slim : ost -> cst]; [ostep_slim]: every [ostep] is a [cstep] or a stutter of the slim
       machine, [adopts_slim]: AdoptSession is a [crestart]; [wstep_client]: the client part
       of every world step is a [cstep], a [crestart] or a stutter),
     - ONE current connection: two FIFO queues [w_c2b] (client to broker) and [w_b2c]; nothing
       is lost, duplicated or reordered on a live connection; when it breaks ([W_break], also
       what the client does itself on an out-of-order acknowledgement, [W_reject_*]) both
       queues are emptied: whatever was written but not yet processed by the peer is lost,
       and nothing of an old connection is processed once the next one exists,
     - a conforming broker, MQTT 3.1.1 section 4.3.3 figure 4.3 receiver "method B": on PUBLISH
       with identifier id: if id is not stored, store it and initiate onward delivery
       (append to [w_fwd]); in both cases answer PUBREC id.  On PUBREL id: discard id, answer
       PUBCOMP id (also for an unknown id).  The set of stored identifiers [w_await] is
       session state: it survives Break/Reconnect/Restart.  The broker decides on the
       identifier only.
     - ghost data: every packet carries, next to its identifier, the ABSOLUTE sequence number
       of the message it belongs to (x = w_base + n for the client's sequence number n); the
       broker copies it into its answer and into [w_fwd] but never looks at it.  [w_base] is
       ghost as well: AdoptSession rebases the client's counters ([crestart]); base + counter
       stays the number of the message counted from the first one ever accepted.

   Theorems (every reachable state, every interleaving, Break and Restart at any point):
     world_inv            the invariant [WInv]
     at_most_once         (a) NoDup (w_fwd w): no message is forwarded twice
     only_accepted        (b) x in w_fwd -> x < base + acc2
     received_forwarded   (b) x < base + recvd -> x in w_fwd
     awaiting_window      (c) id in w_await -> id = key2 n for exactly one n in [compl, acc2),
                              and that message has been forwarded
     pending_publish_awaited  (c) n in [recvd, acc2) already forwarded -> key2 n in w_await
                              (a retransmitted PUBLISH n is therefore not forwarded again)
     fresh_id_not_awaiting    (c) the identifier of the next accepted message is not stored
     client_never_rejects     on a live connection the acknowledgements arrive in order:
                              the [W_reject_*] steps are never enabled
     good_step_measure    (d) every step other than Accept/Break/Restart decreases [mu] by 1
     progress_enabled     (d) mu <> 0 -> such a step is enabled
     quiescent_complete   (d) no such step enabled -> compl = recvd = acc2, queues and
                              w_await empty, w_fwd = every accepted message exactly once
     good_run_bound / good_run_complete / good_run_exists   (d) runs of such steps
     forwarded_stable / forwarded_only_by_publish / pipeline_recs / pipeline_comps
     retransmission_forwarded_once, restart_forwarded_once   concrete traces ([wexec])
     clean_session_restart_duplicates   the boundary: a broker that drops its session.     *)
From Coq Require Import ZArith ZifyN ZifyNat ZifyBool Lia List.
From MQ Require Import RecordProofs OutboundInv AdoptProofs.
Ltac Zify.zify_post_hook ::= Z.div_mod_to_equations.
Import ListNotations.
Local Open Scope N_scope.

#[local] Arguments key2 : simpl never.

(* ================================================================== *)
(* 1. The slim client                                                  *)

Record cst := mkCst { c_compl : N; c_recvd : N; c_acc : N; c_max : N }.

Definition slim (st : ost) : cst := mkCst (o_compl st) (o_recvd st) (o_acc2 st) (o_max2 st).

Inductive cstep : cst -> cst -> Prop :=
| CS_accept : forall c, c_acc c - c_compl c < c_max c ->
    cstep c (mkCst (c_compl c) (c_recvd c) (c_acc c + 1) (c_max c))
| CS_rec : forall c, c_recvd c < c_acc c ->
    cstep c (mkCst (c_compl c) (c_recvd c + 1) (c_acc c) (c_max c))
| CS_comp : forall c, c_compl c < c_recvd c ->
    cstep c (mkCst (c_compl c + 1) (c_recvd c) (c_acc c) (c_max c)).

(* process stop + AdoptSession: the three window sizes are kept, the counters move down by a
   common amount, which is a multiple of 2^14 unless nothing is pending.
   (AdoptProofs.adopt_spec: compl' = compl mod 16384 if something is pending, else all 0;
   the limit is the one of the new configuration.) *)
Definition crestart (c c' : cst) : Prop :=
  c_compl c' <= c_recvd c' /\ c_recvd c' <= c_acc c' /\
  c_acc c' - c_compl c' <= c_max c' /\ c_max c' <= 16384 /\
  c_recvd c' - c_compl c' = c_recvd c - c_compl c /\
  c_acc c' - c_compl c' = c_acc c - c_compl c /\
  c_compl c' <= c_compl c /\
  (c_compl c < c_acc c -> (c_compl c - c_compl c') mod 16384 = 0).

(* every step of the abstract sender machine is a step of the slim machine or invisible *)
Theorem ostep_slim : forall st st', OInv' st -> ostep st st' ->
  slim st' = slim st \/ cstep (slim st) (slim st').
Proof.
  intros st st' [[HC _] _] Hstep.
  destruct HC as [Hc1 Hc2 Hmax Hw1 Hw2 Hq1 Hq2 Hqt].
  ost_cases Hstep st; unfold slim; cbn; try (left; reflexivity).
  - (* OS_accept2 *) right. pose proof (Hq2 H) as E.
    apply (CS_accept (mkCst cp rc ac2 mx2)). cbn. lia.
  - (* OS_rec2 *) right. term_cases tm Hq1 Hq2 Hqt; [rewrite len_nil in *; lia|].
    apply (CS_rec (mkCst cp rc ac2 mx2)). cbn. lia.
  - (* OS_comp2 *) right. apply (CS_comp (mkCst cp rc ac2 mx2)). cbn. lia.
Qed.

Theorem adopts_slim : forall st st',
  OInv' st -> known_keys st -> markers_genuine st -> adopts st st' ->
  crestart (slim st) (slim st').
Proof.
  intros st st' HI Hkeys Hmark (cf & m1 & m2 & tp & c' & r & w & E & ->).
  pose proof (ci_c2 st (oif_cnt st (proj1 HI))) as C2.
  destruct (adopt_some st cf m1 m2 tp c' r w HI Hkeys Hmark E)
    as (_ & _ & _ & _ & _ & _ & _ & _ & _ & _ & W2 & W2' & _ & _ & _ & _ & _ & HI').
  destruct HI' as [[HC' _] _].
  pose proof (ci_c2 _ HC') as D2. pose proof (ci_max _ HC') as Dm. pose proof (ci_w2 _ HC') as Dw.
  unfold crestart, slim.
  cbn [ost_of sy_c sy_m o_compl o_recvd o_acc2 o_max2 c_compl c_recvd c_acc c_max] in *.
  destruct (N.eq_dec (o_compl st) (o_acc2 st)) as [E2|N2].
  - destruct (W2' E2) as (A & B & C). rewrite A, B, C in *. repeat split; try lia.
  - destruct (W2 ltac:(lia)) as (A & B & C). repeat split; try lia.
Qed.

(* ================================================================== *)
(* 2. The world                                                        *)

(* packets; second component = ghost absolute sequence number *)
Inductive up := UPub (id x : N) | URel (id x : N).        (* client to broker *)
Inductive down := DRec (id x : N) | DComp (id x : N).     (* broker to client *)

Definition resp (u : up) : down :=
  match u with UPub id x => DRec id x | URel id x => DComp id x end.

Record world := mkW {
  w_cl : cst;                 (* the client's numbers *)
  w_base : N;                 (* ghost: absolute number = w_base + client's number *)
  w_on : bool;                (* the client holds a connection *)
  w_c2b : list up;
  w_b2c : list down;
  w_await : list N;           (* broker: identifiers with PUBLISH received, PUBREL not yet *)
  w_fwd : list N              (* ghost: absolute numbers of the messages forwarded, newest first *)
}.

Definition wseq (lo hi : N) : list N := nseq lo (N.to_nat (hi - lo)).

(* identifier and ghost number the client puts on a packet for its sequence number n *)
Definition pk (b n : N) : N * N := (key2 n, b + n).
Definition mk_pub (b n : N) : up := UPub (key2 n) (b + n).
Definition mk_rel (b n : N) : up := URel (key2 n) (b + n).

(* what connect writes for the exactly-once level (Session.connect, second [resend]):
   sequence order from compl to acc2; the record under key2 n is the PUBREL for n < recvd
   and the PUBLISH (sent with DUP when it was submitted before) from recvd on *)
Definition resend_list (b : N) (c : cst) : list up :=
  map (mk_rel b) (wseq (c_compl c) (c_recvd c)) ++ map (mk_pub b) (wseq (c_recvd c) (c_acc c)).

Definition memb (id : N) (l : list N) : bool := existsb (N.eqb id) l.

(* the conforming broker (method B), a function of the identifier only *)
Definition broker_pub (id x : N) (aw fw : list N) : list N * list N :=
  if memb id aw then (aw, fw) else (id :: aw, x :: fw).
Definition broker_rel (id : N) (aw : list N) : list N := remove N.eq_dec id aw.

Inductive label :=
| LAccept | LBrokerPub | LBrokerRel | LClientRec | LClientComp | LReject
| LBreak | LReconnect | LRestart.

Definition set_cl (w : world) (c : cst) : world :=
  mkW c (w_base w) (w_on w) (w_c2b w) (w_b2c w) (w_await w) (w_fwd w).
Definition broken (w : world) : world :=
  mkW (w_cl w) (w_base w) false [] [] (w_await w) (w_fwd w).

Definition wC (w : world) := c_compl (w_cl w).
Definition wR (w : world) := c_recvd (w_cl w).
Definition wA (w : world) := c_acc (w_cl w).

Inductive wstep : world -> label -> world -> Prop :=
(* PublishExactlyOnce accepted (OS_accept2).  Online there is no backlog (connect resent
   everything, every later submission was written or broke the connection), so the PUBLISH
   goes out at once; offline it waits for the next connect. *)
| W_accept_on : forall w, w_on w = true -> wA w - wC w < c_max (w_cl w) ->
    wstep w LAccept
      (mkW (mkCst (wC w) (wR w) (wA w + 1) (c_max (w_cl w))) (w_base w) true
           (w_c2b w ++ [mk_pub (w_base w) (wA w)]) (w_b2c w) (w_await w) (w_fwd w))
| W_accept_off : forall w, w_on w = false -> wA w - wC w < c_max (w_cl w) ->
    wstep w LAccept
      (mkW (mkCst (wC w) (wR w) (wA w + 1) (c_max (w_cl w))) (w_base w) false
           (w_c2b w) (w_b2c w) (w_await w) (w_fwd w))
(* the broker processes the oldest packet of the connection *)
| W_broker_pub : forall w id x q, w_c2b w = UPub id x :: q ->
    wstep w LBrokerPub
      (mkW (w_cl w) (w_base w) (w_on w) q (w_b2c w ++ [DRec id x])
           (fst (broker_pub id x (w_await w) (w_fwd w))) (snd (broker_pub id x (w_await w) (w_fwd w))))
| W_broker_rel : forall w id x q, w_c2b w = URel id x :: q ->
    wstep w LBrokerRel
      (mkW (w_cl w) (w_base w) (w_on w) q (w_b2c w ++ [DComp id x])
           (broker_rel id (w_await w)) (w_fwd w))
(* the client reads the oldest packet of the connection (Session.on_pubrec / on_pubcomp):
   accepted only in order, otherwise protocol error and toOffline *)
| W_client_rec : forall w id x q, w_on w = true -> w_b2c w = DRec id x :: q ->
    id = key2 (wR w) -> wR w < wA w ->
    wstep w LClientRec
      (mkW (mkCst (wC w) (wR w + 1) (wA w) (c_max (w_cl w))) (w_base w) true
           (w_c2b w ++ [mk_rel (w_base w) (wR w)]) q (w_await w) (w_fwd w))
| W_reject_rec : forall w id x q, w_on w = true -> w_b2c w = DRec id x :: q ->
    ~ (id = key2 (wR w) /\ wR w < wA w) ->
    wstep w LReject (broken w)
| W_client_comp : forall w id x q, w_on w = true -> w_b2c w = DComp id x :: q ->
    id = key2 (wC w) -> wC w < wR w ->
    wstep w LClientComp
      (mkW (mkCst (wC w + 1) (wR w) (wA w) (c_max (w_cl w))) (w_base w) true
           (w_c2b w) q (w_await w) (w_fwd w))
| W_reject_comp : forall w id x q, w_on w = true -> w_b2c w = DComp id x :: q ->
    ~ (id = key2 (wC w) /\ wC w < wR w) ->
    wstep w LReject (broken w)
(* the connection breaks (any time, any side): everything in flight is lost *)
| W_break : forall w, wstep w LBreak (broken w)
(* connect: CONNECT/CONNACK (session present), then the resend *)
| W_reconnect : forall w, w_on w = false ->
    wstep w LReconnect
      (mkW (w_cl w) (w_base w) true (resend_list (w_base w) (w_cl w)) [] (w_await w) (w_fwd w))
(* the client process stops (any time) and a new one adopts the session from the Persistence *)
| W_restart : forall w c', crestart (w_cl w) c' ->
    wstep w LRestart
      (mkW c' (w_base w + wC w - c_compl c') false [] [] (w_await w) (w_fwd w)).

Definition winit (max2 : N) : world := mkW (mkCst 0 0 0 max2) 0 false [] [] [] [].

Inductive wreach : world -> Prop :=
| wr_init : forall max2, max2 <= 16384 -> wreach (winit max2)
| wr_step : forall w l w', wreach w -> wstep w l w' -> wreach w'.

(* the client part of the world moves like the slim machine *)
Theorem wstep_client : forall w l w', wstep w l w' ->
  w_cl w' = w_cl w \/ cstep (w_cl w) (w_cl w') \/ crestart (w_cl w) (w_cl w').
Proof.
  intros w l w' H. destruct H; cbn [w_cl broken]; auto.
  - right; left. apply CS_accept. assumption.
  - right; left. apply CS_accept. assumption.
  - right; left. apply CS_rec. assumption.
  - right; left. apply CS_comp. assumption.
Qed.

(* ================================================================== *)
(* 3. Lists                                                            *)

Lemma nseq_snoc l : forall a, nseq a (S l) = nseq a l ++ [a + N.of_nat l].
Proof.
  induction l as [|l IH]; intros a.
  - cbn. f_equal. lia.
  - change (nseq a (S (S l))) with (a :: nseq (a + 1) (S l)). rewrite IH.
    cbn [nseq app]. do 3 f_equal. lia.
Qed.

Lemma wseq_nil a b : b <= a -> wseq a b = [].
Proof. intros H. unfold wseq. replace (N.to_nat (b - a)) with O by lia. reflexivity. Qed.
Lemma wseq_cons a b : a < b -> wseq a b = a :: wseq (a + 1) b.
Proof.
  intros H. unfold wseq. replace (N.to_nat (b - a)) with (S (N.to_nat (b - (a + 1)))) by lia.
  reflexivity.
Qed.
Lemma wseq_snoc a b : a <= b -> wseq a (b + 1) = wseq a b ++ [b].
Proof.
  intros H. unfold wseq. replace (N.to_nat (b + 1 - a)) with (S (N.to_nat (b - a))) by lia.
  rewrite nseq_snoc. do 2 f_equal. lia.
Qed.
Lemma wseq_in a b n : In n (wseq a b) <-> a <= n < b.
Proof. unfold wseq. rewrite nseq_in. lia. Qed.
Lemma wseq_len a b : N.of_nat (length (wseq a b)) = b - a.
Proof. unfold wseq. rewrite nseq_length. lia. Qed.

Fixpoint recs (l : list down) : list (N * N) :=
  match l with
  | [] => []
  | DRec id x :: r => (id, x) :: recs r
  | DComp _ _ :: r => recs r
  end.
Fixpoint comps (l : list down) : list (N * N) :=
  match l with
  | [] => []
  | DRec _ _ :: r => comps r
  | DComp id x :: r => (id, x) :: comps r
  end.

Lemma recs_app l1 l2 : recs (l1 ++ l2) = recs l1 ++ recs l2.
Proof. induction l1 as [|[]]; cbn; congruence. Qed.
Lemma comps_app l1 l2 : comps (l1 ++ l2) = comps l1 ++ comps l2.
Proof. induction l1 as [|[]]; cbn; congruence. Qed.

Lemma recs_resp_rel b l : recs (map resp (map (mk_rel b) l)) = [].
Proof. induction l; cbn; auto. Qed.
Lemma recs_resp_pub b l : recs (map resp (map (mk_pub b) l)) = map (pk b) l.
Proof. induction l; cbn; [|unfold pk at 1]; congruence. Qed.
Lemma comps_resp_rel b l : comps (map resp (map (mk_rel b) l)) = map (pk b) l.
Proof. induction l; cbn; [|unfold pk at 1]; congruence. Qed.
Lemma comps_resp_pub b l : comps (map resp (map (mk_pub b) l)) = [].
Proof. induction l; cbn; auto. Qed.

(* what the client will read on this connection if it sends nothing more *)
Definition pend (w : world) : list down := w_b2c w ++ map resp (w_c2b w).

Lemma in_pk b lo hi id x :
  In (id, x) (map (pk b) (wseq lo hi)) <-> exists n, lo <= n < hi /\ id = key2 n /\ x = b + n.
Proof.
  rewrite in_map_iff. split.
  - intros (n & E & Hin). apply wseq_in in Hin. inversion E. eauto.
  - intros (n & Hn & -> & ->). exists n. split; [reflexivity|]. apply wseq_in. exact Hn.
Qed.

Lemma key2_window_eq n m lo hi : hi - lo <= 16384 ->
  lo <= n < hi -> lo <= m < hi -> key2 n = key2 m -> n = m.
Proof. intros Hw Hn Hm E. apply key2_iff in E. lia. Qed.

Lemma memb_in id l : memb id l = true <-> In id l.
Proof.
  unfold memb. rewrite existsb_exists. split.
  - intros (y & Hin & E). apply N.eqb_eq in E. subst. exact Hin.
  - intros H. exists id. split; [exact H|apply N.eqb_refl].
Qed.

(* ================================================================== *)
(* 4. The invariant                                                    *)

Record WInv (w : world) : Prop := mkWInv {
  wi_cnt : wC w <= wR w /\ wR w <= wA w /\ wA w - wC w <= c_max (w_cl w) /\ c_max (w_cl w) <= 16384;
  wi_off : w_on w = false -> w_c2b w = [] /\ w_b2c w = [];
  (* the connection pipeline: the PUBRECs still to be read are exactly those of
     recvd .. acc2-1 in order, the PUBCOMPs those of compl .. recvd-1 in order *)
  wi_recs : w_on w = true -> recs (pend w) = map (pk (w_base w)) (wseq (wR w) (wA w));
  wi_comps : w_on w = true -> comps (pend w) = map (pk (w_base w)) (wseq (wC w) (wR w));
  wi_nodup : NoDup (w_fwd w);
  wi_acc : forall x, In x (w_fwd w) -> x < w_base w + wA w;
  wi_rec : forall x, x < w_base w + wR w -> In x (w_fwd w);
  wi_aw : forall id, In id (w_await w) ->
            exists n, wC w <= n < wA w /\ id = key2 n /\ In (w_base w + n) (w_fwd w);
  wi_fw : forall n, wR w <= n < wA w -> In (w_base w + n) (w_fwd w) -> In (key2 n) (w_await w);
  wi_cmp : forall id x, In (id, x) (comps (w_b2c w)) -> ~ In id (w_await w);
  wi_recd : forall id x, In (id, x) (recs (w_b2c w)) -> In x (w_fwd w)
}.

Lemma winv_init max2 : max2 <= 16384 -> WInv (winit max2).
Proof.
  intros H. constructor; cbn.
  - lia.
  - auto.
  - discriminate.
  - discriminate.
  - constructor.
  - contradiction.
  - intros; lia.
  - contradiction.
  - intros; lia.
  - contradiction.
  - contradiction.
Qed.

(* ---- every step keeps the invariant ---- *)

Ltac wsimp :=
  unfold wC, wR, wA, pend, broken in *;
  cbn [w_cl w_base w_on w_c2b w_b2c w_await w_fwd c_compl c_recvd c_acc c_max] in *.
Ltac wopen w :=
  destruct w as [[c r a mx] b on c2b b2c aw fw]; wsimp.

Lemma step_accept_on w : WInv w -> w_on w = true -> wA w - wC w < c_max (w_cl w) ->
  WInv (mkW (mkCst (wC w) (wR w) (wA w + 1) (c_max (w_cl w))) (w_base w) true
            (w_c2b w ++ [mk_pub (w_base w) (wA w)]) (w_b2c w) (w_await w) (w_fwd w)).
Proof.
  intros [Hcnt Hoff Hrecs Hcomps Hnd Hacc Hrec Haw Hfw Hcmp Hrecd] Hon Hg.
  wopen w. subst on. constructor; wsimp.
  - lia.
  - discriminate.
  - intros _. rewrite map_app, app_assoc, recs_app, (Hrecs eq_refl). cbn [map resp mk_pub recs].
    rewrite wseq_snoc by lia. rewrite map_app. reflexivity.
  - intros _. rewrite map_app, app_assoc, comps_app, (Hcomps eq_refl). cbn [map resp mk_pub comps].
    apply app_nil_r.
  - exact Hnd.
  - intros x Hx. specialize (Hacc x Hx). lia.
  - exact Hrec.
  - intros id Hid. destruct (Haw id Hid) as (n & Hn & E & F). exists n. repeat split; try assumption; lia.
  - intros n Hn Hin. destruct (N.eq_dec n a) as [->|Hne].
    + specialize (Hacc _ Hin). lia.
    + apply Hfw; [lia|exact Hin].
  - exact Hcmp.
  - exact Hrecd.
Qed.

Lemma step_accept_off w : WInv w -> w_on w = false -> wA w - wC w < c_max (w_cl w) ->
  WInv (mkW (mkCst (wC w) (wR w) (wA w + 1) (c_max (w_cl w))) (w_base w) false
            (w_c2b w) (w_b2c w) (w_await w) (w_fwd w)).
Proof.
  intros [Hcnt Hoff Hrecs Hcomps Hnd Hacc Hrec Haw Hfw Hcmp Hrecd] Hon Hg.
  wopen w. subst on. constructor; wsimp.
  - lia.
  - exact Hoff.
  - discriminate.
  - discriminate.
  - exact Hnd.
  - intros x Hx. specialize (Hacc x Hx). lia.
  - exact Hrec.
  - intros id Hid. destruct (Haw id Hid) as (n & Hn & E & F). exists n. repeat split; try assumption; lia.
  - intros n Hn Hin. destruct (N.eq_dec n a) as [->|Hne].
    + specialize (Hacc _ Hin). lia.
    + apply Hfw; [lia|exact Hin].
  - exact Hcmp.
  - exact Hrecd.
Qed.

Lemma live_c2b w u q : WInv w -> w_c2b w = u :: q -> w_on w = true.
Proof.
  intros HI E. destruct (w_on w) eqn:Hon; [reflexivity|].
  destruct (wi_off w HI Hon) as [E' _]. congruence.
Qed.

Lemma step_broker_pub w id x q : WInv w -> w_c2b w = UPub id x :: q ->
  WInv (mkW (w_cl w) (w_base w) (w_on w) q (w_b2c w ++ [DRec id x])
           (fst (broker_pub id x (w_await w) (w_fwd w))) (snd (broker_pub id x (w_await w) (w_fwd w)))).
Proof.
  intros HI Hq. pose proof (live_c2b _ _ _ HI Hq) as Hon.
  destruct HI as [Hcnt Hoff Hrecs Hcomps Hnd Hacc Hrec Haw Hfw Hcmp Hrecd].
  wopen w. subst on c2b. specialize (Hrecs eq_refl). specialize (Hcomps eq_refl).
  cbn [map resp] in Hrecs, Hcomps. rewrite recs_app in Hrecs. rewrite comps_app in Hcomps.
  cbn [recs comps] in Hrecs, Hcomps.
  assert (Hm : exists m, r <= m < a /\ id = key2 m /\ x = b + m).
  { apply in_pk. rewrite <- Hrecs. apply in_or_app. right. left. reflexivity. }
  destruct Hm as (m & Hm & -> & ->).
  assert (Hci : forall id' x', In (id', x') (comps b2c) -> exists n, c <= n < r /\ id' = key2 n /\ x' = b + n).
  { intros id' x' Hin. apply in_pk. rewrite <- Hcomps. apply in_or_app. left. exact Hin. }
  unfold broker_pub. destruct (memb (key2 m) aw) eqn:Em; cbn [fst snd].
  - apply memb_in in Em. constructor; wsimp.
    + exact Hcnt.
    + discriminate.
    + intros _. rewrite <- app_assoc. cbn [app]. rewrite recs_app. cbn [recs]. exact Hrecs.
    + intros _. rewrite <- app_assoc. cbn [app]. rewrite comps_app. cbn [comps]. exact Hcomps.
    + exact Hnd.
    + exact Hacc.
    + exact Hrec.
    + exact Haw.
    + exact Hfw.
    + rewrite comps_app. cbn [comps]. rewrite app_nil_r. exact Hcmp.
    + rewrite recs_app. cbn [recs]. intros id' x' Hin. apply in_app_or in Hin.
      destruct Hin as [Hin|[E|[]]]; [exact (Hrecd _ _ Hin)|]. inversion E; subst id' x'.
      destruct (Haw _ Em) as (n & Hn & E2 & F).
      assert (m = n) by (apply (key2_window_eq m n c a); try lia; exact E2). subst n. exact F.
  - assert (Em' : ~ In (key2 m) aw) by (rewrite <- memb_in; congruence).
    constructor; wsimp.
    + exact Hcnt.
    + discriminate.
    + intros _. rewrite <- app_assoc. cbn [app]. rewrite recs_app. cbn [recs]. exact Hrecs.
    + intros _. rewrite <- app_assoc. cbn [app]. rewrite comps_app. cbn [comps]. exact Hcomps.
    + constructor; [|exact Hnd]. intros Hin. apply Em', Hfw; [lia|exact Hin].
    + intros x [<-|Hx]; [lia|apply Hacc; exact Hx].
    + intros x Hx. right. apply Hrec. exact Hx.
    + intros id [<-|Hid].
      * exists m. repeat split; try lia. left. reflexivity.
      * destruct (Haw id Hid) as (n & Hn & E & F). exists n. repeat split; try assumption; try lia.
        right. exact F.
    + intros n Hn [E|Hin].
      * assert (n = m) by lia. subst n. left. reflexivity.
      * right. apply Hfw; assumption.
    + rewrite comps_app. cbn [comps]. rewrite app_nil_r. intros id' x' Hin [E|Hin'].
      * destruct (Hci _ _ Hin) as (n & Hn & -> & _).
        assert (m = n) by (apply (key2_window_eq m n c a); try lia; exact E). lia.
      * exact (Hcmp _ _ Hin Hin').
    + rewrite recs_app. cbn [recs]. intros id' x' Hin. apply in_app_or in Hin.
      destruct Hin as [Hin|[E|[]]]; [right; exact (Hrecd _ _ Hin)|]. inversion E. left. reflexivity.
Qed.

Lemma step_broker_rel w id x q : WInv w -> w_c2b w = URel id x :: q ->
  WInv (mkW (w_cl w) (w_base w) (w_on w) q (w_b2c w ++ [DComp id x])
           (broker_rel id (w_await w)) (w_fwd w)).
Proof.
  intros HI Hq. pose proof (live_c2b _ _ _ HI Hq) as Hon.
  destruct HI as [Hcnt Hoff Hrecs Hcomps Hnd Hacc Hrec Haw Hfw Hcmp Hrecd].
  wopen w. subst on c2b. specialize (Hrecs eq_refl). specialize (Hcomps eq_refl).
  cbn [map resp] in Hrecs, Hcomps. rewrite recs_app in Hrecs. rewrite comps_app in Hcomps.
  cbn [recs comps] in Hrecs, Hcomps.
  assert (Hm : exists m, c <= m < r /\ id = key2 m /\ x = b + m).
  { apply in_pk. rewrite <- Hcomps. apply in_or_app. right. left. reflexivity. }
  destruct Hm as (m & Hm & -> & ->). unfold broker_rel.
  constructor; wsimp.
  - exact Hcnt.
  - discriminate.
  - intros _. rewrite <- app_assoc. cbn [app]. rewrite recs_app. cbn [recs]. exact Hrecs.
  - intros _. rewrite <- app_assoc. cbn [app]. rewrite comps_app. cbn [comps]. exact Hcomps.
  - exact Hnd.
  - exact Hacc.
  - exact Hrec.
  - intros id Hin. apply in_remove in Hin. apply Haw, Hin.
  - intros n Hn Hin. apply in_in_remove; [|apply Hfw; assumption].
    intros E. assert (n = m) by (apply (key2_window_eq n m c a); try lia; exact E). lia.
  - rewrite comps_app. cbn [comps]. intros id' x' Hin Hin'. apply in_app_or in Hin.
    destruct Hin as [Hin|[E|[]]].
    + apply in_remove in Hin'. exact (Hcmp _ _ Hin (proj1 Hin')).
    + inversion E; subst id'. exact (remove_In _ _ _ Hin').
  - rewrite recs_app. cbn [recs]. rewrite app_nil_r. exact Hrecd.
Qed.

Lemma step_client_rec w id x q : WInv w -> w_on w = true -> w_b2c w = DRec id x :: q ->
  id = key2 (wR w) -> wR w < wA w ->
  WInv (mkW (mkCst (wC w) (wR w + 1) (wA w) (c_max (w_cl w))) (w_base w) true
           (w_c2b w ++ [mk_rel (w_base w) (wR w)]) q (w_await w) (w_fwd w)).
Proof.
  intros [Hcnt Hoff Hrecs Hcomps Hnd Hacc Hrec Haw Hfw Hcmp Hrecd] Hon Hq Hid Hlt.
  wopen w. subst on b2c id. specialize (Hrecs eq_refl). specialize (Hcomps eq_refl).
  cbn [app recs comps] in Hrecs, Hcomps, Hcmp, Hrecd.
  rewrite (wseq_cons r a) in Hrecs by lia. cbn [map] in Hrecs. unfold pk at 1 in Hrecs.
  inversion Hrecs as [[Hx Ht]]. clear Hrecs. subst x.
  constructor; wsimp.
  - lia.
  - discriminate.
  - intros _. rewrite map_app, app_assoc, recs_app, Ht. cbn [map resp mk_rel recs]. apply app_nil_r.
  - intros _. rewrite map_app, app_assoc, comps_app, Hcomps. cbn [map resp mk_rel comps].
    rewrite wseq_snoc by lia. rewrite map_app. reflexivity.
  - exact Hnd.
  - exact Hacc.
  - intros x' Hx'. destruct (N.eq_dec x' (b + r)) as [->|Hne].
    + apply (Hrecd (key2 r)). left. reflexivity.
    + apply Hrec. lia.
  - exact Haw.
  - intros n Hn. apply Hfw. lia.
  - exact Hcmp.
  - intros id' x' Hin. apply (Hrecd id'). right. exact Hin.
Qed.

Lemma step_client_comp w id x q : WInv w -> w_on w = true -> w_b2c w = DComp id x :: q ->
  id = key2 (wC w) -> wC w < wR w ->
  WInv (mkW (mkCst (wC w + 1) (wR w) (wA w) (c_max (w_cl w))) (w_base w) true
           (w_c2b w) q (w_await w) (w_fwd w)).
Proof.
  intros [Hcnt Hoff Hrecs Hcomps Hnd Hacc Hrec Haw Hfw Hcmp Hrecd] Hon Hq Hid Hlt.
  wopen w. subst on b2c id. specialize (Hrecs eq_refl). specialize (Hcomps eq_refl).
  cbn [app recs comps] in Hrecs, Hcomps, Hcmp, Hrecd.
  rewrite (wseq_cons c r) in Hcomps by lia. cbn [map] in Hcomps. unfold pk at 1 in Hcomps.
  inversion Hcomps as [[Hx Ht]]. clear Hcomps. subst x.
  constructor; wsimp.
  - lia.
  - discriminate.
  - intros _. exact Hrecs.
  - intros _. exact Ht.
  - exact Hnd.
  - exact Hacc.
  - exact Hrec.
  - intros id' Hin. destruct (Haw id' Hin) as (n & Hn & -> & F).
    assert (n <> c). { intros ->. apply (Hcmp (key2 c) (b + c)); [left; reflexivity|exact Hin]. }
    exists n. repeat split; try assumption; lia.
  - exact Hfw.
  - intros id' x' Hin. apply (Hcmp id' x'). right. exact Hin.
  - exact Hrecd.
Qed.

Lemma step_break w : WInv w -> WInv (broken w).
Proof.
  intros [Hcnt Hoff Hrecs Hcomps Hnd Hacc Hrec Haw Hfw Hcmp Hrecd].
  wopen w. constructor; wsimp; try assumption; try discriminate.
  - auto.
  - intros id x [].
  - intros id x [].
Qed.

Lemma step_reconnect w : WInv w -> w_on w = false ->
  WInv (mkW (w_cl w) (w_base w) true (resend_list (w_base w) (w_cl w)) [] (w_await w) (w_fwd w)).
Proof.
  intros [Hcnt Hoff Hrecs Hcomps Hnd Hacc Hrec Haw Hfw Hcmp Hrecd] Hon.
  wopen w. constructor; wsimp; try assumption; try discriminate.
  - intros _. unfold resend_list. cbn [c_compl c_recvd c_acc app]. rewrite map_app, recs_app.
    rewrite recs_resp_rel, recs_resp_pub. reflexivity.
  - intros _. unfold resend_list. cbn [c_compl c_recvd c_acc app]. rewrite map_app, comps_app.
    rewrite comps_resp_rel, comps_resp_pub. apply app_nil_r.
  - intros id x [].
  - intros id x [].
Qed.

Lemma step_restart w c' : WInv w -> crestart (w_cl w) c' ->
  WInv (mkW c' (w_base w + wC w - c_compl c') false [] [] (w_await w) (w_fwd w)).
Proof.
  intros [Hcnt Hoff Hrecs Hcomps Hnd Hacc Hrec Haw Hfw Hcmp Hrecd] Hr.
  wopen w. destruct c' as [c' r' a' mx']. unfold crestart in Hr. wsimp.
  destruct Hr as (R1 & R2 & R3 & R4 & R5 & R6 & R7 & R8).
  constructor; wsimp; try assumption; try discriminate.
  - lia.
  - auto.
  - intros x Hx. specialize (Hacc x Hx). lia.
  - intros x Hx. apply Hrec. lia.
  - intros id Hin. destruct (Haw id Hin) as (n & Hn & -> & F).
    exists (n - (c - c')). split; [lia|]. split.
    + apply key2_iff. specialize (R8 ltac:(lia)). lia.
    + replace (b + c - c' + (n - (c - c'))) with (b + n) by lia. exact F.
  - intros n Hn Hin. replace (b + c - c' + n) with (b + (n + (c - c'))) in Hin by lia.
    apply Hfw in Hin; [|lia]. replace (key2 n) with (key2 (n + (c - c'))); [exact Hin|].
    apply key2_iff. specialize (R8 ltac:(lia)). lia.
  - intros id x [].
  - intros id x [].
Qed.

Theorem winv_step : forall w l w', WInv w -> wstep w l w' -> WInv w'.
Proof.
  intros w l w' HI H. destruct H.
  - apply step_accept_on; assumption.
  - apply step_accept_off; assumption.
  - eapply step_broker_pub; eassumption.
  - eapply step_broker_rel; eassumption.
  - eapply step_client_rec; eassumption.
  - apply step_break; assumption.
  - eapply step_client_comp; eassumption.
  - apply step_break; assumption.
  - apply step_break; assumption.
  - apply step_reconnect; assumption.
  - apply step_restart; assumption.
Qed.

Theorem world_inv : forall w, wreach w -> WInv w.
Proof.
  induction 1 as [max2 H|w l w' _ IH Hs].
  - apply winv_init. exact H.
  - exact (winv_step _ _ _ IH Hs).
Qed.

(* ================================================================== *)
(* 5. (a) (b) (c): at most once, only accepted messages, identifier safety *)

Theorem at_most_once : forall w, wreach w -> NoDup (w_fwd w).
Proof. intros w H. apply wi_nodup, world_inv, H. Qed.

Theorem at_most_once_count : forall w x, wreach w -> (count_occ N.eq_dec (w_fwd w) x <= 1)%nat.
Proof. intros w x H. apply NoDup_count_occ. apply at_most_once, H. Qed.

Theorem only_accepted : forall w x, wreach w -> In x (w_fwd w) -> x < w_base w + wA w.
Proof. intros w x H. apply wi_acc, world_inv, H. Qed.

Theorem received_forwarded : forall w x, wreach w -> x < w_base w + wR w -> In x (w_fwd w).
Proof. intros w x H. apply wi_rec, world_inv, H. Qed.

Theorem awaiting_window : forall w id, wreach w -> In id (w_await w) ->
  exists n, (wC w <= n < wA w /\ id = key2 n /\ In (w_base w + n) (w_fwd w)) /\
            forall n', wC w <= n' < wA w -> id = key2 n' -> n' = n.
Proof.
  intros w id H Hin. pose proof (world_inv _ H) as HI.
  destruct (wi_aw _ HI id Hin) as (n & Hn & E & F). exists n. split; [auto|].
  intros n' Hn' E'. pose proof (wi_cnt _ HI) as Hc.
  apply (key2_window_eq n' n (wC w) (wA w)); lia.
Qed.

Theorem pending_publish_awaited : forall w n, wreach w ->
  wR w <= n < wA w -> In (w_base w + n) (w_fwd w) -> In (key2 n) (w_await w).
Proof. intros w n H. apply wi_fw, world_inv, H. Qed.

Theorem fresh_id_not_awaiting : forall w, wreach w ->
  wA w - wC w < c_max (w_cl w) -> ~ In (key2 (wA w)) (w_await w).
Proof.
  intros w H Hg Hin. pose proof (world_inv _ H) as HI. pose proof (wi_cnt _ HI) as Hc.
  destruct (wi_aw _ HI _ Hin) as (n & Hn & E & _). apply key2_iff in E. lia.
Qed.

(* on a live connection the acknowledgements reach the client in order *)
Lemma winv_no_reject w w' : WInv w -> wstep w LReject w' -> False.
Proof.
  intros HI H. pose proof (wi_cnt _ HI) as Hc.
  inversion H as [| | | | |w0 id x q Hon Hq Hn| |w0 id x q Hon Hq Hn| | |]; subst w0.
  - pose proof (wi_recs _ HI Hon) as E. unfold pend in E. rewrite Hq in E. cbn [app recs] in E.
    destruct (N.lt_ge_cases (wR w) (wA w)) as [Hlt|Hge].
    + rewrite wseq_cons in E by exact Hlt. cbn [map] in E. unfold pk at 1 in E.
      inversion E. apply Hn. split; assumption.
    + rewrite wseq_nil in E by exact Hge. discriminate.
  - pose proof (wi_comps _ HI Hon) as E. unfold pend in E. rewrite Hq in E. cbn [app comps] in E.
    destruct (N.lt_ge_cases (wC w) (wR w)) as [Hlt|Hge].
    + rewrite wseq_cons in E by exact Hlt. cbn [map] in E. unfold pk at 1 in E.
      inversion E. apply Hn. split; assumption.
    + rewrite wseq_nil in E by exact Hge. discriminate.
Qed.

Theorem client_never_rejects : forall w w', wreach w -> ~ wstep w LReject w'.
Proof. intros w w' H Hs. exact (winv_no_reject _ _ (world_inv _ H) Hs). Qed.

(* ================================================================== *)
(* 6. (d): exactly once when the faults stop                           *)

Definition wt_up (u : up) : N := match u with UPub _ _ => 4 | URel _ _ => 2 end.
Definition wt_down (d : down) : N := match d with DRec _ _ => 3 | DComp _ _ => 1 end.
Fixpoint sum_up (l : list up) : N := match l with [] => 0 | u :: r => wt_up u + sum_up r end.
Fixpoint sum_down (l : list down) : N := match l with [] => 0 | d :: r => wt_down d + sum_down r end.

(* remaining work = number of steps still to be taken: a PUBLISH in flight needs 4 more steps
   (broker, client, broker, client), a PUBREC 3, a PUBREL 2, a PUBCOMP 1; offline: one
   Reconnect plus what the resend will put on the wire *)
Definition mu (w : world) : N :=
  if w_on w then sum_up (w_c2b w) + sum_down (w_b2c w)
  else 1 + 4 * (wA w - wR w) + 2 * (wR w - wC w).

Definition is_progress (l : label) : bool :=
  match l with
  | LBrokerPub | LBrokerRel | LClientRec | LClientComp | LReject | LReconnect => true
  | LAccept | LBreak | LRestart => false
  end.

Lemma sum_up_app l1 l2 : sum_up (l1 ++ l2) = sum_up l1 + sum_up l2.
Proof. induction l1; cbn [app sum_up]; lia. Qed.
Lemma sum_down_app l1 l2 : sum_down (l1 ++ l2) = sum_down l1 + sum_down l2.
Proof. induction l1; cbn [app sum_down]; lia. Qed.
Lemma sum_up_rel b l : sum_up (map (mk_rel b) l) = 2 * N.of_nat (length l).
Proof. induction l; cbn [map sum_up mk_rel wt_up length]; lia. Qed.
Lemma sum_up_pub b l : sum_up (map (mk_pub b) l) = 4 * N.of_nat (length l).
Proof. induction l; cbn [map sum_up mk_pub wt_up length]; lia. Qed.

Theorem good_step_measure : forall w l w', WInv w -> wstep w l w' -> is_progress l = true ->
  mu w = mu w' + 1.
Proof.
  intros w l w' HI H Hl. pose proof (wi_cnt _ HI) as Hc.
  destruct H; try discriminate Hl; unfold mu; wsimp.
  - rewrite (live_c2b _ _ _ HI H). rewrite H. rewrite sum_down_app. cbn [sum_up sum_down wt_up wt_down]. lia.
  - rewrite (live_c2b _ _ _ HI H). rewrite H. rewrite sum_down_app. cbn [sum_up sum_down wt_up wt_down]. lia.
  - rewrite H, H0. rewrite sum_up_app. cbn [sum_up sum_down wt_up wt_down mk_rel]. lia.
  - exfalso. eapply winv_no_reject; [exact HI|]. eapply W_reject_rec; eassumption.
  - rewrite H, H0. cbn [sum_up sum_down wt_up wt_down]. lia.
  - exfalso. eapply winv_no_reject; [exact HI|]. eapply W_reject_comp; eassumption.
  - rewrite H. unfold resend_list. rewrite sum_up_app, sum_up_rel, sum_up_pub, !wseq_len.
    cbn [sum_down]. lia.
Qed.

Theorem accept_step_measure : forall w w', WInv w -> wstep w LAccept w' -> mu w' = mu w + 4.
Proof.
  intros w w' HI H. pose proof (wi_cnt _ HI) as Hc.
  inversion H; subst; unfold mu; wsimp.
  - rewrite H0. rewrite sum_up_app. cbn [sum_up wt_up mk_pub]. lia.
  - rewrite H0. lia.
Qed.

Theorem progress_enabled : forall w, mu w <> 0 ->
  exists l w', is_progress l = true /\ wstep w l w'.
Proof.
  intros w Hmu. destruct (w_on w) eqn:Hon.
  - destruct (w_c2b w) as [|[id x|id x] q] eqn:Hq.
    + destruct (w_b2c w) as [|[id x|id x] q'] eqn:Hq'.
      * exfalso. apply Hmu. unfold mu. rewrite Hon, Hq, Hq'. reflexivity.
      * destruct (N.eq_dec id (key2 (wR w))) as [E|NE].
        -- destruct (N.lt_ge_cases (wR w) (wA w)) as [Hlt|Hge].
           ++ eexists LClientRec, _. split; [reflexivity|]. eapply W_client_rec; eassumption.
           ++ eexists LReject, _. split; [reflexivity|]. eapply W_reject_rec; try eassumption. lia.
        -- eexists LReject, _. split; [reflexivity|]. eapply W_reject_rec; try eassumption. tauto.
      * destruct (N.eq_dec id (key2 (wC w))) as [E|NE].
        -- destruct (N.lt_ge_cases (wC w) (wR w)) as [Hlt|Hge].
           ++ eexists LClientComp, _. split; [reflexivity|]. eapply W_client_comp; eassumption.
           ++ eexists LReject, _. split; [reflexivity|]. eapply W_reject_comp; try eassumption. lia.
        -- eexists LReject, _. split; [reflexivity|]. eapply W_reject_comp; try eassumption. tauto.
    + eexists LBrokerPub, _. split; [reflexivity|]. eapply W_broker_pub; eassumption.
    + eexists LBrokerRel, _. split; [reflexivity|]. eapply W_broker_rel; eassumption.
  - eexists LReconnect, _. split; [reflexivity|]. apply W_reconnect. exact Hon.
Qed.

(* nothing left to do for broker, connection and client (Accept, Break, Restart are the
   environment's moves) *)
Definition quiescent (w : world) : Prop := forall l w', wstep w l w' -> is_progress l = false.

(* every message accepted so far went through the whole handshake and was forwarded
   exactly once; the broker holds no identifier *)
Definition complete (w : world) : Prop :=
  wC w = wR w /\ wR w = wA w /\ w_on w = true /\ w_c2b w = [] /\ w_b2c w = [] /\ w_await w = [] /\
  NoDup (w_fwd w) /\ forall x, In x (w_fwd w) <-> x < w_base w + wA w.

Lemma quiescent_mu w : quiescent w -> mu w = 0.
Proof.
  intros Hq. destruct (N.eq_dec (mu w) 0) as [E|NE]; [exact E|].
  destruct (progress_enabled w NE) as (l & w' & Hl & Hs). rewrite (Hq _ _ Hs) in Hl. discriminate.
Qed.

Lemma sum_up_zero l : sum_up l = 0 -> l = [].
Proof. destruct l as [|[] r]; cbn [sum_up wt_up]; [reflexivity|lia|lia]. Qed.
Lemma sum_down_zero l : sum_down l = 0 -> l = [].
Proof. destruct l as [|[] r]; cbn [sum_down wt_down]; [reflexivity|lia|lia]. Qed.

Lemma mu_zero w : mu w = 0 -> w_on w = true /\ w_c2b w = [] /\ w_b2c w = [].
Proof.
  unfold mu. destruct (w_on w); [|lia]. intros H. split; [reflexivity|].
  split; [apply sum_up_zero|apply sum_down_zero]; lia.
Qed.

Lemma mu_zero_quiescent w : mu w = 0 -> quiescent w.
Proof.
  intros H. destruct (mu_zero w H) as (Hon & Hc & Hb). intros l w' Hs.
  destruct Hs; try reflexivity; congruence.
Qed.

Lemma map_pk_nil b lo hi : [] = map (pk b) (wseq lo hi) -> hi <= lo.
Proof.
  intros E. apply (f_equal (@length _)) in E. rewrite map_length in E.
  pose proof (wseq_len lo hi). cbn [length] in E. lia.
Qed.

Lemma mu_zero_complete w : WInv w -> mu w = 0 -> complete w.
Proof.
  intros HI H. destruct (mu_zero w H) as (Hon & Hc & Hb).
  pose proof (wi_cnt _ HI) as Hcnt.
  pose proof (wi_recs _ HI Hon) as E1. pose proof (wi_comps _ HI Hon) as E2.
  unfold pend in E1, E2. rewrite Hc, Hb in E1, E2. cbn [map app recs comps] in E1, E2.
  apply map_pk_nil in E1, E2.
  assert (Ecr : wC w = wR w) by lia. assert (Era : wR w = wA w) by lia.
  split; [exact Ecr|]. split; [exact Era|]. split; [exact Hon|]. split; [exact Hc|]. split; [exact Hb|].
  split.
  { destruct (w_await w) as [|id r] eqn:Ea; [reflexivity|].
    destruct (wi_aw _ HI id) as (n & Hn & _); [rewrite Ea; left; reflexivity|]. lia. }
  split; [exact (wi_nodup _ HI)|].
  intros x. split; [apply (wi_acc _ HI)|]. intros Hx. apply (wi_rec _ HI). lia.
Qed.

Theorem quiescent_complete : forall w, wreach w -> quiescent w -> complete w.
Proof. intros w H Hq. apply mu_zero_complete; [apply world_inv, H|apply quiescent_mu, Hq]. Qed.

Theorem complete_exactly_once : forall w x, complete w ->
  count_occ N.eq_dec (w_fwd w) x = if x <? w_base w + wA w then 1%nat else 0%nat.
Proof.
  intros w x (_ & _ & _ & _ & _ & _ & Hnd & Hiff).
  destruct (N.ltb_spec x (w_base w + wA w)) as [Hlt|Hge].
  - apply NoDup_count_occ'; [exact Hnd|]. apply Hiff. exact Hlt.
  - apply count_occ_not_In. intros Hin. apply Hiff in Hin. lia.
Qed.

(* fault-free runs: p progress steps and a Accepts, no Break, no Restart *)
Inductive frun : world -> nat -> nat -> world -> Prop :=
| fr_nil : forall w, frun w 0 0 w
| fr_prog : forall w l w1 p a w2, is_progress l = true -> wstep w l w1 -> frun w1 p a w2 ->
    frun w (S p) a w2
| fr_acc : forall w w1 p a w2, wstep w LAccept w1 -> frun w1 p a w2 -> frun w p (S a) w2.

Lemma frun_reach w p a w' : wreach w -> frun w p a w' -> wreach w'.
Proof. intros H Hr. induction Hr; eauto using wr_step. Qed.

(* the number of progress steps of a fault-free run is determined by the measure:
   at most mu + 4 per Accept, and exactly that when the run ends quiescent *)
Theorem good_run_bound : forall w p a w', wreach w -> frun w p a w' ->
  mu w + 4 * N.of_nat a = mu w' + N.of_nat p.
Proof.
  intros w p a w' H Hr. induction Hr as [w|w l w1 p a w2 Hl Hs Hr IH|w w1 p a w2 Hs Hr IH].
  - lia.
  - pose proof (good_step_measure _ _ _ (world_inv _ H) Hs Hl). specialize (IH (wr_step _ _ _ H Hs)). lia.
  - pose proof (accept_step_measure _ _ (world_inv _ H) Hs). specialize (IH (wr_step _ _ _ H Hs)). lia.
Qed.

Theorem good_run_complete : forall w p a w', wreach w -> frun w p a w' ->
  (quiescent w' \/ N.of_nat p = mu w + 4 * N.of_nat a) -> complete w'.
Proof.
  intros w p a w' H Hr Hq. pose proof (frun_reach _ _ _ _ H Hr) as H'.
  apply mu_zero_complete; [apply world_inv, H'|].
  destruct Hq as [Hq|Hp]; [apply quiescent_mu, Hq|].
  pose proof (good_run_bound _ _ _ _ H Hr). lia.
Qed.

(* and such a run exists from every reachable state: without further faults the handshakes
   of all accepted messages finish *)
Theorem good_run_exists : forall w, wreach w ->
  exists w', frun w (N.to_nat (mu w)) 0 w' /\ complete w'.
Proof.
  intros w H. remember (N.to_nat (mu w)) as k eqn:Ek. revert w H Ek.
  induction k as [|k IH]; intros w H Ek.
  - exists w. split; [constructor|]. apply mu_zero_complete; [apply world_inv, H|lia].
  - destruct (progress_enabled w ltac:(lia)) as (l & w1 & Hl & Hs).
    pose proof (good_step_measure _ _ _ (world_inv _ H) Hs Hl) as Hm.
    destruct (IH w1 (wr_step _ _ _ H Hs) ltac:(lia)) as (w' & Hr & Hc).
    exists w'. split; [|exact Hc]. eapply fr_prog; eassumption.
Qed.

(* what has been forwarded stays forwarded; the broker forwards only when it processes a
   PUBLISH whose identifier it does not hold *)
Theorem forwarded_stable : forall w l w' x, wstep w l w' -> In x (w_fwd w) -> In x (w_fwd w').
Proof.
  intros w l w' x H Hin. destruct H; cbn [w_fwd broken]; try exact Hin.
  unfold broker_pub. destruct (memb id (w_await w)); cbn [snd]; [exact Hin|right; exact Hin].
Qed.

Theorem forwarded_only_by_publish : forall w l w', wstep w l w' -> w_fwd w' <> w_fwd w ->
  exists id x q, l = LBrokerPub /\ w_c2b w = UPub id x :: q /\ ~ In id (w_await w) /\
                 w_fwd w' = x :: w_fwd w.
Proof.
  intros w l w' H Hne. destruct H; cbn [w_fwd broken] in *; try congruence.
  unfold broker_pub in *. destruct (memb id (w_await w)) eqn:Em; cbn [snd] in *; [congruence|].
  exists id, x, q. repeat split; try assumption. rewrite <- memb_in. congruence.
Qed.

(* the connection pipeline of a reachable state, as theorems: what the client will read
   (already answered or still to be answered by the broker) is exactly one PUBREC for each of
   recvd .. acc2-1 and one PUBCOMP for each of compl .. recvd-1, each kind in order *)
Theorem pipeline_recs : forall w, wreach w -> w_on w = true ->
  recs (pend w) = map (pk (w_base w)) (wseq (wR w) (wA w)).
Proof. intros w H. apply wi_recs, world_inv, H. Qed.
Theorem pipeline_comps : forall w, wreach w -> w_on w = true ->
  comps (pend w) = map (pk (w_base w)) (wseq (wC w) (wR w)).
Proof. intros w H. apply wi_comps, world_inv, H. Qed.

(* ================================================================== *)
(* 7. Executable stepper (for concrete traces)                         *)

Inductive action := AAccept | ABroker | AClient | ABreak | AReconnect | ARestart (c' : cst).

Definition crestartb (c c' : cst) : bool :=
  (c_compl c' <=? c_recvd c') && (c_recvd c' <=? c_acc c') &&
  (c_acc c' - c_compl c' <=? c_max c') && (c_max c' <=? 16384) &&
  (c_recvd c' - c_compl c' =? c_recvd c - c_compl c) &&
  (c_acc c' - c_compl c' =? c_acc c - c_compl c) &&
  (c_compl c' <=? c_compl c) &&
  ((c_acc c <=? c_compl c) || ((c_compl c - c_compl c') mod 16384 =? 0)).

Lemma crestartb_sound c c' : crestartb c c' = true -> crestart c c'.
Proof.
  unfold crestartb, crestart. rewrite !Bool.andb_true_iff, Bool.orb_true_iff.
  rewrite !N.leb_le, !N.eqb_eq. intros H. repeat split; try tauto.
  intros Hlt. destruct H as [_ [H|H]]; [lia|exact H].
Qed.

Definition wexec (w : world) (a : action) : option world :=
  match a with
  | AAccept =>
    if wA w - wC w <? c_max (w_cl w) then
      Some (mkW (mkCst (wC w) (wR w) (wA w + 1) (c_max (w_cl w))) (w_base w) (w_on w)
                (if w_on w then w_c2b w ++ [mk_pub (w_base w) (wA w)] else w_c2b w)
                (w_b2c w) (w_await w) (w_fwd w))
    else None
  | ABroker =>
    match w_c2b w with
    | UPub id x :: q =>
      Some (mkW (w_cl w) (w_base w) (w_on w) q (w_b2c w ++ [DRec id x])
                (fst (broker_pub id x (w_await w) (w_fwd w))) (snd (broker_pub id x (w_await w) (w_fwd w))))
    | URel id x :: q =>
      Some (mkW (w_cl w) (w_base w) (w_on w) q (w_b2c w ++ [DComp id x])
                (broker_rel id (w_await w)) (w_fwd w))
    | [] => None
    end
  | AClient =>
    if w_on w then
      match w_b2c w with
      | DRec id x :: q =>
        if (id =? key2 (wR w)) && (wR w <? wA w) then
          Some (mkW (mkCst (wC w) (wR w + 1) (wA w) (c_max (w_cl w))) (w_base w) true
                    (w_c2b w ++ [mk_rel (w_base w) (wR w)]) q (w_await w) (w_fwd w))
        else Some (broken w)
      | DComp id x :: q =>
        if (id =? key2 (wC w)) && (wC w <? wR w) then
          Some (mkW (mkCst (wC w + 1) (wR w) (wA w) (c_max (w_cl w))) (w_base w) true
                    (w_c2b w) q (w_await w) (w_fwd w))
        else Some (broken w)
      | [] => None
      end
    else None
  | ABreak => Some (broken w)
  | AReconnect =>
    if w_on w then None
    else Some (mkW (w_cl w) (w_base w) true (resend_list (w_base w) (w_cl w)) [] (w_await w) (w_fwd w))
  | ARestart c' =>
    if crestartb (w_cl w) c' then
      Some (mkW c' (w_base w + wC w - c_compl c') false [] [] (w_await w) (w_fwd w))
    else None
  end.

Lemma wexec_sound w a w' : wexec w a = Some w' -> exists l, wstep w l w'.
Proof.
  destruct a; cbn [wexec].
  - destruct (N.ltb_spec (wA w - wC w) (c_max (w_cl w))) as [Hlt|]; [|discriminate].
    intros E. inversion E; subst w'. exists LAccept. destruct (w_on w) eqn:Hon.
    + apply W_accept_on; assumption.
    + apply W_accept_off; assumption.
  - destruct (w_c2b w) as [|[id x|id x] q] eqn:Hq; [discriminate| |]; intros E; inversion E; subst w'.
    + exists LBrokerPub. apply W_broker_pub. exact Hq.
    + exists LBrokerRel. apply W_broker_rel. exact Hq.
  - destruct (w_on w) eqn:Hon; [|discriminate].
    destruct (w_b2c w) as [|[id x|id x] q] eqn:Hq; [discriminate| |].
    + destruct ((id =? key2 (wR w)) && (wR w <? wA w)) eqn:Hc; intros E; inversion E; subst w'.
      * apply Bool.andb_true_iff in Hc. destruct Hc as [H1 H2]. apply N.eqb_eq in H1. apply N.ltb_lt in H2.
        exists LClientRec. eapply W_client_rec; eassumption.
      * exists LReject. eapply W_reject_rec; try eassumption. intros [H1 H2].
        apply N.eqb_eq in H1. apply N.ltb_lt in H2. rewrite H1, H2 in Hc. discriminate.
    + destruct ((id =? key2 (wC w)) && (wC w <? wR w)) eqn:Hc; intros E; inversion E; subst w'.
      * apply Bool.andb_true_iff in Hc. destruct Hc as [H1 H2]. apply N.eqb_eq in H1. apply N.ltb_lt in H2.
        exists LClientComp. eapply W_client_comp; eassumption.
      * exists LReject. eapply W_reject_comp; try eassumption. intros [H1 H2].
        apply N.eqb_eq in H1. apply N.ltb_lt in H2. rewrite H1, H2 in Hc. discriminate.
  - intros E. inversion E. exists LBreak. apply W_break.
  - destruct (w_on w) eqn:Hon; [discriminate|]. intros E. inversion E. exists LReconnect.
    apply W_reconnect. exact Hon.
  - destruct (crestartb (w_cl w) c') eqn:Hc; [|discriminate]. intros E. inversion E.
    exists LRestart. apply W_restart. apply crestartb_sound. exact Hc.
Qed.

Fixpoint wrun (w : world) (l : list action) : option world :=
  match l with
  | [] => Some w
  | a :: r => match wexec w a with Some w' => wrun w' r | None => None end
  end.

Lemma wrun_reach l : forall w w', wreach w -> wrun w l = Some w' -> wreach w'.
Proof.
  induction l as [|a r IH]; intros w w' H E; cbn [wrun] in E.
  - inversion E. subst. exact H.
  - destruct (wexec w a) as [w1|] eqn:E1; [|discriminate].
    destruct (wexec_sound _ _ _ E1) as (lb & Hs). exact (IH _ _ (wr_step _ _ _ H Hs) E).
Qed.

(* A retransmission: PUBLISH 0 reaches the broker and is forwarded, the connection breaks
   before the client reads the PUBREC, the client reconnects and sends PUBLISH 0 again; the
   broker knows the identifier, does not forward again and answers PUBREC. *)
Definition retrans_trace : list action :=
  [AReconnect; AAccept; ABroker; ABreak; AReconnect; ABroker].

Example retransmission_forwarded_once :
  exists w, wrun (winit 4) retrans_trace = Some w /\ wreach w /\
    w_fwd w = [0] /\ w_await w = [key2 0] /\ w_b2c w = [DRec (key2 0) 0] /\ w_c2b w = [] /\
    wR w = 0 /\ wA w = 1.
Proof.
  eexists. split; [vm_compute; reflexivity|]. split.
  - apply (wrun_reach retrans_trace (winit 4)); [apply wr_init; lia|vm_compute; reflexivity].
  - vm_compute. repeat split; reflexivity.
Qed.

(* ... and the rest of the handshake, a restart of the client process in the middle
   (PUBREL pending), PUBCOMP lost once: still forwarded once, everything complete *)
Definition restart_trace : list action :=
  retrans_trace ++ [AClient; ABroker; ABreak; ARestart (mkCst 0 1 1 8); AReconnect; ABroker; AClient].

Example restart_forwarded_once :
  exists w, wrun (winit 4) restart_trace = Some w /\ wreach w /\ complete w /\ w_fwd w = [0].
Proof.
  eexists. split; [vm_compute; reflexivity|]. split.
  - apply (wrun_reach restart_trace (winit 4)); [apply wr_init; lia|vm_compute; reflexivity].
  - split; [|vm_compute; reflexivity].
    unfold complete. cbn. repeat split; try reflexivity.
    + constructor; [intros []|constructor].
    + intros [<-|[]]. lia.
    + intros H. left. lia.
Qed.

(* ================================================================== *)
(* 8. The boundary of the model: the broker's session                  *)

(* [w_await] survives every step: the world has no step in which the broker forgets its
   session.  That is an assumption about the set-up, not only about the broker: a process
   restarted with Config.CleanSession = true sends its first CONNECT with the clean-session
   flag (Session.connect: clean = cfg_clean && no previous connection) and a conforming broker
   then discards the stored identifiers.  With that extra step at-most-once fails: *)
Definition session_wiped (w : world) : world :=
  mkW (w_cl w) (w_base w) (w_on w) (w_c2b w) (w_b2c w) [] (w_fwd w).

Definition clean_trace : list action :=
  [AReconnect; AAccept; ABroker; ABreak; ARestart (mkCst 0 0 1 4)].

Example clean_session_restart_duplicates :
  exists w w', wrun (winit 4) clean_trace = Some w /\
    wreach w /\
    wrun (session_wiped w) [AReconnect; ABroker] = Some w' /\ w_fwd w' = [0; 0].
Proof.
  eexists. eexists. split; [vm_compute; reflexivity|]. split.
  - apply (wrun_reach clean_trace (winit 4)); [apply wr_init; lia|vm_compute; reflexivity].
  - split; vm_compute; reflexivity.
Qed.
