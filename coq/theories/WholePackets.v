(* C08 on the session model: a connection carries whole packets only, for all histories.

   WriteLoopProofs.v shows that one run of a write loop leaves a prefix of its argument on
   the connection, the whole argument on success.  C08Check.v judges recorded traces.  This
   file proves the statement about Session.v itself (map mode: w_store = Some m).

   1. framing      one_packet (Spec.parse_packet consumes the string exactly), whole, partial,
                   framed; framed_tail_incomplete: Trace.packets_of cuts a framed stream into
                   its packets and leaves an incomplete tail (what C08Check.conn_whole tests)
   2. ghost        the log records the bytes OFFERED to conn.Write; what the connection
                   ACCEPTED is determined by the log and the write tape consumed along it:
                   wchunks/wtape (the model-side counterpart of Trace.accepted_of over
                   SessionCheck.tapes_of), wire; write_to_ghost, write_buffers_to_ghost
   3. triples      wrel, hoare (store + ghost pre/postconditions over the world monad), quiet
   4. call sites   L-A: what Session.v hands to conn_write is one packet (or nothing):
                   sendable_publish, persisted_packet, sendable_subscribe, one_packet_puback /
                   pubrec / pubrel / pubcomp, one_packet_pingreq / disconnect, sendable_connect;
                   resend sends a stored record (store_ok: resendable)
   5. invariant    InvP / Inv / ConnLogInv and its preservation by every function of Session.v
                   (conn_write_i ... step_i).  Parameter su: the connection under set-up inside
                   connect; parameter fz: a dead connection claimed frozen (L-B)
   6. theorems     step_conn_log_inv, step_writes_framed (L-A on the log of one step),
                   locked_write_error_gives_up, step_dead_frozen, step_writes_only_live,
                   step_nconn_mono (L-B), run_conn_log_inv, run_conn_framed (L-C),
                   c08_conn_whole_model (the boolean checker on the model's own trace)
   7. examples     wp_short_write_history; forged_record_is_resent, hostile_store_is_resent,
                   sub_level3_not_a_packet (why store_ok, map mode and op_ok are assumed) *)
From Coq Require Import ZArith Lia List Bool.
From RecordUpdate Require Import RecordUpdate.
From MQ Require Import Outbound OutboundRefine WriteLoopProofs ConnectProofs PacketsProofs
  RequestsProofs RecordProofs Spec Trace C08Check TxIds.
Import ListNotations.
Local Open Scope N_scope.

#[local] Arguments N.div : simpl never.
#[local] Arguments N.modulo : simpl never.
#[local] Arguments N.mul : simpl never.
#[local] Arguments N.add : simpl never.
#[local] Arguments N.sub : simpl never.
#[local] Arguments N.ltb : simpl never.
#[local] Arguments N.leb : simpl never.
#[local] Arguments N.eqb : simpl never.
#[local] Arguments N.lor : simpl never.
#[local] Arguments N.land : simpl never.
#[local] Arguments N.testbit : simpl never.
#[local] Arguments N.to_nat : simpl never.
#[local] Arguments N.of_nat : simpl never.

(* ================================================================== *)
(* 1. Framing                                                          *)

(* the byte string is exactly one packet of the independent parser *)
Definition one_packet (bs : list N) : Prop := exists pk, parse_packet bs = Some (pk, []).

(* complete packets, back to back *)
Definition whole (s : list N) : Prop := exists pks, s = concat pks /\ Forall one_packet pks.
(* a prefix of one packet (possibly empty, possibly all of it) *)
Definition partial (t : list N) : Prop := exists pk k, one_packet pk /\ t = firstn k pk.
(* complete packets followed by a prefix of one more *)
Definition framed (s : list N) : Prop := exists s0 t, s = s0 ++ t /\ whole s0 /\ partial t.

(* what a write call site may hand to the connection: one packet, or nothing at all *)
Definition sendable (p : list N) : Prop := p = [] \/ one_packet p.

Lemma one_packet_pingreq : one_packet packet_pingreq.
Proof. exists PPingreq. reflexivity. Qed.

Lemma whole_nil : whole [].
Proof. exists []. split; [reflexivity|constructor]. Qed.

Lemma whole_app a b : whole a -> whole b -> whole (a ++ b).
Proof.
  intros (pa & -> & Fa) (pb & -> & Fb). exists (pa ++ pb).
  split; [symmetry; apply concat_app|apply Forall_app; auto].
Qed.

Lemma whole_one p : one_packet p -> whole p.
Proof. intros H. exists [p]. split; [cbn; now rewrite app_nil_r|constructor; [exact H|constructor]]. Qed.

Lemma whole_sendable s p : whole s -> sendable p -> whole (s ++ p).
Proof.
  intros Hs [->|Hp]; [now rewrite app_nil_r|]. apply whole_app; [exact Hs|apply whole_one, Hp].
Qed.

Lemma partial_nil : partial [].
Proof. exists packet_pingreq, 0%nat. split; [apply one_packet_pingreq|reflexivity]. Qed.

Lemma whole_framed s : whole s -> framed s.
Proof. intros H. exists s, []. split; [now rewrite app_nil_r|]. split; [exact H|apply partial_nil]. Qed.

Lemma framed_prefix s p k : whole s -> sendable p -> framed (s ++ firstn k p).
Proof.
  intros Hs [->|Hp].
  - rewrite firstn_nil, app_nil_r. apply whole_framed, Hs.
  - exists s, (firstn k p). split; [reflexivity|]. split; [exact Hs|]. exists p, k. auto.
Qed.

(* --- the remaining-length field is prefix-stable --- *)

Lemma take_remlen_app l n r rest :
  take_remlen l = Some (n, r) -> take_remlen (l ++ rest) = Some (n, r ++ rest).
Proof.
  unfold take_remlen.
  destruct l as [|a l]; [discriminate|]. cbn [app]. destruct (a <? 128); [intros E; inversion E; reflexivity|].
  destruct l as [|b l]; [discriminate|]. cbn [app]. destruct (b <? 128); [intros E; inversion E; reflexivity|].
  destruct l as [|c l]; [discriminate|]. cbn [app]. destruct (c <? 128); [intros E; inversion E; reflexivity|].
  destruct l as [|d l]; [discriminate|]. cbn [app]. destruct (d <? 128); [intros E; inversion E; reflexivity|].
  discriminate.
Qed.

(* a prefix of a well-formed length field: either too short to tell (continuation bytes
   only, fewer than four), or already the same length *)
Lemma take_remlen_prefix l1 l2 n r :
  take_remlen (l1 ++ l2) = Some (n, r) ->
  (take_remlen l1 = None /\ (length l1 < 4)%nat /\ forallb (fun b => 128 <=? b) l1 = true)
  \/ (exists r1, take_remlen l1 = Some (n, r1) /\ r = r1 ++ l2).
Proof.
  assert (G : forall x, (x <? 128) = false -> (128 <=? x) = true).
  { intros x H. apply N.ltb_ge in H. now apply N.leb_le. }
  unfold take_remlen.
  destruct l1 as [|a l1]; [intros _; left; repeat split; cbn; lia|]. cbn [app].
  destruct (a <? 128) eqn:Ea; [intros E; inversion E; right; eauto|].
  destruct l1 as [|b l1]; [intros _; left; cbn; rewrite (G _ Ea); repeat split; lia|]. cbn [app].
  destruct (b <? 128) eqn:Eb; [intros E; inversion E; right; eauto|].
  destruct l1 as [|c l1]; [intros _; left; cbn; rewrite (G _ Ea), (G _ Eb); repeat split; lia|]. cbn [app].
  destruct (c <? 128) eqn:Ec; [intros E; inversion E; right; eauto|].
  destruct l1 as [|d l1]; [intros _; left; cbn; rewrite (G _ Ea), (G _ Eb), (G _ Ec); repeat split; lia|].
  cbn [app].
  destruct (d <? 128) eqn:Ed; [intros E; inversion E; right; eauto|discriminate].
Qed.

Lemma split_at_all n l body : split_at n l = Some (body, []) -> body = l /\ length l = N.to_nat n.
Proof.
  unfold split_at. destruct (Nat.leb_spec (N.to_nat n) (length l)) as [L|L]; [|discriminate].
  intros E. inversion E as [[E1 E2]].
  assert (length (skipn (N.to_nat n) l) = 0%nat) as Z by (rewrite E2; reflexivity).
  rewrite skipn_length in Z. assert (N.to_nat n = length l) as Q by lia.
  rewrite Q, firstn_all. auto.
Qed.

Lemma split_at_exact_app l rest : split_at (N.of_nat (length l)) (l ++ rest) = Some (l, rest).
Proof. apply (split_at_app l rest). Qed.

(* one packet followed by anything: the parser takes exactly the packet *)
Lemma parse_packet_app bs pk rest :
  parse_packet bs = Some (pk, []) -> parse_packet (bs ++ rest) = Some (pk, rest).
Proof.
  unfold parse_packet. destruct bs as [|h r]; [discriminate|]. cbn [app].
  destruct (take_remlen r) as [[n r']|] eqn:T; [|discriminate].
  rewrite (take_remlen_app _ _ _ rest T).
  destruct (split_at n r') as [[body rest']|] eqn:S; [|discriminate].
  destruct (parse_body (h / 16) (h mod 16) body) as [q|] eqn:B; [|discriminate].
  intros E. inversion E; subst q rest'. apply split_at_all in S. destruct S as [-> L].
  assert (n = N.of_nat (length r')) as -> by lia.
  rewrite split_at_exact_app, B. reflexivity.
Qed.

Lemma one_packet_nonempty p : one_packet p -> p <> [].
Proof. intros [pk H] ->. discriminate. Qed.

(* a proper prefix of a packet is not a packet, and looks like an incomplete one *)
Lemma proper_prefix_incomplete pk k :
  one_packet pk -> (k < length pk)%nat ->
  parse_packet (firstn k pk) = None /\ incomplete_tail (firstn k pk) = true.
Proof.
  intros [p H] Hk. unfold parse_packet in H. destruct pk as [|h r]; [discriminate|].
  destruct (take_remlen r) as [[n r']|] eqn:T; [|discriminate].
  destruct (split_at n r') as [[body rest']|] eqn:S; [|discriminate].
  destruct (parse_body (h / 16) (h mod 16) body) as [q|]; [|discriminate].
  inversion H; subst q rest'. apply split_at_all in S. destruct S as [-> L].
  destruct k as [|k]; [split; reflexivity|]. cbn [firstn length] in *.
  assert (Hk' : (k < length r)%nat) by lia.
  rewrite <- (firstn_skipn k r) in T.
  assert (Hne : (0 < length (skipn k r))%nat) by (rewrite skipn_length; lia).
  destruct (take_remlen_prefix _ _ _ _ T) as [(T1 & L1 & F1)|(r1 & T1 & E1)].
  - unfold parse_packet, incomplete_tail. rewrite T1. split; [reflexivity|].
    rewrite F1, andb_true_r. apply Nat.ltb_lt. exact L1.
  - unfold parse_packet, incomplete_tail. rewrite T1.
    assert (Hl : (length r1 < N.to_nat n)%nat).
    { rewrite <- L, E1, app_length. lia. }
    unfold split_at. destruct (Nat.leb_spec (N.to_nat n) (length r1)) as [X|X]; [lia|].
    split; [reflexivity|]. apply N.ltb_lt. lia.
Qed.

Lemma partial_cases t : partial t -> one_packet t \/
  (parse_packet t = None /\ incomplete_tail t = true).
Proof.
  intros (pk & k & Hp & ->). destruct (Nat.lt_ge_cases k (length pk)) as [L|L].
  - right. apply proper_prefix_incomplete; assumption.
  - left. rewrite firstn_all2 by exact L. exact Hp.
Qed.

(* a partial tail that is itself a packet belongs to the whole part *)
Lemma framed_split s : framed s ->
  exists s0 t, s = s0 ++ t /\ whole s0 /\ parse_packet t = None /\ incomplete_tail t = true.
Proof.
  intros (s0 & t & -> & Hw & Hp). destruct (partial_cases _ Hp) as [H1|[H1 H2]].
  - exists (s0 ++ t), []. rewrite app_nil_r. split; [reflexivity|].
    split; [apply whole_app; [exact Hw|apply whole_one, H1]|]. split; reflexivity.
  - exists s0, t. auto.
Qed.

Lemma parse_stream_whole pks : forall fuel tail,
  Forall one_packet pks -> parse_packet tail = None -> (length pks < fuel)%nat ->
  snd (parse_stream fuel (concat pks ++ tail)) = tail.
Proof.
  induction pks as [|pk pks IH]; intros fuel tail F Ht Hf.
  - destruct fuel as [|f]; [lia|]. cbn [concat app parse_stream]. rewrite Ht. reflexivity.
  - destruct fuel as [|f]; [cbn in Hf; lia|]. inversion F as [|? ? [p Hp] F']; subst.
    cbn [concat parse_stream]. rewrite <- app_assoc. rewrite (parse_packet_app _ _ _ Hp).
    specialize (IH f tail F' Ht ltac:(cbn in Hf; lia)).
    destruct (parse_stream f (concat pks ++ tail)) as [ps tl]. exact IH.
Qed.

Lemma concat_length_ge pks : Forall one_packet pks -> (length pks <= length (concat pks))%nat.
Proof.
  induction 1 as [|pk pks Hp F IH]; [cbn; lia|]. cbn [concat length]. rewrite app_length.
  apply one_packet_nonempty in Hp. destruct pk; [congruence|]. cbn [length]. lia.
Qed.

(* the checker's predicate holds of every framed stream *)
Theorem framed_tail_incomplete s : framed s ->
  (let '(_, tail) := packets_of s in incomplete_tail tail) = true.
Proof.
  intros H. apply framed_split in H. destruct H as (s0 & t & -> & (pks & -> & F) & Hn & Hi).
  unfold packets_of.
  pose proof (parse_stream_whole pks (S (length (concat pks ++ t))) t F Hn) as P.
  assert (L : (length pks < S (length (concat pks ++ t)))%nat).
  { rewrite app_length. pose proof (concat_length_ge pks F). lia. }
  specialize (P L). destruct (parse_stream _ _) as [ps tl]. cbn [snd] in P. subst tl. exact Hi.
Qed.

(* ================================================================== *)
(* 2. What the connections accepted: a ghost of log and write tape     *)

(* (connection, bytes it accepted in one conn.Write), oldest first *)
Definition delta := list (N * list N).

(* Trace.accepted_of for a scripted answer *)
Definition wacc (a : wanswer) (bs : list N) : list N :=
  match snd a with WOk => bs | _ => firstn (N.to_nat (fst a)) bs end.

(* replay of the calls [tr] (oldest first) against the write tape: every conn.Write with
   a non-empty argument consumes one answer (Session.conn_write, SessionCheck.tapes_of) *)
Fixpoint wchunks (tape : list wanswer) (tr : list req) : delta :=
  match tr with
  | [] => []
  | QWrite c [] :: r => wchunks tape r
  | QWrite c bs :: r => match tape with
                        | [] => []
                        | a :: t => (c, wacc a bs) :: wchunks t r
                        end
  | _ :: r => wchunks tape r
  end.
Fixpoint wtape (tape : list wanswer) (tr : list req) : list wanswer :=
  match tr with
  | [] => tape
  | QWrite c [] :: r => wtape tape r
  | QWrite c bs :: r => match tape with [] => [] | a :: t => wtape t r end
  | _ :: r => wtape tape r
  end.

(* everything connection cn accepted *)
Definition wire (G : delta) (cn : N) : list N :=
  flat_map (fun ch => if fst ch =? cn then snd ch else []) G.

Lemma wire_app G1 G2 cn : wire (G1 ++ G2) cn = wire G1 cn ++ wire G2 cn.
Proof. apply flat_map_app. Qed.

(* the conn.Write calls (with a non-empty argument) made on connection cn *)
Definition chunks_on (G : delta) (cn : N) : delta := filter (fun ch => fst ch =? cn) G.

Lemma chunks_on_app G1 G2 cn : chunks_on (G1 ++ G2) cn = chunks_on G1 cn ++ chunks_on G2 cn.
Proof. apply filter_app. Qed.

Lemma wire_chunks_on G cn : wire G cn = flat_map snd (chunks_on G cn).
Proof.
  induction G as [|ch G IH]; [reflexivity|]. cbn [wire chunks_on flat_map filter].
  fold (wire G cn). fold (chunks_on G cn). rewrite IH.
  destruct (fst ch =? cn); reflexivity.
Qed.

Lemma wchunks_nil_tape tr : wchunks [] tr = [].
Proof. induction tr as [|q r IH]; [reflexivity|]. destruct q; cbn [wchunks]; auto. destruct bs; auto. Qed.
Lemma wtape_nil_tape tr : wtape [] tr = [].
Proof. induction tr as [|q r IH]; [reflexivity|]. destruct q; cbn [wtape]; auto. destruct bs; auto. Qed.

Lemma wchunks_app t1 t2 : forall tape,
  wchunks tape (t1 ++ t2) = wchunks tape t1 ++ wchunks (wtape tape t1) t2.
Proof.
  induction t1 as [|q r IH]; intros tape; [reflexivity|]. cbn [app].
  destruct q; cbn [wchunks wtape]; auto.
  destruct bs as [|b bs]; auto. destruct tape as [|a t].
  - now rewrite wchunks_nil_tape.
  - cbn [app]. now rewrite IH.
Qed.
Lemma wtape_app t1 t2 : forall tape, wtape tape (t1 ++ t2) = wtape (wtape tape t1) t2.
Proof.
  induction t1 as [|q r IH]; intros tape; [reflexivity|]. cbn [app].
  destruct q; cbn [wtape]; auto.
  destruct bs as [|b bs]; auto. destruct tape as [|a t]; auto. now rewrite wtape_nil_tape.
Qed.

Definition no_write (q : req) : Prop := match q with QWrite _ _ => False | _ => True end.

Lemma wchunks_no_write tr : Forall no_write tr -> forall tape, wchunks tape tr = [].
Proof. induction 1 as [|q r Hq F IH]; intros tape; [reflexivity|]. destruct q; cbn [wchunks]; auto. destruct Hq. Qed.
Lemma wtape_no_write tr : Forall no_write tr -> forall tape, wtape tape tr = tape.
Proof. induction 1 as [|q r Hq F IH]; intros tape; [reflexivity|]. destruct q; cbn [wtape]; auto. destruct Hq. Qed.

(* the calls of one write loop on connection cn, as logged *)
Definition calls_tr (cn : N) (cs : list wcall) : list req := map (fun cl : wcall => QWrite cn (fst cl)) cs.

(* all chunks are on connection cn and add up to bs *)
Definition only_on (cn : N) (bs : list N) (d : delta) : Prop :=
  Forall (fun ch => fst ch = cn) d /\ flat_map snd d = bs.

Lemma only_on_wire cn bs d cn' : only_on cn bs d -> wire d cn' = if cn' =? cn then bs else [].
Proof.
  intros [F <-]. induction F as [|ch d Hc F IH]; cbn [wire flat_map].
  - destruct (cn' =? cn); reflexivity.
  - fold (wire d cn'). rewrite IH, Hc. rewrite (N.eqb_sym cn cn').
    destruct (cn' =? cn); [reflexivity|]. reflexivity.
Qed.

Lemma only_on_chunks_other cn bs d cn' : only_on cn bs d -> cn' <> cn -> chunks_on d cn' = [].
Proof.
  intros [F _] Ne. induction F as [|ch d Hc F IH]; [reflexivity|]. cbn [chunks_on filter].
  rewrite Hc. apply N.eqb_neq in Ne. rewrite (N.eqb_sym cn cn'), Ne. exact IH.
Qed.

Lemma firstn_min_len (n0 : N) (p : list N) :
  firstn (N.to_nat (N.min n0 (len p))) p = firstn (N.to_nat n0) p.
Proof.
  unfold len. destruct (N.le_ge_cases n0 (N.of_nat (length p))) as [L|L].
  - now rewrite N.min_l.
  - rewrite N.min_r by exact L. rewrite Nat2N.id, firstn_all, firstn_all2 by lia. reflexivity.
Qed.

(* the call with a non-empty argument and answer a accepted what the ghost says *)
Lemma write_to_ghost cn fuel : forall p tape cs r t,
  write_to fuel p tape = (cs, r, t) -> r <> WNoTape ->
  wtape tape (calls_tr cn cs) = t /\ only_on cn (accepted_all cs) (wchunks tape (calls_tr cn cs)).
Proof.
  induction fuel as [|f IH]; intros p tape cs r t H Hr; cbn [write_to] in H.
  - inversion H; subst. congruence.
  - destruct p as [|x p'].
    + inversion H; subst. cbn. split; [reflexivity|]. split; [constructor|reflexivity].
    + remember (x :: p') as p eqn:Ep.
      destruct tape as [|[n0 a] tp]; [inversion H; subst; congruence|].
      assert (One : forall n, firstn (N.to_nat n) p = wacc (n0, a) p ->
                wtape ((n0, a) :: tp) (calls_tr cn [(p, n)]) = tp /\
                only_on cn (accepted_all [(p, n)]) (wchunks ((n0, a) :: tp) (calls_tr cn [(p, n)]))).
      { intros n E. subst p. cbn [calls_tr map fst wtape wchunks]. split; [reflexivity|].
        split; [repeat constructor|]. cbn [flat_map snd]. rewrite accepted_single, app_nil_r. now rewrite E. }
      destruct a.
      * inversion H; subst cs r t. apply One. unfold wacc. cbn [snd]. rewrite len_nat. apply firstn_all.
      * destruct (N.eqb_spec (N.min n0 (len p)) 0) as [Z|Z].
        -- inversion H; subst cs r t. apply One. unfold wacc. cbn [snd fst].
           rewrite <- (firstn_min_len n0 p), Z. reflexivity.
        -- destruct (write_to f (skipn (N.to_nat (N.min n0 (len p))) p) tp) as [[cs' r'] t'] eqn:E.
           inversion H; subst cs r t. destruct (IH _ _ _ _ _ E Hr) as [T [F A]].
           subst p. cbn [calls_tr map fst wtape wchunks]. fold (calls_tr cn cs'). split; [exact T|].
           split; [constructor; [reflexivity|exact F]|].
           cbn [flat_map snd]. rewrite A, accepted_all_cons, accepted_pair. f_equal.
           unfold wacc. cbn [snd fst]. symmetry. apply firstn_min_len.
      * inversion H; subst cs r t. apply One. unfold wacc. cbn [snd fst]. apply firstn_min_len.
      * inversion H; subst cs r t. apply One. unfold wacc. cbn [snd fst]. apply firstn_min_len.
      * inversion H; subst. congruence.
Qed.

Lemma buffers_write_ghost cn bs : forall tape cs n r t,
  buffers_write bs tape = (cs, n, r, t) -> r <> WNoTape ->
  wtape tape (calls_tr cn cs) = t /\ only_on cn (accepted_all cs) (wchunks tape (calls_tr cn cs)).
Proof.
  induction bs as [|b bs IH]; intros tape cs n r t H Hr; cbn [buffers_write] in H.
  - inversion H; subst. cbn. split; [reflexivity|]. split; [constructor|reflexivity].
  - destruct b as [|x b'].
    + destruct (buffers_write bs tape) as [[[cs' n'] r'] t'] eqn:E. inversion H; subst.
      destruct (IH _ _ _ _ _ E Hr) as [T [F A]].
      cbn [calls_tr map fst wtape wchunks]. fold (calls_tr cn cs'). split; [exact T|].
      split; [exact F|]. rewrite A, accepted_all_cons, accepted_pair. reflexivity.
    + cbv beta iota in H. remember (x :: b') as b eqn:Eb.
      destruct tape as [|[n0 a] tp]; [inversion H; subst; congruence|].
      assert (One : forall n, firstn (N.to_nat n) b = wacc (n0, a) b ->
                wtape ((n0, a) :: tp) (calls_tr cn [(b, n)]) = tp /\
                only_on cn (accepted_all [(b, n)]) (wchunks ((n0, a) :: tp) (calls_tr cn [(b, n)]))).
      { intros k E. subst b. cbn [calls_tr map fst wtape wchunks]. split; [reflexivity|].
        split; [repeat constructor|]. cbn [flat_map snd]. rewrite accepted_single, app_nil_r. now rewrite E. }
      destruct a; cbv zeta in H;
        [|inversion H; subst cs n r t; apply One; unfold wacc; cbn [snd fst]; apply firstn_min_len..].
      * destruct (buffers_write bs tp) as [[[cs' n'] r'] t'] eqn:E. inversion H; subst cs n r t.
        destruct (IH _ _ _ _ _ E Hr) as [T [F A]].
        subst b. cbn [calls_tr map fst wtape wchunks]. fold (calls_tr cn cs'). split; [exact T|].
        split; [constructor; [reflexivity|exact F]|].
        cbn [flat_map snd]. rewrite A, accepted_all_cons, accepted_pair. f_equal.
        unfold wacc. cbn [snd]. rewrite len_nat. symmetry. apply firstn_all.
Qed.

Lemma calls_tr_app cn a b : calls_tr cn (a ++ b) = calls_tr cn a ++ calls_tr cn b.
Proof. apply map_app. Qed.

Lemma only_on_app cn a b da db : only_on cn a da -> only_on cn b db -> only_on cn (a ++ b) (da ++ db).
Proof. intros [F1 <-] [F2 <-]. split; [apply Forall_app; auto|apply flat_map_app]. Qed.

Lemma write_buffers_to_ghost cn fuel : forall bs tape cs r t,
  write_buffers_to fuel bs tape = (cs, r, t) -> r <> WNoTape ->
  wtape tape (calls_tr cn cs) = t /\ only_on cn (accepted_all cs) (wchunks tape (calls_tr cn cs)).
Proof.
  induction fuel as [|f IH]; intros bs tape cs r t H Hr; cbn [write_buffers_to] in H.
  - inversion H; subst. congruence.
  - destruct (buffers_write bs tape) as [[[cs0 n] r0] t0] eqn:E.
    assert (Direct : (cs0, r0, t0) = (cs, r, t) ->
              wtape tape (calls_tr cn cs) = t /\ only_on cn (accepted_all cs) (wchunks tape (calls_tr cn cs))).
    { intros Q. inversion Q; subst. eapply buffers_write_ghost; eassumption. }
    destruct r0; try (apply Direct; exact H).
    destruct (n =? 0); [apply Direct; exact H|].
    destruct (write_buffers_to f (consume bs n) t0) as [[cs' r'] t'] eqn:E2.
    inversion H; subst cs r t.
    destruct (buffers_write_ghost cn _ _ _ _ _ _ E ltac:(discriminate)) as [T0 O0].
    destruct (IH _ _ _ _ _ E2 Hr) as [T1 O1].
    rewrite calls_tr_app, wtape_app, wchunks_app, T0, accepted_all_app. split; [exact T1|].
    apply only_on_app; assumption.
Qed.

(* ================================================================== *)
(* 3. Triples over the world monad: store and ghost                    *)

(* from w to w': the log grew by some calls, the write tape was consumed exactly along
   them, and d is what the connections accepted *)
Definition wrel (w w' : world) (d : delta) : Prop :=
  exists tr, grows w w' tr /\ t_wr w' = wtape (t_wr w) tr /\ d = wchunks (t_wr w) tr.

Lemma wrel_refl w : wrel w w [].
Proof. exists []. split; [apply grows_refl|]. split; reflexivity. Qed.

Lemma wrel_trans w w1 w2 d1 d2 : wrel w w1 d1 -> wrel w1 w2 d2 -> wrel w w2 (d1 ++ d2).
Proof.
  intros (t1 & G1 & T1 & ->) (t2 & G2 & T2 & ->). exists (t1 ++ t2).
  split; [eapply grows_trans; eassumption|]. rewrite wtape_app, wchunks_app, <- T1. auto.
Qed.

Lemma wrel_quiet w w' tr : grows w w' tr -> Forall no_write tr -> t_wr w' = t_wr w -> wrel w w' [].
Proof.
  intros G F T. exists tr. split; [exact G|].
  rewrite (wtape_no_write _ F), (wchunks_no_write _ F). auto.
Qed.

(* map mode; P and Q speak about the Persistence content and about everything the
   connections accepted so far (the ghost G of the caller, extended by this run) *)
Definition hoare {A} (P : store -> delta -> Prop) (f : M A) (Q : A -> store -> delta -> Prop) : Prop :=
  forall w a w' m G, w_store w = Some m -> P m G -> f w = Some (a, w') ->
    exists m' d, w_store w' = Some m' /\ wrel w w' d /\ Q a m' (G ++ d).

Lemma hoare_ret {A} (a : A) (P : store -> delta -> Prop) (Q : A -> store -> delta -> Prop) :
  (forall m G, P m G -> Q a m G) -> hoare P (ret a) Q.
Proof.
  intros H w b w' m G Hm HP E. apply ret_inv in E as [-> ->].
  exists m, []. rewrite app_nil_r. split; [exact Hm|]. split; [apply wrel_refl|auto].
Qed.

Lemma hoare_fail {A} (P : store -> delta -> Prop) (Q : A -> store -> delta -> Prop) : hoare P fail_tape Q.
Proof. intros w b w' m G _ _ E. discriminate. Qed.

Lemma hoare_bind {A B} (P : store -> delta -> Prop) (f : M A) (k : A -> M B) (R : A -> store -> delta -> Prop) (Q : B -> store -> delta -> Prop) :
  hoare P f R -> (forall a, hoare (R a) (k a) Q) -> hoare P (bind f k) Q.
Proof.
  intros Hf Hk w b w' m G Hm HP E. apply bind_inv in E as (a & w1 & E1 & E2).
  destruct (Hf _ _ _ _ _ Hm HP E1) as (m1 & d1 & Hm1 & W1 & HR).
  destruct (Hk a _ _ _ _ _ Hm1 HR E2) as (m2 & d2 & Hm2 & W2 & HQ).
  exists m2, (d1 ++ d2). split; [exact Hm2|]. split; [eapply wrel_trans; eassumption|].
  rewrite app_assoc. exact HQ.
Qed.

Lemma hoare_conseq {A} (P P' : store -> delta -> Prop) (f : M A) (Q Q' : A -> store -> delta -> Prop) :
  hoare P f Q -> (forall m G, P' m G -> P m G) -> (forall a m G, Q a m G -> Q' a m G) -> hoare P' f Q'.
Proof.
  intros Hf H1 H2 w a w' m G Hm HP E.
  destruct (Hf _ _ _ _ _ Hm (H1 _ _ HP) E) as (m' & d & A1 & A2 & A3). eauto 6.
Qed.

Lemma hoare_post {A} (P : store -> delta -> Prop) (f : M A) (Q Q' : A -> store -> delta -> Prop) :
  hoare P f Q -> (forall a m G, Q a m G -> Q' a m G) -> hoare P f Q'.
Proof. intros Hf H. eapply hoare_conseq; [exact Hf|auto|exact H]. Qed.

Lemma hoare_pre {A} (P P' : store -> delta -> Prop) (f : M A) (Q : A -> store -> delta -> Prop) :
  (forall m G, P' m G -> P m G) -> hoare P f Q -> hoare P' f Q.
Proof. intros H Hf. eapply hoare_conseq; [exact Hf|exact H|auto]. Qed.

Lemma hoare_world {A X} (g : world -> X) (f : X -> M A) (P : store -> delta -> Prop) (Q : A -> store -> delta -> Prop) :
  (forall n, hoare P (f n) Q) -> hoare P (fun w => f (g w) w) Q.
Proof. intros H w a w' m G Hm HP E. exact (H _ _ _ _ _ _ Hm HP E). Qed.

(* a fact that follows from the precondition may be used to choose the proof *)
Lemma hoare_pure {A} (X : Prop) (P : store -> delta -> Prop) (f : M A) (Q : A -> store -> delta -> Prop) :
  (forall m G, P m G -> X) -> (X -> hoare P f Q) -> hoare P f Q.
Proof. intros H1 H2 w a w' m G Hm HP E. exact (H2 (H1 _ _ HP) _ _ _ _ _ Hm HP E). Qed.

(* computations that do not write to a connection: T relates the store before, the
   result and the store after *)
Definition quiet {A} (f : M A) (T : store -> A -> store -> Prop) : Prop :=
  forall w a w' m, w_store w = Some m -> f w = Some (a, w') ->
    exists tr m', grows w w' tr /\ Forall no_write tr /\ t_wr w' = t_wr w /\
                  w_store w' = Some m' /\ T m a m'.

Lemma hoare_quiet {A} (f : M A) (T : store -> A -> store -> Prop) (P : store -> delta -> Prop) :
  quiet f T -> hoare P f (fun a m' G => exists m, P m G /\ T m a m').
Proof.
  intros H w a w' m G Hm HP E. destruct (H _ _ _ _ Hm E) as (tr & m' & A1 & A2 & A3 & A4 & A5).
  exists m', []. rewrite app_nil_r. split; [exact A4|]. split; [eapply wrel_quiet; eassumption|eauto].
Qed.

Definition store_req (q : req) : Prop :=
  match q with QList | QLoad _ | QSave _ _ | QDelete _ => True | _ => False end.

Lemma store_req_no_write q : store_req q -> no_write q.
Proof. destruct q; cbn; auto. Qed.

Definition ask_rel (q : req) (m : store) (a : sans) (m' : store) : Prop :=
  match a with
  | SFail => m' = m
  | SKeys ks => q = QList /\ ks = map fst m /\ m' = m
  | SVal v => exists k, q = QLoad k /\ v = store_get m k /\ m' = m
  | SDone => (exists k v, q = QSave k v /\ m' = store_put m k v)
             \/ (exists k, q = QDelete k /\ m' = store_del m k)
  end.

Ltac quiet_done :=
  cbn; repeat split; try reflexivity; try (repeat constructor; assumption); eauto.

Lemma ask_store_quiet q : store_req q -> quiet (ask_store q) (ask_rel q).
Proof.
  intros Hq w a w' m Hm E. unfold ask_store in E. rewrite Hm in E.
  apply store_req_no_write in Hq.
  destruct (t_stf w) as [|[|] t]; [discriminate| |].
  - inversion E; subst. exists [q], m. quiet_done.
  - destruct q; inversion E; subst; cbn.
    + exists [QList], m. quiet_done.
    + exists [QLoad k], m. quiet_done.
    + exists [QSave k v], (store_put m k v). quiet_done.
    + exists [QDelete k], (store_del m k). quiet_done.
Qed.

Lemma ask_dial_quiet : quiet ask_dial (fun m _ m' => m' = m).
Proof.
  intros w a w' m Hm E. unfold ask_dial in E. destruct (t_dial w); inversion E; subst.
  exists [QDial], m. quiet_done.
Qed.

Lemma tell_quiet q : no_write q -> quiet (tell q) (fun m _ m' => m' = m).
Proof.
  intros Hq w a w' m Hm E. inversion E; subst. exists [q], m. quiet_done.
Qed.

Lemma with_reader_quiet {A} c (f : rst -> A * rst) :
  quiet (with_reader c f) (fun m p m' => m' = m /\ exists s, fst p = rst_back c s).
Proof.
  intros w p w' m Hm E. unfold with_reader in E. destruct (f (rst_of c w)) as [a s] eqn:F.
  inversion E; subst. clear E.
  exists (rev (map (fun l : bool * N => QRead (conn_of c) (fst l) (snd l)) (rlog s))), m.
  split; [unfold grows; rewrite rev_involutive; reflexivity|]. split.
  { apply Forall_rev. apply Forall_forall. intros q Hq. apply in_map_iff in Hq as (l & <- & _). exact I. }
  cbn. repeat split; eauto.
Qed.

Lemma hoare_tell q (P : store -> delta -> Prop) : no_write q -> hoare P (tell q) (fun _ => P).
Proof.
  intros Hq. eapply hoare_post; [apply hoare_quiet, tell_quiet, Hq|].
  intros _ m G (m0 & HP & ->). exact HP.
Qed.

Lemma hoare_ask_dial (P : store -> delta -> Prop) : hoare P ask_dial (fun _ => P).
Proof.
  eapply hoare_post; [apply hoare_quiet, ask_dial_quiet|]. intros _ m G (m0 & HP & ->). exact HP.
Qed.

(* one write loop on connection cn: the ghost grows by chunks on cn that add up to a
   prefix of the argument, to all of it on success *)
Lemma conn_write_hoare cn bufs single (P : store -> delta -> Prop) :
  hoare P (conn_write cn bufs single) (fun r m G' =>
    r <> WNoTape /\ exists G acc d, G' = G ++ d /\ P m G /\ only_on cn acc d /\
      (exists k, acc = firstn k (concat bufs)) /\ (r = WOk -> acc = concat bufs)).
Proof.
  intros w r w' m G Hm HP E. unfold conn_write in E.
  destruct (if single then _ else _) as [[calls r0] t'] eqn:W.
  assert (Hr0 : r0 <> WNoTape) by (intros ->; discriminate).
  assert (Pf : (exists k, accepted_all calls = firstn k (concat bufs))
               /\ (r0 = WOk -> accepted_all calls = concat bufs)).
  { destruct single; [eapply write_to_prefix|eapply write_buffers_to_prefix]; exact W. }
  assert (Gh : wtape (t_wr w) (calls_tr cn calls) = t' /\
               only_on cn (accepted_all calls) (wchunks (t_wr w) (calls_tr cn calls))).
  { destruct single; [eapply write_to_ghost|eapply write_buffers_to_ghost]; eassumption. }
  destruct Gh as [Gt Go].
  assert (r = r0 /\ w' = w <| t_wr := t' |> <| w_log ::= app (rev (calls_tr cn calls)) |>) as [-> ->].
  { destruct r0; inversion E; subst; auto. }
  exists m, (wchunks (t_wr w) (calls_tr cn calls)). split; [exact Hm|]. split.
  - exists (calls_tr cn calls). split; [reflexivity|]. split; [symmetry; exact Gt|reflexivity].
  - split; [exact Hr0|]. exists G, (accepted_all calls), (wchunks (t_wr w) (calls_tr cn calls)).
    destruct Pf. auto 6.
Qed.

(* ================================================================== *)
(* 4. Call sites: what Session.v hands to conn_write is one packet     *)

Lemma concat_two {X} (a b : list X) : concat [a; b] = a ++ b.
Proof. cbn. now rewrite app_nil_r. Qed.

(* publish_roundtrip without its (unused) byte-range premises, for an empty rest *)
Lemma publish_one topic msg qos retain dup pid :
  len topic <= 65535 -> qos < 3 -> (qos = 0 -> pid = 0 /\ dup = false) -> (0 < qos -> 0 < pid < 65536) ->
  publish_size topic msg pid <= packet_max ->
  one_packet (publish_packet (head_publish qos retain dup) topic msg pid).
Proof.
  intros Hl Hq H0 H1 Hs.
  exists (PPublish dup qos retain topic (if pid =? 0 then None else Some pid) msg).
  rewrite <- (app_nil_r (publish_packet _ _ _ _)).
  rewrite publish_packet_shape, framed_app.
  rewrite (parse_packet_framed _ _ _ _ (publish_body_len topic msg pid) Hs).
  rewrite parse_body_head_publish by exact Hq.
  unfold publish_body. rewrite take_field_app by exact Hl.
  destruct (N.eqb_spec qos 0) as [E|E].
  - destruct (H0 E) as [-> ->]. reflexivity.
  - assert (0 < pid < 65536) as Hp by (apply H1; lia).
    assert (pid =? 0 = false) as Z by (apply N.eqb_neq; lia).
    rewrite Z. rewrite take_u16_be16 by lia. rewrite Z. reflexivity.
Qed.

(* Publish *)
Lemma sendable_publish retain msg topic :
  deny_of (topic_check topic) = false -> (packet_max <? publish_size topic msg 0) = false ->
  sendable (concat [publish_head_buf (head_publish 0 retain false) topic msg 0; msg]).
Proof.
  intros Ht Hs. right. rewrite concat_two. change (one_packet (publish_packet (head_publish 0 retain false) topic msg 0)).
  destruct (topic_check topic) eqn:E; [discriminate|]. apply topic_check_none_bytes in E.
  apply N.ltb_ge in Hs. apply publish_one; try lia; try tauto.
Qed.

(* what may sit in the Persistence under a publish key: resend sets the DUP flag of a
   PUBLISH it has submitted before *)
Definition dupped (p : list N) : list N :=
  match p with h :: b => (if h / 16 =? 3 then N.lor h 8 else h) :: b | [] => [] end.
Definition resendable (p : list N) : Prop := one_packet p /\ one_packet (dupped p).

Lemma head_publish_dupped level retain body : level = 1 \/ level = 2 ->
  dupped (head_publish level retain false :: body) = head_publish level retain true :: body.
Proof. intros [-> | ->]; destruct retain; reflexivity. Qed.

(* PublishAtLeastOnce / PublishExactlyOnce: the packet saved and sent *)
Lemma persisted_packet level retain msg topic acc :
  level = 1 \/ level = 2 ->
  deny_of (topic_check topic) = false ->
  (packet_max <? publish_size topic msg (if level =? 1 then alo_space else eo_space)) = false ->
  let pid := N.lor (if level =? 1 then alo_space else eo_space) (N.land acc id_mask) in
  let hbuf := publish_head_buf (head_publish level retain false) topic msg pid in
  pid <> 0 /\ resendable (hbuf ++ msg) /\ sendable (concat [hbuf; msg]).
Proof.
  intros Hl Ht Hs pid hbuf.
  destruct (topic_check topic) eqn:E; [discriminate|]. apply topic_check_none_bytes in E.
  apply N.ltb_ge in Hs.
  assert (Hp : 0 < pid < 65536) by (unfold pid; rewrite session_pub_pid; apply pub_pid_range).
  assert (Sz : publish_size topic msg pid <= packet_max).
  { unfold pid. rewrite session_pub_pid, publish_size_pid, <- session_pub_space. exact Hs. }
  assert (One : forall dup, one_packet (publish_packet (head_publish level retain dup) topic msg pid)).
  { intros dup. apply publish_one; try lia; try tauto. }
  split; [lia|]. split.
  - split; [apply (One false)|].
    change (hbuf ++ msg) with (publish_packet (head_publish level retain false) topic msg pid).
    unfold publish_packet, publish_head_buf. cbn [app]. rewrite head_publish_dupped by exact Hl.
    apply (One true).
  - right. rewrite concat_two. apply (One false).
Qed.

(* Subscribe / Unsubscribe *)
Lemma sendable_subscribe (sub : bool) level fs pid :
  fs <> [] -> any_denied fs = false ->
  (packet_max <? (if sub then subscribe_size fs else unsubscribe_size fs)) = false ->
  (sub = true -> level < 3) -> pid <> 0 -> pid < 65536 ->
  sendable (concat [if sub then subscribe_packet pid fs level else unsubscribe_packet pid fs]).
Proof.
  intros Hne Hd Hs Hl Hp0 Hp. right. rewrite concat_single.
  pose proof (proj2 (filters_deny_inline sub fs) (conj Hne (conj Hd Hs))) as D.
  destruct sub.
  - apply subscribe_deny_none in D. destruct D as (_ & B & L & S).
    eexists. rewrite <- (app_nil_r (subscribe_packet _ _ _)).
    apply subscribe_roundtrip; auto. lia.
  - apply unsubscribe_deny_none in D. destruct D as (_ & B & L & S).
    eexists. rewrite <- (app_nil_r (unsubscribe_packet _ _)).
    apply unsubscribe_roundtrip; auto. lia.
Qed.

(* the acknowledgements of the read routine, for whatever identifier was received *)
Lemma one_packet_ack head id :
  (head = 64 \/ head = 80 \/ head = 98 \/ head = 112) -> one_packet (ack_packet head id).
Proof.
  intros H. unfold ack_packet, be16.
  destruct H as [-> |[-> |[-> | ->]]]; eexists; apply ack_parse; reflexivity.
Qed.
Lemma one_packet_puback id : one_packet (packet_puback id).
Proof. apply one_packet_ack. auto. Qed.
Lemma one_packet_pubrec id : one_packet (packet_pubrec id).
Proof. apply one_packet_ack. auto. Qed.
Lemma one_packet_pubrel id : one_packet (packet_pubrel id).
Proof. apply one_packet_ack. auto. Qed.
Lemma one_packet_pubcomp id : one_packet (packet_pubcomp id).
Proof. apply one_packet_ack. auto. Qed.
Lemma resendable_pubrel id : resendable (packet_pubrel id).
Proof. split; apply one_packet_pubrel. Qed.

Lemma one_packet_disconnect : one_packet packet_disconnect.
Proof. exists PDisconnect. reflexivity. Qed.

(* CONNECT for a configuration Config.valid accepts and a stored client identifier *)
Lemma sendable_connect cf cid :
  cfg_wf cf -> bytes cid -> len cid <= 65535 -> sendable (concat [connect_packet cf cid]).
Proof.
  intros Hw Hb Hl. right. rewrite concat_single. eexists.
  rewrite <- (app_nil_r (connect_packet _ _)).
  apply connect_roundtrip; auto. apply connect_size_small; assumption.
Qed.

(* ================================================================== *)
(* 5. The invariant                                                    *)

(* --- the Persistence holds what the client saved --- *)

(* key 0: the client identifier InitSession checked; any other key: a packet that may be
   resent.  Stated about every binding (not only the visible ones: store_del uncovers
   shadowed bindings) and only about records that decode. *)
Definition ent_ok (kv : N * list N) : Prop :=
  forall p sq, decode_value (snd kv) = DecOk p sq ->
    if fst kv =? 0 then bytes p /\ len p <= 65535 else resendable p.
Definition store_ok (m : store) : Prop := Forall ent_ok m.

Lemma decode_encode_packet p s : exists s', decode_value (encode_value p s) = DecOk p s'.
Proof.
  unfold encode_value.
  assert (L : (length (p ++ le64 s) - 8 = length p)%nat).
  { rewrite app_length. unfold le64. rewrite le_n_length. lia. }
  rewrite decode_of_parts.
  - rewrite be32dec_be32 by apply fnv1a_lt. rewrite N.eqb_refl.
    rewrite L, firstn_length_app. eauto.
  - reflexivity.
  - rewrite app_length. unfold le64. rewrite le_n_length. lia.
Qed.

Lemma ent_ok_encode k p s :
  (if k =? 0 then bytes p /\ len p <= 65535 else resendable p) -> ent_ok (k, encode_value p s).
Proof.
  intros H p' sq E. cbn [fst snd] in *. destruct (decode_encode_packet p s) as [s' D].
  rewrite D in E. inversion E; subst. exact H.
Qed.

Lemma store_get_In m k v : store_get m k = Some v -> In (k, v) m.
Proof.
  induction m as [|[k' v'] m IH]; cbn [store_get]; [discriminate|].
  destruct (N.eqb_spec k' k) as [->|Ne]; [intros E; inversion E; left; reflexivity|].
  intros E. right. auto.
Qed.

Lemma store_ok_put m k v : store_ok m -> ent_ok (k, v) -> store_ok (store_put m k v).
Proof.
  intros H Hv. induction H as [|[k' v'] m Hx H IH]; cbn [store_put].
  - constructor; [exact Hv|constructor].
  - destruct (k =? k'); [constructor; assumption|].
    destruct (k <? k'); constructor; try assumption. constructor; assumption.
Qed.

Lemma store_ok_del m k : store_ok m -> store_ok (store_del m k).
Proof.
  intros H. induction H as [|[k' v'] m Hx H IH]; cbn [store_del]; [constructor|].
  destruct (k' =? k); [assumption|constructor; assumption].
Qed.

Lemma store_ok_get m k v p sq :
  store_ok m -> store_get m k = Some v -> decode_value v = DecOk p sq ->
  if k =? 0 then bytes p /\ len p <= 65535 else resendable p.
Proof.
  intros H G D. apply store_get_In in G. unfold store_ok in H. rewrite Forall_forall in H.
  exact (H _ G p sq D).
Qed.

(* --- the invariant on the relevant projection of the client --- *)

Definition noconn (ws : wsem) : Prop := forall cn, ws <> WsConn cn.

(* fz: optionally one connection (with the calls made on it) claimed to be dead and frozen;
   su: the connection being set up inside connect, if any *)
Record InvP (fz : option (N * delta)) (su : option N) (ws : wsem) (nc : N) (pk : list N) (cf : cfg)
            (m : store) (G : delta) : Prop := mkInvP {
  iv_store : store_ok m;
  iv_cfg : cfg_wf cf;
  iv_pack : sendable pk;
  (* connection numbers not dialed yet carry nothing *)
  iv_fresh : forall cn, nc <= cn -> wire G cn = [];
  (* every connection: whole packets, then at most a prefix of one more *)
  iv_framed : forall cn, framed (wire G cn);
  (* the connection holding the write token, and the one under set-up: whole packets *)
  iv_alive : forall cn, ws = WsConn cn -> cn < nc /\ whole (wire G cn);
  iv_setup : forall cn, su = Some cn -> cn < nc /\ whole (wire G cn);
  (* the frozen connection is neither, and the calls made on it are as claimed *)
  iv_frozen : forall cn s, fz = Some (cn, s) ->
                cn < nc /\ ws <> WsConn cn /\ su <> Some cn /\ chunks_on G cn = s
}.

Definition Inv fz su (c : client) (m : store) (G : delta) : Prop :=
  InvP fz su (k_wsem c) (k_nconn c) (k_pack c) (s_cfg (k_cfg c)) m G.

(* the ConnLogInv of the statement *)
Definition ConnLogInv (c : client) (m : store) (G : delta) : Prop := Inv None None c m G.

(* after a failed set-up or write: fine for whatever token state without a connection *)
Definition Broken fz (c : client) (m : store) (G : delta) : Prop :=
  forall ws', noconn ws' -> InvP fz None ws' (k_nconn c) (k_pack c) (s_cfg (k_cfg c)) m G.

Definition wpj (c : client) := (k_wsem c, k_nconn c, k_pack c, s_cfg (k_cfg c)).

Lemma Inv_same fz su c c' m G : wpj c' = wpj c -> Inv fz su c m G -> Inv fz su c' m G.
Proof. unfold wpj, Inv. intros E. inversion E as [[E1 E2 E3 E4]]. rewrite E1, E2, E3, E4. auto. Qed.
Lemma Broken_same fz c c' m G : wpj c' = wpj c -> Broken fz c m G -> Broken fz c' m G.
Proof. unfold wpj, Broken. intros E. inversion E as [[E1 E2 E3 E4]]. rewrite E2, E3, E4. auto. Qed.

Lemma noconn_pending : noconn WsPending. Proof. intros cn; discriminate. Qed.
Lemma noconn_down : noconn WsDown. Proof. intros cn; discriminate. Qed.
Lemma noconn_closed : noconn WsClosed. Proof. intros cn; discriminate. Qed.
#[local] Hint Resolve noconn_pending noconn_down noconn_closed : core.

Lemma InvP_drop fz su ws nc pk cf m G ws' :
  InvP fz su ws nc pk cf m G -> noconn ws' -> InvP fz None ws' nc pk cf m G.
Proof.
  intros [A1 A2 A3 A4 A5 A6 A7 A8] Hn. split; auto.
  - intros cn E. exfalso. exact (Hn cn E).
  - intros cn E. discriminate.
  - intros cn s E. destruct (A8 cn s E) as (B1 & B2 & B3 & B4). repeat split; auto. discriminate.
Qed.

Lemma Inv_Broken fz su c m G : Inv fz su c m G -> Broken fz c m G.
Proof. intros H ws' Hn. eapply InvP_drop; eassumption. Qed.

Lemma InvP_pack fz su ws nc pk pk' cf m G :
  InvP fz su ws nc pk cf m G -> sendable pk' -> InvP fz su ws nc pk' cf m G.
Proof. intros [A1 A2 A3 A4 A5 A6 A7 A8] H. split; auto. Qed.

Lemma InvP_store fz su ws nc pk cf m m' G :
  InvP fz su ws nc pk cf m G -> store_ok m' -> InvP fz su ws nc pk cf m' G.
Proof. intros [A1 A2 A3 A4 A5 A6 A7 A8] H. split; auto. Qed.

(* connect dials connection number nc *)
Lemma InvP_begin fz ws nc pk cf m G :
  InvP fz None ws nc pk cf m G -> InvP fz (Some nc) ws (nc + 1) pk cf m G.
Proof.
  intros [A1 A2 A3 A4 A5 A6 A7 A8]. split; auto.
  - intros cn L. apply A4. lia.
  - intros cn E. destruct (A6 cn E). split; [lia|assumption].
  - intros cn E. inversion E; subst cn. split; [lia|]. rewrite A4 by lia. apply whole_nil.
  - intros cn s E. destruct (A8 cn s E) as (B1 & B2 & B3 & B4). repeat split; auto; try lia.
    intros X. inversion X. lia.
Qed.

(* the connection set up becomes the one holding the token *)
Lemma InvP_end fz cn ws nc pk cf m G :
  InvP fz (Some cn) ws nc pk cf m G -> InvP fz None (WsConn cn) nc pk cf m G.
Proof.
  intros [A1 A2 A3 A4 A5 A6 A7 A8]. split; auto.
  - intros cn' E. inversion E; subst cn'. apply A7. reflexivity.
  - intros cn' E. discriminate.
  - intros cn' s E. destruct (A8 cn' s E) as (B1 & B2 & B3 & B4). repeat split; auto; try discriminate.
    intros X. inversion X; subst. apply B3. reflexivity.
Qed.

Lemma wire_sent G d cn bs cn' : only_on cn bs d ->
  wire (G ++ d) cn' = wire G cn' ++ (if cn' =? cn then bs else []).
Proof. intros H. rewrite wire_app, (only_on_wire _ _ _ cn' H). reflexivity. Qed.

(* the whole argument went out on the connection with the token / under set-up *)
Lemma InvP_sent fz su ws nc pk cf m G cn p d :
  InvP fz su ws nc pk cf m G -> (ws = WsConn cn \/ su = Some cn) -> only_on cn p d -> sendable p ->
  InvP fz su ws nc pk cf m (G ++ d).
Proof.
  intros [A1 A2 A3 A4 A5 A6 A7 A8] Hcn Ho Hp.
  assert (Hlt : cn < nc /\ whole (wire G cn)) by (destruct Hcn as [E|E]; [apply A6|apply A7]; exact E).
  assert (W : forall cn', wire (G ++ d) cn' = wire G cn' ++ (if cn' =? cn then p else [])).
  { intros cn'. apply wire_sent, Ho. }
  assert (Wcn : whole (wire (G ++ d) cn)).
  { rewrite W, N.eqb_refl. apply whole_sendable; tauto. }
  assert (Wne : forall cn', cn' <> cn -> wire (G ++ d) cn' = wire G cn').
  { intros cn' Ne. rewrite W. apply N.eqb_neq in Ne. rewrite Ne. apply app_nil_r. }
  split; auto.
  - intros cn' L. rewrite Wne by lia. auto.
  - intros cn'. destruct (N.eq_dec cn' cn) as [->|Ne]; [apply whole_framed, Wcn|rewrite Wne; auto].
  - intros cn' E. destruct (N.eq_dec cn' cn) as [->|Ne]; [tauto|rewrite Wne; auto].
  - intros cn' E. destruct (N.eq_dec cn' cn) as [->|Ne]; [tauto|rewrite Wne; auto].
  - intros cn' s E. destruct (A8 cn' s E) as (B1 & B2 & B3 & B4). repeat split; auto.
    rewrite chunks_on_app, (only_on_chunks_other _ _ _ cn' Ho), app_nil_r; [exact B4|].
    intros ->. destruct Hcn; congruence.
Qed.

(* only a prefix went out: the connection is left with a tail, and is given up *)
Lemma InvP_sent_prefix fz su ws nc pk cf m G cn p k d ws' :
  InvP fz su ws nc pk cf m G -> (ws = WsConn cn \/ su = Some cn) -> only_on cn (firstn k p) d ->
  sendable p -> noconn ws' -> InvP fz None ws' nc pk cf m (G ++ d).
Proof.
  intros [A1 A2 A3 A4 A5 A6 A7 A8] Hcn Ho Hp Hn.
  assert (Hlt : cn < nc /\ whole (wire G cn)) by (destruct Hcn as [E|E]; [apply A6|apply A7]; exact E).
  assert (W : forall cn', wire (G ++ d) cn' = wire G cn' ++ (if cn' =? cn then firstn k p else [])).
  { intros cn'. apply wire_sent, Ho. }
  assert (Wne : forall cn', cn' <> cn -> wire (G ++ d) cn' = wire G cn').
  { intros cn' Ne. rewrite W. apply N.eqb_neq in Ne. rewrite Ne. apply app_nil_r. }
  split; auto.
  - intros cn' L. rewrite Wne by lia. auto.
  - intros cn'. destruct (N.eq_dec cn' cn) as [->|Ne]; [|rewrite Wne; auto].
    rewrite W, N.eqb_refl. apply framed_prefix; tauto.
  - intros cn' E. exfalso. exact (Hn cn' E).
  - intros cn' E. discriminate.
  - intros cn' s E. destruct (A8 cn' s E) as (B1 & B2 & B3 & B4). repeat split; auto; try discriminate.
    rewrite chunks_on_app, (only_on_chunks_other _ _ _ cn' Ho), app_nil_r; [exact B4|].
    intros ->. destruct Hcn; congruence.
Qed.

(* a dead connection may be declared frozen *)
Lemma Inv_freeze c m G cn :
  Inv None None c m G -> cn < k_nconn c -> k_wsem c <> WsConn cn ->
  Inv (Some (cn, chunks_on G cn)) None c m G.
Proof.
  intros [A1 A2 A3 A4 A5 A6 A7 A8] L Hw. split; auto.
  intros cn' s E. inversion E; subst. repeat split; auto. discriminate.
Qed.

(* any client state with a sound store and configuration, before anything was accepted *)
Lemma Inv_empty c m :
  store_ok m -> cfg_wf (s_cfg (k_cfg c)) -> sendable (k_pack c) ->
  (forall cn, k_wsem c = WsConn cn -> cn < k_nconn c) -> Inv None None c m [].
Proof.
  intros H1 H2 H3 H4. split; auto.
  - intros cn. apply whole_framed, whole_nil.
  - intros cn E. split; [auto|apply whole_nil].
  - intros cn E. discriminate.
  - intros cn s E. discriminate.
Qed.

(* --- helpers that leave the projection alone --- *)

Lemma wpj_release_locked c e : wpj (release_locked c e) = wpj c.
Proof. apply (release_locked_pres wpj); pres_tac. Qed.
Lemma wpj_break_pending c : wpj (break_pending c) = wpj c.
Proof. apply (break_pending_pres wpj); pres_tac. Qed.
Lemma wpj_term_callbacks c : wpj (term_callbacks c) = wpj c.
Proof.
  unfold term_callbacks. rewrite wpj_break_pending. destruct (k_seqclosed c); reflexivity.
Qed.
Lemma wpj_xclose c x : wpj (xclose c x) = wpj c.
Proof. unfold xclose. destruct (x =? 0); reflexivity. Qed.
Lemma wpj_xsend c x e : wpj (xsend c x e) = wpj c.
Proof. unfold xsend. destruct (x =? 0); reflexivity. Qed.
Lemma wpj_tx_pick fuel space : forall c, wpj (fst (tx_pick fuel c space)) = wpj c.
Proof.
  induction fuel as [|f IH]; intros c; cbn [tx_pick]; [reflexivity|]. cbv zeta.
  destruct (existsb _ _); [|reflexivity]. rewrite IH. reflexivity.
Qed.

(* --- triples that keep the invariant --- *)

Definition ispec {A} fz (c : client) (f : M (client * A)) : Prop :=
  hoare (Inv fz None c) f (fun p => Inv fz None (fst p)).

Lemma ispec_ret {A} fz c c' (a : A) :
  (forall m G, Inv fz None c m G -> Inv fz None c' m G) -> ispec fz c (ret (c', a)).
Proof. intros H. apply hoare_ret. exact H. Qed.
Lemma ispec_ret_same {A} fz c c' (a : A) : wpj c' = wpj c -> ispec fz c (ret (c', a)).
Proof. intros H. apply ispec_ret. intros m G. apply Inv_same, H. Qed.
Lemma ispec_fail {A} fz c : @ispec A fz c fail_tape.
Proof. apply hoare_fail. Qed.
Lemma ispec_bind {A B} fz c (f : M (client * A)) (k : client * A -> M (client * B)) :
  ispec fz c f -> (forall p, ispec fz (fst p) (k p)) -> ispec fz c (bind f k).
Proof. intros Hf Hk. eapply hoare_bind; [exact Hf|]. intros p. apply Hk. Qed.
Lemma ispec_bind_e {A B} fz c (f : M A) (k : A -> M (client * B)) :
  hoare (Inv fz None c) f (fun _ => Inv fz None c) -> (forall a, ispec fz c (k a)) -> ispec fz c (bind f k).
Proof. intros Hf Hk. eapply hoare_bind; [exact Hf|]. intros a. apply Hk. Qed.
Lemma ispec_same {A} fz c c1 (f : M (client * A)) : wpj c1 = wpj c -> ispec fz c1 f -> ispec fz c f.
Proof. intros H Hf. eapply hoare_pre; [|exact Hf]. intros m G. apply Inv_same, H. Qed.
Lemma ispec_pure {A} fz c (f : M (client * A)) (X : Prop) :
  (forall m G, Inv fz None c m G -> X) -> (X -> ispec fz c f) -> ispec fz c f.
Proof. apply hoare_pure. Qed.

Ltac ileaf := apply ispec_ret_same; reflexivity.

(* Persistence operations under the invariant *)

Lemma rugged_load_i fz su c k :
  hoare (Inv fz su c) (rugged_load k) (fun l m G =>
    Inv fz su c m G /\
    match l with
    | inl (Some p) => if k =? 0 then bytes p /\ len p <= 65535 else resendable p
    | _ => True
    end).
Proof.
  unfold rugged_load. eapply hoare_bind; [apply hoare_quiet, ask_store_quiet; exact I|].
  intros a. destruct a as [ks|[raw|]| |]; try apply hoare_fail.
  - destruct (decode_value raw) as [p sq| |] eqn:D; apply hoare_ret;
      intros m G (m0 & HI & (k' & Ek & Eg & ->)); (split; [exact HI|]); try exact I.
    inversion Ek; subst k'. eapply store_ok_get; [apply HI|symmetry; exact Eg|exact D].
  - apply hoare_ret. intros m G (m0 & HI & (k' & Ek & Eg & ->)). auto.
  - apply hoare_ret. intros m G (m0 & HI & ->). auto.
Qed.

Lemma rugged_save_i fz su c k v :
  (if k =? 0 then bytes v /\ len v <= 65535 else resendable v) ->
  hoare (Inv fz su c) (rugged_save c k v) (fun p m G =>
    Inv fz su c m G /\ fst p = c <| k_rseq := k_rseq c + 1 |>).
Proof.
  intros Hv. unfold rugged_save. eapply hoare_bind; [apply hoare_quiet, ask_store_quiet; exact I|].
  intros a. destruct a as [ks|raw| |]; try apply hoare_fail; apply hoare_ret.
  - intros m G (m0 & HI & [(k' & v' & E & ->)|(k' & E & _)]); [|discriminate].
    inversion E; subst. split; [|reflexivity].
    eapply InvP_store; [exact HI|]. apply store_ok_put; [apply HI|apply ent_ok_encode, Hv].
  - intros m G (m0 & HI & ->). auto.
Qed.

Lemma store_delete_i fz su c k :
  hoare (Inv fz su c) (store_delete k) (fun _ => Inv fz su c).
Proof.
  unfold store_delete. eapply hoare_bind; [apply hoare_quiet, ask_store_quiet; exact I|].
  intros a. destruct a as [ks|raw| |]; try apply hoare_fail; apply hoare_ret.
  - intros m G (m0 & HI & [(k' & v' & E & _)|(k' & E & ->)]); [discriminate|].
    eapply InvP_store; [exact HI|]. apply store_ok_del, HI.
  - intros m G (m0 & HI & ->). auto.
Qed.

Lemma with_reader_i {A} fz c (f : rst -> A * rst) : ispec fz c (with_reader c f).
Proof.
  eapply hoare_post; [apply hoare_quiet, with_reader_quiet|].
  intros p m G (m0 & HI & -> & s & E). eapply Inv_same; [|exact HI]. rewrite E. reflexivity.
Qed.

(* --- writing --- *)

Lemma conn_write_i fz su c cn bufs single :
  (k_wsem c = WsConn cn \/ su = Some cn) -> sendable (concat bufs) ->
  hoare (Inv fz su c) (conn_write cn bufs single) (fun r m G =>
    r <> WNoTape /\ (r = WOk -> Inv fz su c m G) /\ Broken fz c m G).
Proof.
  intros Hcn Hs. eapply hoare_post; [apply conn_write_hoare|].
  intros r m G' (Hr & G & acc & d & -> & HI & Ho & (k & Ek) & Hok).
  split; [exact Hr|]. split.
  - intros E. rewrite (Hok E) in Ho. eapply InvP_sent; eassumption.
  - intros ws' Hn. subst acc. eapply InvP_sent_prefix; eassumption.
Qed.

Lemma locked_write_i fz c cn bufs single :
  k_wsem c = WsConn cn -> sendable (concat bufs) -> ispec fz c (locked_write c cn bufs single).
Proof.
  intros Hw Hs. unfold locked_write.
  eapply hoare_bind; [apply conn_write_i; [left; exact Hw|exact Hs]|].
  intros r. destruct r.
  - apply hoare_ret. intros m G (_ & H & _). apply H. reflexivity.
  - eapply hoare_bind; [apply hoare_tell; exact I|]. intros u. apply hoare_ret.
    intros m G (_ & _ & H). apply (H WsPending). auto.
  - eapply hoare_bind with (R := fun _ m G => Broken fz c m G);
      [apply hoare_ret; intros m G (_ & _ & H); exact H|]. intros u. apply hoare_ret.
    intros m G H. apply (H WsPending). auto.
  - eapply hoare_bind; [apply hoare_tell; exact I|]. intros u. apply hoare_ret.
    intros m G (_ & _ & H). apply (H WsPending). auto.
  - apply hoare_pre with (P := fun _ _ => False); [intros m G (H & _); congruence|].
    intros w a w' m G _ F. destruct F.
Qed.

Lemma nowait_write_i fz c bufs single :
  sendable (concat bufs) -> ispec fz c (nowait_write c bufs single).
Proof.
  intros Hs. unfold nowait_write. destruct (k_wsem c) eqn:W; try ileaf.
  apply locked_write_i; assumption.
Qed.

Lemma op_write_i fz c bufs single :
  sendable (concat bufs) -> ispec fz c (op_write c bufs single).
Proof.
  intros Hs. unfold op_write. destruct (k_wsem c) eqn:W; try ileaf.
  eapply ispec_bind; [apply locked_write_i; assumption|]. intros [c1 e]. ileaf.
Qed.

(* the pending acknowledgement is written as it is *)
Lemma nowait_write_pack fz c : ispec fz c (nowait_write c [k_pack c] true).
Proof.
  apply ispec_pure with (X := sendable (k_pack c)); [intros m G H; apply H|].
  intros H. apply nowait_write_i. rewrite concat_single. exact H.
Qed.

Lemma to_offline_i fz c : hoare (Inv fz None c) (to_offline c) (fun c' => Inv fz None c').
Proof.
  unfold to_offline.
  destruct (k_wsem c) eqn:W;
    try (eapply hoare_bind; [apply hoare_tell; exact I|]; intros u; apply hoare_ret; intros m G H;
         eapply Inv_same; [apply wpj_break_pending|]; eapply InvP_drop; [exact H|auto]).
  eapply hoare_bind; [apply hoare_tell; exact I|]. intros u. apply hoare_ret. intros m G H.
  eapply Inv_same; [|exact H]. reflexivity.
Qed.

Lemma ispec_bind_off {B} fz c (k : client -> M (client * B)) :
  (forall c1, ispec fz c1 (k c1)) -> ispec fz c (bind (to_offline c) k).
Proof. intros Hk. eapply hoare_bind; [apply to_offline_i|]. intros c1. apply Hk. Qed.

Lemma to_offline_ret_i {A} fz c (a : A) : ispec fz c (bind (to_offline c) (fun c => ret (c, a))).
Proof. apply ispec_bind_off. intros c1. ileaf. Qed.

(* --- connection set-up --- *)

Lemma werr_nonzero r : r <> WOk -> werr r <> 0.
Proof. destruct r; try congruence; intros _; discriminate. Qed.

Lemma lor_space_nonzero x space : space <> 0 -> N.lor x space <> 0.
Proof. intros H E. apply N.lor_eq_0_iff in E. tauto. Qed.

(* resend on the connection under set-up: on success the invariant with the connection
   still whole, otherwise (load or write failure) the connection is given up *)
Lemma resend_i fz c cn space (Hsp : space <> 0) fuel : forall seqno acc subm,
  hoare (Inv fz (Some cn) c) (resend fuel cn space seqno acc subm) (fun p m G =>
    Broken fz c m G /\ (snd p = 0 -> Inv fz (Some cn) c m G)).
Proof.
  assert (Keep : forall (r : N * err),
            hoare (Inv fz (Some cn) c) (ret r) (fun p m G => Broken fz c m G /\ (snd p = 0 -> Inv fz (Some cn) c m G))).
  { intros r. apply hoare_ret. intros m G H. split; [eapply Inv_Broken, H|auto]. }
  induction fuel as [|f IH]; intros seqno acc subm; cbn [resend]; [apply Keep|].
  destruct (acc <=? seqno); [apply Keep|]. cbv zeta.
  eapply hoare_bind; [apply rugged_load_i|]. intros l.
  destruct l as [[[|h body]|]|e];
    try (eapply hoare_pre; [|apply Keep]; intros m G [H _]; exact H).
  apply hoare_pure with (X := resendable (h :: body)).
  { intros m G [_ H]. apply N.eqb_neq in Hsp.
    assert (N.lor (N.land seqno id_mask) space =? 0 = false) as Z
      by (apply N.eqb_neq, lor_space_nonzero, N.eqb_neq, Hsp).
    rewrite Z in H. exact H. }
  intros [R1 R2].
  eapply hoare_bind.
  { eapply hoare_pre; [|apply (conn_write_i fz (Some cn) c cn)]; [intros m G [H _]; exact H|right; reflexivity|].
    rewrite concat_single. right. cbn [dupped] in R2.
    destruct (seqno <? subm); cbn [andb]; [|exact R1]. destruct (h / 16 =? 3); assumption. }
  intros r. destruct r; try (apply hoare_ret; intros m G (Hr & _ & HB); split; [exact HB|];
                            cbn [snd]; intros E; exfalso; revert E; apply werr_nonzero; discriminate).
  eapply hoare_pre; [|apply IH]. intros m G (_ & H & _). apply H. reflexivity.
Qed.

(* handshake on the connection under set-up *)
Lemma handshake_i fz c cn clean cid :
  bytes cid -> len cid <= 65535 ->
  hoare (Inv fz (Some cn) c) (handshake c cn clean cid) (fun p m G =>
    wpj (fst p) = wpj c /\
    match snd p with HsOk => Inv fz (Some cn) c m G | HsErr _ => Broken fz c m G end).
Proof.
  intros Hb Hl. unfold handshake. cbv zeta.
  apply hoare_pure with (X := cfg_wf (s_cfg (k_cfg c))); [intros m G H; apply H|]. intros Hcf.
  eapply hoare_bind.
  { apply (conn_write_i fz (Some cn) c cn); [right; reflexivity|].
    apply sendable_connect; [exact Hcf|exact Hb|exact Hl]. }
  intros r.
  destruct r; try (apply hoare_ret; intros m G (_ & _ & HB); split; [reflexivity|exact HB]).
  eapply hoare_pre with (P := Inv fz (Some cn) c); [intros m G (_ & H & _); apply H; reflexivity|].
  eapply hoare_bind.
  { eapply hoare_post; [apply hoare_quiet, with_reader_quiet|].
    intros p m G H. exact H. }
  intros [c1 [p e]]. cbv beta iota.
  apply hoare_pure with (X := wpj c1 = wpj c).
  { intros m G (m0 & _ & _ & s & E). cbn [fst] in E. rewrite E. reflexivity. }
  intros Ew.
  eapply hoare_pre with (P := Inv fz (Some cn) c); [intros m G (m0 & H & -> & _); exact H|].
  assert (Err : forall (c2 : client) e0, wpj c2 = wpj c1 ->
            hoare (Inv fz (Some cn) c) (ret (c2, HsErr e0)) (fun p m G =>
              wpj (fst p) = wpj c /\
              match snd p with HsOk => Inv fz (Some cn) c m G | HsErr _ => Broken fz c m G end)).
  { intros c2 e0 E2. apply hoare_ret. intros m G H. split; [cbn [fst]; congruence|eapply Inv_Broken, H]. }
  assert (Ok : forall (c2 : client), wpj c2 = wpj c1 ->
            hoare (Inv fz (Some cn) c) (ret (c2, HsOk)) (fun p m G =>
              wpj (fst p) = wpj c /\
              match snd p with HsOk => Inv fz (Some cn) c m G | HsErr _ => Broken fz c m G end)).
  { intros c2 E2. apply hoare_ret. intros m G H. split; [cbn [fst]; congruence|exact H]. }
  destruct e as [[]|]; try apply hoare_fail;
  match goal with |- context [if ?b then _ else _] => destruct b end;
    try (apply Err; reflexivity).
  destruct p as [|a [|b [|fl [|code [|]]]]]; try apply hoare_fail.
  destruct (negb (code =? 0)); [apply Err; reflexivity|].
  destruct (fl =? 0); [apply Ok; reflexivity|].
  destruct (fl =? 1); [|apply Err; reflexivity].
  destruct clean; [apply Err|apply Ok]; reflexivity.
Qed.

Lemma connect_i fz c : ispec fz c (connect c).
Proof.
  unfold connect. destruct (k_closed c); [ileaf|]. cbv zeta.
  assert (Hdown : forall (c1 : client) (e : err), k_nconn c1 = k_nconn c -> k_pack c1 = k_pack c ->
            s_cfg (k_cfg c1) = s_cfg (k_cfg c) -> k_wsem c1 = WsDown ->
            ispec fz c (ret (release_locked c1 E_down, e))).
  { intros c1 e E1 E2 E3 E4. apply ispec_ret. intros m G H.
    eapply Inv_same; [apply wpj_release_locked|]. unfold Inv. rewrite E1, E2, E3, E4.
    eapply InvP_drop; [exact H|auto]. }
  eapply hoare_bind; [apply rugged_load_i|]. intros l.
  destruct l as [cidv|e].
  2:{ eapply hoare_pre; [|apply Hdown; reflexivity]. intros m G [H _]. exact H. }
  set (cid := match cidv with Some v => v | None => [] end).
  apply hoare_pure with (X := bytes cid /\ len cid <= 65535).
  { intros m G [_ H]. unfold cid. destruct cidv as [v|]; [exact H|]. split; [apply Forall_nil|unfold len; cbn [length]; lia]. }
  intros [Hb Hl].
  eapply hoare_pre with (P := Inv fz None c); [intros m G [H _]; exact H|].
  eapply ispec_bind_e; [apply hoare_ask_dial|]. intros ok.
  destruct ok; cbn [negb]; [|apply Hdown; reflexivity].
  set (cn := k_nconn c).
  set (c0 := c <| k_nconn := cn + 1 |>).
  (* from here on the connection cn is under set-up *)
  eapply hoare_pre with (P := Inv fz (Some cn) c0); [intros m G H; apply InvP_begin, H|].
  assert (Hdown1 : forall (c1 c2 : client) (e : err), wpj c1 = wpj c0 ->
            k_nconn c2 = k_nconn c1 -> k_pack c2 = k_pack c1 -> s_cfg (k_cfg c2) = s_cfg (k_cfg c1) ->
            k_wsem c2 = WsDown ->
            hoare (Broken fz c0) (_ <- tell (QClose cn);; ret (release_locked c2 E_down, e))
                  (fun p => Inv fz None (fst p))).
  { intros c1 c2 e E0 E1 E2 E3 E4. eapply hoare_bind; [apply hoare_tell; exact I|]. intros u.
    apply hoare_ret. intros m G H. eapply Inv_same; [apply wpj_release_locked|].
    apply (Broken_same _ _ _ _ _ E0) in H. unfold Inv. rewrite E1, E2, E3, E4. apply H. auto. }
  eapply hoare_bind; [apply handshake_i; assumption|].
  intros [c1 h]. cbv beta iota.
  apply hoare_pure with (X := wpj c1 = wpj c0); [intros m G [H _]; exact H|]. intros E1.
  destruct h as [|e].
  2:{ eapply hoare_pre; [|eapply (Hdown1 c1); [exact E1|reflexivity..]]. intros m G [_ H]. exact H. }
  set (c2 := c1 <| k_csem := Some cn |>).
  eapply hoare_pre with (P := Inv fz (Some cn) c2).
  { intros m G [_ H]. cbn [snd] in H. eapply Inv_same; [|exact H]. exact E1. }
  assert (E2 : wpj c2 = wpj c0) by exact E1.
  eapply hoare_bind; [apply resend_i; discriminate|]. intros [s1 e1]. cbv beta iota.
  destruct (negb (e1 =? 0)) eqn:Z1.
  { eapply hoare_pre; [|eapply (Hdown1 c2); [exact E2|reflexivity..]].
    intros m G [H _]. eapply Broken_same; [|exact H]. symmetry. exact E2. }
  apply negb_false_iff, N.eqb_eq in Z1. subst e1.
  set (c3 := c2 <| k_sub1 := s1 |>).
  eapply hoare_pre with (P := Inv fz (Some cn) c3).
  { intros m G [_ H]. apply (H eq_refl). }
  assert (E3 : wpj c3 = wpj c0) by exact E1.
  eapply hoare_bind; [apply resend_i; discriminate|]. intros [s2 e2]. cbv beta iota.
  destruct (negb (e2 =? 0)) eqn:Z2.
  { eapply hoare_pre; [|eapply (Hdown1 c3); [exact E3|reflexivity..]].
    intros m G [H _]. eapply Broken_same; [|exact H]. symmetry. exact E3. }
  apply negb_false_iff, N.eqb_eq in Z2. subst e2.
  match goal with |- context [if ?b then _ else _] => destruct b end; [apply hoare_fail|].
  apply hoare_ret. intros m G [_ H]. specialize (H eq_refl).
  unfold Inv in *. cbn [fst].
  inversion E3 as [[W1 W2 W3 W4]]. 
  match goal with |- InvP _ _ (k_wsem ?x) (k_nconn ?x) (k_pack ?x) (s_cfg (k_cfg ?x)) _ _ =>
    change (k_wsem x) with (WsConn cn); change (k_nconn x) with (k_nconn c3);
    change (k_pack x) with (k_pack c3); change (k_cfg x) with (k_cfg c3) end.
  eapply InvP_end. exact H.
Qed.

(* --- the packet handlers of the read routine --- *)

Lemma sendable_one p : one_packet p -> sendable p.
Proof. right. assumption. Qed.

Lemma Inv_set_pack fz c pk m G : sendable pk -> Inv fz None c m G -> Inv fz None (c <| k_pack := pk |>) m G.
Proof. intros Hp H. unfold Inv in *. cbn. eapply InvP_pack; eassumption. Qed.

Lemma rugged_load_any fz c k : hoare (Inv fz None c) (rugged_load k) (fun _ => Inv fz None c).
Proof. eapply hoare_post; [apply rugged_load_i|]. intros l m G [H _]. exact H. Qed.

Lemma on_publish_i fz c head body : ispec fz c (on_publish c head body).
Proof.
  unfold on_publish. cbv zeta.
  repeat match goal with
  | |- ispec _ _ (if ?b then _ else _) => destruct b; [ileaf|]
  end.
  match goal with |- ispec _ _ (if ?b then _ else _) => destruct b end.
  - destruct (negb _); [ileaf|]. apply ispec_ret. intros m G. apply Inv_set_pack, sendable_one, one_packet_puback.
  - eapply ispec_bind_e; [apply rugged_load_any|]. intros l.
    destruct l as [[|]|]; try destruct (negb _); try ileaf;
      apply ispec_ret; intros m G; apply Inv_set_pack, sendable_one, one_packet_pubrec.
Qed.

Lemma on_puback_i fz c body : ispec fz c (on_puback c body).
Proof.
  unfold on_puback. cbv zeta.
  repeat match goal with
  | |- ispec _ _ (if ?b then _ else _) => destruct b; [ileaf|]
  end.
  destruct (k_q1 c) as [|x q]; [ileaf|].
  eapply ispec_bind_e; [apply store_delete_i|]. intros ok.
  destruct (negb ok); [ileaf|].
  apply ispec_ret_same. rewrite wpj_xclose. reflexivity.
Qed.

Lemma on_pubcomp_i fz c body : ispec fz c (on_pubcomp c body).
Proof.
  unfold on_pubcomp. cbv zeta.
  repeat match goal with
  | |- ispec _ _ (if ?b then _ else _) => destruct b; [ileaf|]
  end.
  destruct (k_q2 c) as [|x q]; [ileaf|].
  eapply ispec_bind_e; [apply store_delete_i|]. intros ok.
  destruct (negb ok); [ileaf|].
  apply ispec_ret_same. rewrite wpj_xclose. reflexivity.
Qed.

Lemma on_pubrec_i fz c body : ispec fz c (on_pubrec c body).
Proof.
  unfold on_pubrec. cbv zeta.
  destruct (negb (len body =? 2)); [ileaf|].
  destruct (u16 body =? 0) eqn:Z; [ileaf|].
  repeat match goal with
  | |- ispec _ _ (if ?b then _ else _) => destruct b; [ileaf|]
  end.
  set (c1 := c <| k_pack := packet_pubrel (u16 body) |>).
  eapply hoare_pre with (P := Inv fz None c1).
  { intros m G. apply Inv_set_pack, sendable_one, one_packet_pubrel. }
  eapply hoare_bind.
  { apply rugged_save_i. rewrite Z. apply resendable_pubrel. }
  intros [c2 ok]. cbv beta iota.
  apply hoare_pure with (X := c2 = c1 <| k_rseq := k_rseq c1 + 1 |>); [intros m G [_ H]; exact H|].
  intros ->.
  eapply hoare_pre with (P := Inv fz None c1); [intros m G [H _]; exact H|].
  destruct (negb ok).
  { apply hoare_ret. intros m G H. apply (Inv_set_pack fz _ [] m G); [left; reflexivity|].
    eapply Inv_same; [|exact H]. reflexivity. }
  match goal with |- hoare _ (bind (nowait_write ?x _ _) _) _ => set (c3 := x) end.
  eapply (ispec_same fz c1 c3); [reflexivity|].
  eapply ispec_bind; [apply nowait_write_pack|]. intros [c4 e]. cbv beta iota.
  destruct (negb (e =? 0)); [ileaf|].
  apply ispec_ret. intros m G. apply Inv_set_pack. left. reflexivity.
Qed.

Lemma on_pubrel_i fz c body : ispec fz c (on_pubrel c body).
Proof.
  unfold on_pubrel. cbv zeta.
  repeat match goal with
  | |- ispec _ _ (if ?b then _ else _) => destruct b; [ileaf|]
  end.
  eapply ispec_bind_e; [apply store_delete_i|]. intros ok.
  destruct (negb ok); [ileaf|].
  destruct (negb (len (k_pack c) =? 0)); [ileaf|].
  set (c1 := c <| k_pack := packet_pubcomp (u16 body) |>).
  eapply hoare_pre with (P := Inv fz None c1).
  { intros m G. apply Inv_set_pack, sendable_one, one_packet_pubcomp. }
  eapply (ispec_bind fz c1); [apply nowait_write_pack|]. intros [c4 e]. cbv beta iota.
  destruct (negb (e =? 0)); [ileaf|].
  apply ispec_ret. intros m G. apply Inv_set_pack. left. reflexivity.
Qed.

Lemma wpj_if_complete (b : bool) c rid e fs : wpj (if b then complete c rid e fs else c) = wpj c.
Proof. destruct b; reflexivity. Qed.

Lemma wpj_on_suback c body : wpj (fst (on_suback c body)) = wpj c.
Proof.
  unfold on_suback. cbv zeta.
  repeat match goal with
  | |- context [if ?b then (c, HErr E_proto) else _] => destruct b; [reflexivity|]
  end.
  destruct (tx_find c (u16 body)) as [[rid fso]|]; [|reflexivity].
  destruct (negb (_ =? _)%nat).
  - cbn [fst]. rewrite wpj_if_complete. reflexivity.
  - destruct (failed_filters _ _); cbn [fst]; rewrite wpj_if_complete; reflexivity.
Qed.

Lemma wpj_on_unsuback c body : wpj (fst (on_unsuback c body)) = wpj c.
Proof.
  unfold on_unsuback. cbv zeta.
  repeat match goal with
  | |- context [if ?b then (c, HErr E_proto) else _] => destruct b; [reflexivity|]
  end.
  destruct (tx_find c (u16 body)) as [[rid fso]|]; [|reflexivity].
  destruct (parked_kind _ _) as [[]|]; reflexivity.
Qed.

Lemma wpj_on_pingresp c body : wpj (fst (on_pingresp c body)) = wpj c.
Proof.
  unfold on_pingresp. destruct (negb _); [reflexivity|].
  destruct (k_ping c); [|reflexivity]. cbv zeta.
  destruct (parked_kind _ _) as [[]|]; reflexivity.
Qed.

Lemma ispec_ret_pair {A} fz c (p : client * A) : wpj (fst p) = wpj c -> ispec fz c (ret p).
Proof. destruct p. apply ispec_ret_same. Qed.

Lemma dispatch_i fz c head body : ispec fz c (dispatch c head body).
Proof.
  unfold dispatch.
  repeat match goal with
  | |- ispec _ _ (match ?x with _ => _ end) => destruct x; try ileaf
  end.
  all: first [ apply on_publish_i | apply on_puback_i | apply on_pubrec_i
             | apply on_pubrel_i | apply on_pubcomp_i
             | apply ispec_ret_pair, wpj_on_suback | apply ispec_ret_pair, wpj_on_unsuback
             | apply ispec_ret_pair, wpj_on_pingresp ].
Qed.

(* --- ReadSlices --- *)

Lemma read_loop_i fz fuel : forall c, ispec fz c (read_loop fuel c).
Proof.
  induction fuel as [|f IH]; intros c; cbn [read_loop]; [apply ispec_fail|].
  eapply ispec_bind; [apply with_reader_i|]. intros [c1 pk]. cbv beta iota. cbn [fst]. clear c.
  destruct pk as [head body|head size partial|e proto|].
  - (* PkOk *)
    eapply ispec_bind; [apply dispatch_i|]. intros [c2 h]. cbv beta iota. cbn [fst].
    destruct h as [|e|topic msg|].
    + eapply ispec_same; [|apply IH]; reflexivity.
    + apply to_offline_ret_i.
    + ileaf.
    + eapply ispec_bind; [apply nowait_write_pack|]. intros [c3 e]. cbv beta iota. cbn [fst].
      destruct (negb (e =? 0)); [apply to_offline_ret_i|].
      eapply hoare_pre; [|apply IH]. intros m G H.
      apply (Inv_set_pack fz c3 [] m G) in H; [|left; reflexivity]. eapply Inv_same; [|exact H]. reflexivity.
  - (* PkBig *)
    eapply ispec_bind; [apply on_publish_i|]. intros [c2 h]. cbv beta iota. cbn [fst].
    destruct h as [|e|topic msg|].
    + apply ispec_fail.
    + apply to_offline_ret_i.
    + ileaf.
    + eapply ispec_bind; [apply with_reader_i|]. intros [c3 d]. cbv beta iota. cbn [fst].
      destruct d as [[]|]; try apply to_offline_ret_i; try apply ispec_fail.
      eapply ispec_bind; [apply nowait_write_pack|]. intros [c4 e]. cbv beta iota. cbn [fst].
      destruct (negb (e =? 0)); [apply to_offline_ret_i|].
      eapply hoare_pre; [|apply IH]. intros m G. apply Inv_set_pack. left. reflexivity.
  - (* PkErr *)
    destruct e; try apply ispec_fail; try apply to_offline_ret_i.
    apply ispec_bind_off. intros c2.
    eapply ispec_bind; [apply connect_i|]. intros [c3 e]. cbv beta iota. cbn [fst].
    destruct (negb (e =? 0)); [ileaf|apply IH].
  - apply to_offline_ret_i.
Qed.

Lemma resendable_ack_pack h t : (h / 16 =? 5) = true -> one_packet (h :: t) -> resendable (h :: t).
Proof.
  intros E H. split; [exact H|]. cbn [dupped]. apply N.eqb_eq in E. rewrite E. exact H.
Qed.

Lemma rs_rest_i fz c e : ispec fz c (rs_rest (c, e)).
Proof.
  unfold rs_rest.
  destruct (negb (e =? 0)); [ileaf|].
  eapply ispec_bind.
  { destruct (k_big c); [|ileaf]. eapply ispec_same; [|apply with_reader_i]. reflexivity. }
  intros [c2 e2]. cbv beta iota. cbn [fst]. clear c e.
  destruct e2 as [[]|]; try apply to_offline_ret_i; try apply ispec_fail.
  cbv zeta.
  match goal with |- context [k_pack ?x] => set (c3 := x) end.
  eapply ispec_same with (c1 := c3); [reflexivity|]. clearbody c3. clear c2.
  eapply ispec_bind.
  { destruct (k_pack c3) as [|h t] eqn:Pk; [ileaf|].
    eapply ispec_bind.
    { destruct (h / 16 =? 5) eqn:H5; [|ileaf].
      apply ispec_pure with (X := sendable (k_pack c3)); [intros m G H; apply H|]. intros Hs.
      eapply hoare_post.
      { apply rugged_save_i.
        assert (N.lor (u16 (skipn 2 (h :: t))) remote_flag =? 0 = false) as ->
          by (apply N.eqb_neq, lor_space_nonzero; discriminate).
        apply resendable_ack_pack; [exact H5|]. rewrite Pk in Hs. destruct Hs; [discriminate|assumption]. }
      intros p m G [H E]. eapply Inv_same; [|exact H]. rewrite E. reflexivity. }
    intros [c4 ok]. cbv beta iota. cbn [fst].
    destruct (negb ok); [ileaf|].
    eapply ispec_bind; [apply nowait_write_pack|]. intros [c5 e5]. cbv beta iota. cbn [fst].
    destruct (negb (e5 =? 0)); [ileaf|].
    apply ispec_ret. intros m G. apply Inv_set_pack. left. reflexivity. }
  intros [c6 e6]. cbv beta iota. cbn [fst].
  destruct e6 as [[e' off]|].
  - destruct off; [apply to_offline_ret_i|].
    eapply hoare_bind with (R := fun c' m G => Inv fz None c' m G); [apply hoare_ret; auto|].
    intros c7. ileaf.
  - apply (hoare_world (fun w => S (S (length (t_rd w) + length (t_dial w))))
                       (fun n => read_loop n c6)).
    intros n. apply read_loop_i.
Qed.

Lemma read_slices_body_i fz c : ispec fz c (read_slices_body c).
Proof.
  rewrite read_slices_body_unfold.
  eapply ispec_bind; [destruct (k_rconn c); [ileaf|apply connect_i]|].
  intros [c1 e]. apply rs_rest_i.
Qed.

Lemma read_slices_i fz c : ispec fz c (read_slices c).
Proof.
  unfold read_slices. eapply ispec_bind; [apply read_slices_body_i|].
  intros [c1 r]. cbv beta iota. cbn [fst].
  destruct r; try ileaf.
  destruct (is_closed_err e); [|ileaf].
  apply ispec_ret_same, wpj_term_callbacks.
Qed.

(* --- requests --- *)

Lemma read_all_op_i fz c : ispec fz c (read_all_op c).
Proof.
  unfold read_all_op. destruct (k_big c); [|ileaf]. cbv zeta.
  eapply ispec_bind; [eapply ispec_same; [|apply with_reader_i]; reflexivity|].
  intros [c1 r]. cbv beta iota. cbn [fst].
  destruct r as [bs|[]]; try ileaf; try apply ispec_fail;
    (eapply ispec_bind_e; [apply hoare_tell; exact I|]; intros u; ileaf).
Qed.

Lemma op_publish_i fz c retain msg topic : ispec fz c (op_publish c retain msg topic).
Proof.
  unfold op_publish. cbv zeta.
  destruct (deny_of _) eqn:D; [ileaf|].
  destruct (packet_max <? _) eqn:S; [ileaf|].
  eapply ispec_bind; [eapply ispec_same; [|apply op_write_i]; [reflexivity|]|].
  { apply sendable_publish; assumption. }
  intros [c1 r]. cbv beta iota. cbn [fst]. destruct r; ileaf.
Qed.

Lemma op_publish_persisted_i fz c level retain msg topic :
  level = 1 \/ level = 2 -> ispec fz c (op_publish_persisted c level retain msg topic).
Proof.
  intros Hl. unfold op_publish_persisted. cbv zeta.
  destruct (deny_of _) eqn:D; [ileaf|].
  destruct (packet_max <? _) eqn:S; [ileaf|].
  destruct (k_seqclosed c); [ileaf|].
  destruct (k_closed c); [ileaf|].
  match goal with |- ispec _ _ (if ?b then _ else _) => destruct b end; [ileaf|].
  destruct (persisted_packet level retain msg topic (if level =? 1 then k_acc1 c else k_acc2 c) Hl D S)
    as (Hp & Hres & Hsend).
  eapply hoare_bind.
  { apply rugged_save_i. apply N.eqb_neq in Hp. rewrite Hp. exact Hres. }
  intros [c1 ok]. cbv beta iota.
  apply hoare_pure with (X := wpj c1 = wpj c); [intros m G [_ H]; cbn [fst] in H; rewrite H; reflexivity|].
  intros E1.
  eapply hoare_pre with (P := Inv fz None c1); [intros m G [H _]; eapply Inv_same; [exact E1|exact H]|].
  destruct (negb ok); [ileaf|].
  destruct (level =? 1).
  - match goal with |- hoare _ (if ?b then _ else _) _ => destruct b end.
    + apply ispec_ret_same. rewrite wpj_xsend. reflexivity.
    + eapply ispec_bind; [eapply ispec_same; [|apply nowait_write_i]; [reflexivity|exact Hsend]|].
      intros [c2 e]. cbv beta iota. cbn [fst].
      destruct (negb (e =? 0)); [|ileaf]. apply ispec_ret_same, wpj_xsend.
  - match goal with |- hoare _ (if ?b then _ else _) _ => destruct b end.
    + apply ispec_ret_same. rewrite wpj_xsend. reflexivity.
    + eapply ispec_bind; [eapply ispec_same; [|apply nowait_write_i]; [reflexivity|exact Hsend]|].
      intros [c2 e]. cbv beta iota. cbn [fst].
      destruct (negb (e =? 0)); [|ileaf]. apply ispec_ret_same, wpj_xsend.
Qed.

Lemma op_subscribe_i fz c sub level fs :
  (sub = true -> level < 3) -> ispec fz c (op_subscribe c sub level fs).
Proof.
  intros Hl. unfold op_subscribe. cbv zeta.
  destruct fs as [|f0 fs0]; [ileaf|].
  assert (Hne : f0 :: fs0 <> []) by discriminate.
  set (fs := f0 :: fs0) in *. clearbody fs.
  destruct (any_denied fs) eqn:D; [ileaf|].
  destruct (packet_max <? _) eqn:S; [ileaf|].
  destruct (511 <? _) eqn:L; [ileaf|].
  pose proof (wpj_tx_pick 1024 (if sub then sub_space else unsub_space) (c <| k_nextr ::= N.succ |>)) as T.
  destruct (tx_pick 1024 _ _) as [c1 pid] eqn:P. cbn [fst] in T. change (wpj c1 = wpj c) in T.
  apply tx_pick_1024 in P.
  2:{ destruct sub; [left|right]; reflexivity. }
  2:{ apply N.ltb_ge in L. lia. }
  destruct P as (_ & Hz & Hlt & _ & _).
  eapply ispec_bind; [eapply ispec_same; [|apply op_write_i]; [exact T|]|].
  { apply sendable_subscribe; assumption. }
  intros [c2 r]. cbv beta iota. cbn [fst].
  destruct r as [e|]; [destruct (e =? 0)|]; ileaf.
Qed.

Lemma op_ping_i fz c : ispec fz c (op_ping c).
Proof.
  unfold op_ping. cbv zeta. change (k_ping (c <| k_nextr ::= N.succ |>)) with (k_ping c).
  destruct (k_ping c); [ileaf|].
  eapply ispec_bind; [eapply ispec_same; [|apply op_write_i]; [reflexivity|]|].
  { rewrite concat_single. apply sendable_one, one_packet_pingreq. }
  intros [c2 r]. cbv beta iota. cbn [fst].
  destruct r as [e|]; [destruct (e =? 0)|]; ileaf.
Qed.

Lemma op_quit_i fz c rid : ispec fz c (op_quit c rid).
Proof.
  unfold op_quit. destruct (parked_kind c rid) as [[l|pid|pid|]|]; try ileaf.
  - destruct l; ileaf.
  - destruct (k_ping c); [destruct (_ =? _)|]; ileaf.
Qed.

Lemma Inv_closed fz c c' m G :
  k_nconn c' = k_nconn c -> k_pack c' = k_pack c -> s_cfg (k_cfg c') = s_cfg (k_cfg c) ->
  noconn (k_wsem c') -> Inv fz None c m G -> Inv fz None c' m G.
Proof. intros E1 E2 E3 E4 H. unfold Inv. rewrite E1, E2, E3. eapply InvP_drop; eassumption. Qed.

Lemma op_close_i fz c : ispec fz c (op_close c).
Proof.
  unfold op_close. destruct (k_closed c); [ileaf|].
  eapply ispec_bind_e.
  { destruct (k_wsem c); first [apply hoare_tell; exact I|apply hoare_ret; auto]. }
  intros u. apply ispec_ret. intros m G H.
  eapply Inv_same; [apply wpj_release_locked|].
  eapply (Inv_closed fz c); [reflexivity..| |exact H]. cbn. auto.
Qed.

Lemma op_disconnect_i fz c : ispec fz c (op_disconnect c).
Proof.
  unfold op_disconnect. destruct (k_closed c); [ileaf|].
  assert (H : forall m G, Broken fz c m G ->
            Inv fz None (release_locked (set_offline c <| k_closed := true |> <| k_wsem := WsClosed |>) E_closed) m G).
  { intros m G HB. eapply Inv_same; [apply wpj_release_locked|]. apply (HB WsClosed). auto. }
  destruct (k_wsem c) eqn:W;
    try (apply ispec_ret; intros m G HI; apply H; eapply Inv_Broken, HI).
  eapply hoare_bind.
  { apply (conn_write_i fz None c c0); [left; exact W|].
    rewrite concat_single. apply sendable_one, one_packet_disconnect. }
  intros r. eapply hoare_bind; [apply hoare_tell; exact I|]. intros u.
  apply hoare_ret. intros m G (_ & _ & HB). apply H, HB.
Qed.

Lemma wpj_op_read_backoff c e : wpj (fst (op_read_backoff c e)) = wpj c.
Proof.
  unfold op_read_backoff.
  destruct (_ || _); [reflexivity|].
  destruct (N.testbit e 1); [reflexivity|].
  destruct (k_rconn c); [reflexivity|].
  destruct (N.testbit e 10); reflexivity.
Qed.

(* AdoptSession: a new client without a connection on the same Persistence *)
Lemma adopt_scan_i fz c keys : forall a,
  hoare (Inv fz None c) (adopt_scan keys a) (fun _ => Inv fz None c).
Proof.
  induction keys as [|k r IH]; intros a; cbn [adopt_scan].
  - apply hoare_ret. auto.
  - destruct (k =? 0); [apply IH|].
    eapply hoare_bind.
    { eapply hoare_post; [apply hoare_quiet, ask_store_quiet; exact I|].
      intros v m G H. exact H. }
    intros v.
    assert (Back : forall m G, (exists m0, Inv fz None c m0 G /\ ask_rel (QLoad k) m0 v m) -> Inv fz None c m G).
    { intros m G (m0 & H & R). destruct v as [ks|raw| |]; cbn [ask_rel] in R.
      - destruct R as (_ & _ & ->). exact H.
      - destruct R as (k' & _ & _ & ->). exact H.
      - destruct R as [(k' & v' & E & _)|(k' & E & _)]; discriminate.
      - subst. exact H. }
    destruct v as [ks|raw| |]; try apply hoare_fail.
    2:{ apply hoare_ret. intros m G H. apply Back, H. }
    eapply hoare_pre; [exact Back|].
    destruct (decode_value _) as [packet sq| |].
    + cbv zeta. destruct (N.testbit k 16); [apply IH|].
      destruct packet as [|h t']; [apply hoare_ret; auto|]. apply IH.
    + eapply hoare_bind; [apply store_delete_i|]. intros ok. apply IH.
    + eapply hoare_bind; [apply store_delete_i|]. intros ok. apply IH.
Qed.

Definition adopted (cf : scfg) (oc : option client) : Prop :=
  match oc with
  | Some c' => k_wsem c' = WsPending /\ k_pack c' = [] /\ s_cfg (k_cfg c') = s_cfg cf
  | None => True
  end.

Lemma op_adopt_i fz c cf z1 z2 :
  hoare (Inv fz None c) (op_adopt cf z1 z2) (fun p m G => Inv fz None c m G /\ adopted cf (fst p)).
Proof.
  unfold op_adopt. eapply hoare_bind.
  { eapply hoare_post; [apply hoare_quiet, ask_store_quiet; exact I|]. intros v m G H. exact H. }
  intros a.
  assert (Back : forall m G, (exists m0, Inv fz None c m0 G /\ ask_rel QList m0 a m) -> Inv fz None c m G).
  { intros m G (m0 & H & R). destruct a as [ks|raw| |]; cbn [ask_rel] in R.
    - destruct R as (_ & _ & ->). exact H.
    - destruct R as (k' & E & _). discriminate.
    - destruct R as [(k' & v' & E & _)|(k' & E & _)]; discriminate.
    - subst. exact H. }
  destruct a as [keys|raw| |]; try apply hoare_fail.
  2:{ apply hoare_ret. intros m G H. split; [apply Back, H|exact I]. }
  eapply hoare_pre; [exact Back|].
  eapply hoare_bind; [apply adopt_scan_i|]. intros rr.
  destruct rr as [acc|e]; [|apply hoare_ret; intros m G H; split; [exact H|exact I]].
  destruct (clean_seq (keys_of (a_alo acc))) as [alo g1].
  destruct (clean_seq (keys_of (a_eo acc))) as [eo g2].
  destruct (clean_seq (keys_of (a_rel acc))) as [rel g3].
  cbv zeta.
  match goal with |- hoare _ (if ?b then _ else _) _ => destruct b end; apply hoare_ret;
    intros m G H; (split; [exact H|]); [exact I|].
  cbn [fst adopted].
  match goal with |- context [if ?g then [] else rel] => generalize (if g then [] else rel) end.
  intros rel'. destruct alo, eo, rel'; repeat split; reflexivity.
Qed.

(* --- one API call --- *)

(* the Go API offers the persisted levels 1 and 2 and the subscription maxima 0, 1, 2 *)
Definition op_ok (o : op) : Prop :=
  match o with
  | OpPubP l _ _ _ => l = 1 \/ l = 2
  | OpSub l _ => l < 3
  | _ => True
  end.

Theorem step_i fz c o : op_ok o -> ispec fz c (step c o).
Proof.
  intros Hok. unfold step. cbv zeta.
  eapply ispec_same with (c1 := c <| k_done := [] |> <| k_xev := [] |>); [reflexivity|].
  destruct o; cbn [op_ok] in Hok.
  - apply read_slices_i.
  - apply read_all_op_i.
  - apply op_publish_i.
  - apply op_publish_persisted_i, Hok.
  - apply op_subscribe_i. intros _. exact Hok.
  - apply op_subscribe_i. discriminate.
  - apply op_ping_i.
  - apply op_quit_i.
  - apply op_close_i.
  - apply op_disconnect_i.
  - eapply hoare_bind; [apply op_adopt_i|]. intros [oc r]. cbv beta iota.
    destruct oc as [c'|]; apply hoare_ret; intros m G [H A]; [|exact H].
    destruct A as (A1 & A2 & A3). cbn [fst].
    apply (Inv_set_pack fz _ [] m G) in H; [|left; reflexivity].
    eapply Inv_closed; [| | | |exact H].
    + reflexivity.
    + cbn. exact A2.
    + cbn. exact A3.
    + cbn. rewrite A1. auto.
  - apply ispec_ret_pair, wpj_op_read_backoff.
Qed.

(* ================================================================== *)
(* 6. One step, and all histories                                      *)

Lemma Inv_unfreeze fz su c m G : Inv fz su c m G -> Inv None su c m G.
Proof. intros [A1 A2 A3 A4 A5 A6 A7 A8]. split; auto. intros cn s E. discriminate. Qed.

(* L-C, one step: every API call, under every script, keeps the invariant *)
Theorem step_inv fz c o w c' r w' m G :
  op_ok o -> w_store w = Some m -> Inv fz None c m G -> step c o w = Some ((c', r), w') ->
  exists m' d, w_store w' = Some m' /\ wrel w w' d /\ Inv fz None c' m' (G ++ d).
Proof. intros Hok Hm HI E. exact (step_i fz c o Hok w (c', r) w' m G Hm HI E). Qed.

Theorem step_conn_log_inv c o w c' r w' m G :
  op_ok o -> w_store w = Some m -> ConnLogInv c m G -> step c o w = Some ((c', r), w') ->
  exists m' d, w_store w' = Some m' /\ wrel w w' d /\ ConnLogInv c' m' (G ++ d).
Proof. apply step_inv. Qed.

(* L-A as a property of the log of one step: what each connection accepted during the
   step is whole packets followed by at most a prefix of one *)
Theorem step_writes_framed c o w c' r w' m :
  op_ok o -> w_store w = Some m -> store_ok m -> cfg_wf (s_cfg (k_cfg c)) -> sendable (k_pack c) ->
  (forall cn, k_wsem c = WsConn cn -> cn < k_nconn c) ->
  step c o w = Some ((c', r), w') ->
  exists tr, grows w w' tr /\ t_wr w' = wtape (t_wr w) tr /\
             forall cn, framed (wire (wchunks (t_wr w) tr) cn).
Proof.
  intros Hok Hm H1 H2 H3 H4 E.
  destruct (step_inv None c o w c' r w' m [] Hok Hm (Inv_empty c m H1 H2 H3 H4) E)
    as (m' & d & _ & (tr & Gr & Tp & ->) & HI).
  exists tr. split; [exact Gr|]. split; [exact Tp|]. intros cn. apply HI.
Qed.

(* L-B: a failed write gives the write token up ... *)
Theorem locked_write_error_gives_up c cn bufs single w c' e w' :
  locked_write c cn bufs single w = Some ((c', e), w') -> e <> 0 -> k_wsem c' = WsPending.
Proof.
  intros E He. destruct (locked_write_spec c cn bufs single _ _ _ E) as (tr & _ & (r & wtr & _ & _ & H)).
  cbn [fst snd] in H. destruct H as [(_ & _ & _ & ->)|(_ & _ & -> & _)]; [exfalso; apply He; reflexivity|reflexivity].
Qed.

(* ... and a connection that is below k_nconn without holding the token is never written
   again and never gets the token back: its stream is frozen *)
Theorem step_dead_frozen c o w c' r w' m G cn :
  op_ok o -> w_store w = Some m -> ConnLogInv c m G -> cn < k_nconn c -> k_wsem c <> WsConn cn ->
  step c o w = Some ((c', r), w') ->
  exists m' d, w_store w' = Some m' /\ wrel w w' d /\ ConnLogInv c' m' (G ++ d) /\
               chunks_on d cn = [] /\ wire d cn = [] /\ cn < k_nconn c' /\ k_wsem c' <> WsConn cn.
Proof.
  intros Hok Hm HI L Hw E.
  destruct (step_inv _ c o w c' r w' m G Hok Hm (Inv_freeze c m G cn HI L Hw) E)
    as (m' & d & Hm' & Wr & HI').
  exists m', d. split; [exact Hm'|]. split; [exact Wr|]. split; [eapply Inv_unfreeze, HI'|].
  destruct (iv_frozen _ _ _ _ _ _ _ _ HI' cn _ eq_refl) as (B1 & B2 & _ & B4).
  rewrite chunks_on_app in B4.
  rewrite <- (app_nil_r (chunks_on G cn)) in B4 at 2. apply app_inv_head in B4.
  repeat split; auto. rewrite wire_chunks_on, B4. reflexivity.
Qed.

(* the same, read the other way: a connection written to during a step held the write
   token when the step began or was dialed by it *)
Corollary step_writes_only_live c o w c' r w' m G cn :
  op_ok o -> w_store w = Some m -> ConnLogInv c m G -> step c o w = Some ((c', r), w') ->
  exists d, wrel w w' d /\ (chunks_on d cn <> [] -> k_wsem c = WsConn cn \/ k_nconn c <= cn).
Proof.
  intros Hok Hm HI E.
  destruct (step_conn_log_inv c o w c' r w' m G Hok Hm HI E) as (m' & d & _ & Wr & _).
  exists d. split; [exact Wr|]. intros Hne.
  destruct (N.le_gt_cases (k_nconn c) cn) as [L|L]; [right; exact L|left].
  assert (Dead : k_wsem c <> WsConn cn -> False).
  { intros Hw.
    destruct (step_dead_frozen c o w c' r w' m G cn Hok Hm HI L Hw E) as (m2 & d2 & _ & Wr2 & _ & Z & _).
    destruct Wr as (t1 & G1 & _ & ->). destruct Wr2 as (t2 & G2 & _ & ->).
    rewrite (grows_det _ _ _ _ G1 G2) in Hne. contradiction. }
  destruct (k_wsem c) as [| |cn'|]; try (exfalso; apply Dead; discriminate).
  destruct (N.eq_dec cn' cn) as [->|Ne]; [reflexivity|]. exfalso. apply Dead. congruence.
Qed.

(* connection numbers only grow *)
Theorem step_nconn_mono c o w c' r w' m G :
  op_ok o -> w_store w = Some m -> ConnLogInv c m G -> step c o w = Some ((c', r), w') ->
  k_nconn c <= k_nconn c'.
Proof.
  intros Hok Hm HI E. destruct (N.le_gt_cases (k_nconn c) (k_nconn c')) as [L|L]; [exact L|exfalso].
  set (cn0 := k_nconn c - 1).
  assert (H0 : Inv None None c m [(cn0, packet_pingreq)]).
  { destruct HI as [A1 A2 A3 A4 A5 A6 A7 A8].
    assert (W : forall cn, wire [(cn0, packet_pingreq)] cn = if cn0 =? cn then packet_pingreq else []).
    { intros cn. cbn [wire flat_map fst snd]. rewrite app_nil_r. reflexivity. }
    split; auto.
    - intros cn Hc. rewrite W. assert (cn0 =? cn = false) as -> by (apply N.eqb_neq; unfold cn0; lia). reflexivity.
    - intros cn. rewrite W. destruct (cn0 =? cn); apply whole_framed; [apply whole_one, one_packet_pingreq|apply whole_nil].
    - intros cn Hc. split; [apply A6, Hc|]. rewrite W.
      destruct (cn0 =? cn); [apply whole_one, one_packet_pingreq|apply whole_nil].
    - intros cn Hc. discriminate.
    - intros cn s Hc. discriminate. }
  destruct (step_inv _ c o w c' r w' m _ Hok Hm H0 E) as (m' & d & _ & _ & HI').
  pose proof (iv_fresh _ _ _ _ _ _ _ _ HI' cn0 ltac:(unfold cn0; lia)) as F.
  rewrite wire_app in F. cbn [wire flat_map fst snd] in F. rewrite N.eqb_refl in F. discriminate.
Qed.

(* --- histories of the closed system (Outbound.run) with the ghost --- *)

Fixpoint run_wire (s : sys) (h : list (op * tapes)) (G : delta) : sys * delta :=
  match h with
  | [] => (s, G)
  | (o, tp) :: r => match exec s o tp with
                    | Some (s', _, log) => run_wire s' r (G ++ wchunks (tp_wr tp) log)
                    | None => run_wire s r G
                    end
  end.

Lemma run_wire_run h : forall s G, fst (run_wire s h G) = run s h.
Proof.
  induction h as [|[o tp] h IH]; intros s G; cbn [run_wire run]; [reflexivity|].
  destruct (exec s o tp) as [[[s' r] log]|]; apply IH.
Qed.

Theorem exec_inv fz s o tp s' r log G :
  op_ok o -> exec s o tp = Some (s', r, log) -> Inv fz None (sy_c s) (sy_m s) G ->
  Inv fz None (sy_c s') (sy_m s') (G ++ wchunks (tp_wr tp) log).
Proof.
  intros Hok E HI. unfold exec in E.
  destruct (step (sy_c s) o (world_of (sy_m s) tp)) as [[[c' r'] w]|] eqn:St; [|discriminate].
  inversion E; subst. clear E.
  destruct (step_inv fz _ _ (world_of (sy_m s) tp) _ _ _ (sy_m s) G Hok eq_refl HI St) as (m' & d & Hm' & (tr & Gr & _ & ->) & HI').
  unfold grows in Gr. cbn [world_of w_log] in Gr. rewrite app_nil_r in Gr.
  rewrite Gr, rev_involutive. unfold store_of_world. rewrite Hm'. cbn [sy_c sy_m]. exact HI'.
Qed.

Theorem run_inv fz h : forall s G,
  Forall (fun p => op_ok (fst p)) h -> Inv fz None (sy_c s) (sy_m s) G ->
  Inv fz None (sy_c (fst (run_wire s h G))) (sy_m (fst (run_wire s h G))) (snd (run_wire s h G)).
Proof.
  induction h as [|[o tp] h IH]; intros s G F HI; cbn [run_wire]; [exact HI|].
  inversion F as [|? ? Ho F']; subst. cbn [fst] in Ho.
  destruct (exec s o tp) as [[[s' r] log]|] eqn:E; [|apply IH; assumption].
  apply IH; [exact F'|]. eapply exec_inv; eassumption.
Qed.

Theorem init_inv cf cid tp s0 :
  cfg_wf (s_cfg cf) -> init_sys cf cid tp = Some s0 -> ConnLogInv (sy_c s0) (sy_m s0) [].
Proof.
  intros Hcf H. unfold init_sys, op_init in H.
  destruct (deny_of (string_check cid)) eqn:D; [cbv [ret] in H; discriminate|].
  unfold bind, ask_store, world_of in H. cbn [w_store t_stf] in H.
  destruct (tp_stf tp) as [|[|] fl]; cbn in H; try discriminate.
  unfold rugged_save, bind, ask_store, ret in H. cbn in H.
  destruct fl as [|[|] fl']; cbn in H; try discriminate.
  inversion H; subst. cbn [sy_c sy_m]. apply Inv_empty.
  - constructor; [|constructor]. apply ent_ok_encode. cbn.
    destruct (string_check cid) eqn:S; [discriminate|]. apply string_check_none_bytes, S.
  - exact Hcf.
  - left. reflexivity.
  - intros cn Hc. discriminate.
Qed.

(* L-C: the invariant over all histories, AdoptSession included *)
Theorem run_conn_log_inv cf cid tp0 s0 h :
  cfg_wf (s_cfg cf) -> init_sys cf cid tp0 = Some s0 -> Forall (fun p => op_ok (fst p)) h ->
  ConnLogInv (sy_c (run s0 h)) (sy_m (run s0 h)) (snd (run_wire s0 h [])).
Proof.
  intros Hcf Hi Hh. rewrite <- (run_wire_run h s0 []).
  apply run_inv; [exact Hh|]. eapply init_inv; eassumption.
Qed.

(* every connection of every history: whole packets, then at most a prefix of one; no
   prefix on the connection that holds the write token *)
Corollary run_conn_framed cf cid tp0 s0 h cn :
  cfg_wf (s_cfg cf) -> init_sys cf cid tp0 = Some s0 -> Forall (fun p => op_ok (fst p)) h ->
  framed (wire (snd (run_wire s0 h [])) cn) /\
  (k_wsem (sy_c (run s0 h)) = WsConn cn -> whole (wire (snd (run_wire s0 h [])) cn)).
Proof.
  intros Hcf Hi Hh. pose proof (run_conn_log_inv cf cid tp0 s0 h Hcf Hi Hh) as H.
  split; [apply H|]. intros E. apply (iv_alive _ _ _ _ _ _ _ _ H cn E).
Qed.

(* --- the same in the vocabulary of the trace checker --- *)

(* the environment calls of one step with the answers the write tape gave *)
Fixpoint tevs (i : N) (tape : list wanswer) (tr : list req) : list tev :=
  match tr with
  | [] => []
  | QWrite c [] :: r => TEv i (QWrite c []) (AWr 0 WOk) :: tevs i tape r
  | QWrite c bs :: r => match tape with
                        | [] => []
                        | a :: t => TEv i (QWrite c bs) (AWr (fst a) (snd a)) :: tevs i t r
                        end
  | q :: r => TEv i q ANone :: tevs i tape r
  end.

Fixpoint run_trace (s : sys) (h : list (op * tapes)) (i : N) : list tev :=
  match h with
  | [] => []
  | (o, tp) :: r => match exec s o tp with
                    | Some (s', _, log) => tevs i (tp_wr tp) log ++ run_trace s' r (i + 1)
                    | None => run_trace s r (i + 1)
                    end
  end.

Lemma out_bytes_app cn t1 t2 : out_bytes cn (t1 ++ t2) = out_bytes cn t1 ++ out_bytes cn t2.
Proof.
  induction t1 as [|e t1 IH]; [reflexivity|]. cbn [app out_bytes].
  destruct e; auto. destruct q; auto. destruct (c =? cn); [rewrite IH; apply app_assoc|exact IH].
Qed.

Lemma out_bytes_tevs cn i tr : forall tape, out_bytes cn (tevs i tape tr) = wire (wchunks tape tr) cn.
Proof.
  induction tr as [|q r IH]; intros tape; [reflexivity|].
  destruct q; cbn [tevs wchunks out_bytes]; auto.
  destruct bs as [|b bs].
  - cbn [out_bytes accepted_of]. destruct (c =? cn); apply IH.
  - destruct tape as [|[n res] t]; [reflexivity|].
    cbn [out_bytes wire flat_map fst snd]. fold (wire (wchunks t r) cn). rewrite IH.
    destruct (c =? cn); [|reflexivity]. f_equal.
Qed.

Lemma out_bytes_run_trace cn h : forall s G i,
  wire (snd (run_wire s h G)) cn = wire G cn ++ out_bytes cn (run_trace s h i).
Proof.
  induction h as [|[o tp] h IH]; intros s G i; cbn [run_wire run_trace].
  - cbn [snd out_bytes]. now rewrite app_nil_r.
  - destruct (exec s o tp) as [[[s' r] log]|]; [|apply IH].
    rewrite (IH s' _ (i + 1)), wire_app, out_bytes_app, out_bytes_tevs, app_assoc. reflexivity.
Qed.

(* C08Check.conn_whole holds of the trace of every history of the model *)
Theorem c08_conn_whole_model cf cid tp0 s0 h cn :
  cfg_wf (s_cfg cf) -> init_sys cf cid tp0 = Some s0 -> Forall (fun p => op_ok (fst p)) h ->
  conn_whole (run_trace s0 h 1) cn = true.
Proof.
  intros Hcf Hi Hh. unfold conn_whole.
  pose proof (out_bytes_run_trace cn h s0 [] 1) as E. cbn [wire flat_map app] in E. rewrite <- E.
  apply framed_tail_incomplete. eapply run_conn_framed; eassumption.
Qed.

(* ================================================================== *)
(* 7. Examples                                                         *)

Definition wp_cfg : scfg :=
  mkScfg {| cfg_user := []; cfg_pass := None; cfg_will := None; cfg_keepalive := 0; cfg_clean := false |}
         true 4 4 256 1000 1000.

Lemma wp_cfg_wf : cfg_wf (s_cfg wp_cfg).
Proof. unfold cfg_wf. cbn. repeat split; try apply Forall_nil; unfold len; cbn [length]; lia. Qed.

(* connect and receive; a PINGREQ cut after one byte by two deadline expiries (the second
   without progress: the request fails and the connection is given up); the next
   ReadSlices redials; a PINGREQ on the new connection *)
Definition wp_hist : list (op * tapes) :=
  [ (OpRead, mkTapes [false] [true] [(0, WOk)] [RData [32; 2; 0; 0]; RData [48; 3; 0; 1; 97]]);
    (OpPing, mkTapes [] [] [(1, WTimeout); (0, WTimeout)] []);
    (OpRead, mkTapes [false] [true] [(0, WOk)] [RClosed; RData [32; 2; 0; 0]; RData [48; 3; 0; 1; 97]]);
    (OpPing, mkTapes [] [] [(0, WOk)] []) ].

(* connection 0 is dead and keeps the tail [192]; connection 1 holds the token and carries
   whole packets; all hypotheses of run_conn_log_inv hold *)
Example wp_short_write_history :
  exists s0, init_sys wp_cfg [99] (mkTapes [false; false] [] [] []) = Some s0 /\
    Forall (fun p => op_ok (fst p)) wp_hist /\
    let s := run s0 wp_hist in
    let G := snd (run_wire s0 wp_hist []) in
    k_wsem (sy_c s) = WsConn 1 /\ k_nconn (sy_c s) = 2 /\
    packets_of (wire G 0) = ([PConnect false 0 [99] None None None], [192]) /\
    packets_of (wire G 1) = ([PConnect false 0 [99] None None None; PPingreq], []) /\
    conn_whole (run_trace s0 wp_hist 1) 0 = true /\ conn_whole (run_trace s0 wp_hist 1) 1 = true.
Proof.
  eexists. split; [vm_compute; reflexivity|]. split; [repeat constructor|].
  vm_compute. repeat split; reflexivity.
Qed.

(* The hypotheses cannot be dropped: resend writes whatever the Persistence returns.
   (a) map mode, a forged record (valid checksum, not a packet) under a publish key:
   AdoptSession takes it over, the next connect resends it with the DUP flag. *)
Example forged_record_is_resent :
  let s := mkSys (new_client wp_cfg 0) [(0, encode_value [99] 1); (32768, encode_value [50; 0] 2)] in
  let h := [ (OpAdopt 4 4, mkTapes [false; false] [] [] []);
             (OpRead, mkTapes [false; false] [true] [(0, WOk); (0, WOk)]
                              [RData [32; 2; 1; 0]; RData [48; 3; 0; 1; 97]]) ] in
  wire (snd (run_wire s h [])) 0 = [16; 13; 0; 4; 77; 81; 84; 84; 4; 0; 0; 0; 0; 1; 99; 58; 0] /\
  conn_whole (run_trace s h 1) 0 = false.
Proof. vm_compute. split; reflexivity. Qed.

(* (b) scripted mode (w_store = None): a hostile Persistence answers the load of a pending
   PublishAtLeastOnce with two zero bytes *)
Example hostile_store_is_resent :
  let c := new_client wp_cfg 0 <| k_acc1 := 1 |> <| k_q1 := [1] |> in
  let w := mkWorld [SVal (Some (encode_value [99] 1)); SVal (Some (encode_value [0; 0] 2))] [] None [true]
                   [(0, WOk); (0, WOk)] [RData [32; 2; 1; 0]; RData [48; 3; 0; 1; 97]] [] in
  match step c OpRead w with
  | Some ((c', r), w') =>
      wire (wchunks (t_wr w) (rev (w_log w'))) 0 = [16; 13; 0; 4; 77; 81; 84; 84; 4; 0; 0; 0; 0; 1; 99; 0; 0]
  | None => False
  end.
Proof. vm_compute. reflexivity. Qed.

(* (c) a subscription maximum outside the API (3) is composed into the packet as it is *)
Example sub_level3_not_a_packet : parse_packet (subscribe_packet 24576 [[97]] 3) = None.
Proof. vm_compute. reflexivity. Qed.
