(* Observations of a history as one flat trace, and the derived views the property
   checkers (CxxCheck.v) judge: bytes per connection in both directions, the packets
   they parse to (independent parser MQ.Spec), Persistence operations, returns. *)
From Coq Require Export ZArith.
From MQ Require Export SessionCheck Spec.

Inductive tev :=
| TCall (i : N) (o : op)                                  (* API call number i starts *)
| TEv (i : N) (q : req) (a : ans)                          (* a call into the environment and its answer *)
| TRet (i : N) (o : op) (r : retv) (done : list (N * err * list (list N)))
       (xev : list (N * option err)) (online : bool)       (* the call returned / was seen blocked *)
| TStore (i : N) (m : store).                              (* the environment rewrote the Persistence *)

Fixpoint flatten (steps : list stepobs) (i : N) : list tev :=
  match steps with
  | [] => []
  | s :: r =>
    (match so_store s with Some m => [TStore i m] | None => [] end) ++
    TCall i (so_op s) :: map (fun e => match e with Ev q a => TEv i q a end) (so_evs s)
      ++ [TRet i (so_op s) (so_ret s) (so_done s) (so_xev s) (so_online s)] ++ flatten r (i + 1)
  end.

Definition trace_of (h : histcase) : list tev :=
  match h with Hist _ _ ievs _ steps =>
    map (fun e => match e with Ev q a => TEv 0 q a end) ievs ++ flatten steps 1
  end.
Definition cfg_of (h : histcase) : scfg := match h with Hist cf _ _ _ _ => cf end.
Definition cid_of (h : histcase) : list N := match h with Hist _ cid _ _ _ => cid end.

(* bytes accepted by one conn.Write *)
Definition accepted_of (bs : list N) (a : ans) : list N :=
  match a with
  | AWr n WOk => bs
  | AWr n _ => firstn (N.to_nat n) bs
  | _ => []
  end.

(* everything connection c accepted, in order *)
Fixpoint out_bytes (c : N) (t : list tev) : list N :=
  match t with
  | [] => []
  | TEv _ (QWrite c' bs) a :: r => if c' =? c then accepted_of bs a ++ out_bytes c r else out_bytes c r
  | _ :: r => out_bytes c r
  end.

(* everything the client read from connection c *)
Fixpoint in_bytes (c : N) (t : list tev) : list N :=
  match t with
  | [] => []
  | TEv _ (QRead c' _ _) (ARd (RData bs)) :: r => if c' =? c then bs ++ in_bytes c r else in_bytes c r
  | _ :: r => in_bytes c r
  end.

(* number of connections dialed *)
Fixpoint conn_count (t : list tev) : N :=
  match t with
  | [] => 0
  | TEv _ QDial (ADial true) :: r => 1 + conn_count r
  | _ :: r => conn_count r
  end.

Fixpoint upto (n : nat) : list N :=
  match n with O => [] | S k => upto k ++ [N.of_nat k] end.
Definition conns (t : list tev) : list N := upto (N.to_nat (conn_count t)).

Definition packets_of (bs : list N) : list packet * list N := parse_stream (S (length bs)) bs.

(* is the leftover an incomplete packet (rather than garbage)? header complete => fewer
   body bytes than announced; header incomplete => at most 4 bytes with continuation bits *)
Definition incomplete_tail (l : list N) : bool :=
  match l with
  | [] => true
  | _ :: r =>
    match take_remlen r with
    | Some (n, body) => N.of_nat (length body) <? n
    | None => (length r <? 4)%nat && forallb (fun b => 128 <=? b) r
    end
  end.

(* Persistence content reconstructed from the observed operations *)
Fixpoint obs_put (m : list (N * list N)) (k : N) (v : list N) : list (N * list N) :=
  match m with
  | [] => [(k, v)]
  | (k', v') :: r => if k' =? k then (k, v) :: r else (k', v') :: obs_put r k v
  end.
Fixpoint obs_del (m : list (N * list N)) (k : N) : list (N * list N) :=
  match m with
  | [] => []
  | (k', v') :: r => if k' =? k then r else (k', v') :: obs_del r k
  end.
Definition obs_store_step (m : list (N * list N)) (e : tev) : list (N * list N) :=
  match e with
  | TEv _ (QSave k v) ADone => obs_put m k v
  | TEv _ (QDelete k) ADone => obs_del m k
  | TStore _ m' => m'
  | _ => m
  end.
Definition obs_has (m : list (N * list N)) (k : N) : bool := existsb (fun kv => fst kv =? k) m.
Definition obs_get (m : list (N * list N)) (k : N) : option (list N) :=
  match filter (fun kv => fst kv =? k) m with (_, v) :: _ => Some v | [] => None end.

Definition in_alo (k : N) : bool := (32768 <=? k) && (k <? 49152).
Definition in_eo (k : N) : bool := (49152 <=? k) && (k <? 65536).
Definition is_marker (k : N) : bool := (65536 <=? k) && (k <? 131072).

Definition has_bit (e : err) (b : N) : bool := negb (N.land e b =? 0).

(* generic fold over the trace with the reconstructed store available *)
Fixpoint fold_trace {S} (f : S -> list (N * list N) -> tev -> S * bool) (s : S)
         (m : list (N * list N)) (t : list tev) : bool :=
  match t with
  | [] => true
  | e :: r => let '(s', ok) := f s m e in
              if ok then fold_trace f s' (obs_store_step m e) r else false
  end.

Definition stored_packet (v : list N) : option (list N) :=
  match decode_value v with DecOk p _ => Some p | _ => None end.

(* no API call may panic (the harness reports a recovered panic as class bit 2^21) *)
(* 2^21: recovered panic; 2^22: the call did not return within one virtual hour (wedged) *)
Definition ret_panicked (r : retv) : bool :=
  match r with
  | RetErr e => has_bit e 2097152 || has_bit e 4194304
  | RetAdopt _ e => has_bit e 2097152 || has_bit e 4194304
  | _ => false
  end.
Definition no_panic (t : list tev) : bool :=
  forallb (fun e => match e with
                    | TRet _ _ r done _ _ => negb (ret_panicked r) && forallb (fun d => negb (has_bit (snd (fst d)) 2097152)) done
                    | _ => true
                    end) t.
