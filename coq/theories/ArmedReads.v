(* "Never waits beyond PauseTimeout" (C10/C13): which conn.Read calls are made with a read
   deadline armed.

   L1 (Reader.v, any reader state and any connection script): with a PauseTimeout
     - peekPacket: every conn.Read of the call is armed, except possibly the very first one,
       and that one only when bufio's buffer is empty on entry (the idle wait for the first
       byte of a packet); the deadline is cleared on return;
     - discard, BigMessage.ReadAll: every conn.Read of the call is armed; cleared on return;
     - the CONNACK wait (Peek(4) with the deadline set before): every conn.Read armed.
   L2 (Session.v, any client state with the deadline cleared and any world): every QRead a
   step logs is armed or asks for the full buffer capacity (bufio empty: the idle read);
   the deadline is cleared again after every step.  Proofs only. *)
From Coq Require Import ZArith ZifyN ZifyNat ZifyBool Lia List Bool.
From RecordUpdate Require Import RecordUpdate.
From MQ Require Import Reader ReaderRun ReaderProofs Session Outbound WriteLoopProofs InboundProofs.
Import ListNotations.
Local Open Scope N_scope.

(* ------------------------------------------------------------------ *)
(* 1. The log of conn.Read calls                                       *)

Definition armed (e : bool * N) : Prop := fst e = true.

(* bufio level (ReadByte, Peek, Discard, Read): the deadline is not touched; every conn.Read
   is logged with the deadline state of the caller *)
Definition bufio_ok (s s' : rst) : Prop :=
  rarmed s' = rarmed s /\ rcap s' = rcap s /\
  exists new, rlog s' = new ++ rlog s /\ Forall (fun e => fst e = rarmed s) new.

(* client level: all conn.Reads of the call armed *)
Definition armed_ext (s s' : rst) : Prop :=
  rcap s' = rcap s /\ exists new, rlog s' = new ++ rlog s /\ Forall armed new.

Lemma bufio_ok_refl s : bufio_ok s s.
Proof. split; [reflexivity|]. split; [reflexivity|]. exists []. split; [reflexivity|constructor]. Qed.

Lemma bufio_ok_trans s s1 s2 : bufio_ok s s1 -> bufio_ok s1 s2 -> bufio_ok s s2.
Proof.
  intros (A & C & n1 & L1 & F1) (A' & C' & n2 & L2 & F2).
  split; [congruence|]. split; [congruence|]. exists (n2 ++ n1).
  split; [rewrite L2, L1; apply app_assoc|]. apply Forall_app. split; [|exact F1].
  rewrite A in F2. exact F2.
Qed.

Lemma bufio_ok_same s s' :
  rarmed s' = rarmed s -> rcap s' = rcap s -> rlog s' = rlog s -> bufio_ok s s'.
Proof. intros A C L. split; [exact A|]. split; [exact C|]. exists []. split; [exact L|constructor]. Qed.

Ltac bok := first [apply bufio_ok_refl | apply bufio_ok_same; reflexivity].

Lemma bufio_ok_buf s s' b : bufio_ok s s' -> bufio_ok s (rst_with_buf s' b).
Proof. intros H. exact H. Qed.
Lemma bufio_ok_err s s' e : bufio_ok s s' -> bufio_ok s (rst_with_err s' e).
Proof. intros H. exact H. Qed.

Lemma armed_ext_refl s : armed_ext s s.
Proof. split; [reflexivity|]. exists []. split; [reflexivity|constructor]. Qed.

Lemma armed_ext_trans s s1 s2 : armed_ext s s1 -> armed_ext s1 s2 -> armed_ext s s2.
Proof.
  intros (C & n1 & L1 & F1) (C' & n2 & L2 & F2). split; [congruence|]. exists (n2 ++ n1).
  split; [rewrite L2, L1; apply app_assoc|]. apply Forall_app. split; assumption.
Qed.

(* a bufio operation under an armed deadline *)
Lemma bufio_armed s s' : rarmed s = true -> bufio_ok s s' -> armed_ext s s'.
Proof.
  intros A (_ & C & new & L & F). split; [exact C|]. exists new. split; [exact L|].
  rewrite A in F. exact F.
Qed.

(* a bufio operation that made no conn.Read *)
Lemma armed_ext_same s s' : rcap s' = rcap s -> rlog s' = rlog s -> armed_ext s s'.
Proof. intros C L. split; [exact C|]. exists []. split; [exact L|constructor]. Qed.

Lemma armed_ext_arm_l s s' a : armed_ext (rst_arm s a) s' -> armed_ext s s'.
Proof. intros H. exact H. Qed.
Lemma armed_ext_arm_r s s' a : armed_ext s s' -> armed_ext s (rst_arm s' a).
Proof. intros H. exact H. Qed.

(* ------------------------------------------------------------------ *)
(* 2. bufio                                                            *)

Lemma conn_read_log s want a s' : conn_read s want = Some (a, s') ->
  rlog s' = (rarmed s, want) :: rlog s /\ rarmed s' = rarmed s /\ rcap s' = rcap s /\
  rbuf s' = rbuf s /\ rerr s' = rerr s.
Proof.
  unfold conn_read. destruct (rtape s) as [|x t]; [discriminate|].
  destruct x as [bs| | | |]; try (intros H; injection H as <- <-; cbn; auto).
  destruct (want <? len bs); intros H; injection H as <- <-; cbn; auto.
Qed.

Lemma fill_log s s' : fill s = Some s' ->
  rlog s' = (rarmed s, rcap s - len (rbuf s)) :: rlog s /\ rarmed s' = rarmed s /\ rcap s' = rcap s.
Proof.
  unfold fill. destruct (conn_read s _) as [[a s1]|] eqn:E; [|discriminate].
  apply conn_read_log in E. destruct E as (L & A & C & _).
  destruct a; intros H; injection H as <-; cbn [rst_with_buf rst_with_err rlog rarmed rcap]; auto.
Qed.

Lemma fill_ok s s' : fill s = Some s' -> bufio_ok s s'.
Proof.
  intros H. apply fill_log in H. destruct H as (L & A & C).
  split; [exact A|]. split; [exact C|]. exists [(rarmed s, rcap s - len (rbuf s))].
  split; [exact L|]. constructor; [reflexivity|constructor].
Qed.

(* ReadByte: at most one conn.Read, and only with an empty buffer and no latched error *)
Lemma read_byte_log s r s' : read_byte s = (r, s') ->
  rarmed s' = rarmed s /\ rcap s' = rcap s /\
  (rlog s' = rlog s \/
   (rbuf s = [] /\ rerr s = None /\ rlog s' = (rarmed s, rcap s) :: rlog s)).
Proof.
  unfold read_byte. destruct (rbuf s) as [|b bs] eqn:B.
  - destruct (rerr s) as [e|] eqn:Ee.
    + intros H; injection H as <- <-. cbn. auto.
    + destruct (fill s) as [s1|] eqn:Ef.
      * apply fill_log in Ef. destruct Ef as (L & A & C). rewrite B in L. cbn [length] in L.
        change (len []) with 0 in L. rewrite N.sub_0_r in L.
        destruct (rbuf s1) as [|b bs]; [destruct (rerr s1)|];
          intros H; injection H as <- <-; cbn [rst_with_buf rst_with_err rlog rarmed rcap]; auto 10.
      * intros H; injection H as <- <-. auto.
  - intros H; injection H as <- <-. cbn. auto.
Qed.

Lemma read_byte_ok s r s' : read_byte s = (r, s') -> bufio_ok s s'.
Proof.
  intros H. apply read_byte_log in H. destruct H as (A & C & [L|(_ & _ & L)]).
  - apply bufio_ok_same; assumption.
  - split; [exact A|]. split; [exact C|]. eexists [_]. split; [exact L|].
    constructor; [reflexivity|constructor].
Qed.

Lemma read_byte_buffered s r s' : read_byte s = (r, s') -> rbuf s <> [] -> rlog s' = rlog s.
Proof.
  intros H Hb. apply read_byte_log in H. destruct H as (_ & _ & [L|(B & _)]); [exact L|contradiction].
Qed.

(* Peek(n): conn.Reads only while fewer than n bytes are buffered *)
Lemma peek_fill_ok fuel : forall s n s', peek_fill fuel s n = Some s' ->
  bufio_ok s s' /\ (n <= len (rbuf s) -> rlog s' = rlog s).
Proof.
  induction fuel as [|f IH]; intros s n s'; cbn [peek_fill].
  - intros H; injection H as <-. split; [bok|reflexivity].
  - destruct (len (rbuf s) <? n) eqn:Lt; cbn [andb].
    + destruct ((len (rbuf s) <? rcap s) && _).
      * destruct (fill s) as [s1|] eqn:Ef; [|discriminate]. intros H.
        apply IH in H. destruct H as [H _]. apply N.ltb_lt in Lt.
        split; [eapply bufio_ok_trans; [apply fill_ok; exact Ef|exact H]|lia].
      * intros H; injection H as <-. split; [bok|reflexivity].
    + intros H; injection H as <-. split; [bok|reflexivity].
Qed.

Lemma peek_ok s n r s' : peek s n = (r, s') ->
  bufio_ok s s' /\ (n <= len (rbuf s) -> rlog s' = rlog s).
Proof.
  unfold peek. destruct (peek_fill _ s n) as [s1|] eqn:E.
  - apply peek_fill_ok in E.
    destruct (rcap s1 <? n); [intros H; injection H as <- <-; exact E|].
    destruct (len (rbuf s1) <? n); [destruct (rerr s1)|]; intros H; injection H as <- <-; exact E.
  - intros H; injection H as <- <-. split; [bok|reflexivity].
Qed.

(* Discard(n) *)
Lemma bufio_discard_ok fuel : forall s remain done r s',
  bufio_discard fuel s remain done = (r, s') -> bufio_ok s s'.
Proof.
  induction fuel as [|f IH]; intros s remain done r s'; cbn [bufio_discard].
  - intros H; injection H as <- <-. bok.
  - destruct (remain =? 0); [intros H; injection H as <- <-; bok|].
    cbv zeta.
    assert (S1 : exists o, (match rbuf s with [] => fill s | _ :: _ => Some s end) = o /\
                           match o with Some s1 => bufio_ok s s1 | None => True end).
    { destruct (rbuf s); [|eexists; split; [reflexivity|bok]].
      destruct (fill s) as [s1|] eqn:Ef; eexists; (split; [reflexivity|]); [apply fill_ok; exact Ef|exact I]. }
    destruct S1 as (o & -> & Ho). destruct o as [s1|]; [|intros H; injection H as <- <-; bok].
    destruct (_ =? 0); [intros H; injection H as <- <-; exact Ho|].
    match goal with |- context [rerr ?x] => destruct (rerr x) end.
    + intros H; injection H as <- <-. exact Ho.
    + intros H. apply IH in H. eapply bufio_ok_trans; [exact Ho|exact H].
Qed.

(* Read(p): at most one conn.Read, only with an empty buffer *)
Lemma bufio_read_ok s want r s' : bufio_read s want = (r, s') ->
  bufio_ok s s' /\ (rbuf s <> [] -> rlog s' = rlog s).
Proof.
  assert (CR : forall w a s1, conn_read s w = Some (a, s1) -> bufio_ok s s1).
  { intros w a s1 E. apply conn_read_log in E. destruct E as (L & A & C & _).
    split; [exact A|]. split; [exact C|]. eexists [_]. split; [exact L|]. constructor; [reflexivity|constructor]. }
  unfold bufio_read. destruct (rbuf s) as [|b bs] eqn:B.
  - destruct (rerr s) as [e|].
    + intros H; injection H as <- <-. split; [bok|reflexivity].
    + destruct (rcap s <=? want).
      * destruct (conn_read s want) as [[a s1]|] eqn:E.
        -- apply CR in E. destruct a; intros H; injection H as <- <-; (split; [exact E|contradiction]).
        -- intros H; injection H as <- <-. split; [bok|reflexivity].
      * destruct (conn_read s (rcap s)) as [[a s1]|] eqn:E.
        -- apply CR in E. destruct a; intros H; injection H as <- <-; (split; [exact E|contradiction]).
        -- intros H; injection H as <- <-. split; [bok|reflexivity].
  - intros H; injection H as <- <-. split; [bok|reflexivity].
Qed.

(* ------------------------------------------------------------------ *)
(* 3. The client's read loops with a PauseTimeout                      *)

(* remaining length: the deadline is set whenever the buffer is empty before ReadByte *)
Lemma remlen_loop_armed fuel : forall s shift size r s',
  remlen_loop fuel true s shift size = (r, s') -> armed_ext s s'.
Proof.
  induction fuel as [|f IH]; intros s shift size r s'; cbn [remlen_loop].
  - intros H; injection H as <- <-. apply armed_ext_refl.
  - rewrite andb_true_r.
    set (s0 := if len (rbuf s) =? 0 then rst_arm s true else s).
    assert (H0 : forall r1 s1, read_byte s0 = (r1, s1) -> armed_ext s s1).
    { intros r1 s1 E. unfold s0 in *. destruct (len (rbuf s) =? 0) eqn:Z.
      - apply armed_ext_arm_l with (a := true). apply bufio_armed; [reflexivity|].
        eapply read_byte_ok; exact E.
      - pose proof (read_byte_log _ _ _ E) as (_ & C & _).
        apply armed_ext_same; [exact C|]. eapply read_byte_buffered; [exact E|].
        intros B. rewrite B in Z. discriminate. }
    destruct (read_byte s0) as [[b|e] s1] eqn:E; specialize (H0 _ _ eq_refl).
    + destruct (b <? 128); [intros H; injection H as <- <-; exact H0|].
      destruct (21 <=? shift); [intros H; injection H as <- <-; exact H0|].
      intros H. apply IH in H. eapply armed_ext_trans; eassumption.
    + intros H; injection H as <- <-. exact H0.
Qed.

(* payload: the deadline is set whenever fewer than [size] bytes are buffered before Peek *)
Lemma slice_loop_armed fuel : forall s head size lastN r s',
  slice_loop fuel true s head size lastN = (r, s') -> armed_ext s s'.
Proof.
  induction fuel as [|f IH]; intros s head size lastN r s'; cbn [slice_loop].
  - intros H; injection H as <- <-. apply armed_ext_refl.
  - rewrite andb_true_r. cbv zeta.
    set (s0 := if len (rbuf s) <? size then rst_arm s true else s).
    set (n := if (head / 16 =? 3) && (rcap s0 <? size) then rcap s0 else size).
    assert (Hn : n <= size).
    { unfold n. destruct (head / 16 =? 3); cbn [andb]; [|lia].
      destruct (rcap s0 <? size) eqn:Lt; [apply N.ltb_lt in Lt; lia|lia]. }
    assert (H0 : forall r1 s1, peek s0 n = (r1, s1) -> armed_ext s s1).
    { intros r1 s1 E. apply peek_ok in E. destruct E as [Ok Same]. unfold s0 in *.
      destruct (len (rbuf s) <? size) eqn:Z.
      - apply armed_ext_arm_l with (a := true). apply bufio_armed; [reflexivity|exact Ok].
      - apply N.ltb_ge in Z. destruct Ok as (_ & C & _). apply armed_ext_same; [exact C|].
        apply Same. lia. }
    destruct (peek s0 n) as [[p [e|]] s1] eqn:E; specialize (H0 _ _ eq_refl).
    + destruct e; try (intros H; injection H as <- <-; exact H0).
      destruct (lastN <? len p); [|intros H; injection H as <- <-; exact H0].
      intros H. apply IH in H. eapply armed_ext_trans; eassumption.
    + destruct ((head / 16 =? 3) && _); intros H; injection H as <- <-; exact H0.
Qed.

(* peekPacket.  [first]: the conn.Read of the initial ReadByte, made with the deadline
   state of the caller and only if the buffer is empty; [rest]: everything after the first
   byte of the packet was obtained, all armed.  When the first ReadByte fails the call ends
   there.  The deadline is cleared once the first byte is there. *)
Theorem peek_packet_armed s r s' : peek_packet true s = (r, s') ->
  rcap s' = rcap s /\
  exists first rest,
    rlog s' = rest ++ first ++ rlog s /\ Forall armed rest /\
    (first = [] \/ (rbuf s = [] /\ rerr s = None /\ first = [(rarmed s, rcap s)])) /\
    ((forall e p, r <> PkErr e p) -> r <> PkBrokerTerm -> rarmed s' = false) /\
    (rarmed s' = false \/ (rarmed s' = rarmed s /\ rest = [])).
Proof.
  rewrite peek_packet_unfold.
  destruct (read_byte s) as [[b|e] s1] eqn:E; pose proof (read_byte_log _ _ _ E) as (A1 & C1 & L1).
  - assert (F : exists first, rlog s1 = first ++ rlog s /\
                (first = [] \/ (rbuf s = [] /\ rerr s = None /\ first = [(rarmed s, rcap s)]))).
    { destruct L1 as [L|(B & Er & L)]; [exists []; auto|]. eexists [_]. split; [exact L|]. right. auto. }
    destruct F as (first & Lf & Hf).
    assert (Fin : forall r2 s2, armed_ext s1 s2 -> fin_arm true (r2, s2) = (r, s') ->
      rcap s' = rcap s /\
      exists first rest,
        rlog s' = rest ++ first ++ rlog s /\ Forall armed rest /\
        (first = [] \/ (rbuf s = [] /\ rerr s = None /\ first = [(rarmed s, rcap s)])) /\
        ((forall e p, r <> PkErr e p) -> r <> PkBrokerTerm -> rarmed s' = false) /\
        (rarmed s' = false \/ (rarmed s' = rarmed s /\ rest = []))).
    { intros r2 s2 (C2 & rest & L2 & F2) H. unfold fin_arm in H. cbn [fst snd] in H.
      injection H as <- <-. cbn [rst_arm rcap rlog rarmed]. split; [congruence|].
      exists first, rest. split; [rewrite L2, Lf; reflexivity|]. auto. }
    destruct (remlen_loop 5 true s1 0 0) as [[size|[e proto]] s2] eqn:E2;
      pose proof (remlen_loop_armed _ _ _ _ _ _ E2) as X2.
    + destruct (slice_loop _ true s2 b size 0) as [r3 s3] eqn:E3.
      pose proof (slice_loop_armed _ _ _ _ _ _ _ E3) as X3.
      apply Fin. eapply armed_ext_trans; eassumption.
    + apply Fin. exact X2.
  - assert (R : forall r0, (r0, s1) = (r, s') -> (exists e0 p, r0 = PkErr e0 p) \/ r0 = PkBrokerTerm ->
      rcap s' = rcap s /\
      exists first rest,
        rlog s' = rest ++ first ++ rlog s /\ Forall armed rest /\
        (first = [] \/ (rbuf s = [] /\ rerr s = None /\ first = [(rarmed s, rcap s)])) /\
        ((forall e p, r <> PkErr e p) -> r <> PkBrokerTerm -> rarmed s' = false) /\
        (rarmed s' = false \/ (rarmed s' = rarmed s /\ rest = []))).
    { intros r0 H Hr. injection H as <- <-. split; [exact C1|].
      destruct L1 as [L|(B & Er & L)].
      - exists [], []. split; [exact L|]. split; [constructor|]. split; [auto|]. split; [|auto].
        intros H1 H2. exfalso. destruct Hr as [(e0 & p & ->)| -> ]; [exact (H1 _ _ eq_refl)|exact (H2 eq_refl)].
      - eexists [_], []. split; [exact L|]. split; [constructor|]. split; [right; auto|]. split; [|auto].
        intros H1 H2. exfalso. destruct Hr as [(e0 & p & ->)| -> ]; [exact (H1 _ _ eq_refl)|exact (H2 eq_refl)]. }
    destruct e; intros H; (apply (R _ H)); eauto.
Qed.

(* with bytes buffered on entry, every conn.Read of peekPacket is armed *)
Corollary peek_packet_buffered_armed s r s' :
  peek_packet true s = (r, s') -> rbuf s <> [] -> armed_ext s s'.
Proof.
  intros H Hb. apply peek_packet_armed in H.
  destruct H as (C & first & rest & L & F & [->|(B & _)] & _); [|contradiction].
  split; [exact C|]. exists rest. split; [exact L|exact F].
Qed.

(* discard: the deadline is renewed before each Discard attempt *)
Lemma discard_loop_armed fuel : forall s n r s',
  discard_loop fuel true s n = (r, s') -> armed_ext s s'.
Proof.
  induction fuel as [|f IH]; intros s n r s'; cbn [discard_loop].
  - intros H; injection H as <- <-. apply armed_ext_refl.
  - destruct (bufio_discard _ (rst_arm s true) n 0) as [[done e] s1] eqn:E.
    apply bufio_discard_ok in E. apply bufio_armed in E; [|reflexivity].
    apply armed_ext_arm_l in E.
    destruct e as [e|]; [|intros H; injection H as <- <-; exact E].
    destruct e; try (intros H; injection H as <- <-; exact E).
    destruct (done =? 0); [intros H; injection H as <- <-; exact E|].
    intros H. apply IH in H. eapply armed_ext_trans; eassumption.
Qed.

Theorem client_discard_armed s n r s' :
  client_discard true s n = (r, s') -> armed_ext s s' /\ rarmed s' = false.
Proof.
  unfold client_discard. cbv zeta.
  destruct (discard_loop _ true s n) as [r1 s1] eqn:E. apply discard_loop_armed in E.
  cbn [fst snd]. intros H; injection H as <- <-. split; [exact E|reflexivity].
Qed.

(* BigMessage.ReadAll (after the F19 repair): the deadline is set whenever the buffer is
   empty before Read *)
Lemma read_all_loop_armed fuel : forall s remain acc r s',
  read_all_loop fuel true s remain acc = (r, s') -> armed_ext s s'.
Proof.
  induction fuel as [|f IH]; intros s remain acc r s'; cbn [read_all_loop].
  - intros H; injection H as <- <-. apply armed_ext_refl.
  - destruct (remain =? 0); [intros H; injection H as <- <-; apply armed_ext_refl|].
    rewrite andb_true_r.
    set (s0 := if len (rbuf s) =? 0 then rst_arm s true else s).
    assert (H0 : forall r1 s1, bufio_read s0 remain = (r1, s1) -> armed_ext s s1).
    { intros r1 s1 E. apply bufio_read_ok in E. destruct E as [Ok Same]. unfold s0 in *.
      destruct (len (rbuf s) =? 0) eqn:Z.
      - apply armed_ext_arm_l with (a := true). apply bufio_armed; [reflexivity|exact Ok].
      - destruct Ok as (_ & C & _). apply armed_ext_same; [exact C|]. apply Same.
        intros B. rewrite B in Z. discriminate. }
    destruct (bufio_read s0 remain) as [[bs [e|]] s1] eqn:E; specialize (H0 _ _ eq_refl).
    + destruct (remain - len bs =? 0); intros H; injection H as <- <-; exact H0.
    + intros H. apply IH in H. eapply armed_ext_trans; eassumption.
Qed.

Theorem read_all_armed s size r s' :
  read_all true s size = (r, s') -> armed_ext s s' /\ rarmed s' = false.
Proof.
  unfold read_all. cbv zeta.
  destruct (read_all_loop _ true s size []) as [r1 s1] eqn:E. apply read_all_loop_armed in E.
  cbn [fst snd]. intros H; injection H as <- <-. split; [exact E|reflexivity].
Qed.

(* the CONNACK wait: handshake sets the deadline, then Peek(4) *)
Theorem peek_armed s n r s' : rarmed s = true -> peek s n = (r, s') -> armed_ext s s'.
Proof. intros A H. apply peek_ok in H. apply bufio_armed; [exact A|apply H]. Qed.

(* without a PauseTimeout the client never sets a deadline *)
Lemma remlen_loop_np fuel : forall s shift size r s',
  remlen_loop fuel false s shift size = (r, s') -> bufio_ok s s'.
Proof.
  induction fuel as [|f IH]; intros s shift size r s'; cbn [remlen_loop].
  - intros H; injection H as <- <-. bok.
  - rewrite andb_false_r.
    destruct (read_byte s) as [[b|e] s1] eqn:E; apply read_byte_ok in E.
    + destruct (b <? 128); [intros H; injection H as <- <-; exact E|].
      destruct (21 <=? shift); [intros H; injection H as <- <-; exact E|].
      intros H. apply IH in H. eapply bufio_ok_trans; eassumption.
    + intros H; injection H as <- <-. exact E.
Qed.

Lemma slice_loop_np fuel : forall s head size lastN r s',
  slice_loop fuel false s head size lastN = (r, s') -> bufio_ok s s'.
Proof.
  induction fuel as [|f IH]; intros s head size lastN r s'; cbn [slice_loop].
  - intros H; injection H as <- <-. bok.
  - rewrite andb_false_r. cbv zeta.
    destruct (peek s _) as [[p [e|]] s1] eqn:E; apply peek_ok in E; destruct E as [E _].
    + destruct e; try (intros H; injection H as <- <-; exact E).
      destruct (lastN <? len p); [|intros H; injection H as <- <-; exact E].
      intros H. apply IH in H. eapply bufio_ok_trans; eassumption.
    + destruct ((head / 16 =? 3) && _); intros H; injection H as <- <-; exact E.
Qed.

Lemma peek_packet_np s r s' : peek_packet false s = (r, s') -> bufio_ok s s'.
Proof.
  rewrite peek_packet_unfold. unfold fin_arm.
  destruct (read_byte s) as [[b|e] s1] eqn:E; apply read_byte_ok in E.
  - destruct (remlen_loop 5 false s1 0 0) as [[size|[e proto]] s2] eqn:E2; apply remlen_loop_np in E2.
    + destruct (slice_loop _ false s2 b size 0) as [r3 s3] eqn:E3. apply slice_loop_np in E3.
      intros H; injection H as <- <-. eapply bufio_ok_trans; [exact E|]. eapply bufio_ok_trans; eassumption.
    + intros H; injection H as <- <-. eapply bufio_ok_trans; eassumption.
  - destruct e; intros H; injection H as <- <-; exact E.
Qed.

Lemma discard_loop_np fuel : forall s n r s',
  discard_loop fuel false s n = (r, s') -> bufio_ok s s'.
Proof.
  induction fuel as [|f IH]; intros s n r s'; cbn [discard_loop].
  - intros H; injection H as <- <-. bok.
  - destruct (bufio_discard _ s n 0) as [[done e] s1] eqn:E. apply bufio_discard_ok in E.
    destruct e as [e|]; [|intros H; injection H as <- <-; exact E].
    destruct e; try (intros H; injection H as <- <-; exact E).
    destruct (done =? 0); [intros H; injection H as <- <-; exact E|].
    intros H. apply IH in H. eapply bufio_ok_trans; eassumption.
Qed.

Lemma client_discard_np s n r s' : client_discard false s n = (r, s') -> bufio_ok s s'.
Proof. unfold client_discard. cbv zeta. apply discard_loop_np. Qed.

Lemma read_all_loop_np fuel : forall s remain acc r s',
  read_all_loop fuel false s remain acc = (r, s') -> bufio_ok s s'.
Proof.
  induction fuel as [|f IH]; intros s remain acc r s'; cbn [read_all_loop].
  - intros H; injection H as <- <-. bok.
  - destruct (remain =? 0); [intros H; injection H as <- <-; bok|].
    rewrite andb_false_r.
    destruct (bufio_read s remain) as [[bs [e|]] s1] eqn:E; apply bufio_read_ok in E; destruct E as [E _].
    + destruct (_ =? 0); intros H; injection H as <- <-; exact E.
    + intros H. apply IH in H. eapply bufio_ok_trans; eassumption.
Qed.

Lemma read_all_np s size r s' : read_all false s size = (r, s') -> bufio_ok s s'.
Proof. unfold read_all. cbv zeta. apply read_all_loop_np. Qed.

(* ------------------------------------------------------------------ *)
(* 4. L1 summary in the form the session model uses: a call made with the deadline
      cleared, the log starting empty (Session.rst_of) *)

Definition entry_ok (pause : bool) (cap : N) (e : bool * N) : Prop :=
  pause = true -> fst e = true \/ snd e = cap.

Lemma entry_ok_nopause cap l : Forall (entry_ok false cap) l.
Proof. apply Forall_forall. intros e _ H. discriminate. Qed.

Lemma entry_ok_armed pause cap l : Forall armed l -> Forall (entry_ok pause cap) l.
Proof. intros H. eapply Forall_impl; [|exact H]. intros e A _. left. exact A. Qed.

Lemma peek_packet_entries pause s r s' :
  rarmed s = false -> rlog s = [] -> peek_packet pause s = (r, s') ->
  rarmed s' = false /\ Forall (entry_ok pause (rcap s)) (rlog s').
Proof.
  intros A L H. destruct pause.
  - apply peek_packet_armed in H.
    destruct H as (_ & first & rest & Lg & F & Hf & _ & Ha). rewrite L, app_nil_r in Lg. split.
    + destruct Ha as [Ha|[Ha _]]; congruence.
    + rewrite Lg. apply Forall_app. split; [apply entry_ok_armed, F|].
      destruct Hf as [->|(_ & _ & ->)]; [constructor|]. constructor; [|constructor].
      intros _. right. reflexivity.
  - apply peek_packet_np in H. destruct H as (Ha & _). split; [congruence|apply entry_ok_nopause].
Qed.

Lemma client_discard_entries pause s n r s' :
  rarmed s = false -> rlog s = [] -> client_discard pause s n = (r, s') ->
  rarmed s' = false /\ Forall (entry_ok pause (rcap s)) (rlog s').
Proof.
  intros A L H. destruct pause.
  - apply client_discard_armed in H. destruct H as [(_ & new & Lg & F) Ha]. split; [exact Ha|].
    rewrite Lg, L, app_nil_r. apply entry_ok_armed, F.
  - apply client_discard_np in H. destruct H as (Ha & _). split; [congruence|apply entry_ok_nopause].
Qed.

Lemma read_all_entries pause s n r s' :
  rarmed s = false -> rlog s = [] -> read_all pause s n = (r, s') ->
  rarmed s' = false /\ Forall (entry_ok pause (rcap s)) (rlog s').
Proof.
  intros A L H. destruct pause.
  - apply read_all_armed in H. destruct H as [(_ & new & Lg & F) Ha]. split; [exact Ha|].
    rewrite Lg, L, app_nil_r. apply entry_ok_armed, F.
  - apply read_all_np in H. destruct H as (Ha & _). split; [congruence|apply entry_ok_nopause].
Qed.

(* the CONNACK wait: deadline := (PauseTimeout configured?) *)
Lemma connack_entries pause s n r s' :
  rarmed s = pause -> rlog s = [] -> peek s n = (r, s') ->
  Forall (entry_ok pause (rcap s)) (rlog s').
Proof.
  intros A L H. destruct pause; [|apply entry_ok_nopause].
  apply (peek_armed _ _ _ _ A) in H. destruct H as (_ & new & Lg & F).
  rewrite Lg, L, app_nil_r. apply entry_ok_armed, F.
Qed.

(* ------------------------------------------------------------------ *)
(* 5. L2: the session model                                            *)

Section Session.
Variable pause : bool.      (* PauseTimeout configured *)
Variable cap : N.           (* readBufSize *)

(* a logged call: a conn.Read is armed or asks for the whole (hence empty) buffer *)
Definition rd_ok (q : req) : Prop :=
  match q with QRead _ a want => pause = true -> a = true \/ want = cap | _ => True end.

Definition rp (c : client) := (s_pause (k_cfg c), s_rcap (k_cfg c), k_rarm c).
(* between API calls: the configuration at hand, the deadline cleared *)
Definition good (c : client) : Prop := rp c = (pause, cap, false).

Definition lsat {A} (f : M A) (Q : A -> Prop) : Prop :=
  forall w a w', f w = Some (a, w') ->
    (exists l, w_log w' = l ++ w_log w /\ Forall rd_ok l) /\ Q a.

Lemma lsat_ret {A} (a : A) (Q : A -> Prop) : Q a -> lsat (ret a) Q.
Proof. intros H w b w' E. rinv E. subst. split; [exists []; split; [reflexivity|constructor]|exact H]. Qed.
Lemma lsat_fail {A} (Q : A -> Prop) : lsat fail_tape Q.
Proof. intros w a w' E. discriminate. Qed.
Lemma lsat_bind {A B} (f : M A) (k : A -> M B) (P : A -> Prop) (Q : B -> Prop) :
  lsat f P -> (forall a, P a -> lsat (k a) Q) -> lsat (bind f k) Q.
Proof.
  intros Hf Hk w b w' E. binv E as a0 w1 Ea. destruct (Hf _ _ _ Ea) as [(l1 & L1 & F1) HP].
  destruct (Hk _ HP _ _ _ E) as [(l2 & L2 & F2) HQ]. split; [|exact HQ].
  exists (l2 ++ l1). split; [rewrite L2, L1; apply app_assoc|apply Forall_app; split; assumption].
Qed.
Lemma lsat_conseq {A} (f : M A) (P Q : A -> Prop) : lsat f P -> (forall a, P a -> Q a) -> lsat f Q.
Proof. intros Hf H w a w' E. destruct (Hf _ _ _ E). auto. Qed.
Lemma lsat_world {A X} (g : world -> X) (f : X -> M A) Q :
  (forall n, lsat (f n) Q) -> lsat (fun w => f (g w) w) Q.
Proof. intros H w a w' E. exact (H _ _ _ _ E). Qed.
Lemma lsat_bind_any {A B} (f : M A) (k : A -> M B) (Q : B -> Prop) :
  lsat f any -> (forall a, lsat (k a) Q) -> lsat (bind f k) Q.
Proof. intros Hf Hk. eapply lsat_bind; [exact Hf|]. intros a _. apply Hk. Qed.

(* primitives *)

Lemma ask_store_l q : rd_ok q -> lsat (ask_store q) any.
Proof.
  intros Hq w a w' E. apply ask_store_frame in E. destruct E as [E _].
  split; [exists [q]; split; [exact E|constructor; [exact Hq|constructor]]|exact I].
Qed.
Lemma ask_dial_l : lsat ask_dial any.
Proof.
  intros w a w' E. unfold ask_dial in E. destruct (t_dial w); inversion E; subst.
  split; [exists [QDial]; split; [reflexivity|constructor; [exact I|constructor]]|exact I].
Qed.
Lemma tell_l q : rd_ok q -> lsat (tell q) any.
Proof.
  intros Hq w a w' E. inversion E; subst.
  split; [exists [q]; split; [reflexivity|constructor; [exact Hq|constructor]]|exact I].
Qed.
Lemma conn_write_l c bufs single : lsat (conn_write c bufs single) any.
Proof.
  intros w a w' E. unfold conn_write in E.
  destruct (if single then _ else _) as [[calls r] t'].
  assert (F : Forall rd_ok (rev (map (fun cl : wcall => QWrite c (fst cl)) calls))).
  { apply Forall_forall. intros q Hq. apply in_rev in Hq. apply in_map_iff in Hq.
    destruct Hq as (cl & <- & _). exact I. }
  destruct r; inversion E; subst; (split; [eexists; split; [reflexivity|exact F]|exact I]).
Qed.

(* a call into the reader *)
Lemma with_reader_l {A} c (f : rst -> A * rst) (b : bool) :
  s_rcap (k_cfg c) = cap ->
  (forall s a s', rcap s = cap -> rarmed s = k_rarm c -> rlog s = [] -> f s = (a, s') ->
     rarmed s' = b /\ Forall (entry_ok pause cap) (rlog s')) ->
  lsat (with_reader c f) (fun p => k_cfg (fst p) = k_cfg c /\ k_rarm (fst p) = b).
Proof.
  intros Hc Hf w a w' E. unfold with_reader in E. destruct (f (rst_of c w)) as [x s] eqn:F.
  inversion E; subst. clear E. destruct (Hf (rst_of c w) x s Hc eq_refl eq_refl F) as [Hb Hl].
  split; [|split; [reflexivity|exact Hb]].
  eexists. split; [reflexivity|]. apply Forall_forall. intros q Hq. apply in_map_iff in Hq.
  destruct Hq as (e & <- & He). rewrite Forall_forall in Hl. exact (Hl _ He).
Qed.

Definition gp {A} (c : client) (p : client * A) : Prop := rp (fst p) = rp c.

Lemma good_gp {A} c (p : client * A) : good c -> gp c p -> good (fst p).
Proof. unfold good, gp. congruence. Qed.

Lemma good_cap c : good c -> s_rcap (k_cfg c) = cap.
Proof. unfold good, rp. intros H. inversion H. reflexivity. Qed.
Lemma good_pause c : good c -> s_pause (k_cfg c) = pause.
Proof. unfold good, rp. intros H. inversion H. reflexivity. Qed.
Lemma good_rarm c : good c -> k_rarm c = false.
Proof. unfold good, rp. intros H. inversion H. reflexivity. Qed.

Lemma reader_call {A} c (f : rst -> A * rst) :
  good c ->
  (forall s a s', rarmed s = false -> rlog s = [] -> f s = (a, s') ->
     rarmed s' = false /\ Forall (entry_ok pause (rcap s)) (rlog s')) ->
  lsat (with_reader c f) (gp c).
Proof.
  intros G Hf. eapply lsat_conseq; [apply (with_reader_l c f false (good_cap c G))|].
  - intros s a s' C Ar L F. rewrite (good_rarm c G) in Ar. rewrite <- C. exact (Hf _ _ _ Ar L F).
  - intros p [E1 E2]. unfold gp, rp. rewrite E1, E2, (good_rarm c G). reflexivity.
Qed.

Lemma peek_packet_call c : good c -> lsat (with_reader c (peek_packet (s_pause (k_cfg c)))) (gp c).
Proof.
  intros G. rewrite (good_pause c G). apply reader_call; [exact G|].
  intros s a s'. apply peek_packet_entries.
Qed.
Lemma discard_call c c0 n : good c -> s_pause (k_cfg c0) = pause ->
  lsat (with_reader c (fun s => client_discard (s_pause (k_cfg c0)) s n)) (gp c).
Proof.
  intros G ->. apply reader_call; [exact G|]. intros s a s'. apply client_discard_entries.
Qed.
Lemma read_all_call c c0 n : good c -> s_pause (k_cfg c0) = pause ->
  lsat (with_reader c (fun s => read_all (s_pause (k_cfg c0)) s n)) (gp c).
Proof.
  intros G ->. apply reader_call; [exact G|]. intros s a s'. apply read_all_entries.
Qed.

(* pure helpers leave configuration and deadline alone *)

Lemma rp_fold_left {X} (f : client -> X -> client) l :
  (forall c x, rp (f c x) = rp c) -> forall c, rp (fold_left f l c) = rp c.
Proof.
  intros H. induction l as [|x l IH]; intros c; cbn [fold_left]; [reflexivity|].
  rewrite IH. apply H.
Qed.
Lemma rp_lock_cleanup_run c l : rp (lock_cleanup_run c l) = rp c.
Proof. destruct l; reflexivity. Qed.
Lemma rp_release_locked c e : rp (release_locked c e) = rp c.
Proof.
  unfold release_locked. apply rp_fold_left. intros c' p.
  destruct (snd p); try reflexivity. apply rp_lock_cleanup_run.
Qed.
Lemma rp_break_pending c : rp (break_pending c) = rp c.
Proof.
  unfold break_pending. cbv zeta.
  match goal with |- rp (?x <| k_txs := [] |>) = _ => change (rp x = rp c) end.
  rewrite rp_fold_left.
  - match goal with |- rp (?x <| k_ping := None |>) = _ => change (rp x = rp c) end.
    destruct (k_ping c); [|reflexivity]. destruct (parked_kind c n) as [[]|]; reflexivity.
  - intros c' t. destruct (parked_kind c' (snd (fst t))) as [[]|]; reflexivity.
Qed.
Lemma rp_xclose c x : rp (xclose c x) = rp c.
Proof. unfold xclose. destruct (x =? 0); reflexivity. Qed.
Lemma rp_xsend c x e : rp (xsend c x e) = rp c.
Proof. unfold xsend. destruct (x =? 0); reflexivity. Qed.
Lemma rp_term_callbacks c : rp (term_callbacks c) = rp c.
Proof. unfold term_callbacks. rewrite rp_break_pending. destruct (k_seqclosed c); reflexivity. Qed.

Lemma rp_on_suback c body : rp (fst (on_suback c body)) = rp c.
Proof.
  unfold on_suback. cbv zeta.
  repeat match goal with
  | |- rp (fst (if ?b then _ else _)) = _ => destruct b; [reflexivity|]
  end.
  destruct (tx_find c (u16 body)) as [[rid fso]|]; [|reflexivity].
  destruct (negb (_ =? _)%nat).
  - cbn [fst]. destruct (match parked_kind _ _ with Some (PkSub _) => true | _ => false end); reflexivity.
  - destruct (failed_filters _ _); cbn [fst];
      destruct (match parked_kind _ _ with Some (PkSub _) => true | _ => false end); reflexivity.
Qed.
Lemma rp_on_unsuback c body : rp (fst (on_unsuback c body)) = rp c.
Proof.
  unfold on_unsuback. cbv zeta.
  repeat match goal with
  | |- rp (fst (if ?b then _ else _)) = _ => destruct b; [reflexivity|]
  end.
  destruct (tx_find c (u16 body)) as [[rid fso]|]; [|reflexivity].
  destruct (parked_kind _ _) as [[]|]; reflexivity.
Qed.
Lemma rp_on_pingresp c body : rp (fst (on_pingresp c body)) = rp c.
Proof.
  unfold on_pingresp. destruct (negb _); [reflexivity|].
  destruct (k_ping c); [|reflexivity]. cbv zeta.
  destruct (parked_kind _ _) as [[]|]; reflexivity.
Qed.
Lemma rp_tx_pick fuel space : forall c, rp (fst (tx_pick fuel c space)) = rp c.
Proof.
  induction fuel as [|f IH]; intros c; cbn [tx_pick]; [reflexivity|]. cbv zeta.
  destruct (existsb _ _); [|reflexivity]. rewrite IH. reflexivity.
Qed.
Lemma rp_op_read_backoff c e : rp (fst (op_read_backoff c e)) = rp c.
Proof.
  unfold op_read_backoff.
  destruct (_ || _); [reflexivity|]. destruct (N.testbit e 1); [reflexivity|].
  destruct (k_rconn c); [reflexivity|]. destruct (N.testbit e 10); reflexivity.
Qed.

(* monadic helpers *)

Ltac gp_ret := apply lsat_ret; unfold gp; cbn [fst];
  rewrite ?rp_release_locked, ?rp_break_pending, ?rp_xclose, ?rp_xsend; first [reflexivity | assumption].

Lemma rugged_load_l k : lsat (rugged_load k) any.
Proof.
  unfold rugged_load. apply lsat_bind_any; [apply ask_store_l; exact I|]. intros a.
  destruct a as [ks|[raw|]| |]; try apply lsat_fail; try (apply lsat_ret; exact I).
  destruct (decode_value raw); apply lsat_ret; exact I.
Qed.
Lemma rugged_save_l c k v :
  lsat (rugged_save c k v) (fun p => fst p = c <| k_rseq := k_rseq c + 1 |>).
Proof.
  unfold rugged_save. cbv zeta. apply lsat_bind_any; [apply ask_store_l; exact I|]. intros a.
  destruct a; try apply lsat_fail; apply lsat_ret; reflexivity.
Qed.
Lemma store_delete_l k : lsat (store_delete k) any.
Proof.
  unfold store_delete. apply lsat_bind_any; [apply ask_store_l; exact I|]. intros a.
  destruct a; try apply lsat_fail; apply lsat_ret; exact I.
Qed.

Lemma locked_write_l c cn bufs single : lsat (locked_write c cn bufs single) (gp c).
Proof.
  unfold locked_write. apply lsat_bind_any; [apply conn_write_l|]. intros r.
  destruct r; try (apply lsat_ret; reflexivity);
    (apply lsat_bind_any; [first [apply tell_l; exact I | apply lsat_ret; exact I]|]);
    intros _; apply lsat_ret; reflexivity.
Qed.
Lemma nowait_write_l c bufs single : lsat (nowait_write c bufs single) (gp c).
Proof.
  unfold nowait_write. destruct (k_wsem c); try (apply lsat_ret; reflexivity).
  apply locked_write_l.
Qed.
Lemma op_write_l c bufs single : lsat (op_write c bufs single) (gp c).
Proof.
  unfold op_write. destruct (k_wsem c); try (apply lsat_ret; reflexivity).
  eapply lsat_bind; [apply locked_write_l|]. intros [c1 e] H. apply lsat_ret. exact H.
Qed.

Lemma to_offline_l c : lsat (to_offline c) (fun c' => rp c' = rp c).
Proof.
  unfold to_offline. destruct (k_wsem c);
    try (apply lsat_bind_any; [apply tell_l; exact I|]; intros _; apply lsat_ret;
         rewrite rp_break_pending; reflexivity).
  apply lsat_bind_any; [apply tell_l; exact I|]. intros _. apply lsat_ret. reflexivity.
Qed.
Lemma off_ret_l {A} c c1 (r : A) :
  rp c1 = rp c -> lsat (bind (to_offline c1) (fun c => ret (c, r))) (gp c).
Proof.
  intros L. eapply lsat_bind; [apply to_offline_l|]. intros c' E. apply lsat_ret.
  unfold gp. cbn [fst]. congruence.
Qed.

(* CONNECT, then the CONNACK wait under the deadline, cleared afterwards *)
Lemma handshake_l c cn clean cid : good c -> lsat (handshake c cn clean cid) (gp c).
Proof.
  intros G. unfold handshake. cbv zeta. apply lsat_bind_any; [apply conn_write_l|]. intros r.
  destruct r; try (apply lsat_ret; reflexivity).
  set (c0 := c <| k_rconn := Some cn |> <| k_rbuf := [] |> <| k_rerr := None |>
               <| k_rarm := s_pause (k_cfg c) |>).
  eapply lsat_bind.
  { apply (with_reader_l c0 (fun s => peek s 4) (s_pause (k_cfg c)) (good_cap c G)).
    intros s a s' C Ar L F. change (k_rarm c0) with (s_pause (k_cfg c)) in Ar.
    split; [pose proof (peek_ok _ _ _ _ F) as [(Ha & _) _]; congruence|].
    rewrite <- C. rewrite (good_pause c G) in Ar. exact (connack_entries _ _ _ _ _ Ar L F). }
  intros [c1 [p e]] [H _]. cbn [fst] in H. change (k_cfg c1 = k_cfg c) in H.
  assert (Hc : forall x : client, k_cfg x = k_cfg c1 -> k_rarm x = false -> rp x = rp c).
  { intros x E1 E2. unfold rp. rewrite E1, E2, H, (good_rarm c G). reflexivity. }
  destruct e as [[]|]; try apply lsat_fail;
  match goal with |- context [if ?b then _ else _] => destruct b end;
    try (apply lsat_ret; apply Hc; reflexivity).
  destruct p as [|a [|b [|fl [|code [|]]]]]; try apply lsat_fail.
  destruct (negb (code =? 0)); [apply lsat_ret, Hc; reflexivity|].
  destruct (fl =? 0); [apply lsat_ret, Hc; reflexivity|].
  destruct (fl =? 1); [|apply lsat_ret, Hc; reflexivity].
  destruct clean; apply lsat_ret; apply Hc; reflexivity.
Qed.

Lemma resend_l fuel cn space : forall seqno acc subm,
  lsat (resend fuel cn space seqno acc subm) any.
Proof.
  induction fuel as [|f IH]; intros seqno acc subm; cbn [resend].
  - apply lsat_ret. exact I.
  - destruct (acc <=? seqno); [apply lsat_ret; exact I|]. cbv zeta.
    apply lsat_bind_any; [apply rugged_load_l|]. intros l.
    destruct l as [[[|h body]|]|e]; try (apply lsat_ret; exact I).
    apply lsat_bind_any; [apply conn_write_l|]. intros r.
    destruct r; try (apply lsat_ret; exact I). apply IH.
Qed.

Lemma connect_l c : good c -> lsat (connect c) (gp c).
Proof.
  intros G. unfold connect. destruct (k_closed c); [gp_ret|]. cbv zeta.
  apply lsat_bind_any; [apply rugged_load_l|]. intros l.
  destruct l as [cidv|e]; [|gp_ret].
  apply lsat_bind_any; [apply ask_dial_l|]. intros ok.
  destruct ok; cbn [negb]; [|gp_ret].
  eapply lsat_bind.
  { apply (handshake_l (c <| k_nconn := k_nconn c + 1 |>)). exact G. }
  intros [c1 h] H. unfold gp in H. cbn [fst] in H.
  change (rp c1 = rp c) in H.
  destruct h as [|e].
  2:{ apply lsat_bind_any; [apply tell_l; exact I|]. intros _. gp_ret. }
  apply lsat_bind_any; [apply resend_l|]. intros [s1 e1].
  destruct (negb (e1 =? 0)).
  { apply lsat_bind_any; [apply tell_l; exact I|]. intros _. gp_ret. }
  apply lsat_bind_any; [apply resend_l|]. intros [s2 e2].
  destruct (negb (e2 =? 0)).
  { apply lsat_bind_any; [apply tell_l; exact I|]. intros _. gp_ret. }
  match goal with |- context [if ?b then _ else _] => destruct b end; [apply lsat_fail|].
  gp_ret.
Qed.

(* packet handlers: no reads *)

Lemma on_publish_l c head body : lsat (on_publish c head body) (gp c).
Proof.
  unfold on_publish. cbv zeta.
  repeat match goal with |- lsat (if ?b then _ else _) _ => destruct b; [gp_ret|] end.
  match goal with |- lsat (if ?b then _ else _) _ => destruct b end.
  { destruct (negb _); gp_ret. }
  apply lsat_bind_any; [apply rugged_load_l|]. intros l.
  destruct l as [[v|]|e]; [| |gp_ret]; destruct (negb _); gp_ret.
Qed.
Lemma on_puback_l c body : lsat (on_puback c body) (gp c).
Proof.
  unfold on_puback. cbv zeta.
  repeat match goal with |- lsat (if ?b then _ else _) _ => destruct b; [gp_ret|] end.
  destruct (k_q1 c) as [|x q]; [gp_ret|].
  apply lsat_bind_any; [apply store_delete_l|]. intros ok. destruct (negb ok); gp_ret.
Qed.
Lemma on_pubcomp_l c body : lsat (on_pubcomp c body) (gp c).
Proof.
  unfold on_pubcomp. cbv zeta.
  repeat match goal with |- lsat (if ?b then _ else _) _ => destruct b; [gp_ret|] end.
  destruct (k_q2 c) as [|x q]; [gp_ret|].
  apply lsat_bind_any; [apply store_delete_l|]. intros ok. destruct (negb ok); gp_ret.
Qed.
Lemma on_pubrec_l c body : lsat (on_pubrec c body) (gp c).
Proof.
  unfold on_pubrec. cbv zeta.
  repeat match goal with |- lsat (if ?b then _ else _) _ => destruct b; [gp_ret|] end.
  eapply lsat_bind; [apply rugged_save_l|]. intros [c1 ok] E. cbn [fst] in E. subst c1.
  destruct ok; cbn [negb]; [|gp_ret].
  eapply lsat_bind; [apply nowait_write_l|]. intros [c2 e] E. unfold gp in E. cbn [fst] in E.
  change (rp c2 = rp c) in E.
  destruct (negb (e =? 0)); apply lsat_ret; exact E.
Qed.
Lemma on_pubrel_l c body : lsat (on_pubrel c body) (gp c).
Proof.
  unfold on_pubrel. cbv zeta.
  repeat match goal with |- lsat (if ?b then _ else _) _ => destruct b; [gp_ret|] end.
  apply lsat_bind_any; [apply store_delete_l|]. intros ok. destruct (negb ok); [gp_ret|].
  destruct (negb (len (k_pack c) =? 0)); [gp_ret|].
  eapply lsat_bind; [apply nowait_write_l|]. intros [c2 e] E. unfold gp in E. cbn [fst] in E.
  change (rp c2 = rp c) in E.
  destruct (negb (e =? 0)); apply lsat_ret; exact E.
Qed.

Lemma dispatch_l c head body : lsat (dispatch c head body) (gp c).
Proof.
  unfold dispatch.
  repeat match goal with
  | |- context [match ?x with _ => _ end] => is_var x; destruct x
  | |- context [match head / 16 with _ => _ end] => destruct (head / 16)
  end;
  first [ solve [gp_ret]
        | apply on_publish_l | apply on_puback_l | apply on_pubrec_l
        | apply on_pubrel_l | apply on_pubcomp_l
        | apply lsat_ret, rp_on_suback | apply lsat_ret, rp_on_unsuback
        | apply lsat_ret, rp_on_pingresp ].
Qed.

Definition gd {A} (p : client * A) : Prop := good (fst p).

Lemma gp_gd {A} c (f : M (client * A)) : good c -> lsat f (gp c) -> lsat f gd.
Proof. intros G H. eapply lsat_conseq; [exact H|]. intros p E. exact (good_gp c p G E). Qed.

Lemma good_rp c c1 : good c -> rp c1 = rp c -> good c1.
Proof. unfold good. congruence. Qed.

Lemma off_ret_gd {A} c (r : A) : good c -> lsat (bind (to_offline c) (fun c => ret (c, r))) gd.
Proof. intros G. apply (gp_gd c _ G). apply off_ret_l. reflexivity. Qed.

(* the read routine *)

Lemma read_loop_l fuel : forall c, good c -> lsat (read_loop fuel c) gd.
Proof.
  induction fuel as [|f IH]; intros c G; cbn [read_loop]; [apply lsat_fail|].
  eapply lsat_bind; [apply peek_packet_call, G|]. intros [c1 pk] E.
  pose proof (good_gp c _ G E) as G1. cbn [fst] in G1. clear E G c.
  destruct pk as [head body|head size partial|e proto|].
  - eapply lsat_bind; [apply dispatch_l|]. intros [c2 h] E.
    pose proof (good_gp c1 _ G1 E) as G2. cbn [fst] in G2.
    destruct h as [|e|topic msg|].
    + apply IH. exact G2.
    + apply off_ret_gd, G2.
    + apply lsat_ret. exact G2.
    + eapply lsat_bind; [apply nowait_write_l|]. intros [c3 e] E3.
      pose proof (good_gp c2 _ G2 E3) as G3. cbn [fst] in G3.
      destruct (negb (e =? 0)); [apply off_ret_gd, G3|]. apply IH. exact G3.
  - eapply lsat_bind; [apply on_publish_l|]. intros [c2 h] E.
    pose proof (good_gp c1 _ G1 E) as G2. cbn [fst] in G2.
    destruct h as [|e|topic msg|].
    + apply lsat_fail.
    + apply off_ret_gd, G2.
    + apply lsat_ret. exact G2.
    + eapply lsat_bind; [apply (discard_call c2 c2 size G2 (good_pause c2 G2))|]. intros [c3 d] E3.
      pose proof (good_gp c2 _ G2 E3) as G3. cbn [fst] in G3.
      destruct d as [[]|]; try apply lsat_fail; try (apply off_ret_gd, G3).
      eapply lsat_bind; [apply nowait_write_l|]. intros [c4 e] E4.
      pose proof (good_gp c3 _ G3 E4) as G4. cbn [fst] in G4.
      destruct (negb (e =? 0)); [apply off_ret_gd, G4|]. apply IH. exact G4.
  - destruct e; try apply lsat_fail; try (apply off_ret_gd, G1).
    eapply lsat_bind; [apply to_offline_l|]. intros c2 E2.
    pose proof (good_rp c1 c2 G1 E2) as G2.
    eapply lsat_bind; [apply connect_l, G2|]. intros [c3 e] E3.
    pose proof (good_gp c2 _ G2 E3) as G3. cbn [fst] in G3.
    destruct (negb (e =? 0)); [apply lsat_ret; exact G3|]. apply IH. exact G3.
  - apply off_ret_gd, G1.
Qed.

Lemma read_slices_body_l c : good c -> lsat (read_slices_body c) gd.
Proof.
  intros G. unfold read_slices_body.
  eapply lsat_bind with (P := gd).
  { destruct (k_rconn c); [apply lsat_ret; exact G|apply (gp_gd c _ G), connect_l, G]. }
  intros [c1 e] G1. unfold gd in G1. cbn [fst] in G1. clear G c.
  destruct (negb (e =? 0)); [apply lsat_ret; exact G1|].
  eapply lsat_bind with (P := gd).
  { destruct (k_big c1) as [remaining|]; [|apply lsat_ret; exact G1]. cbv zeta.
    set (c1' := c1 <| k_big := None |>). assert (G1' : good c1') by exact G1.
    apply (gp_gd c1' _ G1'). apply (discard_call c1' c1' remaining G1' (good_pause c1' G1')). }
  intros [c2 e2] G2. unfold gd in G2. cbn [fst] in G2. clear G1 c1.
  destruct e2 as [[]|]; try apply lsat_fail; try (apply off_ret_gd, G2).
  cbv zeta.
  match goal with |- context [k_pack ?x] => set (c3 := x) end.
  assert (G3 : good c3) by exact G2. clearbody c3. clear G2 c2.
  eapply lsat_bind with (P := gd).
  { destruct (k_pack c3) as [|h t] eqn:K; [apply lsat_ret; exact G3|].
    eapply lsat_bind with (P := gd).
    { destruct (h / 16 =? 5); [|apply lsat_ret; exact G3].
      eapply lsat_conseq; [apply rugged_save_l|]. intros p Ep. unfold gd. rewrite Ep. exact G3. }
    intros [c4 ok] G4. unfold gd in G4. cbn [fst] in G4.
    destruct (negb ok); [apply lsat_ret; exact G4|].
    eapply lsat_bind; [apply nowait_write_l|]. intros [c5 e5] E5.
    pose proof (good_gp c4 _ G4 E5) as G5. cbn [fst] in G5.
    destruct (negb (e5 =? 0)); apply lsat_ret; exact G5. }
  intros [c6 e6] G6. unfold gd in G6. cbn [fst] in G6.
  destruct e6 as [[e' off]|].
  - destruct off; [apply off_ret_gd, G6|].
    eapply lsat_bind with (P := fun x => x = c6); [apply lsat_ret; reflexivity|].
    intros ? ->. apply lsat_ret. exact G6.
  - apply (lsat_world (fun w => S (S (length (t_rd w) + length (t_dial w)))) (fun n => read_loop n c6)).
    intros n. apply read_loop_l, G6.
Qed.

Lemma read_slices_l c : good c -> lsat (read_slices c) gd.
Proof.
  intros G. unfold read_slices.
  eapply lsat_bind; [apply read_slices_body_l, G|]. intros [c1 r] G1.
  destruct r; try (apply lsat_ret; exact G1).
  destruct (is_closed_err e); apply lsat_ret; [|exact G1].
  unfold gd, good. cbn [fst]. rewrite rp_term_callbacks. exact G1.
Qed.

Lemma read_all_op_l c : good c -> lsat (read_all_op c) gd.
Proof.
  intros G. unfold read_all_op. destruct (k_big c) as [size|]; [|apply lsat_ret; exact G]. cbv zeta.
  set (c' := c <| k_big := None |>). assert (G' : good c') by exact G.
  eapply lsat_bind; [apply (read_all_call c' c' size G' (good_pause c' G'))|]. intros [c1 r] E.
  pose proof (good_gp c' _ G' E) as G1. cbn [fst] in G1.
  destruct r as [bs|[]]; try (apply lsat_ret; exact G1); try apply lsat_fail;
    (apply lsat_bind_any; [apply tell_l; exact I|]; intros _; apply lsat_ret; exact G1).
Qed.

(* the other operations: no reads *)

Lemma op_publish_l c retain msg topic : lsat (op_publish c retain msg topic) (gp c).
Proof.
  unfold op_publish. cbv zeta.
  destruct (deny_of _); [gp_ret|].
  destruct (packet_max <? _); [gp_ret|].
  eapply lsat_bind; [apply op_write_l|]. intros [c1 r] E.
  destruct r; apply lsat_ret; exact E.
Qed.

Lemma op_publish_persisted_l c level retain msg topic :
  lsat (op_publish_persisted c level retain msg topic) (gp c).
Proof.
  unfold op_publish_persisted. cbv zeta.
  repeat match goal with |- lsat (if ?b then _ else _) _ => destruct b; [gp_ret|] end.
  eapply lsat_bind; [apply rugged_save_l|]. intros [c1 ok] E. cbn [fst] in E. subst c1.
  destruct ok; cbn [negb]; [|gp_ret].
  match goal with |- lsat (if ?b then _ else _) _ => destruct b end.
  { apply lsat_ret. unfold gp. cbn [fst]. rewrite rp_xsend. destruct (level =? 1); reflexivity. }
  eapply lsat_bind; [apply nowait_write_l|]. intros [c2 e] E. unfold gp in E. cbn [fst] in E.
  assert (E' : rp c2 = rp c) by (destruct (level =? 1); exact E).
  destruct (negb (e =? 0)); apply lsat_ret; unfold gp; cbn [fst]; rewrite ?rp_xsend; [exact E'|].
  destruct (level =? 1); exact E'.
Qed.

Lemma op_subscribe_l c sub level fs : lsat (op_subscribe c sub level fs) (gp c).
Proof.
  unfold op_subscribe. cbv zeta.
  destruct fs as [|f0 fs0]; [gp_ret|].
  set (fs := f0 :: fs0). clearbody fs.
  destruct (any_denied fs); [gp_ret|].
  destruct (packet_max <? _); [gp_ret|].
  destruct (511 <? _); [gp_ret|].
  pose proof (rp_tx_pick 1024 (if sub then sub_space else unsub_space) (c <| k_nextr ::= N.succ |>)) as T.
  destruct (tx_pick 1024 _ _) as [c1 pid]. cbn [fst] in T. change (rp c1 = rp c) in T.
  eapply lsat_bind; [apply op_write_l|]. intros [c2 r] E. unfold gp in E. cbn [fst] in E.
  change (rp c2 = rp c1) in E. rewrite T in E.
  destruct r as [e|]; [destruct (e =? 0)|]; apply lsat_ret; exact E.
Qed.

Lemma op_ping_l c : lsat (op_ping c) (gp c).
Proof.
  unfold op_ping. cbv zeta. change (k_ping (c <| k_nextr ::= N.succ |>)) with (k_ping c).
  destruct (k_ping c); [gp_ret|].
  eapply lsat_bind; [apply op_write_l|]. intros [c2 r] E.
  destruct r as [e|]; [destruct (e =? 0)|]; apply lsat_ret; exact E.
Qed.

Lemma op_quit_l c rid : lsat (op_quit c rid) (gp c).
Proof.
  unfold op_quit. destruct (parked_kind c rid) as [[l|pid|pid|]|]; try gp_ret.
  - apply lsat_ret. unfold gp. cbn [fst]. change (rp (lock_cleanup_run c l) = rp c). apply rp_lock_cleanup_run.
  - destruct (k_ping c); [destruct (_ =? _)|]; gp_ret.
Qed.

Lemma op_close_l c : lsat (op_close c) (gp c).
Proof.
  unfold op_close. destruct (k_closed c); [gp_ret|].
  apply lsat_bind_any.
  { destruct (k_wsem c); first [apply tell_l; exact I|apply lsat_ret; exact I]. }
  intros _. gp_ret.
Qed.

Lemma op_disconnect_l c : lsat (op_disconnect c) (gp c).
Proof.
  unfold op_disconnect. destruct (k_closed c); [gp_ret|].
  destruct (k_wsem c); try gp_ret.
  apply lsat_bind_any; [apply conn_write_l|]. intros r.
  apply lsat_bind_any; [apply tell_l; exact I|]. intros _. gp_ret.
Qed.

Lemma adopt_scan_l keys : forall a, lsat (adopt_scan keys a) any.
Proof.
  induction keys as [|k r IH]; intros a; cbn [adopt_scan]; [apply lsat_ret; exact I|].
  destruct (k =? 0); [apply IH|].
  apply lsat_bind_any; [apply ask_store_l; exact I|]. intros v.
  destruct v as [ks|raw| |]; try apply lsat_fail; [|apply lsat_ret; exact I].
  destruct (decode_value _) as [packet sq| |].
  - cbv zeta. destruct (N.testbit k 16); [apply IH|].
    destruct packet as [|h t]; [apply lsat_ret; exact I|]. apply IH.
  - apply lsat_bind_any; [apply store_delete_l|]. intros _. apply IH.
  - apply lsat_bind_any; [apply store_delete_l|]. intros _. apply IH.
Qed.

(* a fresh client: deadline cleared, PauseTimeout and buffer size as configured *)
Definition fresh_rp (cf : scfg) (p : option client * retv) : Prop :=
  match fst p with
  | Some c => rp c = (s_pause cf, s_rcap cf, false)
  | None => True
  end.

Lemma op_adopt_l cf z1 z2 : lsat (op_adopt cf z1 z2) (fresh_rp cf).
Proof.
  unfold op_adopt. apply lsat_bind_any; [apply ask_store_l; exact I|]. intros a.
  destruct a as [keys|v| |]; try apply lsat_fail; [|apply lsat_ret; exact I].
  apply lsat_bind_any; [apply adopt_scan_l|]. intros r.
  destruct r as [acc|e]; [|apply lsat_ret; exact I].
  destruct (clean_seq (keys_of (a_alo acc))) as [alo g1].
  destruct (clean_seq (keys_of (a_eo acc))) as [eo g2].
  destruct (clean_seq (keys_of (a_rel acc))) as [rel g3].
  cbv zeta.
  match goal with |- lsat (if ?b then _ else _) _ => destruct b end; [apply lsat_ret; exact I|].
  apply lsat_ret. unfold fresh_rp. cbn [fst].
  match goal with |- rp (?x <| k_q1 := _ |> <| k_q2 := _ |>) = _ => change (rp x = (s_pause cf, s_rcap cf, false)) end.
  match goal with |- context [if ?g then @nil N else rel] =>
    generalize (if g then @nil N else rel) end.
  intros rel'. destruct eo; destruct rel'; destruct alo; reflexivity.
Qed.

Lemma op_init_l cf cid : lsat (op_init cf cid) (fresh_rp cf).
Proof.
  unfold op_init. destruct (deny_of _); [apply lsat_ret; exact I|].
  apply lsat_bind_any; [apply ask_store_l; exact I|]. intros a.
  destruct a as [[|k ks]|v| |]; try apply lsat_fail; try (apply lsat_ret; exact I).
  cbv zeta. eapply lsat_bind; [apply rugged_save_l|]. intros [c ok] E. cbn [fst] in E. subst c.
  destruct ok; apply lsat_ret; [reflexivity|exact I].
Qed.

(* every operation *)
Theorem step_l c o : good c -> lsat (step c o) gd.
Proof.
  intros G. unfold step. cbv zeta.
  set (c0 := c <| k_done := [] |> <| k_xev := [] |>).
  assert (G0 : good c0) by exact G.
  destruct o.
  - apply read_slices_l, G0.
  - apply read_all_op_l, G0.
  - apply (gp_gd c0 _ G0), op_publish_l.
  - apply (gp_gd c0 _ G0), op_publish_persisted_l.
  - apply (gp_gd c0 _ G0), op_subscribe_l.
  - apply (gp_gd c0 _ G0), op_subscribe_l.
  - apply (gp_gd c0 _ G0), op_ping_l.
  - apply (gp_gd c0 _ G0), op_quit_l.
  - apply (gp_gd c0 _ G0), op_close_l.
  - apply (gp_gd c0 _ G0), op_disconnect_l.
  - eapply lsat_bind; [apply op_adopt_l|]. intros [[c1|] r] F; apply lsat_ret; [|exact G0].
    unfold fresh_rp in F. cbn [fst] in F. unfold gd, good. cbn [fst].
    change (rp c1 = (pause, cap, false)). rewrite F.
    rewrite (good_pause c0 G0), (good_cap c0 G0). reflexivity.
  - apply lsat_ret. unfold gd, good. rewrite rp_op_read_backoff. exact G0.
Qed.

End Session.

(* ------------------------------------------------------------------ *)
(* 6. The theorems in plain form                                       *)

(* every QRead of the list is armed, or asks for the whole buffer (bufio is empty) *)
Definition reads_armed_or_idle (cap : N) (l : list req) : Prop :=
  forall cn a want, In (QRead cn a want) l -> a = true \/ want = cap.
Definition reads_all_armed (l : list req) : Prop :=
  forall cn a want, In (QRead cn a want) l -> a = true.

Lemma rd_ok_reads cap l : Forall (rd_ok true cap) l -> reads_armed_or_idle cap l.
Proof.
  intros F cn a want Hin. rewrite Forall_forall in F. exact (F _ Hin eq_refl).
Qed.

(* One API call, any operation, any client state with the deadline cleared, any world:
   the deadline is cleared again afterwards, PauseTimeout and buffer size stay, and with a
   PauseTimeout every conn.Read of the call is armed or is made with bufio empty. *)
Theorem step_reads_armed : forall c o w c' r w',
  k_rarm c = false -> step c o w = Some ((c', r), w') ->
  k_rarm c' = false /\
  s_pause (k_cfg c') = s_pause (k_cfg c) /\ s_rcap (k_cfg c') = s_rcap (k_cfg c) /\
  exists new, w_log w' = new ++ w_log w /\
              (s_pause (k_cfg c) = true -> reads_armed_or_idle (s_rcap (k_cfg c)) new).
Proof.
  intros c o w c' r w' A H.
  assert (G : good (s_pause (k_cfg c)) (s_rcap (k_cfg c)) c) by (unfold good, rp; rewrite A; reflexivity).
  destruct (step_l _ _ c o G _ _ _ H) as [(new & L & F) G']. unfold gd, good, rp in G'. cbn [fst] in G'.
  injection G' as E1 E2 E3. split; [exact E3|]. split; [exact E1|]. split; [exact E2|].
  exists new. split; [exact L|]. intros P. rewrite P in F. apply rd_ok_reads, F.
Qed.

Theorem new_client_disarmed cf rseq : k_rarm (new_client cf rseq) = false.
Proof. reflexivity. Qed.

Theorem op_init_rarm cf cid w c r w' : op_init cf cid w = Some ((Some c, r), w') -> k_rarm c = false.
Proof.
  intros H. destruct (op_init_l true 0 cf cid _ _ _ H) as [_ F]. unfold fresh_rp, rp in F. cbn [fst] in F.
  injection F as _ _ F. exact F.
Qed.

Theorem op_adopt_rarm cf z1 z2 w c r w' : op_adopt cf z1 z2 w = Some ((Some c, r), w') -> k_rarm c = false.
Proof.
  intros H. destruct (op_adopt_l true 0 cf z1 z2 _ _ _ H) as [_ F]. unfold fresh_rp, rp in F. cbn [fst] in F.
  injection F as _ _ F. exact F.
Qed.

(* the deadline is cleared in every state the sequential interface can reach *)
Theorem reach_disarmed c : reach c -> k_rarm c = false.
Proof.
  induction 1 as [cf rseq|cf cid w c r w' H|c o w c' r w' _ IH H].
  - reflexivity.
  - exact (op_init_rarm _ _ _ _ _ _ H).
  - exact (proj1 (step_reads_armed _ _ _ _ _ _ IH H)).
Qed.

Corollary reach_step_reads c o w c' r w' :
  reach c -> s_pause (k_cfg c) = true -> step c o w = Some ((c', r), w') ->
  exists new, w_log w' = new ++ w_log w /\ reads_armed_or_idle (s_rcap (k_cfg c)) new.
Proof.
  intros R P H. destruct (step_reads_armed _ _ _ _ _ _ (reach_disarmed c R) H) as (_ & _ & _ & new & L & F).
  exists new. split; [exact L|exact (F P)].
Qed.

(* --- which read may be unarmed: the calls into the reader, seen from the session --- *)

Lemma with_reader_inv {A} c (f : rst -> A * rst) w c' a w' :
  with_reader c f w = Some ((c', a), w') ->
  exists s', f (rst_of c w) = (a, s') /\ c' = rst_back c s' /\
             w_log w' = map (fun l : bool * N => QRead (conn_of c) (fst l) (snd l)) (rlog s') ++ w_log w.
Proof.
  unfold with_reader. destruct (f (rst_of c w)) as [x s] eqn:F. intros H. inversion H; subst.
  exists s. auto.
Qed.

Definition qread (cn : N) (e : bool * N) : req := QRead cn (fst e) (snd e).

Lemma map_qread_armed cn l : Forall armed l -> reads_all_armed (map (qread cn) l).
Proof.
  intros F cn' a want Hin. apply in_map_iff in Hin. destruct Hin as (e & E & He).
  rewrite Forall_forall in F. specialize (F _ He). unfold qread in E. inversion E; subst. exact F.
Qed.

(* ReadSlices' call of peekPacket (the first action of every iteration of read_loop): all
   its conn.Reads are armed except possibly the first, which exists only if the session's
   buffer is empty at that moment: the wait for the first byte of the next packet *)
Theorem peek_packet_call_reads c w c1 pk w1 :
  s_pause (k_cfg c) = true ->
  with_reader c (peek_packet (s_pause (k_cfg c))) w = Some ((c1, pk), w1) ->
  exists first rest,
    w_log w1 = rest ++ first ++ w_log w /\ reads_all_armed rest /\
    (first = [] \/
     (k_rbuf c = [] /\ k_rerr c = None /\ first = [QRead (conn_of c) (k_rarm c) (s_rcap (k_cfg c))])) /\
    ((forall e p, pk <> PkErr e p) -> pk <> PkBrokerTerm -> k_rarm c1 = false).
Proof.
  intros P H. rewrite P in H. apply with_reader_inv in H. destruct H as (s' & F & -> & L).
  apply peek_packet_armed in F. destruct F as (_ & first & rest & Lg & Fa & Hf & Hd & _).
  cbn [rst_of rlog rbuf rerr rarmed rcap] in *. rewrite app_nil_r in Lg.
  exists (map (qread (conn_of c)) first), (map (qread (conn_of c)) rest).
  split; [rewrite L, Lg, map_app, app_assoc; reflexivity|].
  split; [apply map_qread_armed, Fa|]. split; [|exact Hd].
  destruct Hf as [->|(B & E & ->)]; [left; reflexivity|right]. auto.
Qed.

(* the read_loop iteration starts with exactly that call *)
Lemma read_loop_starts_with_peek f c :
  read_loop (S f) c =
  bind (with_reader c (peek_packet (s_pause (k_cfg c))))
       (fun p => let '(c, pk) := p in
          match pk with
          | PkErr ENoTape _ => fail_tape
          | PkBrokerTerm => c <- to_offline c ;; ret (c, RetErr E_brokerterm)
          | PkErr EClosed _ =>
            c <- to_offline c ;;
            '(c, e) <- connect c ;;
            if negb (e =? 0) then ret (c, RetErr e) else read_loop f c
          | PkErr e proto =>
            c <- to_offline c ;; ret (c, RetErr (if proto then E_proto else rerr_class e))
          | PkOk head body =>
            '(c, h) <- dispatch c head body ;;
            match h with
            | HMsg topic msg => ret (c <| k_peekn := len body |>, RetMsg topic msg)
            | HErr e => c <- to_offline c ;; ret (c, RetErr e)
            | HOk => read_loop f (c <| k_rbuf ::= skipn (length body) |>)
            | HDupe =>
              '(c, e) <- nowait_write c [k_pack c] true ;;
              if negb (e =? 0) then c <- to_offline c ;; ret (c, RetErr e)
              else read_loop f (c <| k_pack := [] |> <| k_rbuf ::= skipn (length body) |>)
            end
          | PkBig head size partial =>
            '(c, h) <- on_publish c head partial ;;
            match h with
            | HMsg topic pmsg =>
              let before := s_rcap (k_cfg c) - len pmsg in
              ret (c <| k_big := Some (size - before) |> <| k_peekn := 0 |> <| k_rbuf ::= skipn (N.to_nat before) |>,
                   RetBig topic (size - before))
            | HDupe =>
              '(c, d) <- with_reader c (fun s => client_discard (s_pause (k_cfg c)) s size) ;;
              match d with
              | Some ENoTape => fail_tape
              | Some e => c <- to_offline c ;; ret (c, RetErr (rerr_class e))
              | None =>
                '(c, e) <- nowait_write c [k_pack c] true ;;
                if negb (e =? 0) then c <- to_offline c ;; ret (c, RetErr e)
                else read_loop f (c <| k_pack := [] |>)
              end
            | HErr e => c <- to_offline c ;; ret (c, RetErr e)
            | HOk => fail_tape
            end
          end).
Proof. reflexivity. Qed.

(* discard of a BigMessage remainder / duplicate, ReadAll, CONNACK wait: all armed *)
Theorem discard_call_reads c n w c1 d w1 :
  s_pause (k_cfg c) = true ->
  with_reader c (fun s => client_discard (s_pause (k_cfg c)) s n) w = Some ((c1, d), w1) ->
  exists new, w_log w1 = new ++ w_log w /\ reads_all_armed new /\ k_rarm c1 = false.
Proof.
  intros P H. rewrite P in H. apply with_reader_inv in H. destruct H as (s' & F & -> & L).
  apply client_discard_armed in F. destruct F as [(_ & new & Lg & Fa) Ha].
  cbn [rst_of rlog] in Lg. rewrite app_nil_r in Lg.
  exists (map (qread (conn_of c)) new). split; [rewrite L, Lg; reflexivity|].
  split; [apply map_qread_armed, Fa|exact Ha].
Qed.

(* BigMessage.ReadAll (OpReadAll): every conn.Read armed, no exception, whatever the state *)
Theorem op_read_all_armed c w c' r w' :
  s_pause (k_cfg c) = true -> step c OpReadAll w = Some ((c', r), w') ->
  exists new, w_log w' = new ++ w_log w /\ reads_all_armed new.
Proof.
  intros P H. unfold step, read_all_op in H. cbv zeta in H.
  change (k_big (c <| k_done := [] |> <| k_xev := [] |>)) with (k_big c) in H.
  destruct (k_big c) as [size|].
  2:{ rinv H. subst. exists []. split; [reflexivity|]. intros cn a want []. }
  binv H as a0 w1 Hr. destruct a0 as [c1 res].
  change (s_pause (k_cfg (c <| k_done := [] |> <| k_xev := [] |> <| k_big := None |>))) with (s_pause (k_cfg c)) in Hr.
  rewrite P in Hr. apply with_reader_inv in Hr. destruct Hr as (s' & F & -> & L).
  apply read_all_armed in F. destruct F as [(_ & new & Lg & Fa) _].
  cbn [rst_of rlog] in Lg. rewrite app_nil_r in Lg.
  set (cn := conn_of (c <| k_done := [] |> <| k_xev := [] |> <| k_big := None |>)) in *.
  assert (RA : reads_all_armed (map (qread cn) new)) by apply map_qread_armed, Fa.
  destruct res as [bs|e].
  - rinv H. rewrite E. exists (map (qread cn) new). split; [rewrite L, Lg; reflexivity|exact RA].
  - assert (T : bind (tell (QClose (conn_of (rst_back (c <| k_done := [] |> <| k_xev := [] |> <| k_big := None |>) s'))))
                     (fun _ => ret (rst_back (c <| k_done := [] |> <| k_xev := [] |> <| k_big := None |>) s', RetErr (rerr_class e))) w1
                = Some ((c', r), w')).
    { destruct e; try exact H. discriminate. }
    binv T as u w2 Ht. rinv T. rewrite E. unfold tell in Ht. injection Ht as _ <-.
    eexists (_ :: map (qread cn) new). split; [cbn; rewrite L, Lg; reflexivity|].
    intros cn' a want [X|X]; [discriminate|]. exact (RA _ _ _ X).
Qed.

(* the closed system: any history, OpAdopt included *)
Theorem exec_disarmed s o tp s' r log :
  k_rarm (sy_c s) = false -> exec s o tp = Some (s', r, log) ->
  k_rarm (sy_c s') = false /\
  (s_pause (k_cfg (sy_c s)) = true -> reads_armed_or_idle (s_rcap (k_cfg (sy_c s))) log).
Proof.
  unfold exec. intros A H.
  destruct (step (sy_c s) o (world_of (sy_m s) tp)) as [[[c' r'] w']|] eqn:St; [|discriminate].
  inversion H; subst. cbn [sy_c].
  destruct (step_reads_armed _ _ _ _ _ _ A St) as (A' & _ & _ & new & L & F).
  split; [exact A'|]. intros P. specialize (F P). cbn [world_of w_log] in L. rewrite app_nil_r in L.
  rewrite L. intros cn a want Hin. apply in_rev in Hin. exact (F _ _ _ Hin).
Qed.

Theorem run_disarmed : forall h s, k_rarm (sy_c s) = false -> k_rarm (sy_c (run s h)) = false.
Proof.
  induction h as [|[o tp] h IH]; intros s A; cbn [run]; [exact A|].
  destruct (exec s o tp) as [[[s' r] log]|] eqn:E; [|apply IH, A].
  apply IH. exact (proj1 (exec_disarmed _ _ _ _ _ _ A E)).
Qed.

Theorem reachable_disarmed s : reachable s -> k_rarm (sy_c s) = false.
Proof.
  intros (cf & cid & tp0 & h & s0 & Hi & ->). apply run_disarmed.
  unfold init_sys in Hi.
  destruct (op_init cf cid (world_of [] tp0)) as [[[[c|] r] w]|] eqn:I; try discriminate.
  inversion Hi; subst. cbn [sy_c]. exact (op_init_rarm _ _ _ _ _ _ I).
Qed.

(* C10/C13 at the model level: from every reachable state of the closed system, for every
   operation and every environment script, with a PauseTimeout configured every conn.Read
   the call makes is armed or is made with bufio empty (want = readBufSize) *)
Theorem reachable_reads_armed s o tp s' r log :
  reachable s -> s_pause (k_cfg (sy_c s)) = true -> exec s o tp = Some (s', r, log) ->
  reads_armed_or_idle (s_rcap (k_cfg (sy_c s))) log.
Proof.
  intros R P H. exact (proj2 (exec_disarmed _ _ _ _ _ _ (reachable_disarmed s R) H) P).
Qed.

(* ------------------------------------------------------------------ *)
(* 7. Non-vacuity: a fragmented inbound stream with a progress-making deadline expiry.
      PUBLISH "a" "xy" arrives as 48 | 5 0 | 1 97 | (expiry) | 120 121 + PINGRESP head 208 |
      0 | and PUBLISH "b" "" as 48 3 0 | 1 98 *)

Definition ex_tape : list rans :=
  [RData [48]; RData [5; 0]; RData [1; 97]; RTimeout; RData [120; 121; 208]; RData [0];
   RData [48; 3; 0]; RData [1; 98]].

(* L1: one peekPacket on an empty buffer: the idle read unarmed, the four others armed *)
Example ex_peek_packet :
  (let '(r, s) := peek_packet true (reader_on 256 [] ex_tape) in (r, rlog s, rarmed s)) =
  (PkOk 48 [0; 1; 97; 120; 121],
   [(true, 253); (true, 253); (true, 255); (true, 256); (false, 256)], false).
Proof. vm_compute. reflexivity. Qed.

Definition ex_rd_cfg : scfg :=
  mkScfg {| cfg_user := []; cfg_pass := None; cfg_will := None; cfg_keepalive := 0; cfg_clean := false |}
         true 16384 16384 256 0 0.
Definition ex_rd_client : client :=
  new_client ex_rd_cfg 0 <| k_rconn := Some 0 |> <| k_wsem := WsConn 0 |> <| k_csem := Some 0 |>
             <| k_nconn := 1 |> <| k_online := true |>.
Definition ex_rd_world : world := mkWorld [] [] (Some []) [] [] ex_tape [].

(* L2: two ReadSlices calls; the two unarmed reads are the waits for the first byte of the
   first and of the third packet (the PINGRESP head was already buffered) *)
Example ex_read_slices :
  match step ex_rd_client OpRead ex_rd_world with
  | Some ((c1, r1), w1) =>
    match step c1 OpRead w1 with
    | Some ((c2, r2), w2) => Some (r1, r2, w_log w2, k_rarm c2)
    | None => None
    end
  | None => None
  end =
  Some (RetMsg [97] [120; 121], RetMsg [98] [],
        [QRead 0 true 255; QRead 0 false 256; QRead 0 true 256;
         QRead 0 true 253; QRead 0 true 253; QRead 0 true 255; QRead 0 true 256; QRead 0 false 256],
        false).
Proof. vm_compute. reflexivity. Qed.

(* The corner in which "bufio empty at peekPacket" is NOT a packet boundary of the byte
   stream: ReadAll of a 10-byte remainder fails after 2 bytes (deadline expiry), the
   connection is closed (QClose 0) but stays the read connection; the next ReadSlices waits
   unarmed for a "first byte" on it, 8 payload bytes short.  The trace checker
   HistChecks.reads_armed has the same exception: it stops judging a connection at its QClose
   (reads on a closed connection return at once). *)
Example ex_after_failed_read_all :
  let c0 := ex_rd_client <| k_big := Some 10 |> in
  let w0 := mkWorld [] [false] (Some []) [false] [] [RData [1; 2]; RTimeout; RClosed] [] in
  match step c0 OpReadAll w0 with
  | Some ((c1, r1), w1) =>
    match step c1 OpRead w1 with
    | Some ((c2, r2), w2) => Some (r1, k_rconn c1, w_log w2)
    | None => None
    end
  | None => None
  end =
  Some (RetErr (1 + 8192), Some 0,
        [QDial; QLoad 0; QClose 0; QRead 0 false 256; QClose 0; QRead 0 true 256; QRead 0 true 256]).
Proof. vm_compute. reflexivity. Qed.
