(* The Close/Disconnect micro-model of TermCheck.v refines the session model where the two
   overlap (a transport whose Close succeeds): every result Session.op_disconnect and
   Session.op_close can produce, in any state and under any script of the world, is one of the
   outcomes TermCheck.term_model allows for the corresponding state.  Together with
   term_model_in_contract this puts the session model's Disconnect inside the C14 contract
   by a second route (ClassProofs.op_disconnect_classes is the first). *)
From RecordUpdate Require Import RecordUpdate.
From MQ Require Import Session TermCheck.

Definition tstate_of (c : client) : tstate :=
  if k_closed c then TClosed else match k_wsem c with WsConn _ => TOnline | _ => TFresh end.

Lemma concat_one {A} (l : list A) : concat [l] = l.
Proof. cbn. apply app_nil_r. Qed.

Theorem session_disconnect_in_term_model c w c' e w' :
  op_disconnect c w = Some ((c', RetErr e), w') ->
  exists n, In (e, n) (term_model (tstate_of c) TDisc (t_wr w) false).
Proof.
  unfold op_disconnect, tstate_of. destruct (k_closed c) eqn:CL.
  { intros H. cbv [ret] in H. injection H as _ <- _. exists 0. left. reflexivity. }
  destruct (k_wsem c) as [| |cn|] eqn:W;
    try (intros H; cbv [ret] in H; injection H as _ <- _; exists 0; left; reflexivity).
  unfold bind, conn_write. rewrite concat_one.
  unfold term_model, disc_write.
  destruct (write_to_run packet_disconnect (t_wr w)) as [[calls r] t'] eqn:E.
  destruct r; intros H; try discriminate; cbv [tell ret] in H; injection H as _ <- _;
    eexists; left; reflexivity.
Qed.

Theorem session_close_in_term_model c w c' e w' :
  op_close c w = Some ((c', RetErr e), w') ->
  In (e, 0) (term_model (tstate_of c) TClose (t_wr w) false).
Proof.
  unfold op_close, tstate_of. destruct (k_closed c) eqn:CL.
  { intros H. cbv [ret] in H. injection H as _ <- _. left. reflexivity. }
  unfold bind. destruct (k_wsem c) as [| |cn|] eqn:W; intros H; cbv [tell ret] in H;
    injection H as _ <- _; left; reflexivity.
Qed.
