(* Proofs: every packet the client composes (Packets.v) is read back by the independent
   MQTT 3.1.1 parser (Spec.v) as exactly the request it was composed from, for all sizes. *)
From MQ Require Import Bytes Packets Spec.
From Coq Require Import ZArith ZifyN ZifyNat ZifyBool.
Ltac Zify.zify_post_hook ::= Z.div_mod_to_equations.

(* ---------- lists, lengths ---------- *)

Lemma pk_firstn_app {A} (a b : list A) : firstn (length a) (a ++ b) = a.
Proof. induction a as [|x a IH]; cbn; [destruct b; reflexivity | now rewrite IH]. Qed.

Lemma pk_skipn_app {A} (a b : list A) : skipn (length a) (a ++ b) = b.
Proof. induction a as [|x a IH]; cbn; [reflexivity | exact IH]. Qed.

Lemma len_nil : len [] = 0.
Proof. reflexivity. Qed.

Lemma len_cons x l : len (x :: l) = 1 + len l.
Proof. unfold len. cbn [length]. lia. Qed.

Lemma len_app a b : len (a ++ b) = len a + len b.
Proof. unfold len. rewrite app_length. lia. Qed.

Lemma len_be16 x : len (be16 x) = 2.
Proof. reflexivity. Qed.

Global Hint Rewrite len_app len_be16 len_cons len_nil : pklen.

Lemma pk_bytes_app a b : bytes a -> bytes b -> bytes (a ++ b).
Proof. unfold bytes; intros; apply Forall_app; auto. Qed.

Lemma pk_bytes_cons x l : x < 256 -> bytes l -> bytes (x :: l).
Proof. intros Hx Hl. constructor; assumption. Qed.

Lemma pk_bytes_nil : bytes [].
Proof. constructor. Qed.

Lemma be16_bytes x : bytes (be16 x).
Proof. unfold be16, bytes; repeat constructor; unfold isbyte; lia. Qed.

Lemma be16_dec x : x < 65536 -> (x / 256) mod 256 * 256 + x mod 256 = x.
Proof. intros H. lia. Qed.

(* ---------- the spec's field readers on composed input ---------- *)

Lemma split_at_app a b : split_at (len a) (a ++ b) = Some (a, b).
Proof.
  unfold split_at, len. rewrite Nat2N.id, app_length.
  destruct (Nat.leb_spec (length a) (length a + length b)) as [L|L]; [|lia].
  now rewrite pk_firstn_app, pk_skipn_app.
Qed.

Lemma take_u16_be16 x r : x < 65536 -> take_u16 (be16 x ++ r) = Some (x, r).
Proof. intros H. unfold be16. cbn [app take_u16]. now rewrite be16_dec by exact H. Qed.

Lemma take_field_app s r : len s <= 65535 -> take_field (be16 (len s) ++ s ++ r) = Some (s, r).
Proof.
  intros H. unfold be16. cbn [app take_field]. rewrite be16_dec by lia. apply split_at_app.
Qed.

Lemma take_field_exact s : len s <= 65535 -> take_field (be16 (len s) ++ s) = Some (s, []).
Proof. intros H. pose proof (take_field_app s [] H) as E. now rewrite app_nil_r in E. Qed.

(* ---------- remaining length ---------- *)

Lemma varint_fuel_bytes f : forall l, bytes (varint_fuel f l).
Proof.
  induction f as [|f IH]; intros l; cbn [varint_fuel]; [constructor|].
  destruct (N.leb_spec l 127) as [L|L].
  - apply pk_bytes_cons; [lia|constructor].
  - apply pk_bytes_cons; [lia|apply IH].
Qed.

Theorem varint_bytes l : bytes (varint l).
Proof. apply varint_fuel_bytes. Qed.

Lemma varint_w1 l : l <= 127 -> varint l = [l].
Proof.
  intros H. unfold varint. cbn [varint_fuel].
  destruct (N.leb_spec l 127); [reflexivity|lia].
Qed.

Lemma varint_w2 l : 127 < l -> l < 16384 -> varint l = [l mod 128 + 128; l / 128].
Proof.
  intros H1 H2. unfold varint. cbn [varint_fuel].
  destruct (N.leb_spec l 127); [lia|].
  destruct (N.leb_spec (l / 128) 127); [reflexivity|lia].
Qed.

Lemma varint_w3 l : 16383 < l -> l < 2097152 ->
  varint l = [l mod 128 + 128; (l / 128) mod 128 + 128; l / 128 / 128].
Proof.
  intros H1 H2. unfold varint. cbn [varint_fuel].
  destruct (N.leb_spec l 127); [lia|].
  destruct (N.leb_spec (l / 128) 127); [lia|].
  destruct (N.leb_spec (l / 128 / 128) 127); [reflexivity|lia].
Qed.

Lemma varint_w4 l : 2097151 < l -> l <= 268435455 ->
  varint l = [l mod 128 + 128; (l / 128) mod 128 + 128; (l / 128 / 128) mod 128 + 128;
              l / 128 / 128 / 128].
Proof.
  intros H1 H2. unfold varint. cbn [varint_fuel].
  destruct (N.leb_spec l 127); [lia|].
  destruct (N.leb_spec (l / 128) 127); [lia|].
  destruct (N.leb_spec (l / 128 / 128) 127); [lia|].
  destruct (N.leb_spec (l / 128 / 128 / 128) 127); [reflexivity|lia].
Qed.

(* beyond packet_max the composition loop emits (at least) five bytes, the first four
   all with the continuation bit *)
Lemma varint_w5 l : 268435455 < l ->
  exists e t, varint l = (l mod 128 + 128) :: ((l / 128) mod 128 + 128)
                         :: ((l / 128 / 128) mod 128 + 128)
                         :: ((l / 128 / 128 / 128) mod 128 + 128) :: e :: t.
Proof.
  intros H1. unfold varint. cbn [varint_fuel].
  destruct (N.leb_spec l 127); [lia|].
  destruct (N.leb_spec (l / 128) 127); [lia|].
  destruct (N.leb_spec (l / 128 / 128) 127); [lia|].
  destruct (N.leb_spec (l / 128 / 128 / 128) 127); [lia|].
  destruct (N.leb_spec (l / 128 / 128 / 128 / 128) 127); eexists; eexists; reflexivity.
Qed.

Arguments varint : simpl never.

Lemma take_remlen_1 a r : a < 128 -> take_remlen (a :: r) = Some (a, r).
Proof. intros Ha. unfold take_remlen. now rewrite (proj2 (N.ltb_lt _ _) Ha). Qed.

Lemma take_remlen_2 a b r : 128 <= a -> b < 128 ->
  take_remlen (a :: b :: r) = Some (a - 128 + 128 * b, r).
Proof.
  intros Ha Hb. unfold take_remlen.
  now rewrite (proj2 (N.ltb_ge _ _) Ha), (proj2 (N.ltb_lt _ _) Hb).
Qed.

Lemma take_remlen_3 a b c r : 128 <= a -> 128 <= b -> c < 128 ->
  take_remlen (a :: b :: c :: r) = Some (a - 128 + 128 * (b - 128) + 16384 * c, r).
Proof.
  intros Ha Hb Hc. unfold take_remlen.
  now rewrite (proj2 (N.ltb_ge _ _) Ha), (proj2 (N.ltb_ge _ _) Hb), (proj2 (N.ltb_lt _ _) Hc).
Qed.

Lemma take_remlen_4 a b c d r : 128 <= a -> 128 <= b -> 128 <= c -> d < 128 ->
  take_remlen (a :: b :: c :: d :: r)
  = Some (a - 128 + 128 * (b - 128) + 16384 * (c - 128) + 2097152 * d, r).
Proof.
  intros Ha Hb Hc Hd. unfold take_remlen.
  now rewrite (proj2 (N.ltb_ge _ _) Ha), (proj2 (N.ltb_ge _ _) Hb), (proj2 (N.ltb_ge _ _) Hc),
    (proj2 (N.ltb_lt _ _) Hd).
Qed.

Lemma take_remlen_5 a b c d r : 128 <= a -> 128 <= b -> 128 <= c -> 128 <= d ->
  take_remlen (a :: b :: c :: d :: r) = None.
Proof.
  intros Ha Hb Hc Hd. unfold take_remlen.
  rewrite (proj2 (N.ltb_ge _ _) Ha), (proj2 (N.ltb_ge _ _) Hb), (proj2 (N.ltb_ge _ _) Hc),
    (proj2 (N.ltb_ge _ _) Hd).
  destruct r; reflexivity.
Qed.

Theorem varint_roundtrip l rest :
  l <= packet_max -> take_remlen (varint l ++ rest) = Some (l, rest).
Proof.
  unfold packet_max. intros H.
  destruct (N.le_gt_cases l 127) as [H1|H1].
  { rewrite varint_w1 by exact H1. cbn [app]. apply take_remlen_1. lia. }
  destruct (N.lt_ge_cases l 16384) as [H2|H2].
  { rewrite varint_w2 by lia. cbn [app]. rewrite take_remlen_2 by lia.
    f_equal. f_equal. lia. }
  destruct (N.lt_ge_cases l 2097152) as [H3|H3].
  { rewrite varint_w3 by lia. cbn [app]. rewrite take_remlen_3 by lia.
    f_equal. f_equal. lia. }
  rewrite varint_w4 by lia. cbn [app]. rewrite take_remlen_4 by lia.
  f_equal. f_equal. lia.
Qed.

Theorem varint_length_le4 l : l <= packet_max -> (1 <= length (varint l) <= 4)%nat.
Proof.
  unfold packet_max. intros H.
  destruct (N.le_gt_cases l 127) as [H1|H1]; [rewrite varint_w1 by exact H1; cbn; lia|].
  destruct (N.lt_ge_cases l 16384) as [H2|H2]; [rewrite varint_w2 by lia; cbn; lia|].
  destruct (N.lt_ge_cases l 2097152) as [H3|H3]; [rewrite varint_w3 by lia; cbn; lia|].
  rewrite varint_w4 by lia; cbn; lia.
Qed.

(* a fifth length byte is refused by the spec parser (no upper bound on l needed) *)
Theorem varint_too_big_gen l rest :
  packet_max < l -> take_remlen (varint l ++ rest) = None.
Proof.
  unfold packet_max. intros H.
  destruct (varint_w5 l H) as (e & t & ->). cbn [app]. apply take_remlen_5; lia.
Qed.

Theorem varint_too_big l rest :
  packet_max < l -> l < 2 ^ 35 -> take_remlen (varint l ++ rest) = None.
Proof. intros H _. apply varint_too_big_gen. exact H. Qed.

(* ---------- framing ---------- *)

Lemma framed_app h (v body rest : list N) : (h :: v ++ body) ++ rest = h :: v ++ body ++ rest.
Proof. cbn [app]. now rewrite <- app_assoc. Qed.

Lemma parse_packet_framed h n body rest :
  len body = n -> n <= packet_max ->
  parse_packet (h :: varint n ++ body ++ rest) =
  match parse_body (h / 16) (h mod 16) body with Some p => Some (p, rest) | None => None end.
Proof.
  intros <- H. unfold parse_packet.
  rewrite varint_roundtrip by exact H. rewrite split_at_app. reflexivity.
Qed.

Lemma frame_packet_framed h n body rest :
  len body = n -> n <= packet_max ->
  frame_packet (h :: varint n ++ body ++ rest) = Some (h, body, rest).
Proof.
  intros <- H. unfold frame_packet.
  rewrite varint_roundtrip by exact H. rewrite split_at_app. reflexivity.
Qed.

Theorem frame_of_parse l p rest :
  parse_packet l = Some (p, rest) -> exists h body, frame_packet l = Some (h, body, rest).
Proof.
  unfold parse_packet, frame_packet.
  destruct l as [|h r]; [discriminate|].
  destruct (take_remlen r) as [[n r']|]; [|discriminate].
  destruct (split_at n r') as [[body rest']|]; [|discriminate].
  destruct (parse_body (h / 16) (h mod 16) body) as [q|]; [|discriminate].
  intros E. inversion E; subst. exists h, body. reflexivity.
Qed.

(* ---------- PUBLISH ---------- *)

Definition publish_body (topic msg : list N) (pid : N) : list N :=
  be16 (len topic) ++ topic ++ (if pid =? 0 then [] else be16 pid) ++ msg.

Lemma publish_packet_shape head topic msg pid :
  publish_packet head topic msg pid
  = head :: varint (publish_size topic msg pid) ++ publish_body topic msg pid.
Proof.
  unfold publish_packet, publish_head_buf, publish_body. cbn [app]. f_equal.
  rewrite <- !app_assoc. reflexivity.
Qed.

Lemma publish_body_len topic msg pid : len (publish_body topic msg pid) = publish_size topic msg pid.
Proof.
  unfold publish_body, publish_size. autorewrite with pklen.
  destruct (pid =? 0); autorewrite with pklen; lia.
Qed.

Lemma head_publish_byte qos retain dup : qos < 3 -> head_publish qos retain dup < 256.
Proof. intros H. unfold head_publish. destruct retain, dup; lia. Qed.

Lemma parse_body_head_publish qos retain dup body : qos < 3 ->
  parse_body (head_publish qos retain dup / 16) (head_publish qos retain dup mod 16) body =
  match take_field body with
  | Some (topic, r) =>
    if qos =? 0 then (if dup then None else Some (PPublish dup qos retain topic None r))
    else match take_u16 r with
         | Some (id, r) => if id =? 0 then None else Some (PPublish dup qos retain topic (Some id) r)
         | None => None
         end
  | None => None
  end.
Proof.
  intros H. assert (qos = 0 \/ qos = 1 \/ qos = 2) as [-> | [-> | ->]] by lia;
    destruct retain, dup; reflexivity.
Qed.

Theorem publish_roundtrip topic msg qos retain dup pid rest :
  bytes topic -> bytes msg -> len topic <= 65535 -> qos < 3 ->
  (qos = 0 -> pid = 0 /\ dup = false) -> (0 < qos -> 0 < pid < 65536) ->
  publish_size topic msg pid <= packet_max ->
  parse_packet (publish_packet (head_publish qos retain dup) topic msg pid ++ rest)
  = Some (PPublish dup qos retain topic (if pid =? 0 then None else Some pid) msg, rest).
Proof.
  intros _ _ Hl Hq H0 H1 Hs.
  rewrite publish_packet_shape, framed_app.
  rewrite (parse_packet_framed _ _ _ _ (publish_body_len topic msg pid) Hs).
  rewrite parse_body_head_publish by exact Hq.
  unfold publish_body. rewrite take_field_app by exact Hl.
  destruct (N.eqb_spec qos 0) as [E|E].
  - destruct (H0 E) as [-> ->]. cbn [N.eqb app]. reflexivity.
  - assert (0 < pid < 65536) as Hp by (apply H1; lia).
    assert (pid =? 0 = false) as Z by (apply N.eqb_neq; lia).
    rewrite Z. rewrite take_u16_be16 by lia. rewrite Z. reflexivity.
Qed.

Theorem publish_frame head topic msg pid rest :
  head < 256 -> publish_size topic msg pid <= packet_max ->
  frame_packet (publish_packet head topic msg pid ++ rest)
  = Some (head, be16 (len topic) ++ topic ++ (if pid =? 0 then [] else be16 pid) ++ msg, rest).
Proof.
  intros _ Hs. rewrite publish_packet_shape, framed_app.
  apply frame_packet_framed; [apply publish_body_len|exact Hs].
Qed.

Theorem publish_packet_bytes head topic msg pid :
  head < 256 -> bytes topic -> bytes msg -> bytes (publish_packet head topic msg pid).
Proof.
  intros Hh Ht Hm. rewrite publish_packet_shape. unfold publish_body.
  apply pk_bytes_cons; [exact Hh|].
  repeat apply pk_bytes_app; auto using varint_bytes, be16_bytes.
  destruct (pid =? 0); [apply pk_bytes_nil|apply be16_bytes].
Qed.

(* ---------- SUBSCRIBE ---------- *)

Definition subscribe_body (pid : N) (fs : list (list N)) (level : N) : list N :=
  be16 pid ++ sub_filters fs level.

Lemma subscribe_packet_shape pid fs level :
  subscribe_packet pid fs level = 130 :: varint (subscribe_size fs) ++ subscribe_body pid fs level.
Proof. reflexivity. Qed.

Lemma sub_filters_len fs level :
  len (sub_filters fs level) = 3 * N.of_nat (length fs) + filters_len fs.
Proof.
  induction fs as [|s r IH]; [reflexivity|].
  cbn [sub_filters filters_len length]. autorewrite with pklen. rewrite IH. lia.
Qed.

Lemma subscribe_body_len pid fs level : len (subscribe_body pid fs level) = subscribe_size fs.
Proof.
  unfold subscribe_body, subscribe_size. autorewrite with pklen. rewrite sub_filters_len. lia.
Qed.

Lemma psf_step f x r :
  parse_sub_filters (S f) (be16 x ++ r) =
  match take_field (be16 x ++ r) with
  | Some (s, q :: r') =>
    if q <? 3 then
      match parse_sub_filters f r' with Some fs => Some ((s, q) :: fs) | None => None end
    else None
  | _ => None
  end.
Proof. reflexivity. Qed.

Lemma parse_sub_filters_ok fs level :
  level < 3 -> Forall (fun f => len f <= 65535) fs ->
  forall fuel, (length fs < fuel)%nat ->
  parse_sub_filters fuel (sub_filters fs level) = Some (map (fun f => (f, level)) fs).
Proof.
  intros Hl Hf. induction Hf as [|s r Hs Hr IH]; intros fuel Hfu.
  - destruct fuel as [|fuel]; [cbn in Hfu; lia|reflexivity].
  - destruct fuel as [|fuel]; [cbn in Hfu; lia|].
    cbn [sub_filters length map] in *. rewrite psf_step.
    rewrite take_field_app by exact Hs. cbn [app].
    rewrite (proj2 (N.ltb_lt _ _) Hl). rewrite IH by lia. reflexivity.
Qed.

Lemma sub_filters_length_ge fs level : (length fs <= length (sub_filters fs level))%nat.
Proof.
  induction fs as [|s r IH]; cbn [sub_filters length]; [lia|].
  rewrite !app_length. cbn [length be16]. lia.
Qed.

Lemma parse_body_subscribe id r :
  id < 65536 -> r <> [] ->
  parse_body 8 2 (be16 id ++ r) =
  match parse_sub_filters (S (length r)) r with
  | Some fs => if id =? 0 then None else Some (PSubscribe id fs)
  | None => None
  end.
Proof.
  intros Hi Hr. destruct r as [|x r']; [congruence|].
  unfold be16. cbn [app].
  set (a := (id / 256) mod 256). set (b := id mod 256).
  change (parse_body 8 2 (a :: b :: x :: r')) with
    (match parse_sub_filters (S (length (x :: r'))) (x :: r') with
     | Some fs => if a * 256 + b =? 0 then None else Some (PSubscribe (a * 256 + b) fs)
     | None => None
     end).
  subst a b. rewrite be16_dec by exact Hi. reflexivity.
Qed.

Lemma sub_filters_nonempty fs level : fs <> [] -> sub_filters fs level <> [].
Proof. destruct fs as [|s r]; [congruence|]. intros _. cbn [sub_filters be16 app]. discriminate. Qed.

Theorem subscribe_roundtrip pid fs level rest :
  fs <> [] -> Forall bytes fs -> Forall (fun f => len f <= 65535) fs -> level < 3 ->
  0 < pid < 65536 -> subscribe_size fs <= packet_max ->
  parse_packet (subscribe_packet pid fs level ++ rest)
  = Some (PSubscribe pid (map (fun f => (f, level)) fs), rest).
Proof.
  intros Hne _ Hf Hl Hp Hs.
  rewrite subscribe_packet_shape, framed_app.
  rewrite (parse_packet_framed _ _ _ _ (subscribe_body_len pid fs level) Hs).
  change (130 / 16) with 8. change (130 mod 16) with 2.
  unfold subscribe_body.
  rewrite parse_body_subscribe by (try lia; apply sub_filters_nonempty; exact Hne).
  rewrite (parse_sub_filters_ok fs level Hl Hf)
    by (pose proof (sub_filters_length_ge fs level); lia).
  assert (pid =? 0 = false) as -> by (apply N.eqb_neq; lia). reflexivity.
Qed.

Lemma sub_filters_bytes fs level : Forall bytes fs -> level < 256 -> bytes (sub_filters fs level).
Proof.
  intros Hf Hl. induction Hf as [|s r Hs Hr IH]; cbn [sub_filters]; [apply pk_bytes_nil|].
  repeat apply pk_bytes_app; auto using be16_bytes. apply pk_bytes_cons; [exact Hl|apply pk_bytes_nil].
Qed.

Theorem subscribe_packet_bytes pid fs level :
  Forall bytes fs -> level < 256 -> bytes (subscribe_packet pid fs level).
Proof.
  intros Hf Hl. unfold subscribe_packet. apply pk_bytes_cons; [lia|].
  repeat apply pk_bytes_app; auto using varint_bytes, be16_bytes, sub_filters_bytes.
Qed.

(* ---------- UNSUBSCRIBE ---------- *)

Definition unsubscribe_body (pid : N) (fs : list (list N)) : list N :=
  be16 pid ++ unsub_filters fs.

Lemma unsubscribe_packet_shape pid fs :
  unsubscribe_packet pid fs = 162 :: varint (unsubscribe_size fs) ++ unsubscribe_body pid fs.
Proof. reflexivity. Qed.

Lemma unsub_filters_len fs : len (unsub_filters fs) = 2 * N.of_nat (length fs) + filters_len fs.
Proof.
  induction fs as [|s r IH]; [reflexivity|].
  cbn [unsub_filters filters_len length]. autorewrite with pklen. rewrite IH. lia.
Qed.

Lemma unsubscribe_body_len pid fs : len (unsubscribe_body pid fs) = unsubscribe_size fs.
Proof.
  unfold unsubscribe_body, unsubscribe_size. autorewrite with pklen. rewrite unsub_filters_len. lia.
Qed.

Lemma puf_step f x r :
  parse_unsub_filters (S f) (be16 x ++ r) =
  match take_field (be16 x ++ r) with
  | Some (s, r') =>
    match parse_unsub_filters f r' with Some fs => Some (s :: fs) | None => None end
  | None => None
  end.
Proof. reflexivity. Qed.

Lemma parse_unsub_filters_ok fs :
  Forall (fun f => len f <= 65535) fs ->
  forall fuel, (length fs < fuel)%nat ->
  parse_unsub_filters fuel (unsub_filters fs) = Some fs.
Proof.
  intros Hf. induction Hf as [|s r Hs Hr IH]; intros fuel Hfu.
  - destruct fuel as [|fuel]; [cbn in Hfu; lia|reflexivity].
  - destruct fuel as [|fuel]; [cbn in Hfu; lia|].
    cbn [unsub_filters length] in *. rewrite puf_step.
    rewrite take_field_app by exact Hs. rewrite IH by lia. reflexivity.
Qed.

Lemma unsub_filters_length_ge fs : (length fs <= length (unsub_filters fs))%nat.
Proof.
  induction fs as [|s r IH]; cbn [unsub_filters length]; [lia|].
  rewrite !app_length. cbn [length be16]. lia.
Qed.

Lemma parse_body_unsubscribe id r :
  id < 65536 -> r <> [] ->
  parse_body 10 2 (be16 id ++ r) =
  match parse_unsub_filters (S (length r)) r with
  | Some fs => if id =? 0 then None else Some (PUnsubscribe id fs)
  | None => None
  end.
Proof.
  intros Hi Hr. destruct r as [|x r']; [congruence|].
  unfold be16. cbn [app].
  set (a := (id / 256) mod 256). set (b := id mod 256).
  change (parse_body 10 2 (a :: b :: x :: r')) with
    (match parse_unsub_filters (S (length (x :: r'))) (x :: r') with
     | Some fs => if a * 256 + b =? 0 then None else Some (PUnsubscribe (a * 256 + b) fs)
     | None => None
     end).
  subst a b. rewrite be16_dec by exact Hi. reflexivity.
Qed.

Lemma unsub_filters_nonempty fs : fs <> [] -> unsub_filters fs <> [].
Proof. destruct fs as [|s r]; [congruence|]. intros _. cbn [unsub_filters be16 app]. discriminate. Qed.

Theorem unsubscribe_roundtrip pid fs rest :
  fs <> [] -> Forall bytes fs -> Forall (fun f => len f <= 65535) fs ->
  0 < pid < 65536 -> unsubscribe_size fs <= packet_max ->
  parse_packet (unsubscribe_packet pid fs ++ rest) = Some (PUnsubscribe pid fs, rest).
Proof.
  intros Hne _ Hf Hp Hs.
  rewrite unsubscribe_packet_shape, framed_app.
  rewrite (parse_packet_framed _ _ _ _ (unsubscribe_body_len pid fs) Hs).
  change (162 / 16) with 10. change (162 mod 16) with 2.
  unfold unsubscribe_body.
  rewrite parse_body_unsubscribe by (try lia; apply unsub_filters_nonempty; exact Hne).
  rewrite (parse_unsub_filters_ok fs Hf)
    by (pose proof (unsub_filters_length_ge fs); lia).
  assert (pid =? 0 = false) as -> by (apply N.eqb_neq; lia). reflexivity.
Qed.

Lemma unsub_filters_bytes fs : Forall bytes fs -> bytes (unsub_filters fs).
Proof.
  intros Hf. induction Hf as [|s r Hs Hr IH]; cbn [unsub_filters]; [apply pk_bytes_nil|].
  repeat apply pk_bytes_app; auto using be16_bytes.
Qed.

Theorem unsubscribe_packet_bytes pid fs : Forall bytes fs -> bytes (unsubscribe_packet pid fs).
Proof.
  intros Hf. unfold unsubscribe_packet. apply pk_bytes_cons; [lia|].
  repeat apply pk_bytes_app; auto using varint_bytes, be16_bytes, unsub_filters_bytes.
Qed.

(* ---------- CONNECT ---------- *)

Definition will_qos (w : will) : N := if will_eo w then 2 else if will_alo w then 1 else 0.

Definition will_to_spec (w : will) : will_spec :=
  {| ws_topic := will_topic w; ws_msg := will_msg w; ws_qos := will_qos w;
     ws_retain := will_retain w |}.

Definition cfg_will_spec (c : cfg) : option will_spec :=
  match cfg_will c with Some w => Some (will_to_spec w) | None => None end.

(* what Config.valid and the types (uint16 keep-alive, byte strings) guarantee *)
Definition cfg_wf (c : cfg) : Prop :=
  bytes (cfg_user c) /\ len (cfg_user c) <= 65535 /\
  match cfg_pass c with Some p => bytes p /\ len p <= 65535 | None => True end /\
  match cfg_will c with
  | Some w => bytes (will_topic w) /\ len (will_topic w) <= 65535 /\
              bytes (will_msg w) /\ len (will_msg w) <= 65535
  | None => True
  end /\
  cfg_keepalive c < 65536.

Definition connect_body (c : cfg) (cid : list N) : list N :=
  [0; 4; 77; 81; 84; 84; 4; connect_flags c]
  ++ be16 (cfg_keepalive c) ++ be16 (len cid) ++ cid
  ++ (match cfg_will c with
      | Some w => be16 (len (will_topic w)) ++ will_topic w ++ be16 (len (will_msg w)) ++ will_msg w
      | None => [] end)
  ++ (if has_user c then be16 (len (cfg_user c)) ++ cfg_user c else [])
  ++ (match cfg_pass c with Some p => be16 (len p) ++ p | None => [] end).

Lemma connect_packet_shape c cid :
  connect_packet c cid = 16 :: varint (connect_size c cid) ++ connect_body c cid.
Proof. reflexivity. Qed.

Lemma connect_body_len c cid : len (connect_body c cid) = connect_size c cid.
Proof.
  unfold connect_body, connect_size. autorewrite with pklen.
  destruct (has_user c), (cfg_pass c), (cfg_will c); autorewrite with pklen; lia.
Qed.

Ltac cfg_cases c :=
  let u := fresh "u" in let p := fresh "p" in let w := fresh "w" in
  let k := fresh "k" in let cl := fresh "cl" in
  let wt := fresh "wt" in let wm := fresh "wm" in let wr := fresh "wr" in
  let wa := fresh "wa" in let we := fresh "we" in
  destruct c as [u p w k cl];
  destruct u as [|? u], p as [p|], w as [[wt wm wr wa we]|], cl;
  try destruct wr, wa, we.

Lemma connect_flags_byte c : connect_flags c < 256.
Proof. cfg_cases c; reflexivity. Qed.

Lemma connect_flags_bit0 c : bit (connect_flags c) 0 = false.
Proof. cfg_cases c; reflexivity. Qed.

Lemma connect_flags_bit1 c : bit (connect_flags c) 1 = cfg_clean c.
Proof. cfg_cases c; reflexivity. Qed.

Lemma connect_flags_bit2 c :
  bit (connect_flags c) 2 = match cfg_will c with Some _ => true | None => false end.
Proof. cfg_cases c; reflexivity. Qed.

Lemma connect_flags_wqos c :
  (connect_flags c / 8) mod 4 = match cfg_will c with Some w => will_qos w | None => 0 end.
Proof. cfg_cases c; reflexivity. Qed.

Lemma connect_flags_bit5 c :
  bit (connect_flags c) 5 = match cfg_will c with Some w => will_retain w | None => false end.
Proof. cfg_cases c; reflexivity. Qed.

Lemma connect_flags_bit6 c :
  bit (connect_flags c) 6 = match cfg_pass c with Some _ => true | None => false end.
Proof. cfg_cases c; reflexivity. Qed.

Lemma connect_flags_bit7 c : bit (connect_flags c) 7 = has_user c.
Proof. cfg_cases c; reflexivity. Qed.

(* the flag combinations that MQTT-3.1.2-11/13/14/15/22 forbid never occur *)
Lemma connect_flags_legal c :
  (negb (bit (connect_flags c) 2)
     && (negb ((connect_flags c / 8) mod 4 =? 0) || bit (connect_flags c) 5))
  || ((connect_flags c / 8) mod 4 =? 3)
  || (bit (connect_flags c) 6 && negb (bit (connect_flags c) 7)) = false.
Proof. cfg_cases c; reflexivity. Qed.

Lemma has_user_pass c :
  match cfg_pass c with Some _ => has_user c = true | None => True end.
Proof. destruct c as [u p w k cl]. destruct u, p; cbn; auto. Qed.

Lemma has_user_false c : has_user c = false -> cfg_user c = [] /\ cfg_pass c = None.
Proof. destruct c as [u p w k cl]. destruct u, p; cbn; intros E; try discriminate; auto. Qed.

(* parse_connect past the fixed ten bytes, same text as in Spec.v with the lets inlined *)
Definition parse_connect_tail (flags ka : N) (r : list N) : option packet :=
  if bit flags 0 then None else
  if (negb (bit flags 2) && (negb ((flags / 8) mod 4 =? 0) || bit flags 5))
     || ((flags / 8) mod 4 =? 3) || (bit flags 6 && negb (bit flags 7)) then None else
  match take_field r with
  | Some (cid, r) =>
    match (if bit flags 2 then
             match take_field r with
             | Some (wt, r) =>
               match take_field r with
               | Some (wm, r) =>
                 Some (Some {| ws_topic := wt; ws_msg := wm; ws_qos := (flags / 8) mod 4;
                               ws_retain := bit flags 5 |}, r)
               | None => None
               end
             | None => None
             end
           else Some (None, r)) with
    | Some (w, r) =>
      match (if bit flags 7
             then match take_field r with Some (u, r) => Some (Some u, r) | None => None end
             else Some (None, r)) with
      | Some (u, r) =>
        match (if bit flags 6
               then match take_field r with Some (p, r) => Some (Some p, r) | None => None end
               else Some (None, r)) with
        | Some (p, []) => Some (PConnect (bit flags 1) ka cid w u p)
        | _ => None
        end
      | None => None
      end
    | None => None
    end
  | None => None
  end.

Lemma parse_connect_cons flags ka1 ka0 r :
  parse_connect (0 :: 4 :: 77 :: 81 :: 84 :: 84 :: 4 :: flags :: ka1 :: ka0 :: r)
  = parse_connect_tail flags (ka1 * 256 + ka0) r.
Proof. reflexivity. Qed.

Ltac take_fields :=
  repeat (first [rewrite take_field_app by (assumption || lia)
                |rewrite take_field_exact by (assumption || lia)]; cbv beta iota).

Theorem connect_roundtrip c cid rest :
  cfg_wf c -> bytes cid -> len cid <= 65535 -> connect_size c cid <= packet_max ->
  parse_packet (connect_packet c cid ++ rest)
  = Some (PConnect (cfg_clean c) (cfg_keepalive c) cid (cfg_will_spec c)
            (if has_user c then Some (cfg_user c) else None) (cfg_pass c), rest).
Proof.
  intros Hwf _ Hcid Hs.
  rewrite connect_packet_shape, framed_app.
  rewrite (parse_packet_framed _ _ _ _ (connect_body_len c cid) Hs).
  change (16 / 16) with 1. change (16 mod 16) with 0.
  change (parse_body 1 0 (connect_body c cid)) with (parse_connect (connect_body c cid)).
  unfold connect_body. cbn [app]. unfold be16 at 1. cbn [app].
  rewrite parse_connect_cons. unfold parse_connect_tail.
  rewrite connect_flags_bit0, connect_flags_legal, connect_flags_bit1, connect_flags_bit2,
    connect_flags_wqos, connect_flags_bit5, connect_flags_bit6, connect_flags_bit7.
  destruct Hwf as (Hu & Hul & Hp & Hw & Hk).
  rewrite be16_dec by exact Hk.
  pose proof (has_user_pass c) as HUP. unfold cfg_will_spec.
  revert Hp Hw HUP.
  destruct (cfg_will c) as [w|], (cfg_pass c) as [p|], (has_user c);
    intros Hp Hw HUP; try discriminate HUP;
    repeat match goal with H : _ /\ _ |- _ => destruct H end;
    cbv beta iota; rewrite <- ?app_assoc; cbn [app]; rewrite ?app_nil_r;
    take_fields; reflexivity.
Qed.

Theorem connect_packet_bytes c cid : cfg_wf c -> bytes cid -> bytes (connect_packet c cid).
Proof.
  intros (Hu & _ & Hp & Hw & _) Hcid. unfold connect_packet.
  apply pk_bytes_cons; [lia|].
  apply pk_bytes_app; [apply varint_bytes|].
  apply pk_bytes_app.
  { repeat (apply pk_bytes_cons; [lia|]). apply pk_bytes_cons; [apply connect_flags_byte|apply pk_bytes_nil]. }
  repeat apply pk_bytes_app; auto using be16_bytes.
  - destruct (cfg_will c) as [w|]; [|apply pk_bytes_nil].
    destruct Hw as (A & _ & B & _). repeat apply pk_bytes_app; auto using be16_bytes.
  - destruct (has_user c); [|apply pk_bytes_nil]. apply pk_bytes_app; auto using be16_bytes.
  - destruct (cfg_pass c) as [p|]; [|apply pk_bytes_nil].
    destruct Hp as (A & _). apply pk_bytes_app; auto using be16_bytes.
Qed.

(* ---------- acknowledgements and the two literals ---------- *)

Lemma ack_parse h a b rest p :
  parse_body (h / 16) (h mod 16) [a; b] = Some p ->
  parse_packet (h :: 2 :: a :: b :: rest) = Some (p, rest).
Proof.
  intros E.
  change (parse_packet (h :: 2 :: a :: b :: rest)) with
    (match parse_body (h / 16) (h mod 16) [a; b] with Some p => Some (p, rest) | None => None end).
  now rewrite E.
Qed.

Theorem ack_roundtrip id rest :
  id < 65536 ->
  parse_packet (packet_puback id ++ rest) = Some (PPuback id, rest) /\
  parse_packet (packet_pubrec id ++ rest) = Some (PPubrec id, rest) /\
  parse_packet (packet_pubrel id ++ rest) = Some (PPubrel id, rest) /\
  parse_packet (packet_pubcomp id ++ rest) = Some (PPubcomp id, rest).
Proof.
  intros H.
  unfold packet_puback, packet_pubrec, packet_pubrel, packet_pubcomp, ack_packet, be16.
  cbn [app].
  repeat split; apply ack_parse;
    rewrite <- (be16_dec id H) at 3; reflexivity.
Qed.

Theorem literal_roundtrip rest :
  parse_packet (packet_pingreq ++ rest) = Some (PPingreq, rest) /\
  parse_packet (packet_disconnect ++ rest) = Some (PDisconnect, rest).
Proof. split; reflexivity. Qed.

Theorem ack_packet_bytes head id : head < 256 -> bytes (ack_packet head id).
Proof.
  intros H. unfold ack_packet. apply pk_bytes_cons; [exact H|].
  apply pk_bytes_cons; [lia|apply be16_bytes].
Qed.

Theorem ack_packets_bytes id :
  bytes (packet_puback id) /\ bytes (packet_pubrec id) /\
  bytes (packet_pubrel id) /\ bytes (packet_pubcomp id).
Proof. repeat split; apply ack_packet_bytes; lia. Qed.

Theorem literal_bytes : bytes packet_pingreq /\ bytes packet_disconnect.
Proof. split; repeat (apply pk_bytes_cons; [lia|]); apply pk_bytes_nil. Qed.
