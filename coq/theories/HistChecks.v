(* Executable property checkers over observed histories (the Cxx_ok of DESIGN 2.2):
   each judges the implementation's trace alone, with the independent parser MQ.Spec and
   the Persistence content reconstructed from the observed Save/Delete results. *)
From MQ Require Export Trace Packets C08Check.

(* ------------------------------------------------------------------ *)
(* shared views                                                        *)

Definition mem (x : N) (l : list N) : bool := existsb (N.eqb x) l.
Fixpoint remove1 (x : N) (l : list N) : list N :=
  match l with [] => [] | y :: r => if y =? x then r else y :: remove1 x r end.
Fixpoint index_of (x : N) (l : list N) (i : N) : option N :=
  match l with [] => None | y :: r => if y =? x then Some i else index_of x r (i + 1) end.
Fixpoint last_index_of (x : N) (l : list N) (i : N) (acc : option N) : option N :=
  match l with [] => acc | y :: r => last_index_of x r (i + 1) (if y =? x then Some i else acc) end.

Definition ev_call (e : tev) : N :=
  match e with TCall i _ => i | TEv i _ _ => i | TRet i _ _ _ _ _ => i | TStore i _ => i end.
Definition upto_call (i : N) (t : list tev) : list tev := filter (fun e => ev_call e <=? i) t.

(* all packets the client read so far, over all connections *)
Definition inbound_packets (t : list tev) : list packet :=
  flat_map (fun c => fst (packets_of (in_bytes c t))) (conns t).

(* the inbound PUBLISH a ReadSlices return corresponds to (the harness makes contents unique) *)
Definition find_pub (t : list tev) (topic msg : list N) : option (N * option N) :=
  match filter (fun p => match p with
                         | PPublish _ _ _ tp _ pl => list_eqb tp topic && list_eqb pl msg
                         | _ => false end) (inbound_packets t) with
  | PPublish _ q _ _ id _ :: _ => Some (q, id)
  | _ => None
  end.
Definition find_big (t : list tev) (topic : list N) (size : N) : option (N * option N) :=
  match filter (fun p => match p with
                         | PPublish _ _ _ tp _ pl => list_eqb tp topic && (len pl =? size)
                         | _ => false end) (inbound_packets t) with
  | PPublish _ q _ _ id _ :: _ => Some (q, id)
  | _ => None
  end.

(* a PUBLISH at the unparsed end of a connection's inbound bytes: the payload did not arrive
   completely (the connection was lost in it), but level, topic and identifier did *)
Definition partial_publish (tail : list N) : option (N * list N * option N * N) :=
  match tail with
  | h :: r =>
    if h / 16 =? 3 then
      match take_remlen r with
      | Some (n, a :: b :: rest) =>
        let tl := a * 256 + b in
        let topic := firstn (N.to_nat tl) rest in
        if N.of_nat (length topic) =? tl then
          let q := (h / 2) mod 4 in
          if q =? 0 then (if 2 + tl <=? n then Some (0, topic, None, n - 2 - tl) else None)
          else match skipn (N.to_nat tl) rest with
               | c :: d :: _ => if 4 + tl <=? n then Some (q, topic, Some (c * 256 + d), n - 4 - tl) else None
               | _ => None
               end
        else None
      | _ => None
      end
    else None
  | [] => None
  end.
Definition find_big_any (t : list tev) (topic : list N) (size : N) : option (N * option N) :=
  match find_big t topic size with
  | Some f => Some f
  | None =>
    match flat_map (fun c => match partial_publish (snd (packets_of (in_bytes c t))) with
                             | Some (q, tp, id, sz) => if list_eqb tp topic && (sz =? size) then [(q, id)] else []
                             | None => [] end) (conns t) with
    | f :: _ => Some f
    | [] => None
    end
  end.

(* outbound packets with the trace position of the write that completed them *)
Fixpoint lo_get (l : list (N * list N)) (c : N) : list N :=
  match l with [] => [] | (c', b) :: r => if c' =? c then b else lo_get r c end.
Fixpoint lo_set (l : list (N * list N)) (c : N) (b : list N) : list (N * list N) :=
  match l with
  | [] => [(c, b)]
  | (c', b') :: r => if c' =? c then (c, b) :: r else (c', b') :: lo_set r c b
  end.
Fixpoint out_packets_pos (t : list tev) (pos : nat) (left : list (N * list N))
  : list (N * packet * nat * N) :=          (* connection, packet, position, call *)
  match t with
  | [] => []
  | TEv i (QWrite c bs) a :: r =>
    let buf := lo_get left c ++ accepted_of bs a in
    let '(ps, tail) := packets_of buf in
    map (fun p => (c, p, pos, i)) ps ++ out_packets_pos r (S pos) (lo_set left c tail)
  | _ :: r => out_packets_pos r (S pos) left
  end.
Definition out_packets (t : list tev) := out_packets_pos t 0 [].

Definition store_at (t : list tev) (pos : nat) : list (N * list N) :=
  fold_left obs_store_step (firstn pos t) [].

Definition packets_in_call (t : list tev) (i : N) : list packet :=
  map (fun x => snd (fst (fst x))) (filter (fun x => snd x =? i) (out_packets t)).
(* with the Persistence content at the moment the packet was completed *)
Definition packets_in_call_at (t : list tev) (i : N) : list (packet * list (N * list N)) :=
  map (fun x => (snd (fst (fst x)), store_at t (snd (fst x)))) (filter (fun x => snd x =? i) (out_packets t)).

Definition is_publish_rec (v : list N) : bool :=
  match stored_packet v with Some (h :: _) => h / 16 =? 3 | _ => false end.
Definition is_pubrel_rec (v : list N) : bool :=
  match stored_packet v with Some (h :: _) => h / 16 =? 6 | _ => false end.
Definition genuine_rec (v : list N) : bool :=
  match stored_packet v with Some _ => true | None => false end.
Definition count_keys (f : N -> bool) (m : list (N * list N)) : N :=
  N.of_nat (length (filter (fun kv => f (fst kv)) m)).
Definition pred_key (k : N) : N :=
  if k =? 32768 then 49151 else if k =? 49152 then 65535 else k - 1.

(* ------------------------------------------------------------------ *)
(* C07 / C04: acknowledgements of inbound messages                      *)

(* rx_any: a big message was returned whose identifier we could not recover (its
   connection was lost before the payload was read): acknowledgements cannot be judged *)
(* the Persistence content when call i began *)
Definition store_before_call (t : list tev) (i : N) : list (N * list N) :=
  fold_left obs_store_step (filter (fun e => ev_call e <? i) t) [].

Record rx := mkRx { rx_owe1 : list N; rx_owe2 : list N; rx_any : bool }.

Definition rx_step (t : list tev) (s : rx) (m : list (N * list N)) (e : tev) : rx * bool :=
  match e with
  | TRet i OpRead r _ _ _ =>
    let written := packets_in_call t i in
    (* every PUBACK / PUBREC written in this call was owed before the call, or (PUBREC) answers the
       retransmission of a message whose marker was in the Persistence when the call began (the
       flush itself saves the marker just before it writes); PUBCOMP after the marker left *)
    let ok := forallb (fun pm => match fst pm with
                                 | PPuback id => rx_any s || mem id (rx_owe1 s)
                                 | PPubrec id => rx_any s || mem id (rx_owe2 s) || obs_has (store_before_call t i) (id + 65536)
                                 | PPubcomp id => negb (obs_has (snd pm) (id + 65536))
                                 | _ => true end) (packets_in_call_at t i) in
    (* an acknowledgement may be repeated after a failed write: identifiers stay in the sets *)
    let deliver (found : option (N * option N)) :=
      match found with
      | Some (1, Some id) => (mkRx (id :: rx_owe1 s) (rx_owe2 s) (rx_any s), ok)
      | Some (2, Some id) =>
        (* C04: not returned again while its marker exists *)
        (mkRx (rx_owe1 s) (id :: rx_owe2 s) (rx_any s), ok && negb (obs_has m (id + 65536)))
      | Some (0, None) => (s, ok)
      | _ => (s, false)                      (* returned something the broker never sent *)
      end in
    match r with
    | RetMsg topic msg => deliver (find_pub (upto_call i t) topic msg)
    | RetBig topic size =>
      (* the payload is read later (ReadAll or skip); if the connection is lost before, we cannot tell *)
      match find_big_any t topic size with
      | Some f => deliver (Some f)
      | None => (mkRx (rx_owe1 s) (rx_owe2 s) true, ok)
      end
    | _ => (s, ok)
    end
  | TRet _ (OpAdopt _ _) (RetAdopt _ 0) _ _ _ => (mkRx [] [] false, true)   (* a new process owes nothing yet *)
  | TRet i _ _ _ _ _ =>
    (* no other call writes acknowledgements *)
    (s, forallb (fun p => match p with PPuback _ | PPubrec _ | PPubcomp _ => false | _ => true end)
                (packets_in_call t i))
  | _ => (s, true)
  end.

(* C04: the broker's side of the handshake can complete.  On each connection, every
   exactly-once PUBLISH (duplicate or not) and every PUBREL that the client certainly went
   past -- a later PUBLISH of the same connection was returned by ReadSlices -- is answered:
   PUBREC (on this or a later connection) resp. PUBCOMP. *)
Definition delivered_msgs (t : list tev) : list (list N * list N) :=
  flat_map (fun e => match e with TRet _ OpRead (RetMsg topic msg) _ _ _ => [(topic, msg)] | _ => [] end) t.
Fixpoint last_delivered (ps : list packet) (dl : list (list N * list N)) (i : nat) (acc : nat) : nat :=
  match ps with
  | [] => acc
  | PPublish _ _ _ tp _ pl :: r =>
    if existsb (fun d => list_eqb (fst d) tp && list_eqb (snd d) pl) dl
    then last_delivered r dl (S i) i else last_delivered r dl (S i) acc
  | _ :: r => last_delivered r dl (S i) acc
  end.
Definition answered (t : list tev) (c : N) : bool :=
  let ins := fst (packets_of (in_bytes c t)) in
  let passed := firstn (last_delivered ins (delivered_msgs t) 0 0) ins in
  let outs := map (fun x => (fst (fst (fst x)), snd (fst (fst x)))) (out_packets t) in
  forallb (fun p => match p with
                    | PPublish _ 2 _ _ (Some id) _ =>
                      existsb (fun cp => (c <=? fst cp) && match snd cp with PPubrec id' => id' =? id | _ => false end) outs
                    | PPubrel id =>
                      existsb (fun cp => (fst cp =? c) && match snd cp with PPubcomp id' => id' =? id | _ => false end) outs
                    | _ => true end) passed.

(* C07: "none is returned without being acknowledged": a later ReadSlices call returns a message only
   after the acknowledgement of the one returned before was written completely (the flush comes first
   and fails the call otherwise) -- on the same connection or, after a reconnect, on the new one. *)
Definition acked_by_call (t : list tev) (q id : N) (j : N) : bool :=
  existsb (fun x => (snd x <=? j) && match snd (fst (fst x)) with
                                     | PPuback id' => (q =? 1) && (id' =? id)
                                     | PPubrec id' => (q =? 2) && (id' =? id)
                                     | _ => false end) (out_packets t).
Fixpoint acked_before_next (t : list tev) (rest : list tev) (owed : list (N * N)) : bool :=
  match rest with
  | [] => true
  | TRet j OpRead (RetMsg topic msg) _ _ _ :: r =>
    forallb (fun o => acked_by_call t (fst o) (snd o) j) owed &&
    acked_before_next t r (match find_pub (upto_call j t) topic msg with
                           | Some (q, Some id) => if q =? 0 then [] else [(q, id)]
                           | _ => [] end)
  | TRet j OpRead (RetBig topic size) _ _ _ :: r =>
    forallb (fun o => acked_by_call t (fst o) (snd o) j) owed &&
    acked_before_next t r (match find_big_any t topic size with
                           | Some (q, Some id) => if q =? 0 then [] else [(q, id)]
                           | _ => [] end)
  | TRet _ (OpAdopt _ _) (RetAdopt _ 0) _ _ _ :: r => acked_before_next t r []
  | _ :: r => acked_before_next t r owed
  end.


(* ------------------------------------------------------------------ *)
(* C01 / C03 / C17 / C13: outbound transfers and the Persistence        *)

Definition ack_ids (t : list tev) (alo : bool) : list N :=
  flat_map (fun p => match p with
                     | PPuback id => if alo then [id] else []
                     | PPubcomp id => if alo then [] else [id]
                     | _ => [] end) (inbound_packets t).
Definition pubrec_ids (t : list tev) : list N :=
  flat_map (fun p => match p with PPubrec id => [id] | _ => [] end) (inbound_packets t).

Definition closes_in (xev : list (N * option err)) : N :=
  N.of_nat (length (filter (fun xe => match snd xe with None => true | Some _ => false end) xev)).
Definition deletes_in (t : list tev) (i : N) : N :=
  N.of_nat (length (filter (fun e => match e with
                                     | TEv j (QDelete k) ADone => (j =? i) && (in_alo k || in_eo k)
                                     | _ => false end) t)).

(* state: current limits (they change with an adoption) *)
Definition tx_step (t : list tev) (mx : N * N) (m : list (N * list N)) (e : tev) : (N * N) * bool :=
  match e with
  | TEv i (QDelete k) ADone =>
    if (in_alo k || in_eo k) && match obs_get m k with Some v => genuine_rec v | None => false end then
      (* C01/C13: only after the acknowledgement defined for it was read, and in order (oldest first) *)
      (mx, mem k (ack_ids (upto_call i t) (in_alo k)) && negb (obs_has m (pred_key k))
           && (in_alo k || match obs_get m k with Some v => is_pubrel_rec v | None => false end))
    else (mx, true)
  | TEv i (QSave k v) ADone =>
    if (in_alo k || in_eo k) && is_publish_rec v then
      (* C03/C17: the identifier is free; C17: the window stays within the limit *)
      let n := count_keys (if in_alo k then in_alo else in_eo) m in
      (mx, negb (obs_has m k) && (n <? (if in_alo k then fst mx else snd mx)))
    else if in_eo k && is_pubrel_rec v then
      (* C03: PUBREL replaces the PUBLISH of the same identifier, after its PUBREC was read *)
      (mx, match obs_get m k with Some v0 => is_publish_rec v0 | None => false end
           && mem k (pubrec_ids (upto_call i t)))
    else (mx, true)
  | TRet i (OpPubP level _ _ _) r _ _ _ =>
    (* C17: ErrMax exactly when the level is full; never blocked *)
    let n := count_keys (if level =? 1 then in_alo else in_eo) m in
    let full := (if level =? 1 then fst mx else snd mx) <=? n in
    (mx, match r with
         | RetErr er => if has_bit er 8 then full else (if full then has_bit er 256 || has_bit er 2 else true)
         | RetExch _ => n <=? (if level =? 1 then fst mx else snd mx)     (* the new record included *)
         | _ => false
         end)
  | TRet i (OpAdopt m1 m2) (RetAdopt _ 0) _ _ _ => ((norm_max m1, norm_max m2), true)
  | TRet i _ _ _ xev _ =>
    (* C01: an exchange channel closes only with the deletion of a record *)
    (mx, closes_in xev <=? deletes_in t i)
  | _ => (mx, true)
  end.

(* C03: no PUBLISH on the wire while the PUBREL is recorded *)
Definition no_publish_after_pubrec (t : list tev) : bool :=
  forallb (fun x => match x with
                    | (_, PPublish _ 2 _ _ (Some id) _, pos, _) =>
                      match obs_get (store_at t pos) id with
                      | Some v => negb (is_pubrel_rec v)
                      | None => true
                      end
                    | _ => true end) (out_packets t).


(* ------------------------------------------------------------------ *)
(* Good suffix (C01/C03/C11: "no fault stops it").  The harness may end a history with a
   marker call (a quit for a request number that does not exist, a no-op) after which the
   environment is benign: dials succeed, no Persistence or connection fault is injected, the
   scripted broker acknowledges everything it receives, and ReadSlices is called six more times.
   By then every accepted transfer must have completed and every waiting request returned.
   Not judged when the Persistence was rewritten from outside or an adoption warned (the
   pending set is then not the accepted set), nor after Close/Disconnect. *)
Definition settle_marker : N := 1000000.
Definition is_marker (e : tev) : bool :=
  match e with TRet _ (OpQuit r) _ _ _ _ => r =? settle_marker | _ => false end.
(* the Persistence was rewritten from outside and not adopted cleanly afterwards, or an
   adoption warned or failed: the pending set is then not the set the client accepted *)
Fixpoint rewritten_from (t : list tev) (dirty : bool) : bool :=
  match t with
  | [] => dirty
  | TStore _ _ :: r => rewritten_from r true
  | TRet _ (OpAdopt _ _) (RetAdopt w e) _ _ _ :: r =>
    if (w =? 0) && (e =? 0) then rewritten_from r false else true
  | _ :: r => rewritten_from r dirty
  end.
Definition rewritten (t : list tev) : bool := rewritten_from t false.
Definition tampered (t : list tev) : bool :=
  rewritten t || existsb (fun e => match e with
                                   | TRet _ OpClose _ _ _ _ | TRet _ OpDisconnect _ _ _ _ => true
                                   | _ => false end) t.
(* the part of the trace that belongs to the last process (after the last successful adoption) *)
Fixpoint epoch_tail (t acc : list tev) : list tev :=
  match t with
  | [] => acc
  | TRet _ (OpAdopt _ _) (RetAdopt _ 0) _ _ _ :: r => epoch_tail r r
  | _ :: r => epoch_tail r acc
  end.
Definition exch_opened (t : list tev) : list N :=
  flat_map (fun e => match e with TRet _ (OpPubP _ _ _ _) (RetExch x) _ _ _ => [x] | _ => [] end) t.
Definition exch_closed (t : list tev) : list N :=
  flat_map (fun e => match e with
                     | TRet _ _ _ _ xev _ => flat_map (fun xe => match snd xe with None => [fst xe] | Some _ => [] end) xev
                     | _ => [] end) t.
Definition settled_exchanges (t : list tev) : bool :=
  if existsb is_marker t && negb (tampered t) then
    let ep := epoch_tail t t in
    forallb (fun x => mem x (exch_closed ep)) (exch_opened ep)
  else true.
(* every request seen waiting has returned by the end *)
Fixpoint parked_rids (t : list tev) (next : N) : list N :=
  match t with
  | [] => []
  | TRet _ o r _ _ _ :: rest =>
    if match o with OpPublish _ _ _ | OpSub _ _ | OpUnsub _ | OpPing => true | _ => false end then
      (match r with RetParked => [next] | _ => [] end) ++ parked_rids rest (next + 1)
    else parked_rids rest next
  | _ :: rest => parked_rids rest next
  end.
Definition done_rids (t : list tev) : list N :=
  flat_map (fun e => match e with TRet _ _ _ done _ _ => map (fun d => fst (fst d)) done | _ => [] end) t.
Definition settled_requests (t : list tev) : bool :=
  if existsb is_marker t && negb (tampered t) then
    let ep := epoch_tail t t in
    forallb (fun r => mem r (done_rids ep)) (parked_rids ep 0)
  else true.

(* C07 "none is returned without eventually being acknowledged": under the good suffix every
   QoS 1/2 message the last process returned has had its PUBACK/PUBREC written completely *)
Definition max_call (t : list tev) : N := fold_left (fun a e => N.max a (ev_call e)) t 0.
Definition settled_acks (t : list tev) : bool :=
  if existsb is_marker t && negb (tampered t) then
    let ep := epoch_tail t t in
    let last := max_call t in
    forallb (fun e => match e with
                      | TRet j OpRead (RetMsg topic msg) _ _ _ =>
                        match find_pub (upto_call j t) topic msg with
                        | Some (q, Some id) => (q =? 0) || acked_by_call t q id last
                        | _ => true
                        end
                      | TRet j OpRead (RetBig topic size) _ _ _ =>      (* read or skipped: acknowledged either way *)
                        match find_big_any t topic size with
                        | Some (q, Some id) => (q =? 0) || acked_by_call t q id last
                        | _ => true
                        end
                      | _ => true end) ep
  else true.

Definition c07_ok (h : histcase) : bool :=
  let t := trace_of h in
  no_panic t && fold_trace (rx_step t) (mkRx [] [] false) [] t && acked_before_next t t [] && settled_acks t.
(* C04 after the broker started a NEW session (CONNACK without session-present): every
   exactly-once PUBLISH of that connection which the client answered with PUBREC there is a
   new message of the new session, whatever markers the Persistence still holds, and has to
   be returned (finding F25: stale markers make the client swallow it). *)
Definition sp0_conn (t : list tev) (c : N) : bool :=
  match firstn 4 (in_bytes c t) with [32; 2; 0; 0] => true | _ => false end.
Definition new_session_fresh (t : list tev) (c : N) : bool :=
  if sp0_conn t c then
    let ins := fst (packets_of (skipn 4 (in_bytes c t))) in
    let outs := map (fun x => (fst (fst (fst x)), snd (fst (fst x)))) (out_packets t) in
    let dl := delivered_msgs t in
    forallb (fun p => match p with
                      | PPublish _ 2 _ tp (Some id) pl =>
                        negb (existsb (fun cp => (fst cp =? c) && match snd cp with PPubrec id' => id' =? id | _ => false end) outs)
                        || existsb (fun d => list_eqb (fst d) tp && list_eqb (snd d) pl) dl
                        || existsb (fun e => match e with
                                             | TRet _ OpRead (RetBig tp' size) _ _ _ => list_eqb tp' tp && (size =? len pl)
                                             | _ => false end) t
                      | _ => true end) ins
  else true.
(* C04 "after the application took ownership by calling ReadSlices again ... across restarts":
   the ReadSlices call that follows the return of an exactly-once message (not a BigMessage, whose
   payload flush may fail first) leaves the reception marker of that message in the Persistence,
   whatever the call returns (also ErrClosed after Close); unless the Save of the marker failed
   in that call (the documented BUG window) or the broker's PUBREL ended the cycle within it. *)
Definition marker_event_in_call (t : list tev) (j x : N) : bool :=
  existsb (fun e => match e with
                    | TEv i (QSave k _) a => (i =? j) && (k =? x + 65536) && negb (match a with ADone => true | _ => false end)
                    | TEv i (QDelete k) _ => (i =? j) && (k =? x + 65536)
                    | _ => false end) t.
Definition own_step (t : list tev) (s : option N) (m : list (N * list N)) (e : tev) : option N * bool :=
  match e with
  | TRet j OpRead r _ _ _ =>
    let ok := match s with Some x => obs_has m (x + 65536) || marker_event_in_call t j x | None => true end in
    (match r with
     | RetMsg topic msg => match find_pub (upto_call j t) topic msg with Some (2, Some id) => Some id | _ => None end
     | _ => None end, ok || ret_panicked r)
  | TRet _ (OpAdopt _ _) (RetAdopt _ 0) _ _ _ => (None, true)
  | _ => (s, true)
  end.
(* ... and a PUBREC goes out only while the reception marker of its identifier is in the
   Persistence (saved just before, or found there for a duplicate): a PUBREC without marker lets
   the retransmission that follows a lost PUBREC through as a new message.  Not on rewritten stores. *)
Definition pubrec_after_marker (t : list tev) : bool :=
  rewritten t ||
  forallb (fun x => match x with
                    | (_, PPubrec id, pos, _) => obs_has (store_at t pos) (id + 65536)
                    | _ => true end) (out_packets t).
Definition c04_core (h : histcase) : bool :=
  let t := trace_of h in
  c07_ok h && forallb (answered t) (conns t) && fold_trace (own_step t) None [] t && pubrec_after_marker t.
Definition c04_ok (h : histcase) : bool :=
  let t := trace_of h in c04_core h && forallb (new_session_fresh t) (conns t).
Definition f25_match (h : histcase) : bool := c04_core h && negb (c04_ok h).

(* C01/C02/C05/C18 "pending transfers are retransmitted on every connection, before anything
   else": when the call that dialed connection c returns with the client online, every genuine
   record that was in the two publish key spaces at the moment of the dial went out on c in
   that call, as the PUBLISH resp. PUBREL it holds.  Not judged on rewritten stores. *)
Fixpoint dial_positions (t : list tev) (pos : nat) (count : N) : list (N * N * nat) :=   (* call, connection, position *)
  match t with
  | [] => []
  | TEv i QDial (ADial true) :: r => (i, count, pos) :: dial_positions r (S pos) (count + 1)
  | _ :: r => dial_positions r (S pos) count
  end.
Definition call_online (t : list tev) (i : N) : bool :=
  existsb (fun e => match e with TRet j OpRead _ _ _ online => (j =? i) && online | _ => false end) t.
Definition last_dial_of_call (ds : list (N * N * nat)) (i : N) : option (N * nat) :=
  fold_left (fun acc d => if fst (fst d) =? i then Some (snd (fst d), snd d) else acc) ds None.
Definition resend_complete (t : list tev) : bool :=
  if rewritten t then true else
  let ds := dial_positions t 0 0 in
  forallb (fun e => match e with
    | TRet i OpRead _ _ _ true =>
      match last_dial_of_call ds i with
      | Some (c, pos) =>
        let m0 := store_at t pos in
        let outs := filter (fun x => (snd x =? i) && (fst (fst (fst x)) =? c)) (out_packets t) in
        forallb (fun kv =>
          let k := fst kv in
          if (in_alo k || in_eo k) && genuine_rec (snd kv) then
            existsb (fun x => match snd (fst (fst x)) with
                              | PPublish _ _ _ _ (Some id) _ => is_publish_rec (snd kv) && (id =? k)
                              | PPubrel id => is_pubrel_rec (snd kv) && (id =? k)
                              | _ => false end) outs
          else true) m0
      | None => true
      end
    | _ => true end) t.

(* C01/C14: the exchange channel that closes with the deletion of a record is the one that
   was handed out by the call which saved that record (an error-returning persisted publish
   left nothing in the queue that could take another request's confirmation) *)
Definition saved_key_in_call (t : list tev) (i : N) : option N :=
  match filter (fun e => match e with
                         | TEv j (QSave k v) ADone => (j =? i) && (in_alo k || in_eo k) && is_publish_rec v
                         | _ => false end) t with
  | TEv _ (QSave k _) _ :: _ => Some k
  | _ => None
  end.
Definition deleted_keys_in_call (t : list tev) (i : N) : list N :=
  flat_map (fun e => match e with
                     | TEv j (QDelete k) ADone => if (j =? i) && (in_alo k || in_eo k) then [k] else []
                     | _ => [] end) t.
Definition xk_step (t : list tev) (s : list (N * N)) (m : list (N * list N)) (e : tev) : list (N * N) * bool :=
  match e with
  | TRet _ (OpAdopt _ _) (RetAdopt _ 0) _ _ _ => ([], true)
  | TRet i o r _ xev _ =>
    let s := match o, r with
             | OpPubP _ _ _ _, RetExch x => match saved_key_in_call t i with Some k => (k, x) :: s | None => s end
             | _, _ => s end in
    let closed := flat_map (fun xe => match snd xe with None => [fst xe] | Some _ => [] end) xev in
    let dels := deleted_keys_in_call t i in
    let ok := forallb (fun x => existsb (fun kx => (snd kx =? x) && mem (fst kx) dels) s) closed in
    (filter (fun kx => negb (mem (snd kx) closed)) s, ok)
  | _ => (s, true)
  end.
Definition own_exchange (t : list tev) : bool := rewritten t || fold_trace (xk_step t) [] [] t.

Definition c01_ok (h : histcase) : bool :=
  let t := trace_of h in
  no_panic t && fold_trace (tx_step t) (s_max1 (cfg_of h), s_max2 (cfg_of h)) [] t
  && no_publish_after_pubrec t && settled_exchanges t && resend_complete t && own_exchange t
  (* "written to the broker in full": what a connection carries is whole packets *)
  && forallb (conn_whole t) (conns t).
(* C03 also needs the applied exactly-once limit within the identifier space (no identifier
   is given out again before its PUBCOMP) *)
(* C03: and no PUBREL on the wire unless the PUBREL is recorded (the release is saved before it is
   sent: a PUBREL the broker saw while the Persistence still holds the PUBLISH lets a restart or
   a reconnect transmit that PUBLISH as a new message).  Not judged on rewritten stores. *)
Definition pubrel_recorded (t : list tev) : bool :=
  rewritten t ||
  forallb (fun x => match x with
                    | (_, PPubrel id, pos, _) =>
                      match obs_get (store_at t pos) id with
                      | Some v => is_pubrel_rec v
                      | None => false
                      end
                    | _ => true end) (out_packets t).
Definition c03_ok (h : histcase) : bool :=
  c01_ok h && (s_max2 (cfg_of h) <=? 16384) && pubrel_recorded (trace_of h).

Definition hist_run (ok : histcase -> bool) (l : list histcase) : list N * list N * list (N * N) :=
  (idx_filter hist_agree l 0, idx_filter ok l 0, []).
Definition c01_run := hist_run c01_ok.
Definition c03_run := hist_run c03_ok.
Fixpoint idx_known25 (l : list histcase) (i : N) : list (N * N) :=
  match l with
  | [] => []
  | x :: r => if f25_match x then (i, 25) :: idx_known25 r (i + 1) else idx_known25 r (i + 1)
  end.
Definition c04_run (l : list histcase) : list N * list N * list (N * N) :=
  (idx_filter hist_agree l 0, idx_filter c04_ok l 0, idx_known25 l 0).
Definition c07_run := hist_run c07_ok.
Definition all_ok (h : histcase) : bool := c08_ok h && c04_ok h && c01_ok h.
Definition all_run := hist_run all_ok.

(* ------------------------------------------------------------------ *)
(* C05: order of first transmissions, DUP, order of retransmissions      *)

Record ord := mkOrd {
  od_left : list (N * list N);    (* unparsed bytes per connection *)
  od_pend1 : list N;              (* accepted, not yet written completely (acceptance order) *)
  od_pend2 : list N;
  od_wrote : list N;              (* written completely in this process and still stored *)
  od_adopted : list N;            (* resumed from the Persistence after a restart *)
  od_order : list N;              (* every accepted key in acceptance order *)
  od_seen : list (N * N)          (* (connection, PUBLISH/PUBREL key) written on that connection *)
}.

Definition rank (o : ord) (k : N) : N :=
  match last_index_of k (od_order o) 0 None with Some i => i + 1 | None => 0 end.

Definition ord_packet (o : ord) (c : N) (p : packet) : ord * bool :=
  match p with
  | PPublish dup q _ _ (Some k) _ =>
    if q =? 0 then (o, true) else
    let same_level := filter (fun ck => (fst ck =? c) && (Bool.eqb (in_alo (snd ck)) (in_alo k))) (od_seen o) in
    let in_order := forallb (fun ck => (rank o (snd ck) <? rank o k) || (rank o (snd ck) =? 0) || (rank o k =? 0)) same_level in
    let o' := mkOrd (od_left o) (remove1 k (od_pend1 o)) (remove1 k (od_pend2 o))
                    (k :: remove1 k (od_wrote o)) (remove1 k (od_adopted o)) (od_order o) ((c, k) :: od_seen o) in
    if mem k (od_wrote o) then (o', dup && in_order)
    else if mem k (od_adopted o) then (o', in_order)
    else
      (* first transmission: no DUP, and it is the oldest accepted one not yet written *)
      let pend := if in_alo k then od_pend1 o else od_pend2 o in
      (o', negb dup && in_order && match pend with k0 :: _ => k0 =? k | [] => true end)
  | PPubrel k =>
    let rels := filter (fun ck => (fst ck =? c) && (65536 <=? snd ck)) (od_seen o) in   (* PUBREL entries are tagged +65536 *)
    let in_order := forallb (fun ck => (rank o (snd ck - 65536) <? rank o k) || (rank o (snd ck - 65536) =? 0) || (rank o k =? 0)
                                       || (snd ck - 65536 =? k)) rels in
    (mkOrd (od_left o) (od_pend1 o) (od_pend2 o) (od_wrote o) (od_adopted o) (od_order o) ((c, k + 65536) :: od_seen o), in_order)
  | _ => (o, true)
  end.

Definition ord_step (o : ord) (m : list (N * list N)) (e : tev) : ord * bool :=
  match e with
  | TEv _ (QWrite c bs) a =>
    let buf := lo_get (od_left o) c ++ accepted_of bs a in
    let '(ps, tail) := packets_of buf in
    let o := mkOrd (lo_set (od_left o) c tail) (od_pend1 o) (od_pend2 o) (od_wrote o) (od_adopted o) (od_order o) (od_seen o) in
    fold_left (fun ob p => let '(o, b) := ob in let '(o', b') := ord_packet o c p in (o', b && b')) ps (o, true)
  | TEv _ (QSave k v) ADone =>
    if (in_alo k || in_eo k) && is_publish_rec v then
      (mkOrd (od_left o) (if in_alo k then od_pend1 o ++ [k] else od_pend1 o)
             (if in_eo k then od_pend2 o ++ [k] else od_pend2 o) (od_wrote o) (od_adopted o) (od_order o ++ [k]) (od_seen o), true)
    else (o, true)
  | TEv _ (QDelete k) ADone =>
    (mkOrd (od_left o) (remove1 k (od_pend1 o)) (remove1 k (od_pend2 o)) (remove1 k (od_wrote o))
           (remove1 k (od_adopted o)) (od_order o) (od_seen o), true)
  | TRet _ (OpAdopt _ _) (RetAdopt _ 0) _ _ _ =>
    let keys := map fst (filter (fun kv => (in_alo (fst kv) || in_eo (fst kv)) && is_publish_rec (snd kv)) m) in
    (mkOrd (od_left o) [] [] [] keys (od_order o) (od_seen o), true)
  | _ => (o, true)
  end.

Definition c05_ok (h : histcase) : bool :=
  let t := trace_of h in
  no_panic t && fold_trace ord_step (mkOrd [] [] [] [] [] [] []) [] t && resend_complete t.

(* ------------------------------------------------------------------ *)
(* C17 (requests): subscribe/unsubscribe identifiers                    *)

Definition spawn_op (o : op) : bool :=
  match o with OpPublish _ _ _ | OpSub _ _ | OpUnsub _ | OpPing => true | _ => false end.

Record sub := mkSub { sb_nextr : N; sb_inflight : list (N * N) }.   (* (request, packet identifier) *)

Definition sub_step (t : list tev) (s : sub) (m : list (N * list N)) (e : tev) : sub * bool :=
  match e with
  | TRet i o r done _ _ =>
    let s := mkSub (sb_nextr s) (filter (fun rp => negb (existsb (fun d => fst (fst d) =? fst rp) done)) (sb_inflight s)) in
    match o with
    | OpAdopt _ _ => match r with RetAdopt _ 0 => (mkSub 0 [], true) | _ => (s, true) end
    | _ =>
      if spawn_op o then
        let rid := sb_nextr s in
        let s := mkSub (rid + 1) (sb_inflight s) in
        let ids := flat_map (fun p => match p with
                                      | PSubscribe id _ => [(id, true)]
                                      | PUnsubscribe id _ => [(id, false)]
                                      | _ => [] end) (packets_in_call t i) in
        match ids with
        | (id, issub) :: _ =>
          let ok := negb (id =? 0) && negb (mem id (map snd (sb_inflight s)))
                    && (if issub then (24576 <=? id) && (id <? 32768) else (16384 <=? id) && (id <? 24576)) in
          match r with
          | RetParked => (mkSub (sb_nextr s) ((rid, id) :: sb_inflight s), ok)
          | _ => (s, ok)
          end
        | [] => (s, true)
        end
      else (s, true)
    end
  | _ => (s, true)
  end.

Definition c17_ok (h : histcase) : bool :=
  let t := trace_of h in
  (* the limits the client applied (read from Client.Config after InitSession) fit the identifier space *)
  (s_max1 (cfg_of h) <=? 16384) && (s_max2 (cfg_of h) <=? 16384) &&
  c01_ok h && fold_trace (sub_step t) (mkSub 0 []) [] t.

(* ------------------------------------------------------------------ *)
(* C18: connection set-up                                              *)

(* the CONNACK as read: first four bytes of the connection's inbound stream *)
Definition connack_of (t : list tev) (c : N) : list N := firstn 4 (in_bytes c t).
Definition connack_accepts (ca : list N) (clean_requested : bool) : bool :=
  match ca with
  | [32; 2; sp; 0] => (sp =? 0) || ((sp =? 1) && negb clean_requested)
  | _ => false
  end.

(* bytes written on c before the read that completed the CONNACK *)
Fixpoint out_before_connack (c : N) (t : list tev) (got : N) : list N :=
  match t with
  | [] => []
  | TEv _ (QWrite c' bs) a :: r =>
    if (c' =? c) && (got <? 4) then accepted_of bs a ++ out_before_connack c r got else out_before_connack c r got
  | TEv _ (QRead c' _ _) (ARd (RData d)) :: r =>
    if c' =? c then out_before_connack c r (got + len d) else out_before_connack c r got
  | _ :: r => out_before_connack c r got
  end.

Fixpoint is_prefix (a b : list N) : bool :=
  match a, b with
  | [], _ => true
  | x :: a', y :: b' => (x =? y) && is_prefix a' b'
  | _ :: _, [] => false
  end.

Definition closed_conn (t : list tev) (c : N) : bool :=
  existsb (fun e => match e with TEv _ (QClose c') _ => c' =? c | _ => false end) t.

(* first connection number of the client instance (process) that dialed connection c *)
Fixpoint epoch_start (t : list tev) (c : N) (count start : N) : N :=
  match t with
  | [] => start
  | TEv _ QDial (ADial true) :: r => if count =? c then start else epoch_start r c (count + 1) start
  | TRet _ (OpAdopt _ _) (RetAdopt _ 0) _ _ _ :: r => epoch_start r c count count
  | _ :: r => epoch_start r c count start
  end.

(* CleanSession only until the first connection has been established: an earlier connection whose
   CONNACK was accepting (for a clean request: session-present must be 0) *)
Definition want_clean_of (h : histcase) (t : list tev) (c : N) : bool :=
  let cf := s_cfg (cfg_of h) in
  let start := epoch_start t c 0 0 in
  let earlier := existsb (fun c' => (start <=? c') && (c' <? c) && connack_accepts (connack_of t c') (cfg_clean cf)) (conns t) in
  cfg_clean cf && negb earlier.

Definition conn_setup_ok (h : histcase) (t : list tev) (c : N) : bool :=
  let cf := s_cfg (cfg_of h) in
  let outb := out_bytes c t in
  let want_clean := want_clean_of h t c in
  let cf' := {| cfg_user := cfg_user cf; cfg_pass := cfg_pass cf; cfg_will := cfg_will cf;
                cfg_keepalive := cfg_keepalive cf; cfg_clean := want_clean |} in
  let expect := connect_packet cf' (cid_of h) in
  (* (a) the first packet is the CONNECT reflecting Config and client identifier *)
  let first_ok :=
    match parse_packet outb with
    | Some (PConnect _ _ _ _ _ _, _) => is_prefix expect outb
    | _ => is_prefix outb expect           (* incomplete CONNECT *)
    end in
  (* (b) nothing but the CONNECT before the CONNACK was read *)
  let before_ok := is_prefix (out_before_connack c t 0) expect in
  (* (c) without an accepting CONNACK nothing else is ever written and the connection is closed *)
  let acc := connack_accepts (connack_of t c) want_clean in
  let reject_ok := acc || (is_prefix outb expect && closed_conn t c) in
  first_ok && before_ok && reject_ok.

(* (c') the error class of a refusal; (e) ErrDown after a failed attempt *)
Record cs := mkCs { cs_down : bool; cs_closed : bool }.
Definition call_dialed (t : list tev) (i : N) : bool :=
  existsb (fun e => match e with TEv j QDial _ => j =? i | _ => false end) t.
Definition call_loaded_cid (t : list tev) (i : N) : bool :=
  existsb (fun e => match e with TEv j (QLoad 0) _ => j =? i | _ => false end) t.
Definition last_conn_in_call (t : list tev) (i : N) : option N :=
  fold_left (fun acc e => match e with TEv j QDial (ADial true) => if j =? i then Some (conn_count (upto_call i t) - 1) else acc | _ => acc end) t None.

(* the last connect attempt of call i certainly failed: its dial (or the load of the client
   identifier) failed and nothing was dialed afterwards *)
(* the read routine writes a PUBLISH only when connect resends: a failed PUBLISH write in the
   call that dialed means the attempt failed after the CONNACK *)
Definition resend_failed (t : list tev) (i : N) : bool :=
  existsb (fun e => match e with
                    | TEv j (QWrite _ (b :: _)) (AWr _ r) =>
                      (* QoS 1/2 only: a released QoS 0 Publish of another goroutine may write during this call *)
                      (j =? i) && (b / 16 =? 3) && negb ((b / 2) mod 4 =? 0) &&
                      match r with WHard | WClosed => true | _ => false end   (* an expiry with progress is retried *)
                    | _ => false end) t.
Definition attempt_failed (t : list tev) (i : N) : bool :=
  fold_left (fun acc e => match e with
                          | TEv j (QLoad 0) AFail => if j =? i then true else acc
                          | TEv j QDial (ADial ok) => if j =? i then negb ok else acc
                          | _ => acc end) t false.

Definition cs_step (h : histcase) (t : list tev) (s : cs) (m : list (N * list N)) (e : tev) : cs * bool :=
  match e with
  | TRet i OpRead r _ _ online =>
    let attempted := call_loaded_cid t i in
    let s' := if attempted then mkCs (attempt_failed t i || (call_dialed t i && resend_failed t i)) (cs_closed s) else s in
    (* a refusing CONNACK (return code 1..255 with a proper header) surfaces as IsConnectionRefused *)
    let refused_ok :=
      match last_conn_in_call t i, r with
      | Some c, RetErr er =>
        match connack_of t c with
        | [32; 2; _; code] => if negb online && negb (code =? 0) then has_bit er 1024 else true
        | _ => true
        end
      | _, _ => true
      end in
    (* a valid accepting CONNACK (session-present allowed unless this CONNECT asked for a clean
       session) is not a protocol violation: when nothing but the CONNACK was read from the
       connection, the call does not end in a protocol reset *)
    let accept_ok :=
      match last_conn_in_call t i, r with
      | Some c, RetErr er =>
        negb (connack_accepts (connack_of t c) (want_clean_of h t c) && (len (in_bytes c t) =? 4) && has_bit er 16384)
      | _, _ => true
      end in
    (s', refused_ok && accept_ok)
  | TRet i o (RetErr er) _ _ _ =>
    if spawn_op o && cs_down s && negb (cs_closed s) then
      (* after a failed attempt: ErrDown (or a denial / a full slot), never submitted *)
      (s, has_bit er 4 || has_bit er 256 || has_bit er 8)
    else (match o with OpClose | OpDisconnect => mkCs (cs_down s) true | _ => s end, true)
  | TRet i o RetParked _ _ _ =>
    (s, negb (spawn_op o && cs_down s && negb (cs_closed s)))
  | TRet i (OpAdopt _ _) (RetAdopt _ 0) _ _ _ => (mkCs false false, true)
  | _ => (s, true)
  end.

(* the other direction: ErrDown means that the last connect attempt failed.  While the last attempt
   is known to have succeeded (the ReadSlices call that made it ended online, and none was made
   since: the connection may have been lost meanwhile, which leaves the client pending), a
   request waits or goes out; it does not come back with ErrDown.  State: (up, closed). *)
Definition up_step (t : list tev) (s : bool * bool) (m : list (N * list N)) (e : tev) : (bool * bool) * bool :=
  let '(up, closed) := s in
  match e with
  | TRet i OpRead _ done _ online =>
    let attempted := call_loaded_cid t i in
    let up' := if attempted then online else up in
    ((up', closed),
     closed || negb (attempted && online) || forallb (fun d => negb (has_bit (snd (fst d)) 4)) done)
  | TRet _ (OpAdopt _ _) (RetAdopt _ 0) _ _ _ => ((false, false), true)
  | TRet _ o (RetErr er) _ _ _ =>
    (match o with OpClose | OpDisconnect => (up, true) | _ => s end,
     negb (spawn_op o && up && negb closed && has_bit er 4))
  | _ => (s, true)
  end.

Definition wrote_in_call (t : list tev) (i : N) : bool :=
  existsb (fun e => match e with
                    | TEv j (QWrite _ bs) a => (j =? i) && negb (len (accepted_of bs a) =? 0)
                    | _ => false end) t.
(* "requests issued while a connect attempt is in progress wait for its outcome and fail with
   ErrDown after a failed attempt": when the ReadSlices call whose Load or dial failed has
   returned (the harness lets 90 virtual ms pass before it looks), no request is still waiting
   for the write token.  State: (next request number, requests seen waiting before any write). *)
Definition lp_step (t : list tev) (s : N * list N) (m : list (N * list N)) (e : tev) : (N * list N) * bool :=
  let '(nextr, lp) := s in
  match e with
  | TRet i o r done _ _ =>
    let lp := filter (fun rid => negb (existsb (fun d => fst (fst d) =? rid) done)) lp in
    match o with
    | OpAdopt _ _ => match r with RetAdopt _ 0 => ((0, []), true) | _ => ((nextr, lp), true) end
    | OpRead =>
      ((nextr, lp), negb (call_loaded_cid t i && attempt_failed t i) || match lp with [] => true | _ => false end)
    | _ =>
      if spawn_op o then
        ((nextr + 1, match r with RetParked => if wrote_in_call t i then lp else nextr :: lp | _ => lp end), true)
      else ((nextr, lp), true)
    end
  | _ => (s, true)
  end.

Definition c18_ok (h : histcase) : bool :=
  let t := trace_of h in
  no_panic t && forallb (conn_setup_ok h t) (conns t) && fold_trace (cs_step h t) (mkCs false false) [] t
  && resend_complete t && fold_trace (up_step t) (false, false) [] t && fold_trace (lp_step t) (0, []) [] t.

Definition c05_run := hist_run c05_ok.
Definition c17_run := hist_run c17_ok.
Definition c18_run := hist_run c18_ok.

(* C04 (and C06): a well-formed stream is not answered with a protocol reset.  When ReadSlices ends
   in "connection reset on protocol violation" although everything read from the connection so
   far is a valid accepting CONNACK followed only by PUBLISH, PUBREL and PINGRESP packets that the
   independent parser accepts, with nothing left over, the reset has no cause in the input (a
   conforming broker's retransmission then meets the same fate: the handshake cannot complete).
   Acknowledgements and SUBACK/UNSUBACK in the stream switch the rule off: whether they are in
   order is C13's business. *)
Definition benign_stream (ps : list packet) : bool :=
  forallb (fun p => match p with
                    | PPublish _ q _ _ id _ => (q =? 0) || match id with Some i => negb (i =? 0) | None => false end
                    | PPubrel id => negb (id =? 0)
                    | PPingresp => true
                    | _ => false end) ps.
Definition no_false_reset (h : histcase) (t : list tev) : bool :=
  forallb (fun e => match e with
    | TRet i OpRead (RetErr er) _ _ _ =>
      if has_bit er 16384 then
        let n := conn_count (upto_call i t) in
        if n =? 0 then true else
        let c := n - 1 in
        let bs := in_bytes c t in
        if connack_accepts (firstn 4 bs) (want_clean_of h t c) then
          let '(ps, tail) := packets_of (skipn 4 bs) in
          negb (benign_stream ps && (len tail =? 0))
        else true
      else true
    | _ => true end) t.
Definition c04_full (h : histcase) : bool := c04_ok h && no_false_reset h (trace_of h).
Definition c04_run_full (l : list histcase) : list N * list N * list (N * N) :=
  (idx_filter hist_agree l 0, idx_filter c04_full l 0, idx_known25 l 0).
Definition all2_ok (h : histcase) : bool := all_ok h && c05_ok h && c17_ok h && c18_ok h.
Definition all2_run := hist_run all2_ok.

(* ------------------------------------------------------------------ *)
(* C14: error classes per method; "not submitted" means no byte          *)

Definition cls_closed := 2. Definition cls_down := 4. Definition cls_max := 8.
Definition cls_canceled := 16. Definition cls_abandoned := 32. Definition cls_submit := 64.
Definition cls_break := 128. Definition cls_deny := 256. Definition cls_end := 512.
Definition cls_suberr := 2048. Definition cls_store := 65536.

Definition any_bit (e : err) (bits : list N) : bool := existsb (has_bit e) bits.

Definition deny_end_disjoint (e : err) : bool := negb (has_bit e cls_deny && has_bit e cls_end).

(* bytes written during call i, over all connections *)
Definition saved_in_call (t : list tev) (i : N) : bool :=
  existsb (fun e => match e with TEv j (QSave k _) ADone => (j =? i) && (in_alo k || in_eo k) | _ => false end) t.

Definition c14_ret (t : list tev) (e : tev) : bool :=
  match e with
  | TRet i o r done _ _ =>
    let done_ok := forallb (fun d =>
        let er := snd (fst d) in
        deny_end_disjoint er &&
        ((er =? 0) || any_bit er [cls_suberr; cls_submit; cls_break; cls_abandoned; cls_canceled; cls_closed; cls_down])) done in
    done_ok &&
    match o, r with
    | OpPublish _ _ _, RetErr er =>
      deny_end_disjoint er &&
      ((er =? 0) || any_bit er [cls_closed; cls_down; cls_canceled; cls_deny; cls_submit]) &&
      (* ErrClosed, ErrDown, ErrCanceled and IsDeny imply no submission *)
      (if any_bit er [cls_closed; cls_down; cls_canceled; cls_deny] then negb (wrote_in_call t i) else true)
    | OpSub _ _, RetErr er | OpUnsub _, RetErr er =>
      deny_end_disjoint er &&
      negb (er =? 0) && any_bit er [cls_closed; cls_down; cls_max; cls_canceled; cls_deny; cls_submit] &&
      (if any_bit er [cls_closed; cls_down; cls_max; cls_canceled; cls_deny] then negb (wrote_in_call t i) else true)
    | OpPing, RetErr er =>
      deny_end_disjoint er &&
      negb (er =? 0) && any_bit er [cls_closed; cls_down; cls_max; cls_canceled; cls_submit] && negb (has_bit er cls_deny) &&
      (if any_bit er [cls_closed; cls_down; cls_max; cls_canceled] then negb (wrote_in_call t i) else true)
    | OpPubP _ _ _ _, RetErr er =>
      (* ErrClosed, ErrMax, IsDeny or the Save error: the message was dropped, nothing enqueued *)
      deny_end_disjoint er &&
      negb (er =? 0) && any_bit er [cls_closed; cls_max; cls_deny; cls_store] &&
      negb (saved_in_call t i) && negb (wrote_in_call t i)
    | OpDisconnect, RetErr er =>
      deny_end_disjoint er && negb (has_bit er cls_deny) &&
      ((er =? 0) || any_bit er [cls_closed; cls_down; cls_canceled; cls_submit]) &&
      (if any_bit er [cls_closed; cls_down; cls_canceled] then negb (wrote_in_call t i) else true)
    | OpReadBackoff er, RetWait k _ =>
      (* ReadBackoff returns nil exactly for the permanent class (ErrClosed) *)
      Bool.eqb (k =? 1) (has_bit er 2)
    | OpQuit rid, _ =>
      (* a quit signal leads only to ErrCanceled or ErrAbandoned *)
      forallb (fun d => if fst (fst d) =? rid then any_bit (snd (fst d)) [cls_canceled; cls_abandoned] else true) done
    | _, _ => true
    end
  | _ => true
  end.

(* a persisted publish that returned an error was not enqueued: the level is full exactly when
   as many records are stored as the limit allows (tx_step's clause for these calls) *)
Definition pubp_step (t : list tev) (mx : N * N) (m : list (N * list N)) (e : tev) : (N * N) * bool :=
  match e with
  | TRet _ (OpPubP _ _ _ _) _ _ _ _ | TRet _ (OpAdopt _ _) _ _ _ _ => tx_step t mx m e
  | _ => (mx, true)
  end.
(* a waiting request whose packet went out (bytes were written by the call that issued it) does
   not complete with one of the classes documented as "not submitted" *)
Definition cw_step (t : list tev) (s : N * list N) (m : list (N * list N)) (e : tev) : (N * list N) * bool :=
  match e with
  | TRet i o r done _ _ =>
    let '(next, wrote) := s in
    let ok := forallb (fun d => let '(rid, er, _) := d in
                                negb (mem rid wrote && any_bit er [cls_closed; cls_down; cls_max; cls_canceled; cls_deny])) done in
    match o with
    | OpAdopt _ _ => match r with RetAdopt _ 0 => ((0, []), ok) | _ => (s, ok) end
    | _ =>
      if spawn_op o then
        ((next + 1, match r with RetParked => if wrote_in_call t i then next :: wrote else wrote | _ => wrote end), ok)
      else (s, ok)
    end
  | _ => (s, true)
  end.

Definition c14_ok (h : histcase) : bool :=
  let t := trace_of h in
  no_panic t && forallb (c14_ret t) t && fold_trace (cw_step t) (0, []) [] t
  && (rewritten t || fold_trace (pubp_step t) (s_max1 (cfg_of h), s_max2 (cfg_of h)) [] t)
  && own_exchange t.

(* ------------------------------------------------------------------ *)
(* C13: hostile input                                                   *)

(* frame-level cut of an inbound stream: only the length prefix matters *)
Fixpoint frames_tail (fuel : nat) (l : list N) : list N :=
  match fuel with
  | O => l
  | S f => match frame_packet l with
           | Some (_, _, rest) => frames_tail f rest
           | None => l
           end
  end.

(* reads_armed: with a PauseTimeout, every read inside the CONNACK or inside a packet has a deadline *)
Fixpoint reads_armed (c : N) (t : list tev) (sofar : list N) : bool :=
  match t with
  | [] => true
  | TEv _ (QClose c') _ :: r => if c' =? c then true else reads_armed c r sofar   (* reads on a closed connection return at once *)
  | TEv _ (QRead c' armed _) a :: r =>
    if c' =? c then
      let mid := if N.of_nat (length sofar) <? 4 then true
                 else negb (N.of_nat (length (frames_tail (S (length sofar)) (skipn 4 sofar))) =? 0) in
      (if mid then armed || match a with ARd RClosed => true | _ => false end else true) &&
      reads_armed c r (match a with ARd (RData d) => sofar ++ d | _ => sofar end)
    else reads_armed c r sofar
  | _ :: r => reads_armed c r sofar
  end.

(* a BigMessage is never larger than what the broker announced *)
Definition big_bounded (t : list tev) : bool :=
  forallb (fun e => match e with
                    | TRet i OpRead (RetBig _ size) _ _ _ => size <=? 268435455
                    | _ => true end) t.

(* a call that read a protocol violation ends in an error, with the connection closed *)
Definition violation_in (ps : list packet) (tail : list N) : bool :=
  existsb (fun p => match p with
                    | PConnect _ _ _ _ _ _ | PSubscribe _ _ | PUnsubscribe _ _ | PPingreq | PDisconnect => true
                    | PConnack _ _ => true                            (* a second CONNACK *)
                    (* acknowledgements with an identifier outside the space this client uses for that kind *)
                    | PPuback id => negb ((32768 <=? id) && (id <? 49152))
                    | PPubrec id | PPubcomp id => negb (49152 <=? id)
                    | PSuback id codes => negb ((24576 <=? id) && (id <? 32768))
                                          || existsb (fun cd => negb ((cd <? 3) || (cd =? 128))) codes
                    | PUnsuback id => negb ((16384 <=? id) && (id <? 24576))
                    | _ => false end) ps.

Definition is_violation (p : packet) : bool := violation_in [p] [].
(* nothing that follows a violation on its connection is handed to the application *)
Fixpoint after_first_violation (ps : list packet) : list packet :=
  match ps with
  | [] => []
  | p :: r => if is_violation p then r else after_first_violation r
  end.
Definition no_delivery_after_violation (t : list tev) (c : N) : bool :=
  let ps := fst (packets_of (skipn 4 (in_bytes c t))) in
  let dl := delivered_msgs t in
  forallb (fun p => match p with
                    | PPublish _ _ _ tp _ pl => negb (existsb (fun d => list_eqb (fst d) tp && list_eqb (snd d) pl) dl)
                    | _ => true end) (after_first_violation ps).

Definition c13_ok (h : histcase) : bool :=
  let t := trace_of h in
  no_panic t && big_bounded t
  && (if s_pause (cfg_of h) then forallb (fun c => reads_armed c t []) (conns t) else true)
  && fold_trace (tx_step t) (s_max1 (cfg_of h), s_max2 (cfg_of h)) [] t     (* no forged progress *)
  && forallb (fun c =>
       (* once the broker sent something only a client may send, nothing more is delivered from that
          connection and it is closed *)
       let '(ps, tail) := packets_of (skipn 4 (in_bytes c t)) in
       if violation_in ps tail then closed_conn t c && no_delivery_after_violation t c else true) (conns t).

(* ------------------------------------------------------------------ *)
(* C16 / C02: adoption                                                  *)

Definition store_fault_in_call (t : list tev) (i : N) : bool :=
  existsb (fun e => match e with TEv j _ AFail => j =? i | _ => false end) t.

(* pending transfers of the reconstructed Persistence: genuine PUBLISH/PUBREL records in the two spaces *)
Definition pending_keys (m : list (N * list N)) : list N :=
  map fst (filter (fun kv => (in_alo (fst kv) || in_eo (fst kv)) && genuine_rec (snd kv)) m).

Definition adopt_step (lenient : bool) (t : list tev) (st : bool * bool) (m : list (N * list N)) (e : tev) : (bool * bool) * bool :=
  (* st = (damaged since the last adoption?, client identifier record unusable?) *)
  match e with
  | TStore _ m' =>
    let cid_bad := match obs_get m' 0 with Some v => negb (genuine_rec v) | None => true end in
    ((true, cid_bad), true)
  | TRet i (OpAdopt m1 m2) (RetAdopt nwarn fatal) _ _ _ =>
    let undecodable := N.of_nat (length (filter (fun kv => negb (fst kv =? 0) && negb (genuine_rec (snd kv))) m)) in
    let n1 := N.of_nat (length (filter (fun kv => in_alo (fst kv) && genuine_rec (snd kv)) m)) in
    let n2 := N.of_nat (length (filter (fun kv => in_eo (fst kv) && genuine_rec (snd kv)) m)) in
    (* C16: never fatal but for Persistence failures and a pending count above the limit *)
    let fatal_ok := (fatal =? 0) || store_fault_in_call t i || (norm_max m1 <? n1) || (norm_max m2 <? n2) in
    (* C02: an undamaged Persistence is adopted without warnings *)
    let warn_ok := if fst st then true else (if fatal =? 0 then nwarn =? 0 else true) in
    (* records abandoned by an adoption stay in the Persistence and are reported again: the
       no-warning clause is for a Persistence that was never tampered with *)
    (* an adoption that took the whole Persistence without a word makes it the client's own again *)
    (* C16 "warn": every record that does not decode (the client identifier aside) is reported by
       an adoption that goes through -- none is passed over in silence and left behind *)
    let reported_ok := if fatal =? 0 then undecodable <=? nwarn else true in
    ((if (nwarn =? 0) && (fatal =? 0) then false else fst st, snd st), fatal_ok && warn_ok && reported_ok)
  | TRet i OpRead (RetErr er) _ _ _ =>
    (* C16: after an adoption, connecting never fails on the session's own records ("gone missing",
       "record unavailable" are class-less errors), except when the client identifier record is unusable (F15) *)
    (st, negb (er =? 1) || (lenient && snd st) || store_fault_in_call t i)
  | _ => (st, true)
  end.

Definition c16_gen (lenient : bool) (h : histcase) : bool :=
  let t := trace_of h in
  no_panic t && fold_trace (adopt_step lenient t) (false, false) [] t.
Definition c16_ok := c16_gen false.
Definition c02_ok (h : histcase) : bool := c16_gen true h && c01_ok h && c05_ok h.
(* C05 "after a restart all unacknowledged ones are retransmitted": an adoption that drops records
   (warnings) turns the resend rule off, so C05 judges the adoptions as well *)
(* ... and the limits the client applied fit the identifier space: beyond it a later publish takes
   the identifier (and the record) of an earlier one that is still pending, which puts it first *)
Definition c05_full (h : histcase) : bool :=
  c05_ok h && c16_gen true h && (s_max1 (cfg_of h) <=? 16384) && (s_max2 (cfg_of h) <=? 16384).

(* F15 (recorded finding): the client identifier record is damaged or removed *)
Definition f15_match (h : histcase) : bool :=
  let t := trace_of h in
  existsb (fun e => match e with
                    | TStore _ m' => match obs_get m' 0 with Some v => negb (genuine_rec v) | None => true end
                    | _ => false end) t.

Definition c13_run := hist_run c13_ok.
Definition c14_run := hist_run c14_ok.
Definition c02_run := hist_run c02_ok.
Definition c05_run_full := hist_run c05_full.
Fixpoint idx_known (f : histcase -> bool) (ok : histcase -> bool) (l : list histcase) (i : N) (tag : N) : list (N * N) :=
  match l with
  | [] => []
  | x :: r => if negb (ok x) && f x then (i, tag) :: idx_known f ok r (i + 1) tag else idx_known f ok r (i + 1) tag
  end.
Definition c16_run (l : list histcase) : list N * list N * list (N * N) :=
  (idx_filter hist_agree l 0, idx_filter c16_ok l 0, idx_known (fun h => c16_gen true h && f15_match h) c16_ok l 0 15).
Definition all3_ok (h : histcase) : bool := all2_ok h && c13_ok h && c14_ok h && c16_gen true h.
Definition all3_run := hist_run all3_ok.

(* ------------------------------------------------------------------ *)
(* C15 at the session level: a stored value that does not decode (altered, or shorter than
   12 bytes, including empty) is reported as corrupt -- the call that loaded it fails (or, for
   AdoptSession, warns) -- and never treated as absent or used. *)
Definition call_failed (t : list tev) (i : N) : bool :=
  existsb (fun e => match e with
                    | TRet j _ (RetErr er) _ _ _ => (j =? i) && negb (er =? 0)
                    | TRet j _ (RetAdopt n f) _ _ _ => (j =? i) && (negb (n =? 0) || negb (f =? 0))
                    | _ => false end) t.
(* "for every storage sequence number" at the session level: what the client saves carries a
   sequence number above every decodable record the Persistence holds at that moment (the order
   of the records is what a restart reads them in), whatever the numbers adopted were *)
Definition seq_of (v : list N) : option N :=
  match decode_value v with DecOk _ sq => Some sq | _ => None end.
Definition seq_step (dirty : bool) (m : list (N * list N)) (e : tev) : bool * bool :=
  (* dirty: the environment rewrote the Persistence and the client has not adopted it since *)
  match e with
  | TStore _ _ => (true, true)
  | TRet _ (OpAdopt _ _) (RetAdopt _ 0) _ _ _ => (false, true)
  | TEv _ (QSave k v) ADone =>
    (dirty, dirty ||
            match seq_of v with
            | Some sq => forallb (fun kv => (fst kv =? k) || match seq_of (snd kv) with Some s0 => s0 <? sq | None => true end) m
            | None => false
            end)
  | _ => (dirty, true)
  end.
Definition c15s_ok (h : histcase) : bool :=
  let t := trace_of h in
  no_panic t &&
  forallb (fun e => match e with
                    | TEv i (QLoad k) (AVal (Some v)) => genuine_rec v || call_failed t i
                    | _ => true end) t
  && fold_trace seq_step false [] t.
Definition c15s_run := hist_run c15s_ok.

(* ------------------------------------------------------------------ *)
(* C12 (sequential part): closed is final                               *)

Record cl := mkCl {
  cl_closed : bool;            (* a Close/Disconnect returned in this process *)
  cl_term : bool;              (* a ReadSlices reported ErrClosed since *)
  cl_open_x : list N;          (* exchanges accepted and not yet closed *)
  cl_lastbig : bool;           (* the last ReadSlices returned a BigMessage that was not read *)
  cl_reads_after : N           (* ReadSlices calls since the close *)
}.

Definition last_out_packet (t : list tev) (c : N) : option packet :=
  last (map Some (fst (packets_of (out_bytes c t)))) None.

(* [lenient]: tolerate the recorded finding F23 *)
Definition cl_step (lenient : bool) (t : list tev) (s : cl) (m : list (N * list N)) (e : tev) : cl * bool :=
  match e with
  | TRet i o r done xev online =>
    let opened := match r with RetExch x => [x] | _ => [] end in
    let closed_now := flat_map (fun xe => match snd xe with None => [fst xe] | Some _ => [] end) xev in
    let s1 := mkCl (cl_closed s) (cl_term s) (filter (fun x => negb (mem x closed_now)) (cl_open_x s ++ opened))
                   (match o, r with OpRead, RetBig _ _ => true | OpRead, _ => false | OpReadAll, _ => false | _, _ => cl_lastbig s end)
                   (cl_reads_after s) in
    match o with
    | OpAdopt _ _ => match r with RetAdopt _ 0 => (mkCl false false [] false 0, true) | _ => (s1, true) end
    | OpClose =>
      (mkCl true (cl_term s1) (cl_open_x s1) (cl_lastbig s) 0,
       match r with RetErr er => (if cl_closed s then er =? 0 else true) && negb online | _ => false end)
    | OpDisconnect =>
      (mkCl true (cl_term s1) (cl_open_x s1) (cl_lastbig s) 0,
       match r with
       | RetErr er => (if cl_closed s then has_bit er 2 else true) && negb online
       | _ => false end)
    | _ =>
      if cl_closed s then
        let okret :=
          match o, r with
          | OpRead, RetErr er =>
            has_bit er 2 || (lenient && (((cl_reads_after s =? 0) && cl_lastbig s && negb (er =? 0)) || has_bit er 65536
                                         (* F23, third form: the end of stream of a connection whose other end
                                            was closed before Close, once *)
                                         || ((cl_reads_after s =? 0) && has_bit er 32768)))
          | OpRead, _ => false
          | (OpPublish _ _ _ | OpSub _ _ | OpUnsub _ | OpPing), RetErr er => has_bit er 2 || has_bit er 256
          | OpPubP _ _ _ _, RetErr er => has_bit er 2 || has_bit er 256
          | (OpPublish _ _ _ | OpSub _ _ | OpUnsub _ | OpPing | OpPubP _ _ _ _), _ => false
          | _, _ => true
          end in
        (* once ReadSlices reported ErrClosed: every pending exchange got ErrClosed and stays open *)
        let term_now := match o, r with OpRead, RetErr er => has_bit er 2 | _, _ => false end in
        let exch_ok :=
          if term_now && negb (cl_term s) then
            forallb (fun x => existsb (fun xe => (fst xe =? x) && match snd xe with Some er => has_bit er 2 | None => false end) xev)
                    (cl_open_x s)
          else true in
        let no_close_after := if cl_term s then forallb (fun xe => match snd xe with None => false | Some _ => true end) xev else true in
        (mkCl true (cl_term s || term_now) (cl_open_x s1) (cl_lastbig s1)
              (match o with OpRead => cl_reads_after s + 1 | _ => cl_reads_after s end),
         okret && exch_ok && no_close_after && negb online)
      else (s1, true)
    end
  | _ => (s, true)
  end.

(* a successful Disconnect makes DISCONNECT the last packet on its connection *)
Definition disconnect_last (t : list tev) : bool :=
  forallb (fun e => match e with
                    | TRet i OpDisconnect (RetErr 0) _ _ _ =>
                      existsb (fun c => match last_out_packet t c with Some PDisconnect => true | _ => false end) (conns t)
                    | _ => true end) t.

(* "no connection is left behind": when ReadSlices reports ErrClosed, every connection this client
   instance dialed (since the last successful adoption) has been closed.  State: the number of the
   first connection of the current instance. *)
(* the environment itself said that the connection is closed (a write or read answered with the
   closed-connection error): the client does not close it again *)
Definition reported_closed (t : list tev) (c : N) : bool :=
  existsb (fun e => match e with
                    | TEv _ (QWrite c' _) (AWr _ WClosed) => c' =? c
                    | TEv _ (QRead c' _ _) (ARd RClosed) => c' =? c
                    | _ => false end) t.
Definition conns_closed_at_end (t : list tev) : bool :=
  fold_trace (fun (s : N) (m : list (N * list N)) (e : tev) =>
    match e with
    | TRet i (OpAdopt _ _) (RetAdopt _ 0) _ _ _ => (conn_count (upto_call i t), true)
    | TRet i OpRead (RetErr er) _ _ _ =>
      if has_bit er 2 then
        let before := upto_call i t in
        (s, forallb (fun c => (c <? s) || closed_conn before c || reported_closed before c) (upto (N.to_nat (conn_count before))))
      else (s, true)
    | _ => (s, true)
    end) 0 [] t.
Definition c12_gen (lenient : bool) (h : histcase) : bool :=
  let t := trace_of h in
  no_panic t && disconnect_last t && fold_trace (cl_step lenient t) (mkCl false false [] false 0) [] t
  && conns_closed_at_end t.
Definition c12_ok := c12_gen false.
Definition c12_run (l : list histcase) : list N * list N * list (N * N) :=
  (idx_filter hist_agree l 0, idx_filter c12_ok l 0, idx_known (c12_gen true) c12_ok l 0 23).

(* ------------------------------------------------------------------ *)
(* C10 (sequential part): failed connections are left and redialed; back-off bounds  *)

Definition first_req_in_call (t : list tev) (i : N) : option req :=
  match filter (fun e => match e with TEv j _ _ => j =? i | _ => false end) t with
  | TEv _ q _ :: _ => Some q
  | _ => None
  end.

Record rd10 := mkRd { rd_offline : bool; rd_closed : bool; rd_await : list N; rd_nextr : N; rd_online : bool }.

Definition rd_step (h : histcase) (t : list tev) (s : rd10) (m : list (N * list N)) (e : tev) : rd10 * bool :=
  match e with
  | TRet i o r done _ online =>
    let await := filter (fun rid => negb (existsb (fun d => fst (fst d) =? rid) done)) (rd_await s) in
    let rid := rd_nextr s in
    let nextr := if spawn_op o then rid + 1 else rd_nextr s in
    (* a request that was written while online and now waits for its response *)
    let await := match r with
                 | RetParked => if spawn_op o && rd_online s && wrote_in_call t i then rid :: await else await   (* not one that still waits for the write semaphore *)
                 | _ => await end in
    let s' := mkRd (rd_offline s) (rd_closed s) await nextr online in
    match o with
    | OpAdopt _ _ => match r with RetAdopt _ 0 => (mkRd true false [] 0 false, true) | _ => (s', true) end
    | OpClose | OpDisconnect => (mkRd (rd_offline s) true await nextr online, true)
    | OpRead =>
      (* the failure was noticed earlier (offline): this call dials again *)
      let redial := if rd_offline s && negb (rd_closed s)
                    then match first_req_in_call t i with Some (QLoad 0) => true | _ => false end
                    else true in
      (* going offline releases every request pending on that connection *)
      let released := if negb online && negb (rd_closed s) then match await with [] => true | _ => false end else true in
      (* the failure is noticed: a ReadSlices error other than a Persistence error (the connection is
         kept for those) leaves the client offline, so that the next call dials *)
      let noticed := match r with
                     | RetErr er => (er =? 0) || has_bit er 65536 || ret_panicked r || negb online
                     | _ => true end in
      (mkRd (negb online) (rd_closed s) await nextr online, redial && released && noticed)
    | OpReadBackoff er =>
      let wmin := s_wmin (cfg_of h) in let wmax := s_wmax (cfg_of h) in
      (s', match r with
           | RetWait 1 _ => has_bit er 2                                   (* nil channel only for ErrClosed *)
           | RetWait 2 ms => negb (has_bit er 2) && ((ms =? 1000) || ((wmin <=? ms) && (ms <=? wmax)))
           | RetWait 0 _ => (er =? 0) || negb (has_bit er 2)               (* released: no error, BigMessage, or a zero wait *)
           | _ => false end)
    | _ => (s', true)
    end
  | _ => (s, true)
  end.

Definition c10_ok (h : histcase) : bool :=
  let t := trace_of h in
  no_panic t && fold_trace (rd_step h t) (mkRd true false [] 0 false) [] t
  (* "serves requests again": the new connection's well-formed stream is not answered with a reset
     (state left over from the lost connection must not be applied to the new one) *)
  && no_false_reset h t
  (* a stalled connection is noticed: with a PauseTimeout every read inside the CONNACK or inside
     a packet has a deadline (a read without one waits on the stalled connection for ever) *)
  && (if s_pause (cfg_of h) then forallb (fun c => reads_armed c t []) (conns t) else true).
Definition c10_run := hist_run c10_ok.

(* ------------------------------------------------------------------ *)
(* C11 (sequential part): every request gets its own response          *)

(* every SUBACK read so far with that identifier (a hostile broker may send several) *)
Definition subacks_for (t : list tev) (pid : N) : list (list N) :=
  flat_map (fun p => match p with PSuback id codes => if id =? pid then [codes] else [] | _ => [] end) (inbound_packets t).
Definition unsuback_for (t : list tev) (pid : N) : bool :=
  existsb (fun p => match p with PUnsuback id => id =? pid | _ => false end) (inbound_packets t).
Definition pingresp_seen (t : list tev) : bool :=
  existsb (fun p => match p with PPingresp => true | _ => false end) (inbound_packets t).

Fixpoint failed_of (fs : list (list N)) (codes : list N) : list (list N) :=
  match fs, codes with
  | f :: fs', cd :: cs' => if cd =? 128 then f :: failed_of fs' cs' else failed_of fs' cs'
  | _, _ => []
  end.

Inductive rq := RqSub (pid : N) (fs : list (list N)) | RqUnsub (pid : N) | RqPing (c ord : N) | RqOther.
Record rq11 := mkRq { rq_nextr : N; rq_reqs : list (N * rq) }.

Definition listlist_eqb (a b : list (list N)) : bool :=
  (length a =? length b)%nat && forallb (fun ab => list_eqb (fst ab) (snd ab)) (combine a b).

(* PINGRESP carries no identifier: the k-th PINGRESP of a connection answers its k-th PINGREQ.
   A Ping that returns nil must have its own answer in (recorded finding F26: the PINGRESP of an
   abandoned Ping completes the next one). *)
Definition ping_conn (t : list tev) (i : N) : N :=
  match filter (fun x => (snd x =? i) && match snd (fst (fst x)) with PPingreq => true | _ => false end) (out_packets t) with
  | x :: _ => fst (fst (fst x))
  | [] => 0
  end.
Definition pingreq_ordinal (t : list tev) (i : N) : N :=
  let c := ping_conn t i in
  N.of_nat (length (filter (fun x => (fst (fst (fst x)) =? c) && (snd x <=? i) &&
                                      match snd (fst (fst x)) with PPingreq => true | _ => false end) (out_packets t))).
Definition pingresp_count (t : list tev) (c : N) : N :=
  N.of_nat (length (filter (fun p => match p with PPingresp => true | _ => false end)
                           (fst (packets_of (skipn 4 (in_bytes c t)))))).

Definition rq_step_gen (lenient_ping : bool) (t : list tev) (s : rq11) (m : list (N * list N)) (e : tev) : rq11 * bool :=
  match e with
  | TRet i o r done _ _ =>
    (* each completion is justified by the response to that very request *)
    let ok := forallb (fun d =>
      let '(rid, er, failed) := d in
      match filter (fun x => fst x =? rid) (rq_reqs s) with
      | (_, RqSub pid fs) :: _ =>
        if er =? 0 then
          existsb (fun codes => (length codes =? length fs)%nat && forallb (fun cd => negb (cd =? 128)) codes)
                  (subacks_for (upto_call i t) pid)
        else if has_bit er 2048 then
          existsb (fun codes => (length codes =? length fs)%nat && listlist_eqb failed (failed_of fs codes))
                  (subacks_for (upto_call i t) pid)
        else true
      | (_, RqUnsub pid) :: _ => if er =? 0 then unsuback_for (upto_call i t) pid else true
      | (_, RqPing c ord) :: _ =>
        if er =? 0 then pingresp_seen (upto_call i t) && (lenient_ping || (ord <=? pingresp_count (upto_call i t) c)) else true
      | _ => true
      end) done in
    match o with
    | OpAdopt _ _ => match r with RetAdopt _ 0 => (mkRq 0 [], ok) | _ => (s, ok) end
    | _ =>
      if spawn_op o then
        let rid := rq_nextr s in
        let what := match o, flat_map (fun p => match p with
                                                | PSubscribe id fs => [RqSub id (map fst fs)]
                                                | PUnsubscribe id _ => [RqUnsub id]
                                                | PPingreq => [RqPing (ping_conn t i) (pingreq_ordinal t i)]
                                                | _ => [] end) (packets_in_call t i) with
                    | (OpSub _ _ | OpUnsub _ | OpPing), x :: _ => x
                    | _, _ => RqOther end in
        (mkRq (rid + 1) ((rid, what) :: rq_reqs s), ok)
      else (s, ok)
    end
  | _ => (s, true)
  end.

Definition rq_step := rq_step_gen false.
Definition c11_gen (lenient_ping : bool) (h : histcase) : bool :=
  let t := trace_of h in
  no_panic t && c14_ok h && fold_trace (rq_step_gen lenient_ping t) (mkRq 0 []) [] t && settled_requests t.
Definition c11_ok := c11_gen false.
(* C13, no forged progress for requests: a Subscribe/Unsubscribe/Ping completes successfully only
   through a well-formed response to it (a SUBACK with one return code per filter) *)
(* ... and nothing is handed to the application that the broker did not send as a PUBLISH: every
   message and every BigMessage returned is found among the inbound PUBLISH packets (a BigMessage
   whose payload never arrived completely by its header) *)
Definition no_forged_delivery (t : list tev) : bool :=
  forallb (fun e => match e with
                    | TRet j OpRead (RetMsg topic msg) _ _ _ =>
                      match find_pub (upto_call j t) topic msg with Some _ => true | None => false end
                    | TRet _ OpRead (RetBig topic size) _ _ _ =>
                      match find_big_any t topic size with Some _ => true | None => false end
                    | _ => true end) t.
Definition c13_full (h : histcase) : bool :=
  let t := trace_of h in
  c13_ok h && fold_trace (rq_step_gen true t) (mkRq 0 []) [] t && no_forged_delivery t.
Definition c13_run_full := hist_run c13_full.
(* F26: fails only by the own-PINGRESP rule *)
Definition c11_run (l : list histcase) : list N * list N * list (N * N) :=
  (idx_filter hist_agree l 0, idx_filter c11_ok l 0, idx_known (c11_gen true) c11_ok l 0 26).
Definition all4_ok (h : histcase) : bool := all3_ok h && c10_ok h && c11_ok h && c12_gen true h.
Definition all4_run := hist_run all4_ok.

(* ------------------------------------------------------------------ *)
(* C06 at the session level (runner C06S): inbound streams through the whole client, with
   Persistence faults at the reception markers and connection faults in between.  Whatever
   happens, the stream stays aligned: nothing is returned that the broker did not send, a
   well-formed stream is not answered with a protocol reset, and on each connection no at-most-once
   or at-least-once PUBLISH that lies before a returned one was skipped. *)
Definition big_returned (t : list tev) (tp : list N) (size : N) : bool :=
  existsb (fun e => match e with
                    | TRet _ OpRead (RetBig tp' sz) _ _ _ => list_eqb tp' tp && (sz =? size)
                    | _ => false end) t.
Definition no_loss (t : list tev) : bool :=
  forallb (fun c =>
    let ins := fst (packets_of (in_bytes c t)) in
    let dl := delivered_msgs t in
    let passed := firstn (last_delivered ins dl 0 0) ins in
    forallb (fun p => match p with
                      | PPublish _ q _ tp _ pl =>
                        if q <? 2 then existsb (fun d => list_eqb (fst d) tp && list_eqb (snd d) pl) dl
                                       || big_returned t tp (len pl)
                        else true
                      | _ => true end) passed) (conns t).
Definition c06s_ok (h : histcase) : bool :=
  let t := trace_of h in
  no_panic t && no_forged_delivery t && no_false_reset h t && no_loss t.
Definition c06s_run := hist_run c06s_ok.

