(* L2: the reception side of Session.v (client.go onPUBLISH, onPUBREL, readSlices):
   acknowledgements are only enqueued at delivery, flushed first at the next
   ReadSlices, duplicates of exactly-once messages are suppressed while the marker
   is in the Persistence (C04, C07).  Every theorem is for all client states and all
   worlds (all tapes / scripts).  Proofs only. *)
From Coq Require Import ZArith Lia List Bool.
From RecordUpdate Require Import RecordUpdate.
From MQ Require Import Session WriteLoopProofs.
Import ListNotations.
Local Open Scope N_scope.

(* ------------------------------------------------------------------ *)
(* Inversion of the world monad                                        *)

Lemma bind_inv {A B} (m : M A) (k : A -> M B) w b w2 :
  bind m k w = Some (b, w2) -> exists a w1, m w = Some (a, w1) /\ k a w1 = Some (b, w2).
Proof.
  unfold bind. destruct (m w) as [[a w1]|]; [|discriminate]. intros H. eauto.
Qed.

Lemma ret_inv {A} (a b : A) w w' : ret a w = Some (b, w') -> b = a /\ w' = w.
Proof. unfold ret. intros H. inversion H. auto. Qed.

Lemma fail_inv {A} w (x : A * world) : @fail_tape A w = Some x -> False.
Proof. discriminate. Qed.

Ltac binv H :=
  let a := fresh "a" in let w1 := fresh "w" in let H1 := fresh H "a" in
  apply bind_inv in H; destruct H as (a & w1 & H1 & H).

Ltac rinv H :=
  apply ret_inv in H; let E := fresh "E" in destruct H as [H E].

(* ------------------------------------------------------------------ *)
(* Calls are only ever added to the log                                *)

Definition log_ext (w w' : world) : Prop := exists l, w_log w' = l ++ w_log w.

Lemma log_ext_refl w : log_ext w w.
Proof. exists []. reflexivity. Qed.
Lemma log_ext_trans a b c : log_ext a b -> log_ext b c -> log_ext a c.
Proof. intros [l E] [l' E']. exists (l' ++ l). rewrite E', E. apply app_assoc. Qed.

(* [sat f Q]: every run of f only extends the log and returns a value in Q *)
Definition sat {A} (f : M A) (Q : A -> Prop) : Prop :=
  forall w a w', f w = Some (a, w') -> log_ext w w' /\ Q a.

Lemma sat_ret {A} (a : A) (Q : A -> Prop) : Q a -> sat (ret a) Q.
Proof. intros H w b w' E. rinv E. subst. split; [apply log_ext_refl|exact H]. Qed.
Lemma sat_fail {A} (Q : A -> Prop) : sat fail_tape Q.
Proof. intros w a w' E. discriminate. Qed.
Lemma sat_bind {A B} (f : M A) (k : A -> M B) (P : A -> Prop) (Q : B -> Prop) :
  sat f P -> (forall a, P a -> sat (k a) Q) -> sat (bind f k) Q.
Proof.
  intros Hf Hk w b w' E. binv E. destruct (Hf _ _ _ Ea) as [L1 HP].
  destruct (Hk _ HP _ _ _ E) as [L2 HQ]. split; [eapply log_ext_trans; eassumption|exact HQ].
Qed.
Lemma sat_conseq {A} (f : M A) (P Q : A -> Prop) : sat f P -> (forall a, P a -> Q a) -> sat f Q.
Proof. intros Hf H w a w' E. destruct (Hf _ _ _ E). auto. Qed.
Lemma sat_world {A X} (g : world -> X) (f : X -> M A) Q :
  (forall n, sat (f n) Q) -> sat (fun w => f (g w) w) Q.
Proof. intros H w a w' E. exact (H _ _ _ _ E). Qed.

Definition any {A} (_ : A) : Prop := True.

Lemma sat_bind_any {A B} (f : M A) (k : A -> M B) (Q : B -> Prop) :
  sat f any -> (forall a, sat (k a) Q) -> sat (bind f k) Q.
Proof. intros Hf Hk. eapply sat_bind; [exact Hf|]. intros a _. apply Hk. Qed.

(* primitives *)

Lemma ask_store_frame q w a w' :
  ask_store q w = Some (a, w') ->
  w_log w' = q :: w_log w /\ t_wr w' = t_wr w /\ t_rd w' = t_rd w /\ t_dial w' = t_dial w.
Proof.
  unfold ask_store. destruct (w_store w) as [m|].
  - destruct (t_stf w) as [|[|] t]; [discriminate| |].
    + intros E. inversion E; subst. cbn. auto.
    + destruct q; intros E; inversion E; subst; cbn; auto.
  - destruct (t_st w) as [|x t]; [discriminate|]. intros E. inversion E; subst. cbn. auto.
Qed.

Lemma ask_store_sat q : sat (ask_store q) any.
Proof.
  intros w a w' E. apply ask_store_frame in E. destruct E as [E _].
  split; [exists [q]; exact E|exact I].
Qed.

Lemma ask_dial_sat : sat ask_dial any.
Proof.
  intros w a w' E. unfold ask_dial in E. destruct (t_dial w); inversion E; subst.
  split; [exists [QDial]; reflexivity|exact I].
Qed.

Lemma tell_sat q : sat (tell q) any.
Proof. intros w a w' E. inversion E; subst. split; [exists [q]; reflexivity|exact I]. Qed.

Lemma conn_write_sat c bufs single : sat (conn_write c bufs single) any.
Proof.
  intros w a w' E. unfold conn_write in E.
  destruct (if single then _ else _) as [[calls r] t'].
  destruct r; inversion E; subst; (split; [eexists; reflexivity|exact I]).
Qed.

Lemma with_reader_sat {A} c (f : rst -> A * rst) :
  sat (with_reader c f) (fun p => k_pack (fst p) = k_pack c /\ k_wsem (fst p) = k_wsem c).
Proof.
  intros w a w' E. unfold with_reader in E. destruct (f (rst_of c w)) as [x s].
  inversion E; subst. split; [eexists; reflexivity|]. split; reflexivity.
Qed.

(* ------------------------------------------------------------------ *)
(* pendingAck through the pure helpers                                 *)

Lemma kp_fold_left {X} (f : client -> X -> client) l :
  (forall c x, k_pack (f c x) = k_pack c) -> forall c, k_pack (fold_left f l c) = k_pack c.
Proof.
  intros H. induction l as [|x l IH]; intros c; cbn [fold_left]; [reflexivity|].
  rewrite IH. apply H.
Qed.

Lemma kp_complete c rid e fs : k_pack (complete c rid e fs) = k_pack c.
Proof. reflexivity. Qed.
Lemma kp_tx_remove c pid : k_pack (tx_remove c pid) = k_pack c.
Proof. reflexivity. Qed.
Lemma kp_lock_cleanup_run c l : k_pack (lock_cleanup_run c l) = k_pack c.
Proof. destruct l; reflexivity. Qed.

Lemma kp_release_locked c e : k_pack (release_locked c e) = k_pack c.
Proof.
  unfold release_locked. apply kp_fold_left. intros c' p.
  destruct (snd p); try reflexivity. rewrite kp_complete. apply kp_lock_cleanup_run.
Qed.

Lemma kp_break_pending c : k_pack (break_pending c) = k_pack c.
Proof.
  unfold break_pending. cbv zeta.
  match goal with |- k_pack (?x <| k_txs := [] |>) = _ => change (k_pack x = k_pack c) end.
  rewrite kp_fold_left.
  - match goal with |- k_pack (?x <| k_ping := None |>) = _ => change (k_pack x = k_pack c) end.
    destruct (k_ping c); [|reflexivity]. destruct (parked_kind c n) as [[]|]; reflexivity.
  - intros c' t. destruct (parked_kind c' (snd (fst t))) as [[]|]; reflexivity.
Qed.

Lemma kp_xclose c x : k_pack (xclose c x) = k_pack c.
Proof. unfold xclose. destruct (x =? 0); reflexivity. Qed.
Lemma kp_xsend c x e : k_pack (xsend c x e) = k_pack c.
Proof. unfold xsend. destruct (x =? 0); reflexivity. Qed.

Lemma kp_term_callbacks c : k_pack (term_callbacks c) = k_pack c.
Proof.
  unfold term_callbacks. rewrite kp_break_pending. destruct (k_seqclosed c); reflexivity.
Qed.

Lemma kp_on_suback c body : k_pack (fst (on_suback c body)) = k_pack c.
Proof.
  unfold on_suback. cbv zeta.
  repeat match goal with
  | |- k_pack (fst (if ?b then _ else _)) = _ => destruct b; [reflexivity|]
  end.
  destruct (tx_find c (u16 body)) as [[rid fso]|]; [|reflexivity].
  destruct (negb (_ =? _)%nat).
  - cbn [fst]. destruct (match parked_kind _ _ with Some (PkSub _) => true | _ => false end); reflexivity.
  - destruct (failed_filters _ _); cbn [fst];
      destruct (match parked_kind _ _ with Some (PkSub _) => true | _ => false end); reflexivity.
Qed.

Lemma kp_on_unsuback c body : k_pack (fst (on_unsuback c body)) = k_pack c.
Proof.
  unfold on_unsuback. cbv zeta.
  repeat match goal with
  | |- k_pack (fst (if ?b then _ else _)) = _ => destruct b; [reflexivity|]
  end.
  destruct (tx_find c (u16 body)) as [[rid fso]|]; [|reflexivity].
  destruct (parked_kind _ _) as [[]|]; reflexivity.
Qed.

Lemma kp_on_pingresp c body : k_pack (fst (on_pingresp c body)) = k_pack c.
Proof.
  unfold on_pingresp. destruct (negb _); [reflexivity|].
  destruct (k_ping c); [|reflexivity]. cbv zeta.
  destruct (parked_kind _ _) as [[]|]; reflexivity.
Qed.

Lemma kp_tx_pick fuel space : forall c, k_pack (fst (tx_pick fuel c space)) = k_pack c.
Proof.
  induction fuel as [|f IH]; intros c; cbn [tx_pick]; [reflexivity|]. cbv zeta.
  destruct (existsb _ _); [|reflexivity]. rewrite IH. reflexivity.
Qed.

Lemma kp_op_read_backoff c e : k_pack (fst (op_read_backoff c e)) = k_pack c.
Proof.
  unfold op_read_backoff.
  destruct (_ || _); [reflexivity|]. destruct (N.testbit e 1); [reflexivity|].
  destruct (k_rconn c); [reflexivity|]. destruct (N.testbit e 10); reflexivity.
Qed.

(* the same results never are HMsg or HDupe *)
Definition ctl_res (h : hres) : Prop := match h with HOk | HErr _ => True | _ => False end.

Lemma ctl_on_suback c body : ctl_res (snd (on_suback c body)).
Proof.
  unfold on_suback. cbv zeta.
  repeat match goal with
  | |- ctl_res (snd (if ?b then _ else _)) => destruct b; [exact I|]
  end.
  destruct (tx_find c (u16 body)) as [[rid fso]|]; [|exact I].
  destruct (negb (_ =? _)%nat); [exact I|]. destruct (failed_filters _ _); exact I.
Qed.
Lemma ctl_on_unsuback c body : ctl_res (snd (on_unsuback c body)).
Proof.
  unfold on_unsuback. cbv zeta.
  repeat match goal with
  | |- ctl_res (snd (if ?b then _ else _)) => destruct b; [exact I|]
  end.
  destruct (tx_find c (u16 body)) as [[rid fso]|]; [|exact I].
  destruct (parked_kind _ _) as [[]|]; exact I.
Qed.
Lemma ctl_on_pingresp c body : ctl_res (snd (on_pingresp c body)).
Proof.
  unfold on_pingresp. destruct (negb _); [exact I|].
  destruct (k_ping c); [|exact I]. cbv zeta.
  destruct (parked_kind _ _) as [[]|]; exact I.
Qed.

(* ------------------------------------------------------------------ *)
(* pendingAck through the monadic helpers                              *)

Lemma rugged_load_sat k : sat (rugged_load k) any.
Proof.
  unfold rugged_load. apply sat_bind_any; [apply ask_store_sat|]. intros a.
  destruct a as [ks|[raw|]| |]; try apply sat_fail; try (apply sat_ret; exact I).
  destruct (decode_value raw); apply sat_ret; exact I.
Qed.

Lemma rugged_save_sat c k v :
  sat (rugged_save c k v) (fun p => fst p = c <| k_rseq := k_rseq c + 1 |>).
Proof.
  unfold rugged_save. cbv zeta. apply sat_bind_any; [apply ask_store_sat|]. intros a.
  destruct a; try apply sat_fail; apply sat_ret; reflexivity.
Qed.

Lemma store_delete_sat k : sat (store_delete k) any.
Proof.
  unfold store_delete. apply sat_bind_any; [apply ask_store_sat|]. intros a.
  destruct a; try apply sat_fail; apply sat_ret; exact I.
Qed.

Definition kp {A} (c : client) (p : client * A) : Prop := k_pack (fst p) = k_pack c.

Lemma locked_write_sat c cn bufs single : sat (locked_write c cn bufs single) (kp c).
Proof.
  unfold locked_write. apply sat_bind_any; [apply conn_write_sat|]. intros r.
  destruct r; try (apply sat_ret; reflexivity);
    (apply sat_bind_any; [first [apply tell_sat | apply sat_ret; exact I]|]);
    intros _; apply sat_ret; reflexivity.
Qed.

Lemma nowait_write_sat c bufs single : sat (nowait_write c bufs single) (kp c).
Proof.
  unfold nowait_write. destruct (k_wsem c); try (apply sat_ret; reflexivity).
  apply locked_write_sat.
Qed.

Lemma op_write_sat c bufs single : sat (op_write c bufs single) (kp c).
Proof.
  unfold op_write. destruct (k_wsem c); try (apply sat_ret; reflexivity).
  eapply sat_bind; [apply locked_write_sat|]. intros [c1 e] H. apply sat_ret. exact H.
Qed.

Lemma to_offline_sat c : sat (to_offline c) (fun c' => k_pack c' = k_pack c).
Proof.
  unfold to_offline. destruct (k_wsem c);
    try (apply sat_bind_any; [apply tell_sat|]; intros _; apply sat_ret;
         rewrite kp_break_pending; reflexivity).
  apply sat_bind_any; [apply tell_sat|]. intros _. apply sat_ret. reflexivity.
Qed.

Lemma to_offline_ret_sat {A} c (r : A) (Q : client * A -> Prop) :
  (forall c', k_pack c' = k_pack c -> Q (c', r)) ->
  sat (bind (to_offline c) (fun c => ret (c, r))) Q.
Proof.
  intros H. eapply sat_bind; [apply to_offline_sat|]. intros c' E. apply sat_ret. apply H, E.
Qed.

Lemma handshake_sat c cn clean cid : sat (handshake c cn clean cid) (kp c).
Proof.
  unfold handshake. cbv zeta. apply sat_bind_any; [apply conn_write_sat|]. intros r.
  destruct r; try (apply sat_ret; reflexivity).
  eapply sat_bind; [apply with_reader_sat|]. intros [c1 [p e]] [H _]. cbn [fst] in H.
  change (k_pack c1 = k_pack c) in H.
  assert (Hc : forall x, k_pack (c1 <| k_rarm := x |>) = k_pack c) by (intros; exact H).
  assert (Hc2 : forall x f, k_pack (c1 <| k_rarm := x |> <| k_rbuf ::= f |>) = k_pack c)
    by (intros; exact H).
  assert (Hc3 : forall x f, k_pack (c1 <| k_rarm := x |> <| k_newsess := true |> <| k_rbuf ::= f |>)
                            = k_pack c) by (intros; exact H).
  destruct e as [[]|]; try apply sat_fail;
  match goal with |- context [if ?b then _ else _] => destruct b end;
    try (apply sat_ret; apply Hc).
  destruct p as [|a [|b [|fl [|code [|]]]]]; try apply sat_fail.
  destruct (negb (code =? 0)); [apply sat_ret, Hc|].
  destruct (fl =? 0); [apply sat_ret, Hc3|].
  destruct (fl =? 1); [|apply sat_ret, Hc].
  destruct clean; apply sat_ret; [apply Hc|apply Hc2].
Qed.

Lemma resend_sat fuel cn space : forall seqno acc subm,
  sat (resend fuel cn space seqno acc subm) any.
Proof.
  induction fuel as [|f IH]; intros seqno acc subm; cbn [resend].
  - apply sat_ret. exact I.
  - destruct (acc <=? seqno); [apply sat_ret; exact I|]. cbv zeta.
    apply sat_bind_any; [apply rugged_load_sat|]. intros l.
    destruct l as [[[|h body]|]|e]; try (apply sat_ret; exact I).
    apply sat_bind_any; [apply conn_write_sat|]. intros r.
    destruct r; try (apply sat_ret; exact I). apply IH.
Qed.

Lemma connect_sat c : sat (connect c) (kp c).
Proof.
  unfold connect. destruct (k_closed c); [apply sat_ret; reflexivity|]. cbv zeta.
  apply sat_bind_any; [apply rugged_load_sat|]. intros l.
  destruct l as [cidv|e]; [|apply sat_ret; unfold kp; cbn [fst]; rewrite kp_release_locked; reflexivity].
  apply sat_bind_any; [apply ask_dial_sat|]. intros ok.
  destruct ok; cbn [negb];
    [|apply sat_ret; unfold kp; cbn [fst]; rewrite kp_release_locked; reflexivity].
  eapply sat_bind; [apply handshake_sat|]. intros [c1 h] H. unfold kp in H. cbn [fst] in H.
  change (k_pack c1 = k_pack c) in H.
  destruct h as [|e].
  2:{ apply sat_bind_any; [apply tell_sat|]. intros _. apply sat_ret.
      unfold kp; cbn [fst]; rewrite kp_release_locked. exact H. }
  apply sat_bind_any; [apply resend_sat|]. intros [s1 e1].
  destruct (negb (e1 =? 0)).
  { apply sat_bind_any; [apply tell_sat|]. intros _. apply sat_ret.
    unfold kp; cbn [fst]; rewrite kp_release_locked. exact H. }
  apply sat_bind_any; [apply resend_sat|]. intros [s2 e2].
  destruct (negb (e2 =? 0)).
  { apply sat_bind_any; [apply tell_sat|]. intros _. apply sat_ret.
    unfold kp; cbn [fst]; rewrite kp_release_locked. exact H. }
  match goal with |- context [if ?b then _ else _] => destruct b end; [apply sat_fail|].
  apply sat_ret. exact H.
Qed.

(* ------------------------------------------------------------------ *)
(* Arithmetic of the PUBLISH head and of the acknowledgement packets   *)

Definition publish_qos (head : N) : N := (head / 2) mod 4.
(* the packet identifier as on_publish reads it *)
Definition publish_id (body : list N) : N := u16 (skipn (N.to_nat (u16 body + 2)) body).
Definition publish_topic (body : list N) : list N :=
  firstn (N.to_nat (u16 body + 2 - 2)) (skipn 2 body).
(* the payload of a PUBLISH with an identifier *)
Definition publish_msg (body : list N) : list N := skipn (N.to_nat (u16 body + 2 + 2)) body.
(* long enough for topic and identifier, identifier not zero *)
Definition publish_wf (body : list N) : Prop :=
  2 <= len body /\ u16 body + 2 + 2 <= len body /\ publish_id body <> 0.

Lemma publish_qos_cases head :
  publish_qos head = 0 \/ publish_qos head = 1 \/ publish_qos head = 2 \/ publish_qos head = 3.
Proof.
  unfold publish_qos. assert (H : (head / 2) mod 4 < 4) by (apply N.mod_lt; discriminate).
  revert H. generalize ((head / 2) mod 4). intros x H. lia.
Qed.

Lemma len_zero_nil (l : list N) : (len l =? 0) = true -> l = [].
Proof. destruct l; [reflexivity|]. unfold len. cbn [length]. rewrite Nat2N.inj_succ.
       intros H. apply N.eqb_eq in H. destruct (N.of_nat (length l)); discriminate. Qed.
Lemma len_zero_cons (l : list N) : (len l =? 0) = false -> l <> [].
Proof. intros H E. subst. discriminate. Qed.

Lemma remote_key_bit pid : N.testbit (N.lor pid remote_flag) 16 = true.
Proof. rewrite N.lor_spec. apply orb_true_r. Qed.

(* ------------------------------------------------------------------ *)
(* rugged_load, with the world                                         *)

Lemma rugged_load_frame k w l w' :
  rugged_load k w = Some (l, w') ->
  w_log w' = QLoad k :: w_log w /\ t_wr w' = t_wr w /\ t_rd w' = t_rd w /\ t_dial w' = t_dial w
  /\ w_store w' = w_store w.
Proof.
  unfold rugged_load. intros H. binv H.
  assert (S : w_store w0 = w_store w).
  { revert Ha. unfold ask_store. destruct (w_store w) as [m|] eqn:Hm.
    - destruct (t_stf w) as [|[|] t]; [discriminate| |]; intros E; cbv beta iota zeta in E;
        inversion E; subst; cbn; exact Hm.
    - destruct (t_st w) as [|x t]; [discriminate|]. intros E. inversion E; subst. cbn. exact Hm. }
  apply ask_store_frame in Ha. destruct Ha as (L & A & B & C).
  assert (W : w' = w0).
  { destruct a as [ks|[raw|]| |]; try discriminate.
    - destruct (decode_value raw); rinv H; assumption.
    - rinv H; assumption.
    - rinv H; assumption. }
  subst w'. auto.
Qed.

(* map mode, no injected failure: the answer is what the map holds *)
Lemma rugged_load_map k w m t l w' :
  w_store w = Some m -> t_stf w = false :: t ->
  rugged_load k w = Some (l, w') ->
  match store_get m k with
  | None => l = inl None
  | Some v => match decode_value v with DecOk p _ => l = inl (Some p) | _ => l = inr E_other end
  end.
Proof.
  intros Hm Ht. unfold rugged_load. intros H. binv H.
  unfold ask_store in Ha. rewrite Hm, Ht in Ha. inversion Ha; subst. clear Ha.
  destruct (store_get m k) as [v|].
  - destruct (decode_value v); rinv H; assumption.
  - rinv H; assumption.
Qed.

(* map mode, any failure tape: a key that is present never loads as absent *)
Lemma rugged_load_map_present k w m l w' :
  w_store w = Some m -> store_get m k <> None ->
  rugged_load k w = Some (l, w') -> l <> inl None.
Proof.
  intros Hm Hk. unfold rugged_load. intros H. binv H.
  unfold ask_store in Ha. rewrite Hm in Ha.
  destruct (t_stf w) as [|[|] t]; [discriminate| |]; inversion Ha; subst; clear Ha.
  - rinv H. subst. discriminate.
  - destruct (store_get m k) as [v|]; [|congruence].
    destruct (decode_value v); rinv H; subst; discriminate.
Qed.

(* ------------------------------------------------------------------ *)
(* 1-3: on_publish                                                     *)

(* The complete case analysis of on_publish, from which 1, 2 and 3 are read off. *)
Inductive on_publish_case (c : client) (head : N) (body : list N) (w : world)
  : client -> hres -> world -> Prop :=
| OP_malformed : (publish_qos head = 3 \/ ~ publish_wf body) ->
    on_publish_case c head body w c (HErr E_proto) w
| OP_qos0 : publish_qos head = 0 ->
    on_publish_case c head body w c
      (HMsg (publish_topic body) (skipn (N.to_nat (u16 body + 2)) body)) w
| OP_qos1_busy : publish_qos head = 1 -> publish_wf body -> k_pack c <> [] ->
    on_publish_case c head body w c (HErr E_other) w
| OP_qos1 : publish_qos head = 1 -> publish_wf body -> k_pack c = [] ->
    on_publish_case c head body w (c <| k_pack := packet_puback (publish_id body) |>)
      (HMsg (publish_topic body) (publish_msg body)) w
| OP_qos2 : forall l w',
    publish_qos head = 2 -> publish_wf body ->
    rugged_load (N.lor (publish_id body) remote_flag) w = Some (l, w') ->
    forall c' r,
    match l with
    | inr e => c' = c /\ r = HErr e
    | inl o =>
      (k_pack c <> [] /\ c' = c /\ r = HErr E_other) \/
      (k_pack c = [] /\ c' = c <| k_pack := packet_pubrec (publish_id body) |> /\
       r = match o with Some _ => HDupe | None => HMsg (publish_topic body) (publish_msg body) end)
    end ->
    on_publish_case c head body w c' r w'.

Lemma on_publish_cases c head body w c' r w' :
  on_publish c head body w = Some ((c', r), w') -> on_publish_case c head body w c' r w'.
Proof.
  unfold on_publish. cbv zeta.
  destruct (len body <? 2) eqn:L1.
  { intros H; rinv H; inversion H; subst; constructor. right. intros (A & _).
    apply N.ltb_lt in L1. lia. }
  destruct (len body <? u16 body + 2) eqn:L2.
  { intros H; rinv H; inversion H; subst; constructor. right. intros (_ & A & _).
    apply N.ltb_lt in L2. lia. }
  fold (publish_qos head).
  destruct (publish_qos head =? 0) eqn:Q0.
  { intros H; rinv H; inversion H; subst. apply OP_qos0. apply N.eqb_eq, Q0. }
  destruct (publish_qos head =? 3) eqn:Q3.
  { intros H; rinv H; inversion H; subst; constructor. left. apply N.eqb_eq, Q3. }
  destruct (len body <? u16 body + 2 + 2) eqn:L3.
  { intros H; rinv H; inversion H; subst; constructor. right. intros (_ & A & _).
    apply N.ltb_lt in L3. lia. }
  fold (publish_id body).
  destruct (publish_id body =? 0) eqn:P0.
  { intros H; rinv H; inversion H; subst; constructor. right. intros (_ & _ & A).
    apply N.eqb_eq in P0. contradiction. }
  assert (WF : publish_wf body).
  { apply N.ltb_ge in L1, L3. apply N.eqb_neq in P0. repeat split; assumption. }
  fold (publish_topic body). fold (publish_msg body).
  destruct (publish_qos head =? 1) eqn:Q1.
  - apply N.eqb_eq in Q1.
    destruct (len (k_pack c) =? 0) eqn:K; cbn [negb]; intros H; rinv H; inversion H; subst.
    + apply OP_qos1; [assumption..|apply len_zero_nil, K].
    + apply OP_qos1_busy; [assumption..|apply len_zero_cons, K].
  - assert (Q2 : publish_qos head = 2).
    { apply N.eqb_neq in Q0, Q3, Q1. destruct (publish_qos_cases head) as [|[|[|]]]; congruence. }
    intros H. binv H. destruct a as [o|e].
    + destruct o as [p|]; (destruct (len (k_pack c) =? 0) eqn:K; cbn [negb] in H; rinv H;
        inversion H; subst; (eapply OP_qos2; [exact Q2|exact WF|exact Ha|]); cbv beta iota;
        [right; split; [apply len_zero_nil, K|split; reflexivity]
        |left; split; [apply len_zero_cons, K|split; reflexivity]]).
    + rinv H. inversion H; subst. eapply OP_qos2; [exact Q2|exact WF|exact Ha|]. split; reflexivity.
Qed.

(* 1. Receiving a PUBLISH never writes anything and changes nothing in the
      Persistence: at most one Load of a reception marker. *)
Theorem on_publish_no_write c head body w c' r w' :
  on_publish c head body w = Some ((c', r), w') ->
  (w_log w' = w_log w \/ exists k, N.testbit k 16 = true /\ w_log w' = QLoad k :: w_log w) /\
  t_wr w' = t_wr w /\ t_rd w' = t_rd w /\ t_dial w' = t_dial w /\ w_store w' = w_store w.
Proof.
  intros H. apply on_publish_cases in H. destruct H; auto 6.
  apply rugged_load_frame in H1. destruct H1 as (L & A & B & C & D).
  split; [right; eexists; split; [apply remote_key_bit|exact L]|auto].
Qed.

(* 2. What on_publish leaves in pendingAck *)
Theorem on_publish_enqueues_own_ack c head body w c' r w' :
  on_publish c head body w = Some ((c', r), w') ->
  (forall topic msg, r = HMsg topic msg ->
     (publish_qos head = 0 /\ c' = c) \/
     (publish_qos head = 1 /\ k_pack c = [] /\ c' = c <| k_pack := packet_puback (publish_id body) |>) \/
     (publish_qos head = 2 /\ k_pack c = [] /\ c' = c <| k_pack := packet_pubrec (publish_id body) |>)) /\
  (r = HDupe ->
     publish_qos head = 2 /\ k_pack c = [] /\ c' = c <| k_pack := packet_pubrec (publish_id body) |>) /\
  (forall e, r = HErr e -> c' = c) /\
  r <> HOk.
Proof.
  intros H. apply on_publish_cases in H. destruct H.
  - repeat split; try discriminate; reflexivity.
  - repeat split; try discriminate; auto.
  - repeat split; try discriminate; reflexivity.
  - repeat split; try discriminate; auto.
  - destruct l as [o|e].
    + destruct H2 as [(K & -> & ->)|(K & -> & ->)].
      * repeat split; try discriminate; reflexivity.
      * destruct o; repeat split; try discriminate; auto.
    + destruct H2 as [-> ->]. repeat split; try discriminate; reflexivity.
Qed.

(* field-wise reading of 2 *)
Corollary on_publish_pack c head body w c' r w' :
  on_publish c head body w = Some ((c', r), w') ->
  match r with
  | HMsg _ _ =>
    (publish_qos head = 0 /\ k_pack c' = k_pack c) \/
    (publish_qos head = 1 /\ k_pack c = [] /\ k_pack c' = packet_puback (publish_id body)) \/
    (publish_qos head = 2 /\ k_pack c = [] /\ k_pack c' = packet_pubrec (publish_id body))
  | HDupe => publish_qos head = 2 /\ k_pack c = [] /\ k_pack c' = packet_pubrec (publish_id body)
  | HErr _ => k_pack c' = k_pack c
  | HOk => False
  end.
Proof.
  intros H. apply on_publish_enqueues_own_ack in H. destruct H as (A & B & C & D).
  destruct r as [|e|topic msg|].
  - congruence.
  - rewrite (C e eq_refl). reflexivity.
  - destruct (A topic msg eq_refl) as [[Q ->]|[(Q & K & ->)|(Q & K & ->)]]; auto 6.
  - destruct (B eq_refl) as (Q & K & ->). auto.
Qed.

(* 3. C04: while the marker is in the (genuine) Persistence, a PUBLISH with that
      identifier is never handed out; with the marker absent it is. *)
Theorem on_publish_once_per_cycle c head body w m c' r w' :
  w_store w = Some m -> publish_qos head = 2 ->
  on_publish c head body w = Some ((c', r), w') ->
  let key := N.lor (publish_id body) remote_flag in
  (* marker present, whatever the failure tape says and whatever the value: never returned *)
  (store_get m key <> None -> forall topic msg, r <> HMsg topic msg) /\
  (* no Persistence failure at this operation, well-formed packet *)
  (forall t, t_stf w = false :: t -> publish_wf body ->
     (forall v p s, store_get m key = Some v -> decode_value v = DecOk p s ->
        (k_pack c = [] /\ r = HDupe) \/ (k_pack c <> [] /\ r = HErr E_other)) /\
     (store_get m key = None ->
        (k_pack c = [] /\ r = HMsg (publish_topic body) (publish_msg body)) \/
        (k_pack c <> [] /\ r = HErr E_other))).
Proof.
  intros Hm Q H. apply on_publish_cases in H. cbv zeta.
  destruct H as [M| | | |l w' Q2 WF L c' r P]; try (rewrite Q in *; discriminate).
  - (* malformed *)
    split; [intros; discriminate|]. intros t Ht WF.
    destruct M as [M|M]; [rewrite Q in M; discriminate|contradiction].
  - split.
    + intros Hk topic msg. pose proof (rugged_load_map_present _ _ _ _ _ Hm Hk L) as NL.
      destruct l as [[p|]|e].
      * destruct P as [(_ & _ & ->)|(_ & _ & ->)]; discriminate.
      * congruence.
      * destruct P as [_ ->]. discriminate.
    + intros t Ht _. pose proof (rugged_load_map _ _ _ _ _ _ Hm Ht L) as ML. split.
      * intros v p s Hv Hd. rewrite Hv, Hd in ML. subst l.
        destruct P as [(K & _ & ->)|(K & _ & ->)]; auto.
      * intros Hv. rewrite Hv in ML. subst l.
        destruct P as [(K & _ & ->)|(K & _ & ->)]; auto.
Qed.

(* ------------------------------------------------------------------ *)
(* writeNoWait of one packet, with the world                           *)

Definition write_log (cn : N) (calls : list wcall) : list req :=
  rev (map (fun cl : wcall => QWrite cn (fst cl)) calls).

(* the world after the conn.Write calls of one packet *)
Definition after_write (cn : N) (calls : list wcall) (t' : list wanswer) (w : world) : world :=
  w <| t_wr := t' |> <| w_log ::= app (write_log cn calls) |>.

(* a failed write closes the connection unless it was found closed *)
Definition after_failed_write (cn : N) (wr : wres) (w : world) : world :=
  match wr with WClosed => w | _ => w <| w_log ::= cons (QClose cn) |> end.

Lemma E_submit_nonzero r : (E_submit r =? 0) = false.
Proof. destruct r; reflexivity. Qed.

Inductive nowait_case (c : client) (p : list N) (w : world) : client -> err -> world -> Prop :=
| NW_offline : forall e,
    (k_wsem c = WsClosed /\ e = E_closed) \/ ((k_wsem c = WsDown \/ k_wsem c = WsPending) /\ e = E_down) ->
    nowait_case c p w c e w
| NW_written : forall cn calls t',
    k_wsem c = WsConn cn -> write_to_run p (t_wr w) = (calls, WOk, t') ->
    nowait_case c p w c E_nil (after_write cn calls t' w)
| NW_failed : forall cn calls wr t',
    k_wsem c = WsConn cn -> write_to_run p (t_wr w) = (calls, wr, t') ->
    wr <> WOk -> wr <> WNoTape ->
    nowait_case c p w (c <| k_wsem := WsPending |>) (E_submit wr)
                (after_failed_write cn wr (after_write cn calls t' w)).

Lemma nowait_write_cases c p w c' e w' :
  nowait_write c [p] true w = Some ((c', e), w') -> nowait_case c p w c' e w'.
Proof.
  unfold nowait_write. destruct (k_wsem c) as [| |cn|] eqn:S.
  - intros H. rinv H. inversion H; subst. apply NW_offline. auto.
  - intros H. rinv H. inversion H; subst. apply NW_offline. auto.
  - unfold locked_write. intros H. binv H. unfold conn_write in Ha.
    change (concat [p]) with (p ++ []) in Ha. rewrite app_nil_r in Ha.
    destruct (write_to_run p (t_wr w)) as [[calls wr] t'] eqn:W.
    destruct wr; inversion Ha; subst; clear Ha.
    + rinv H. inversion H; subst. eapply NW_written; eassumption.
    + binv H. inversion Ha; subst. rinv H. inversion H; subst.
      eapply (NW_failed c p w cn calls WTimeout t'); try eassumption; discriminate.
    + binv H. inversion Ha; subst. rinv H. inversion H; subst.
      eapply (NW_failed c p w cn calls WClosed t'); try eassumption; discriminate.
    + binv H. inversion Ha; subst. rinv H. inversion H; subst.
      eapply (NW_failed c p w cn calls WHard t'); try eassumption; discriminate.
  - intros H. rinv H. inversion H; subst. apply NW_offline. auto.
Qed.

(* e = 0 exactly when the packet went out completely *)
Lemma nowait_case_ok c p w c' e w' :
  nowait_case c p w c' e w' -> (e =? 0) = true ->
  c' = c /\ exists cn calls t',
    k_wsem c = WsConn cn /\ write_to_run p (t_wr w) = (calls, WOk, t') /\
    w' = after_write cn calls t' w /\ accepted_all calls = p.
Proof.
  intros H E. destruct H as [e [[_ ->]|[_ ->]]|cn calls t' S W|cn calls wr t' S W N1 N2].
  - discriminate.
  - discriminate.
  - split; [reflexivity|]. exists cn, calls, t'. repeat split; try assumption.
    unfold write_to_run in W. apply write_to_prefix in W. apply W. reflexivity.
  - rewrite E_submit_nonzero in E. discriminate.
Qed.

Lemma nowait_case_failed c p w c' e w' :
  nowait_case c p w c' e w' -> (e =? 0) = false ->
  k_pack c' = k_pack c /\
  ((c' = c /\ w' = w /\ (e = E_closed \/ e = E_down)) \/
   exists cn calls wr t',
     k_wsem c = WsConn cn /\ write_to_run p (t_wr w) = (calls, wr, t') /\ wr <> WOk /\ wr <> WNoTape /\
     e = E_submit wr /\ c' = c <| k_wsem := WsPending |> /\
     w' = after_failed_write cn wr (after_write cn calls t' w)).
Proof.
  intros H E. destruct H as [e [[_ ->]|[_ ->]]|cn calls t' S W|cn calls wr t' S W N1 N2].
  - split; [reflexivity|]. left. auto.
  - split; [reflexivity|]. left. auto.
  - discriminate.
  - split; [reflexivity|]. right. exists cn, calls, wr, t'. auto 10.
Qed.

(* toOffline, with the world *)
Lemma to_offline_world c w c' w' :
  to_offline c w = Some (c', w') ->
  k_pack c' = k_pack c /\
  ((k_wsem c = WsClosed /\ c' = c <| k_rconn := None |> /\
    w' = w <| w_log ::= cons (QClose (conn_of c)) |>) \/
   (k_wsem c <> WsClosed /\ w' = w <| w_log ::= cons (QClose (conn_of c)) |>)).
Proof.
  intros H. split.
  - exact (proj2 (to_offline_sat c _ _ _ H)).
  - unfold to_offline in H. destruct (k_wsem c) eqn:S;
      try (binv H; inversion Ha; subst; rinv H; subst; right; split; [discriminate|reflexivity]).
    binv H. inversion Ha. subst. rinv H. subst. left. auto.
Qed.

(* ------------------------------------------------------------------ *)
(* 6: on_pubrel                                                        *)

Lemma store_delete_inv k w ok w' :
  store_delete k w = Some (ok, w') ->
  exists a, ask_store (QDelete k) w = Some (a, w') /\
            ((a = SDone /\ ok = true) \/ (a = SFail /\ ok = false)).
Proof.
  unfold store_delete. intros H. binv H. exists a.
  destruct a; try discriminate; rinv H; subst; auto.
Qed.

Lemma on_pubrel_malformed c body w c' r w' :
  on_pubrel c body w = Some ((c', r), w') ->
  len body <> 2 \/ u16 body = 0 -> r = HErr E_proto /\ c' = c /\ w' = w.
Proof.
  unfold on_pubrel. cbv zeta. intros H M.
  destruct (len body =? 2) eqn:L; cbn [negb] in H.
  - destruct (u16 body =? 0) eqn:Z.
    + rinv H. inversion H. auto.
    + apply N.eqb_eq in L. apply N.eqb_neq in Z. destruct M; contradiction.
  - rinv H. inversion H. auto.
Qed.

(* 6. PUBREL: Delete the marker, then PUBCOMP; the PUBCOMP is kept when it did not go out *)
Theorem on_pubrel_answers c body w c' r w' :
  len body = 2 -> u16 body <> 0 ->
  on_pubrel c body w = Some ((c', r), w') ->
  let pid := u16 body in
  let del := QDelete (N.lor pid remote_flag) in
  exists a w1,
    ask_store del w = Some (a, w1) /\ w_log w1 = del :: w_log w /\ t_wr w1 = t_wr w /\
    ( (* the Delete failed: nothing is written *)
      (a = SFail /\ r = HErr E_store /\ c' = c /\ w' = w1)
      \/
      (a = SDone /\
       ( (* an acknowledgement is pending already (never inside ReadSlices, see
            read_loop_pack_nil): refused, nothing written *)
         (k_pack c <> [] /\ r = HErr E_other /\ c' = c /\ w' = w1)
         \/ (* PUBCOMP with that identifier written completely *)
         (k_pack c = [] /\ r = HOk /\ c' = c <| k_pack := [] |> /\
          exists cn calls t',
            k_wsem c = WsConn cn /\
            write_to_run (packet_pubcomp pid) (t_wr w1) = (calls, WOk, t') /\
            accepted_all calls = packet_pubcomp pid /\
            w' = after_write cn calls t' w1)
         \/ (* the write failed or there is no connection: PUBCOMP kept for the retry *)
         (k_pack c = [] /\ k_pack c' = packet_pubcomp pid /\
          exists e, r = HErr e /\ (e =? 0) = false /\
            ((c' = c <| k_pack := packet_pubcomp pid |> /\ w' = w1 /\ (e = E_closed \/ e = E_down))
             \/ exists cn calls wr t',
                 k_wsem c = WsConn cn /\
                 write_to_run (packet_pubcomp pid) (t_wr w1) = (calls, wr, t') /\
                 wr <> WOk /\ wr <> WNoTape /\ e = E_submit wr /\
                 c' = c <| k_pack := packet_pubcomp pid |> <| k_wsem := WsPending |> /\
                 w' = after_failed_write cn wr (after_write cn calls t' w1)))))).
Proof.
  intros L Z H. cbv zeta. unfold on_pubrel in H. cbv zeta in H.
  apply N.eqb_eq in L. apply N.eqb_neq in Z. rewrite L, Z in H. cbn [negb] in H.
  binv H. apply store_delete_inv in Ha. destruct Ha as (a0 & A & D).
  exists a0, w0. pose proof (ask_store_frame _ _ _ _ A) as (F1 & F2 & _).
  split; [exact A|]. split; [exact F1|]. split; [exact F2|].
  destruct D as [[-> ->]|[-> ->]]; cbn [negb] in H.
  2:{ rinv H. inversion H; subst. left. auto. }
  right. split; [reflexivity|].
  destruct (len (k_pack c) =? 0) eqn:K; cbn [negb] in H.
  2:{ rinv H. inversion H; subst. left. split; [apply len_zero_cons, K|auto]. }
  apply len_zero_nil in K. right.
  binv H. destruct a as [c2 e].
  change (k_pack (c <| k_pack := packet_pubcomp (u16 body) |>)) with (packet_pubcomp (u16 body)) in Ha.
  apply nowait_write_cases in Ha.
  destruct (e =? 0) eqn:E; cbn [negb] in H; rinv H; inversion H; subst.
  - left. apply nowait_case_ok in Ha; [|exact E]. destruct Ha as (-> & cn & calls & t' & S & W & -> & Acc).
    split; [exact K|]. split; [reflexivity|]. split; [reflexivity|].
    exists cn, calls, t'. auto.
  - right. apply nowait_case_failed in Ha; [|exact E]. destruct Ha as (P & Ha).
    split; [exact K|]. split; [exact P|]. exists e. split; [reflexivity|]. split; [exact E|].
    destruct Ha as [(-> & -> & Ee)|(cn & calls & wr & t' & S & W & N1 & N2 & -> & -> & ->)].
    + left. auto.
    + right. exists cn, calls, wr, t'. auto 10.
Qed.

(* ------------------------------------------------------------------ *)
(* 5: the flush of pendingAck at the start of ReadSlices               *)

Definition flush_key (p : list N) : N := N.lor (u16 (skipn 2 p)) remote_flag.
Definition is_pubrec_packet (p : list N) : bool :=
  match p with h :: _ => h / 16 =? 5 | [] => false end.

(* the write of the pending acknowledgement and what follows it *)
Definition flush_write_outcome (c1 : client) (rc cn : N) (p : list N) (w1 : world)
           (c' : client) (r : retv) (w' : world) : Prop :=
  exists calls wr t',
    write_to_run p (t_wr w1) = (calls, wr, t') /\ wr <> WNoTape /\
    let w2 := after_write cn calls t' w1 in
    ( (* written completely: acknowledgement cleared, only now the reading starts *)
      (wr = WOk /\ accepted_all calls = p /\
       read_loop (S (S (length (t_rd w2) + length (t_dial w2)))) (c1 <| k_pack := [] |>) w2
       = Some ((c', r), w'))
      \/ (* the write failed: acknowledgement kept, toOffline *)
      (wr <> WOk /\ r = RetErr (E_submit wr) /\ k_pack c' = p /\
       to_offline (c1 <| k_wsem := WsPending |>) (after_failed_write cn wr w2) = Some (c', w') /\
       w_log w' = QClose rc :: w_log (after_failed_write cn wr w2))).

Lemma flush_write_part c1 rc cn p w1 a w0 c' r w' :
  k_rconn c1 = Some rc -> k_wsem c1 = WsConn cn -> k_pack c1 = p ->
  bind (nowait_write c1 [k_pack c1] true)
       (fun '(c0, e) => if negb (e =? 0) then ret (c0, Some (e, true))
                        else ret (c0 <| k_pack := [] |>, None)) w1 = Some (a, w0) ->
  match a with
  | (c, Some (e0, off)) => c0 <- (if off then to_offline c else ret c) ;; ret (c0, RetErr e0)
  | (c, None) => fun w : world => read_loop (S (S (length (t_rd w) + length (t_dial w)))) c w
  end w0 = Some (c', r, w') ->
  flush_write_outcome c1 rc cn p w1 c' r w'.
Proof.
  intros Hr Hs Hp Ha H. rewrite Hp in Ha. binv Ha. destruct a0 as [c2 e].
  apply nowait_write_cases in Haa.
  destruct Haa as [e [[S _]|[[S|S] _]]|cn' calls t' S W|cn' calls wr t' S W N1 N2];
    try (rewrite Hs in S; discriminate).
  - rewrite Hs in S. inversion S; subst cn'. change (negb (E_nil =? 0)) with false in Ha.
    rinv Ha. subst a w0. exists calls, WOk, t'. split; [exact W|]. split; [discriminate|].
    cbv zeta. left. split; [reflexivity|]. split; [|exact H].
    unfold write_to_run in W. apply write_to_prefix in W. apply W. reflexivity.
  - rewrite Hs in S. inversion S; subst cn'. rewrite E_submit_nonzero in Ha. cbn [negb] in Ha.
    rinv Ha. subst a w0. binv H. rinv H. inversion H; subst. clear H.
    exists calls, wr, t'. split; [exact W|]. split; [exact N2|]. cbv zeta. right.
    split; [exact N1|]. split; [reflexivity|].
    pose proof (to_offline_world _ _ _ _ Ha) as [P [(S' & _)|(_ & L)]]; [discriminate|].
    split; [exact P|]. split; [exact Ha|]. rewrite L. unfold conn_of. cbn. rewrite Hr. reflexivity.
Qed.

(* 5. C07: the pending acknowledgement goes out first: marker Save (PUBREC only), then
      the write of exactly that packet, and only then the reading. *)
Theorem flush_acks_first c w rc cn p c' r w' :
  k_rconn c = Some rc -> k_big c = None -> k_pack c = p -> p <> [] -> k_wsem c = WsConn cn ->
  read_slices_body c w = Some ((c', r), w') ->
  let c0 := c <| k_rbuf ::= skipn (N.to_nat (k_peekn c)) |> <| k_peekn := 0 |> in
  let sv := QSave (flush_key p) (encode_value p (k_rseq c + 1)) in
  exists c1 w1 pre,
    (* first the marker Save, iff the acknowledgement is a PUBREC *)
    ((is_pubrec_packet p = false /\ c1 = c0 /\ w1 = w /\ pre = []) \/
     (is_pubrec_packet p = true /\ c1 = c0 <| k_rseq := k_rseq c + 1 |> /\ pre = [sv] /\
      exists a, ask_store sv w = Some (a, w1) /\ (a = SDone \/ a = SFail))) /\
    w_log w1 = pre ++ w_log w /\ t_wr w1 = t_wr w /\
    ( (* the Save failed: nothing is written, the acknowledgement is kept *)
      (is_pubrec_packet p = true /\ ask_store sv w = Some (SFail, w1) /\
       r = RetErr E_store /\ c' = c1 /\ w' = w1)
      \/ (* then the write calls of exactly p *)
      ((is_pubrec_packet p = true -> ask_store sv w = Some (SDone, w1)) /\
       flush_write_outcome c1 rc cn p w1 c' r w')).
Proof.
  intros Hr Hb Hp Hn Hs H. cbv zeta. unfold read_slices_body in H.
  binv H. rewrite Hr in Ha. rinv Ha. subst a w0. cbv beta iota in H.
  change (negb (E_nil =? 0)) with false in H. cbv iota in H.
  binv H. rewrite Hb in Ha. rinv Ha. subst a w0. cbv beta iota zeta in H.
  binv H.
  set (c0 := c <| k_rbuf ::= skipn (N.to_nat (k_peekn c)) |> <| k_peekn := 0 |>) in *.
  change (k_pack c0) with (k_pack c) in Ha. rewrite Hp in Ha.
  destruct p as [|h t]; [contradiction|].
  binv Ha. destruct a0 as [c1 ok]. cbn [is_pubrec_packet].
  destruct (h / 16 =? 5) eqn:T.
  - unfold rugged_save in Haa. cbv zeta in Haa. binv Haa.
    change (k_rseq c0) with (k_rseq c) in *.
    fold (flush_key (h :: t)) in Haaa.
    pose proof (ask_store_frame _ _ _ _ Haaa) as (F1 & F2 & _).
    destruct a0; try discriminate; rinv Haa; inversion Haa; subst c1 ok w1; clear Haa.
    + (* Save done *)
      cbn [negb] in Ha.
      exists (c0 <| k_rseq := k_rseq c + 1 |>), w2, [QSave (flush_key (h :: t)) (encode_value (h :: t) (k_rseq c + 1))].
      split; [right; split; [reflexivity|]; split; [reflexivity|]; split; [reflexivity|]; eauto|].
      split; [exact F1|]. split; [exact F2|]. right. split; [intros _; exact Haaa|].
      eapply flush_write_part; [exact Hr|exact Hs|exact Hp|exact Ha|exact H].
    + (* Save failed *)
      cbn [negb] in Ha. rinv Ha. subst a w0. binv H. rinv Ha. subst a w0. rinv H. inversion H; subst.
      exists (c0 <| k_rseq := k_rseq c + 1 |>), w2, [QSave (flush_key (h :: t)) (encode_value (h :: t) (k_rseq c + 1))].
      split; [right; split; [reflexivity|]; split; [reflexivity|]; split; [reflexivity|]; eauto|].
      split; [exact F1|]. split; [exact F2|]. left. auto.
  - rinv Haa. inversion Haa; subst c1 ok w1. clear Haa. cbn [negb] in Ha.
    exists c0, w, []. split; [left; auto|]. split; [reflexivity|]. split; [reflexivity|].
    right. split; [discriminate|].
    eapply flush_write_part; [exact Hr|exact Hs|exact Hp|exact Ha|exact H].
Qed.

Lemma is_pubrec_pubrec id : is_pubrec_packet (packet_pubrec id) = true.
Proof. reflexivity. Qed.
Lemma is_pubrec_puback id : is_pubrec_packet (packet_puback id) = false.
Proof. reflexivity. Qed.
Lemma is_pubrec_pubrel id : is_pubrec_packet (packet_pubrel id) = false.
Proof. reflexivity. Qed.
Lemma is_pubrec_pubcomp id : is_pubrec_packet (packet_pubcomp id) = false.
Proof. reflexivity. Qed.

Lemma u16_be16 id : id < 65536 -> u16 (be16 id) = id.
Proof.
  intros H. unfold be16, u16.
  rewrite (N.mod_small (id / 256) 256) by (apply N.div_lt_upper_bound; [discriminate|exact H]).
  rewrite N.mul_comm. symmetry. apply N.div_mod. discriminate.
Qed.

(* the marker key of the flush is the one on_publish loads and on_pubrel deletes *)
Lemma flush_key_pubrec id : id < 65536 -> flush_key (packet_pubrec id) = N.lor id remote_flag.
Proof.
  intros H. unfold flush_key, packet_pubrec, ack_packet. cbn [skipn]. rewrite u16_be16 by exact H.
  reflexivity.
Qed.

Lemma u16_lt l : bytes l -> u16 l < 65536.
Proof.
  intros H. destruct l as [|a [|b r]]; cbn [u16]; try lia.
  inversion H as [|? ? Ha H']; subst. inversion H' as [|? ? Hb _]; subst.
  unfold isbyte in *. lia.
Qed.
Lemma bytes_skipn n : forall l, bytes l -> bytes (skipn n l).
Proof.
  induction n as [|n IH]; intros l H; [exact H|]. destruct l as [|x l]; [exact H|].
  cbn [skipn]. apply IH. inversion H; assumption.
Qed.
Lemma publish_id_lt body : bytes body -> publish_id body < 65536.
Proof. intros H. apply u16_lt, bytes_skipn, H. Qed.

(* ------------------------------------------------------------------ *)
(* 4: pendingAck over the packet handlers and the read loop            *)

Definition pack_shape (p : list N) : Prop :=
  p = [] \/ exists id, p = packet_puback id \/ p = packet_pubrec id \/
                       p = packet_pubrel id \/ p = packet_pubcomp id.

(* handlers of control packets: never a message; pendingAck is kept, cleared, or a
   PUBREL/PUBCOMP whose write failed *)
Definition ctl_post (c : client) (p : client * hres) : Prop :=
  match snd p with
  | HOk => k_pack (fst p) = k_pack c \/ k_pack (fst p) = []
  | HErr _ => k_pack (fst p) = k_pack c \/ k_pack (fst p) = [] \/
              exists id, k_pack (fst p) = packet_pubrel id \/ k_pack (fst p) = packet_pubcomp id
  | _ => False
  end.

Definition pub_post (c : client) (head : N) (body : list N) (p : client * hres) : Prop :=
  match snd p with
  | HMsg _ _ =>
    (publish_qos head = 0 /\ k_pack (fst p) = k_pack c) \/
    (publish_qos head = 1 /\ k_pack c = [] /\ k_pack (fst p) = packet_puback (publish_id body)) \/
    (publish_qos head = 2 /\ k_pack c = [] /\ k_pack (fst p) = packet_pubrec (publish_id body))
  | HDupe => publish_qos head = 2 /\ k_pack c = [] /\ k_pack (fst p) = packet_pubrec (publish_id body)
  | HErr _ => k_pack (fst p) = k_pack c
  | HOk => False
  end.

Lemma on_publish_sat c head body : sat (on_publish c head body) (pub_post c head body).
Proof.
  intros w [c' r] w' H. split.
  - apply on_publish_no_write in H. destruct H as [[L|(k & _ & L)] _].
    + exists []. exact L.
    + exists [QLoad k]. exact L.
  - apply on_publish_pack in H. exact H.
Qed.

Ltac ctl_ret := apply sat_ret; unfold ctl_post; cbn [fst snd]; rewrite ?kp_xclose; auto.

Lemma on_puback_sat c body : sat (on_puback c body) (ctl_post c).
Proof.
  unfold on_puback. cbv zeta.
  repeat match goal with |- sat (if ?b then _ else _) _ => destruct b; [ctl_ret|] end.
  destruct (k_q1 c) as [|x q]; [ctl_ret|].
  apply sat_bind_any; [apply store_delete_sat|]. intros ok. destruct (negb ok); ctl_ret.
Qed.

Lemma on_pubcomp_sat c body : sat (on_pubcomp c body) (ctl_post c).
Proof.
  unfold on_pubcomp. cbv zeta.
  repeat match goal with |- sat (if ?b then _ else _) _ => destruct b; [ctl_ret|] end.
  destruct (k_q2 c) as [|x q]; [ctl_ret|].
  apply sat_bind_any; [apply store_delete_sat|]. intros ok. destruct (negb ok); ctl_ret.
Qed.

Lemma on_pubrec_sat c body : sat (on_pubrec c body) (ctl_post c).
Proof.
  unfold on_pubrec. cbv zeta.
  repeat match goal with |- sat (if ?b then _ else _) _ => destruct b; [ctl_ret|] end.
  eapply sat_bind; [apply rugged_save_sat|]. intros [c1 ok] E. cbn [fst] in E. subst c1.
  destruct ok; cbn [negb]; [|ctl_ret].
  eapply sat_bind; [apply nowait_write_sat|]. intros [c2 e] E. unfold kp in E. cbn [fst] in E.
  change (k_pack c2 = packet_pubrel (u16 body)) in E.
  destruct (negb (e =? 0)); [|ctl_ret].
  apply sat_ret. unfold ctl_post. cbn [fst snd]. right. right. exists (u16 body). left. exact E.
Qed.

Lemma on_pubrel_sat c body : sat (on_pubrel c body) (ctl_post c).
Proof.
  unfold on_pubrel. cbv zeta.
  repeat match goal with |- sat (if ?b then _ else _) _ => destruct b; [ctl_ret|] end.
  apply sat_bind_any; [apply store_delete_sat|]. intros ok. destruct (negb ok); [ctl_ret|].
  destruct (negb (len (k_pack c) =? 0)); [ctl_ret|].
  eapply sat_bind; [apply nowait_write_sat|]. intros [c2 e] E. unfold kp in E. cbn [fst] in E.
  change (k_pack c2 = packet_pubcomp (u16 body)) in E.
  destruct (negb (e =? 0)); [|ctl_ret].
  apply sat_ret. unfold ctl_post. cbn [fst snd]. right. right. exists (u16 body). right. exact E.
Qed.

Lemma ctl_post_pure c (p : client * hres) :
  k_pack (fst p) = k_pack c -> ctl_res (snd p) -> ctl_post c p.
Proof. destruct p as [c' h]. unfold ctl_post. cbn [fst snd]. intros E. destruct h; auto. Qed.

(* dispatch is on_publish for type 3 and a control handler otherwise *)
Lemma dispatch_cases c head body :
  (head / 16 = 3 /\ dispatch c head body = on_publish c head body) \/
  (head / 16 <> 3 /\ sat (dispatch c head body) (ctl_post c)).
Proof.
  unfold dispatch.
  repeat match goal with
  | |- context [match ?x with _ => _ end] =>
    is_var x; destruct x
  | |- context [match head / 16 with _ => _ end] => destruct (head / 16)
  end;
  first [ left; split; reflexivity
        | right; split; [discriminate|];
          first [ solve [ctl_ret] | apply on_puback_sat | apply on_pubrec_sat | apply on_pubrel_sat
                | apply on_pubcomp_sat
                | apply sat_ret, ctl_post_pure; [apply kp_on_suback|apply ctl_on_suback]
                | apply sat_ret, ctl_post_pure; [apply kp_on_unsuback|apply ctl_on_unsuback]
                | apply sat_ret, ctl_post_pure; [apply kp_on_pingresp|apply ctl_on_pingresp] ] ].
Qed.

Lemma pack_shape_nil : pack_shape [].
Proof. left. reflexivity. Qed.

Lemma ctl_post_shape c p : pack_shape (k_pack c) -> ctl_post c p -> pack_shape (k_pack (fst p)).
Proof.
  destruct p as [c' h]. unfold ctl_post. cbn [fst snd]. intros S H. destruct h; try contradiction.
  - destruct H as [->| ->]; [exact S|apply pack_shape_nil].
  - destruct H as [->|[->|(id & [->| ->])]]; [exact S|apply pack_shape_nil| |];
      right; exists id; auto.
Qed.

Lemma pub_post_shape c head body p :
  pack_shape (k_pack c) -> pub_post c head body p -> pack_shape (k_pack (fst p)).
Proof.
  destruct p as [c' h]. unfold pub_post. cbn [fst snd]. intros S H. destruct h; try contradiction.
  - rewrite H. exact S.
  - destruct H as [[_ ->]|[(_ & _ & ->)|(_ & _ & ->)]]; [exact S| |]; right; eexists; eauto.
  - destruct H as (_ & _ & ->). right; eexists; eauto.
Qed.

Lemma dispatch_shape c head body :
  pack_shape (k_pack c) -> sat (dispatch c head body) (fun p => pack_shape (k_pack (fst p))).
Proof.
  intros S. destruct (dispatch_cases c head body) as [[_ ->]|[_ H]].
  - eapply sat_conseq; [apply on_publish_sat|]. intros p. apply pub_post_shape, S.
  - eapply sat_conseq; [exact H|]. intros p. apply ctl_post_shape, S.
Qed.

Definition shaped {A} (p : client * A) : Prop := pack_shape (k_pack (fst p)).

Lemma off_ret_shape {A} c (r : A) :
  pack_shape (k_pack c) -> sat (bind (to_offline c) (fun c => ret (c, r))) shaped.
Proof. intros S. apply to_offline_ret_sat. intros c' E. unfold shaped. cbn [fst]. rewrite E. exact S. Qed.

Lemma read_loop_shape fuel : forall c, pack_shape (k_pack c) -> sat (read_loop fuel c) shaped.
Proof.
  induction fuel as [|f IH]; intros c S; cbn [read_loop]; [apply sat_fail|].
  eapply sat_bind; [apply with_reader_sat|]. intros [c1 pk] [E _]. cbn [fst] in E.
  rewrite <- E in S. clear E c.
  destruct pk as [head body|head size partial|e proto|].
  - eapply sat_bind; [apply dispatch_shape, S|]. intros [c2 h] S2. unfold shaped in S2. cbn [fst] in S2.
    destruct h as [|e|topic msg|].
    + apply IH. exact S2.
    + apply off_ret_shape, S2.
    + apply sat_ret. exact S2.
    + eapply sat_bind; [apply nowait_write_sat|]. intros [c3 e] E. unfold kp in E. cbn [fst] in E.
      destruct (negb (e =? 0)); [apply off_ret_shape; rewrite E; exact S2|].
      apply IH. apply pack_shape_nil.
  - eapply sat_bind; [apply on_publish_sat|]. intros [c2 h] P.
    apply (pub_post_shape _ _ _ _ S) in P. cbn [fst] in P.
    destruct h as [|e|topic msg|].
    + apply sat_fail.
    + apply off_ret_shape, P.
    + apply sat_ret. exact P.
    + eapply sat_bind; [apply with_reader_sat|]. intros [c3 d] [E _]. cbn [fst] in E.
      destruct d as [[]|]; try apply sat_fail; try (apply off_ret_shape; rewrite E; exact P).
      eapply sat_bind; [apply nowait_write_sat|]. intros [c4 e] E4. unfold kp in E4. cbn [fst] in E4.
      destruct (negb (e =? 0)); [apply off_ret_shape; rewrite E4, E; exact P|].
      apply IH. apply pack_shape_nil.
  - destruct e; try apply sat_fail; try (apply off_ret_shape, S).
    eapply sat_bind; [apply to_offline_sat|]. intros c2 E2.
    eapply sat_bind; [apply connect_sat|]. intros [c3 e] E3. unfold kp in E3. cbn [fst] in E3.
    destruct (negb (e =? 0)); [apply sat_ret; unfold shaped; cbn [fst]; rewrite E3, E2; exact S|].
    apply IH. rewrite E3, E2. exact S.
  - apply off_ret_shape, S.
Qed.

Lemma read_slices_body_shape c : pack_shape (k_pack c) -> sat (read_slices_body c) shaped.
Proof.
  intros S. unfold read_slices_body.
  eapply sat_bind with (P := kp c).
  { destruct (k_rconn c); [apply sat_ret; reflexivity|apply connect_sat]. }
  intros [c1 e] E. unfold kp in E. cbn [fst] in E. rewrite <- E in S. clear E c.
  destruct (negb (e =? 0)); [apply sat_ret; exact S|].
  eapply sat_bind with (P := kp c1).
  { destruct (k_big c1); [|apply sat_ret; reflexivity]. cbv zeta.
    eapply sat_conseq; [apply with_reader_sat|]. intros p [H _]. exact H. }
  intros [c2 e2] E. unfold kp in E. cbn [fst] in E. rewrite <- E in S. clear E c1.
  destruct e2 as [[]|]; try apply sat_fail; try (apply off_ret_shape, S).
  cbv zeta.
  match goal with |- context [k_pack ?x] => set (c3 := x) end.
  assert (S3 : pack_shape (k_pack c3)) by exact S. clearbody c3. clear S c2.
  eapply sat_bind with (P := shaped).
  { destruct (k_pack c3) as [|h t] eqn:K;
      [apply sat_ret; unfold shaped; cbn [fst]; rewrite K; apply pack_shape_nil|].
    eapply sat_bind with (P := kp c3).
    { destruct (h / 16 =? 5); [|apply sat_ret; reflexivity].
      eapply sat_conseq; [apply rugged_save_sat|]. intros p Ep. unfold kp. rewrite Ep. reflexivity. }
    intros [c4 ok] E4. unfold kp in E4. cbn [fst] in E4.
    destruct (negb ok); [apply sat_ret; unfold shaped; cbn [fst]; rewrite E4, K; exact S3|].
    eapply sat_bind; [apply nowait_write_sat|]. intros [c5 e5] E5. unfold kp in E5. cbn [fst] in E5.
    destruct (negb (e5 =? 0)); apply sat_ret; unfold shaped; cbn [fst];
      [rewrite E5, E4, K; exact S3|apply pack_shape_nil]. }
  intros [c6 e6] S6. unfold shaped in S6. cbn [fst] in S6.
  destruct e6 as [[e' off]|].
  - destruct off; [apply off_ret_shape, S6|].
    eapply sat_bind with (P := fun x => x = c6); [apply sat_ret; reflexivity|].
    intros ? ->. apply sat_ret. exact S6.
  - apply (sat_world (fun w => S (S (length (t_rd w) + length (t_dial w)))) (fun n => read_loop n c6)).
    intros n. apply read_loop_shape, S6.
Qed.

(* pack_inv: at every return of ReadSlices *)
Lemma read_slices_shape c : pack_shape (k_pack c) -> sat (read_slices c) shaped.
Proof.
  intros S. unfold read_slices.
  eapply sat_bind; [apply read_slices_body_shape, S|]. intros [c1 r] S1.
  destruct r; try (apply sat_ret; exact S1).
  destruct (is_closed_err e); apply sat_ret; [|exact S1].
  unfold shaped. cbn [fst]. rewrite kp_term_callbacks. exact S1.
Qed.

Theorem pack_inv c w c' r w' :
  pack_shape (k_pack c) -> read_slices c w = Some ((c', r), w') -> pack_shape (k_pack c').
Proof. intros S H. exact (proj2 (read_slices_shape c S _ _ _ H)). Qed.

(* the other operations leave pendingAck alone *)

Lemma read_all_op_kp c : sat (read_all_op c) (kp c).
Proof.
  unfold read_all_op. destruct (k_big c); [|apply sat_ret; reflexivity]. cbv zeta.
  eapply sat_bind; [apply with_reader_sat|]. intros [c1 r] [E _]. cbn [fst] in E.
  change (k_pack c1 = k_pack c) in E.
  destruct r as [bs|[]]; try (apply sat_ret; exact E); try apply sat_fail;
    (apply sat_bind_any; [apply tell_sat|]; intros _; apply sat_ret; exact E).
Qed.

Lemma op_publish_kp c retain msg topic : sat (op_publish c retain msg topic) (kp c).
Proof.
  unfold op_publish. cbv zeta.
  destruct (deny_of _); [apply sat_ret; reflexivity|].
  destruct (packet_max <? _); [apply sat_ret; reflexivity|].
  eapply sat_bind; [apply op_write_sat|]. intros [c1 r] E.
  destruct r; apply sat_ret; exact E.
Qed.

Lemma op_publish_persisted_kp c level retain msg topic :
  sat (op_publish_persisted c level retain msg topic) (kp c).
Proof.
  unfold op_publish_persisted. cbv zeta.
  repeat match goal with |- sat (if ?b then _ else _) _ => destruct b; [apply sat_ret; reflexivity|] end.
  eapply sat_bind; [apply rugged_save_sat|]. intros [c1 ok] E. cbn [fst] in E. subst c1.
  destruct ok; cbn [negb]; [|apply sat_ret; reflexivity].
  match goal with |- sat (if ?b then _ else _) _ => destruct b end.
  { apply sat_ret. unfold kp. cbn [fst]. rewrite kp_xsend. destruct (level =? 1); reflexivity. }
  eapply sat_bind; [apply nowait_write_sat|]. intros [c2 e] E. unfold kp in E. cbn [fst] in E.
  assert (E' : k_pack c2 = k_pack c) by (destruct (level =? 1); exact E).
  destruct (negb (e =? 0)); apply sat_ret; unfold kp; cbn [fst]; rewrite ?kp_xsend; [exact E'|].
  destruct (level =? 1); exact E'.
Qed.

Lemma op_subscribe_kp c sub level fs : sat (op_subscribe c sub level fs) (kp c).
Proof.
  unfold op_subscribe. cbv zeta.
  destruct fs as [|f0 fs0]; [apply sat_ret; reflexivity|].
  set (fs := f0 :: fs0). clearbody fs.
  destruct (any_denied fs); [apply sat_ret; reflexivity|].
  destruct (packet_max <? _); [apply sat_ret; reflexivity|].
  destruct (511 <? _); [apply sat_ret; reflexivity|].
  pose proof (kp_tx_pick 1024 (if sub then sub_space else unsub_space) (c <| k_nextr ::= N.succ |>)) as T.
  destruct (tx_pick 1024 _ _) as [c1 pid]. cbn [fst] in T. change (k_pack c1 = k_pack c) in T.
  eapply sat_bind; [apply op_write_sat|]. intros [c2 r] E. unfold kp in E. cbn [fst] in E.
  change (k_pack c2 = k_pack c1) in E. rewrite T in E.
  destruct r as [e|]; [destruct (e =? 0)|]; apply sat_ret; exact E.
Qed.

Lemma op_ping_kp c : sat (op_ping c) (kp c).
Proof.
  unfold op_ping. cbv zeta. change (k_ping (c <| k_nextr ::= N.succ |>)) with (k_ping c).
  destruct (k_ping c); [apply sat_ret; reflexivity|].
  eapply sat_bind; [apply op_write_sat|]. intros [c2 r] E.
  destruct r as [e|]; [destruct (e =? 0)|]; apply sat_ret; exact E.
Qed.

Lemma op_quit_kp c rid : sat (op_quit c rid) (kp c).
Proof.
  unfold op_quit. destruct (parked_kind c rid) as [[l|pid|pid|]|]; try (apply sat_ret; reflexivity).
  - apply sat_ret. unfold kp. cbn [fst]. rewrite kp_complete. apply kp_lock_cleanup_run.
  - destruct (k_ping c); [destruct (_ =? _)|]; apply sat_ret; reflexivity.
Qed.

Lemma op_close_kp c : sat (op_close c) (kp c).
Proof.
  unfold op_close. destruct (k_closed c); [apply sat_ret; reflexivity|].
  apply sat_bind_any.
  { destruct (k_wsem c); first [apply tell_sat|apply sat_ret; exact I]. }
  intros _. apply sat_ret. unfold kp. cbn [fst]. rewrite kp_release_locked. reflexivity.
Qed.

Lemma op_disconnect_kp c : sat (op_disconnect c) (kp c).
Proof.
  unfold op_disconnect. destruct (k_closed c); [apply sat_ret; reflexivity|].
  destruct (k_wsem c);
    try (apply sat_ret; unfold kp; cbn [fst]; rewrite kp_release_locked; reflexivity).
  apply sat_bind_any; [apply conn_write_sat|]. intros r.
  apply sat_bind_any; [apply tell_sat|]. intros _.
  apply sat_ret. unfold kp. cbn [fst]. rewrite kp_release_locked. reflexivity.
Qed.

Lemma adopt_scan_sat keys : forall a, sat (adopt_scan keys a) any.
Proof.
  induction keys as [|k r IH]; intros a; cbn [adopt_scan]; [apply sat_ret; exact I|].
  destruct (k =? 0); [apply IH|].
  apply sat_bind_any; [apply ask_store_sat|]. intros v.
  destruct v as [ks|raw| |]; try apply sat_fail; [|apply sat_ret; exact I].
  destruct (decode_value _) as [packet sq| |].
  - cbv zeta. destruct (N.testbit k 16); [apply IH|].
    destruct packet as [|h t]; [apply sat_ret; exact I|]. apply IH.
  - apply sat_bind_any; [apply store_delete_sat|]. intros _. apply IH.
  - apply sat_bind_any; [apply store_delete_sat|]. intros _. apply IH.
Qed.

Definition fresh_pack (p : option client * retv) : Prop :=
  match fst p with Some c => k_pack c = [] | None => True end.

Lemma op_adopt_sat cf z1 z2 : sat (op_adopt cf z1 z2) fresh_pack.
Proof.
  unfold op_adopt. apply sat_bind_any; [apply ask_store_sat|]. intros a.
  destruct a as [keys|v| |]; try apply sat_fail; [|apply sat_ret; exact I].
  apply sat_bind_any; [apply adopt_scan_sat|]. intros r.
  destruct r as [acc|e]; [|apply sat_ret; exact I].
  destruct (clean_seq (keys_of (a_alo acc))) as [alo g1].
  destruct (clean_seq (keys_of (a_eo acc))) as [eo g2].
  destruct (clean_seq (keys_of (a_rel acc))) as [rel g3].
  cbv zeta.
  match goal with |- sat (if ?b then _ else _) _ => destruct b end; [apply sat_ret; exact I|].
  apply sat_ret. unfold fresh_pack. cbn [fst].
  match goal with |- k_pack (?x <| k_q1 := _ |> <| k_q2 := _ |>) = [] => change (k_pack x = []) end.
  match goal with |- context [if ?g then @nil N else rel] =>
    generalize (if g then @nil N else rel) end.
  intros rel'. destruct eo; destruct rel'; destruct alo; reflexivity.
Qed.

Lemma op_init_sat cf cid : sat (op_init cf cid) fresh_pack.
Proof.
  unfold op_init. destruct (deny_of _); [apply sat_ret; exact I|].
  apply sat_bind_any; [apply ask_store_sat|]. intros a.
  destruct a as [[|k ks]|v| |]; try apply sat_fail; try (apply sat_ret; exact I).
  cbv zeta. eapply sat_bind; [apply rugged_save_sat|]. intros [c ok] E. cbn [fst] in E. subst c.
  destruct ok; apply sat_ret; [reflexivity|exact I].
Qed.

(* every operation of the sequential interface keeps the shape *)
Theorem step_shape c o : pack_shape (k_pack c) -> sat (step c o) shaped.
Proof.
  intros S. unfold step. cbv zeta.
  assert (S0 : pack_shape (k_pack (c <| k_done := [] |> <| k_xev := [] |>))) by exact S.
  assert (K : forall A (f : M (client * A)), sat f (kp (c <| k_done := [] |> <| k_xev := [] |>)) -> sat f shaped).
  { intros A f H. eapply sat_conseq; [exact H|]. intros p E. unfold shaped. rewrite E. exact S. }
  destruct o.
  - apply read_slices_shape, S0.
  - apply K, read_all_op_kp.
  - apply K, op_publish_kp.
  - apply K, op_publish_persisted_kp.
  - apply K, op_subscribe_kp.
  - apply K, op_subscribe_kp.
  - apply K, op_ping_kp.
  - apply K, op_quit_kp.
  - apply K, op_close_kp.
  - apply K, op_disconnect_kp.
  - eapply sat_bind; [apply op_adopt_sat|]. intros [[c1|] r] F; apply sat_ret; [|exact S].
    unfold fresh_pack in F. cbn [fst] in F. unfold shaped. cbn [fst].
    change (pack_shape (k_pack c1)). rewrite F. apply pack_shape_nil.
  - apply sat_ret. unfold shaped. rewrite kp_op_read_backoff. exact S.
Qed.

Theorem step_pack_shape c o w c' r w' :
  pack_shape (k_pack c) -> step c o w = Some ((c', r), w') -> pack_shape (k_pack c').
Proof. intros S H. exact (proj2 (step_shape c o S _ _ _ H)). Qed.

(* all client states the sequential interface can be in *)
Inductive reach : client -> Prop :=
| reach_new : forall cf rseq, reach (new_client cf rseq)
| reach_init : forall cf cid w c r w', op_init cf cid w = Some ((Some c, r), w') -> reach c
| reach_step : forall c o w c' r w', reach c -> step c o w = Some ((c', r), w') -> reach c'.

Theorem reach_pack_shape c : reach c -> pack_shape (k_pack c).
Proof.
  induction 1 as [cf rseq|cf cid w c r w' H|c o w c' r w' _ IH H].
  - apply pack_shape_nil.
  - pose proof (proj2 (op_init_sat cf cid _ _ _ H)) as F. unfold fresh_pack in F. cbn [fst] in F.
    rewrite F. apply pack_shape_nil.
  - exact (step_pack_shape _ _ _ _ _ _ IH H).
Qed.

Lemma after_write_log cn calls t' w :
  w_log (after_write cn calls t' w) = write_log cn calls ++ w_log w.
Proof. reflexivity. Qed.
Lemma after_failed_write_log cn wr w :
  w_log (after_failed_write cn wr w) = (match wr with WClosed => [] | _ => [QClose cn] end) ++ w_log w.
Proof. destruct wr; reflexivity. Qed.

(* the order of the calls alone: Save (PUBREC only), the Write calls, then everything else *)
Corollary flush_acks_first_log c w rc cn p c' r w' :
  k_rconn c = Some rc -> k_big c = None -> k_pack c = p -> p <> [] -> k_wsem c = WsConn cn ->
  read_slices_body c w = Some ((c', r), w') ->
  let sv := QSave (flush_key p) (encode_value p (k_rseq c + 1)) in
  exists calls post,
    w_log w' = post ++ write_log cn calls ++ (if is_pubrec_packet p then [sv] else []) ++ w_log w.
Proof.
  intros Hr Hb Hp Hn Hs H. cbv zeta.
  destruct (flush_acks_first _ _ _ _ _ _ _ _ Hr Hb Hp Hn Hs H) as (c1 & w1 & pre & A & L & _ & B).
  cbv zeta in A, B.
  assert (P : pre = if is_pubrec_packet p then [QSave (flush_key p) (encode_value p (k_rseq c + 1))] else []).
  { destruct A as [(-> & _ & _ & ->)|(-> & _ & -> & _)]; reflexivity. }
  rewrite <- P. clear P A.
  destruct B as [(_ & _ & _ & _ & ->)|(_ & calls & wr & t' & W & _ & [(-> & _ & RL)|(_ & _ & _ & _ & L')])].
  - exists [], []. exact L.
  - assert (S0 : pack_shape (k_pack (c1 <| k_pack := [] |>))) by apply pack_shape_nil.
    destruct (proj1 (read_loop_shape _ _ S0 _ _ _ RL)) as [post E].
    exists calls, post. rewrite E, after_write_log, L. reflexivity.
  - exists calls, (QClose rc :: match wr with WClosed => [] | _ => [QClose cn] end).
    rewrite L', after_failed_write_log, after_write_log, L. reflexivity.
Qed.

(* ------------------------------------------------------------------ *)
(* 4, 7: the structure of the read loop                                *)

Tactic Notation "binv" hyp(H) "as" ident(a) ident(w1) ident(H1) :=
  apply bind_inv in H; destruct H as (a & w1 & H1 & H).

Definition is_delivery (r : retv) : Prop :=
  match r with RetMsg _ _ | RetBig _ _ => True | _ => False end.

(* what the read loop does with an HMsg of on_publish: return it at once *)
Definition handed_out (c1 : client) (body topic msg : list N) (c' : client) (r : retv) : Prop :=
  (r = RetMsg topic msg /\ c' = c1 <| k_peekn := len body |>) \/
  (exists size, let before := s_rcap (k_cfg c1) - len msg in
     r = RetBig topic (size - before) /\
     c' = c1 <| k_big := Some (size - before) |> <| k_peekn := 0 |>
             <| k_rbuf ::= skipn (N.to_nat before) |>).

Lemma handed_out_pack c1 body topic msg c' r :
  handed_out c1 body topic msg c' r -> k_pack c' = k_pack c1 /\ is_delivery r.
Proof. intros [[-> ->]|(size & -> & ->)]; split; try reflexivity; exact I. Qed.

Lemma off_ret_not_delivery c e w c' r w' :
  bind (to_offline c) (fun c => ret (c, RetErr e)) w = Some ((c', r), w') -> ~ is_delivery r.
Proof. intros H D. binv H as c2 w2 Ho. rinv H. inversion H; subst. exact D. Qed.

(* Structure lemma: the read loop returns a message only as the direct result of an
   on_publish that answered HMsg: the world it returns is the one on_publish left
   (nothing is written in between), and pendingAck at that on_publish was the
   initial one or empty. *)
Lemma read_loop_delivery fuel : forall c w c' r w',
  read_loop fuel c w = Some ((c', r), w') -> is_delivery r ->
  exists c0 w0 head body c1 topic msg,
    log_ext w w0 /\ (k_pack c0 = k_pack c \/ k_pack c0 = []) /\
    on_publish c0 head body w0 = Some ((c1, HMsg topic msg), w') /\
    handed_out c1 body topic msg c' r.
Proof.
  induction fuel as [|f IH]; intros c w c' r w' H D; cbn [read_loop] in H; [discriminate|].
  binv H as a1 w1 Hrd. destruct a1 as [c1 pk].
  pose proof (with_reader_sat _ _ _ _ _ Hrd) as [L1 [K1 _]]. cbn [fst] in K1.
  destruct pk as [head body|head size partial|e proto|].
  - (* a complete packet *)
    binv H as a2 w2 Hd. destruct a2 as [c2 h].
    destruct (dispatch_cases c1 head body) as [[T Eq]|[T Sat]].
    + rewrite Eq in Hd. pose proof (on_publish_sat _ _ _ _ _ _ Hd) as [L2 P2].
      unfold pub_post in P2. cbn [fst snd] in P2.
      destruct h as [|e|topic msg|].
      * contradiction.
      * exfalso. exact (off_ret_not_delivery _ _ _ _ _ _ H D).
      * rinv H. inversion H; subst.
        exists c1, w1, head, body, c2, topic, msg.
        split; [exact L1|]. split; [left; exact K1|]. split; [exact Hd|]. left. auto.
      * binv H as a3 w3 Hw. destruct a3 as [c3 e].
        pose proof (nowait_write_sat _ _ _ _ _ _ Hw) as [L3 _].
        destruct (negb (e =? 0)); [exfalso; exact (off_ret_not_delivery _ _ _ _ _ _ H D)|].
        apply IH in H; [|exact D].
        destruct H as (c0 & w0 & head' & body' & c1' & topic & msg & L & K & Hp & Ho).
        exists c0, w0, head', body', c1', topic, msg.
        split; [eapply log_ext_trans; [exact L1|]; eapply log_ext_trans; [exact L2|];
                eapply log_ext_trans; [exact L3|exact L]|].
        split; [right; destruct K as [K|K]; exact K|]. auto.
    + pose proof (Sat _ _ _ Hd) as [L2 P2]. unfold ctl_post in P2. cbn [fst snd] in P2.
      destruct h as [|e|topic msg|]; try contradiction.
      * apply IH in H; [|exact D].
        destruct H as (c0 & w0 & head' & body' & c1' & topic & msg & L & K & Hp & Ho).
        exists c0, w0, head', body', c1', topic, msg.
        split; [eapply log_ext_trans; [exact L1|]; eapply log_ext_trans; [exact L2|exact L]|].
        split; [|auto].
        change (k_pack c0 = k_pack c2 \/ k_pack c0 = []) in K.
        destruct K as [K|K]; [|right; exact K]. rewrite K.
        destruct P2 as [P2|P2]; [left; congruence|right; exact P2].
      * exfalso. exact (off_ret_not_delivery _ _ _ _ _ _ H D).
  - (* a message beyond the buffer *)
    binv H as a2 w2 Hd. destruct a2 as [c2 h].
    pose proof (on_publish_sat _ _ _ _ _ _ Hd) as [L2 P2].
    destruct h as [|e|topic msg|].
    + discriminate.
    + exfalso. exact (off_ret_not_delivery _ _ _ _ _ _ H D).
    + rinv H. inversion H; subst.
      exists c1, w1, head, partial, c2, topic, msg.
      split; [exact L1|]. split; [left; exact K1|]. split; [exact Hd|]. right. exists size. auto.
    + binv H as a3 w3 Hdis. destruct a3 as [c3 d].
      pose proof (with_reader_sat _ _ _ _ _ Hdis) as [L3 _].
      destruct d as [[]|]; try discriminate;
        try (exfalso; exact (off_ret_not_delivery _ _ _ _ _ _ H D)).
      binv H as a4 w4 Hw. destruct a4 as [c4 e].
      pose proof (nowait_write_sat _ _ _ _ _ _ Hw) as [L4 _].
      destruct (negb (e =? 0)); [exfalso; exact (off_ret_not_delivery _ _ _ _ _ _ H D)|].
      apply IH in H; [|exact D].
      destruct H as (c0 & w0 & head' & body' & c1' & topic & msg & L & K & Hp & Ho).
      exists c0, w0, head', body', c1', topic, msg.
      split; [eapply log_ext_trans; [exact L1|]; eapply log_ext_trans; [exact L2|];
              eapply log_ext_trans; [exact L3|]; eapply log_ext_trans; [exact L4|exact L]|].
      split; [right; destruct K as [K|K]; exact K|]. auto.
  - (* read error *)
    destruct e; try discriminate; try (exfalso; exact (off_ret_not_delivery _ _ _ _ _ _ H D)).
    binv H as c2 w2 Ho. pose proof (to_offline_sat _ _ _ _ Ho) as [L2 K2].
    binv H as a3 w3 Hc. destruct a3 as [c3 e].
    pose proof (connect_sat _ _ _ _ Hc) as [L3 K3]. unfold kp in K3. cbn [fst] in K3.
    destruct (negb (e =? 0)); [rinv H; inversion H; subst; contradiction|].
    apply IH in H; [|exact D].
    destruct H as (c0 & w0 & head' & body' & c1' & topic & msg & L & K & Hp & Ho').
    exists c0, w0, head', body', c1', topic, msg.
    split; [eapply log_ext_trans; [exact L1|]; eapply log_ext_trans; [exact L2|];
            eapply log_ext_trans; [exact L3|exact L]|].
    split; [|auto]. destruct K as [K|K]; [left; congruence|right; exact K].
  - exfalso. exact (off_ret_not_delivery _ _ _ _ _ _ H D).
Qed.

(* 4. A delivery leaves the acknowledgement of the delivered message pending: since the
      on_publish that produced the message nothing was written (at most the marker Load
      happened), and pendingAck is that message's PUBACK/PUBREC (QoS 0: what it was). *)
Theorem read_loop_delivery_no_ack fuel c w c' r w' :
  read_loop fuel c w = Some ((c', r), w') -> is_delivery r ->
  exists c0 w0 head body topic msg,
    log_ext w w0 /\
    (w_log w' = w_log w0 \/ exists k, N.testbit k 16 = true /\ w_log w' = QLoad k :: w_log w0) /\
    t_wr w' = t_wr w0 /\ w_store w' = w_store w0 /\
    (k_pack c0 = k_pack c \/ k_pack c0 = []) /\
    (r = RetMsg topic msg \/ exists size, r = RetBig topic size) /\
    ((publish_qos head = 0 /\ k_pack c' = k_pack c0) \/
     (publish_qos head = 1 /\ k_pack c0 = [] /\ k_pack c' = packet_puback (publish_id body)) \/
     (publish_qos head = 2 /\ k_pack c0 = [] /\ k_pack c' = packet_pubrec (publish_id body))).
Proof.
  intros H D. apply read_loop_delivery in H; [|exact D].
  destruct H as (c0 & w0 & head & body & c1 & topic & msg & L & K & Hp & Ho).
  exists c0, w0, head, body, topic, msg.
  pose proof (on_publish_no_write _ _ _ _ _ _ _ Hp) as (A & B & _ & _ & E).
  pose proof (on_publish_pack _ _ _ _ _ _ _ Hp) as P. cbv beta iota in P.
  pose proof (handed_out_pack _ _ _ _ _ _ Ho) as [Kp _]. rewrite <- Kp in P.
  repeat (split; [assumption|]). split; [|exact P].
  destruct Ho as [[-> _]|(size & -> & _)]; [left; reflexivity|right; eexists; reflexivity].
Qed.

(* ReadSlices enters the read loop with pendingAck flushed *)
Lemma read_slices_body_delivery c w c' r w' :
  read_slices_body c w = Some ((c', r), w') -> is_delivery r ->
  exists cl wl fuel, log_ext w wl /\ k_pack cl = [] /\ read_loop fuel cl wl = Some ((c', r), w').
Proof.
  intros H D. unfold read_slices_body in H.
  binv H as a1 w1 H1. destruct a1 as [c1 e].
  assert (L1 : log_ext w w1).
  { destruct (k_rconn c); [rinv H1; subst; apply log_ext_refl|exact (proj1 (connect_sat _ _ _ _ H1))]. }
  destruct (negb (e =? 0)); [rinv H; inversion H; subst; contradiction|].
  binv H as a2 w2 H2. destruct a2 as [c2 e2].
  assert (L2 : log_ext w1 w2).
  { destruct (k_big c1); [exact (proj1 (with_reader_sat _ _ _ _ _ H2))|rinv H2; subst; apply log_ext_refl]. }
  destruct e2 as [[]|]; try discriminate;
    try (exfalso; exact (off_ret_not_delivery _ _ _ _ _ _ H D)).
  cbv zeta in H. binv H as a3 w3 H3. destruct a3 as [c6 e6].
  match type of H3 with ?f _ = _ =>
    assert (SAT : sat f (fun p => snd p = None -> k_pack (fst p) = [])) end.
  { match goal with |- context [k_pack ?x] => generalize x end. intros c3.
    destruct (k_pack c3) as [|h t] eqn:K; [apply sat_ret; intros _; exact K|].
    eapply sat_bind with (P := any).
    { destruct (h / 16 =? 5); [|apply sat_ret; exact I].
      eapply sat_conseq; [apply rugged_save_sat|]. intros; exact I. }
    intros [c4 ok] _. destruct (negb ok); [apply sat_ret; discriminate|].
    eapply sat_bind; [apply nowait_write_sat|]. intros [c5 e5] _.
    destruct (negb (e5 =? 0)); apply sat_ret; [discriminate|reflexivity]. }
  destruct (SAT _ _ _ H3) as [L3 K3]. cbn [fst snd] in K3.
  destruct e6 as [[e' off]|].
  - binv H as c7 w7 H7. rinv H. inversion H; subst. contradiction.
  - eexists c6, w3, _. split; [|split; [apply K3; reflexivity|exact H]].
    eapply log_ext_trans; [exact L1|]. eapply log_ext_trans; [exact L2|exact L3].
Qed.

Theorem read_slices_delivery_no_ack c w c' r w' :
  read_slices c w = Some ((c', r), w') -> is_delivery r ->
  exists w0 head body topic msg,
    log_ext w w0 /\
    (w_log w' = w_log w0 \/ exists k, N.testbit k 16 = true /\ w_log w' = QLoad k :: w_log w0) /\
    t_wr w' = t_wr w0 /\ w_store w' = w_store w0 /\
    (r = RetMsg topic msg \/ exists size, r = RetBig topic size) /\
    ((publish_qos head = 0 /\ k_pack c' = []) \/
     (publish_qos head = 1 /\ k_pack c' = packet_puback (publish_id body)) \/
     (publish_qos head = 2 /\ k_pack c' = packet_pubrec (publish_id body))).
Proof.
  intros H D. unfold read_slices in H. binv H as a1 w1 H1. destruct a1 as [c1 r1].
  assert (E : c' = c1 /\ r = r1 /\ w' = w1).
  { destruct r1; try (rinv H; inversion H; subst; auto).
    destruct (is_closed_err e); rinv H; inversion H; subst; contradiction. }
  destruct E as (-> & -> & ->). clear H.
  apply read_slices_body_delivery in H1; [|exact D].
  destruct H1 as (cl & wl & fuel & L & K & H).
  apply read_loop_delivery_no_ack in H; [|exact D].
  destruct H as (c0 & w0 & head & body & topic & msg & L0 & A & B & E & K0 & R & P).
  exists w0, head, body, topic, msg.
  split; [eapply log_ext_trans; eassumption|]. repeat (split; [assumption|]).
  assert (K0' : k_pack c0 = []) by (destruct K0; congruence).
  destruct P as [[Q P]|[(Q & _ & P)|(Q & _ & P)]]; auto. left. split; [exact Q|congruence].
Qed.

(* ------------------------------------------------------------------ *)
(* 7: a suppressed duplicate is confirmed again (the F3 repair)        *)

(* what follows the writeNoWait of the PUBREC of a duplicate *)
Definition dupe_confirmed (c2 : client) (ack : list N) (w2 : world) (next : client -> M (client * retv))
           (c' : client) (r : retv) (w' : world) : Prop :=
  exists c3 e w3,
    nowait_write c2 [ack] true w2 = Some ((c3, e), w3) /\
    ( (* written completely: pendingAck cleared, the loop goes on *)
      ((e =? 0) = true /\ c3 = c2 /\
       (exists cn calls t',
          k_wsem c2 = WsConn cn /\ write_to_run ack (t_wr w2) = (calls, WOk, t') /\
          accepted_all calls = ack /\ w3 = after_write cn calls t' w2) /\
       next (c3 <| k_pack := [] |>) w3 = Some ((c', r), w'))
      \/ (* not written: the PUBREC stays in pendingAck, toOffline, error return *)
      ((e =? 0) = false /\ r = RetErr e /\ k_pack c3 = ack /\ k_pack c' = ack /\
       to_offline c3 w3 = Some (c', w'))).

Lemma dupe_write_part c2 ack w2 (next : client -> M (client * retv)) c' r w' :
  k_pack c2 = ack ->
  bind (nowait_write c2 [k_pack c2] true)
       (fun '(c, e) => if negb (e =? 0) then c <- to_offline c ;; ret (c, RetErr e)
                       else next (c <| k_pack := [] |>)) w2 = Some ((c', r), w') ->
  dupe_confirmed c2 ack w2 next c' r w'.
Proof.
  intros K H. rewrite K in H. binv H as a3 w3 Hw. destruct a3 as [c3 e].
  exists c3, e, w3. split; [exact Hw|]. apply nowait_write_cases in Hw.
  destruct (e =? 0) eqn:E; cbn [negb] in H.
  - left. apply nowait_case_ok in Hw; [|exact E]. destruct Hw as (-> & cn & calls & t' & S & W & -> & Acc).
    split; [reflexivity|]. split; [reflexivity|]. split; [|exact H]. exists cn, calls, t'. auto.
  - right. apply nowait_case_failed in Hw; [|exact E]. destruct Hw as [P _].
    binv H as c4 w4 Ho. rinv H. inversion H; subst.
    pose proof (to_offline_sat _ _ _ _ Ho) as [_ K4].
    split; [reflexivity|]. split; [reflexivity|]. split; [exact P|]. split; [congruence|exact Ho].
Qed.

(* 7. C04: when on_publish answers HDupe the next action of the read loop is the
      writeNoWait of PUBREC with that identifier. *)
Theorem dupe_gets_pubrec f c w c1 head body w1 c2 w2 c' r w' :
  with_reader c (peek_packet (s_pause (k_cfg c))) w = Some ((c1, PkOk head body), w1) ->
  dispatch c1 head body w1 = Some ((c2, HDupe), w2) ->
  read_loop (S f) c w = Some ((c', r), w') ->
  let ack := packet_pubrec (publish_id body) in
  head / 16 = 3 /\ publish_qos head = 2 /\ k_pack c1 = [] /\
  c2 = c1 <| k_pack := ack |> /\
  dupe_confirmed c2 ack w2
    (fun c => read_loop f (c <| k_rbuf ::= skipn (length body) |>)) c' r w'.
Proof.
  intros Hrd Hd H. cbv zeta. cbn [read_loop] in H.
  binv H as a1 w1' H1. rewrite Hrd in H1. inversion H1; subst a1 w1'. clear H1. cbv beta iota in H.
  binv H as a2 w2' H2. rewrite Hd in H2. inversion H2; subst a2 w2'. clear H2. cbv beta iota in H.
  destruct (dispatch_cases c1 head body) as [[T Eq]|[T Sat]].
  2:{ exfalso. exact (proj2 (Sat _ _ _ Hd)). }
  rewrite Eq in Hd. apply on_publish_enqueues_own_ack in Hd. destruct Hd as (_ & B & _).
  destruct (B eq_refl) as (Q & K & E2).
  split; [exact T|]. split; [exact Q|]. split; [exact K|]. split; [exact E2|].
  apply dupe_write_part; [rewrite E2; reflexivity|exact H].
Qed.

(* the same for a duplicate beyond the read buffer: its remainder is discarded first *)
Theorem dupe_gets_pubrec_big f c w c1 head size partial w1 c2 w2 c' r w' :
  with_reader c (peek_packet (s_pause (k_cfg c))) w = Some ((c1, PkBig head size partial), w1) ->
  on_publish c1 head partial w1 = Some ((c2, HDupe), w2) ->
  read_loop (S f) c w = Some ((c', r), w') ->
  let ack := packet_pubrec (publish_id partial) in
  publish_qos head = 2 /\ k_pack c1 = [] /\ c2 = c1 <| k_pack := ack |> /\
  exists c3 d w3,
    with_reader c2 (fun s => client_discard (s_pause (k_cfg c2)) s size) w2 = Some ((c3, d), w3) /\
    k_pack c3 = ack /\
    match d with
    | Some e => r = RetErr (rerr_class e) /\ k_pack c' = ack /\ to_offline c3 w3 = Some (c', w')
    | None => dupe_confirmed c3 ack w3 (fun c => read_loop f c) c' r w'
    end.
Proof.
  intros Hrd Hd H. cbv zeta. cbn [read_loop] in H.
  binv H as a1 w1' H1. rewrite Hrd in H1. inversion H1; subst a1 w1'. clear H1. cbv beta iota in H.
  binv H as a2 w2' H2. rewrite Hd in H2. inversion H2; subst a2 w2'. clear H2. cbv beta iota in H.
  apply on_publish_enqueues_own_ack in Hd. destruct Hd as (_ & B & _).
  destruct (B eq_refl) as (Q & K & E2).
  split; [exact Q|]. split; [exact K|]. split; [exact E2|].
  binv H as a3 w3 H3. destruct a3 as [c3 d]. exists c3, d, w3. split; [exact H3|].
  pose proof (with_reader_sat _ _ _ _ _ H3) as [_ [K3 _]]. cbn [fst] in K3.
  assert (K3' : k_pack c3 = packet_pubrec (publish_id partial)) by (rewrite K3, E2; reflexivity).
  split; [exact K3'|].
  destruct d as [e|].
  - assert (O : bind (to_offline c3) (fun c => ret (c, RetErr (rerr_class e))) w3 = Some ((c', r), w')).
    { destruct e; try exact H. discriminate. }
    binv O as c4 w4 Ho. rinv O. inversion O; subst.
    pose proof (to_offline_sat _ _ _ _ Ho) as [_ K4].
    split; [reflexivity|]. split; [congruence|exact Ho].
  - apply dupe_write_part; [exact K3'|exact H].
Qed.

(* ------------------------------------------------------------------ *)
(* Non-vacuity: one exactly-once PUBLISH, delivered, acknowledged at the next
   ReadSlices (marker Save, then PUBREC), retransmitted, suppressed and confirmed again *)

Definition ex_cfg : scfg :=
  mkScfg {| cfg_user := []; cfg_pass := None; cfg_will := None; cfg_keepalive := 0; cfg_clean := false |}
         false 16384 16384 4096 0 0.
Definition ex_client : client :=
  new_client ex_cfg 0 <| k_rconn := Some 0 |> <| k_wsem := WsConn 0 |> <| k_csem := Some 0 |>
             <| k_nconn := 1 |> <| k_online := true |>.
Definition ex_publish : list N := [52; 6; 0; 1; 97; 0; 5; 120].
Definition ex_world : world :=
  mkWorld [] [false; false; false; false] (Some []) [] [(4, WOk); (4, WOk)]
          [RData ex_publish; RData ex_publish; RHard] [].

Definition ex_run :=
  match read_slices ex_client ex_world with
  | Some ((c1, r1), w1) =>
    match read_slices c1 w1 with
    | Some ((c2, r2), w2) => Some (r1, k_pack c1, w_log w1, r2, k_pack c2, w_log w2, w_store w2)
    | None => None
    end
  | None => None
  end.

Example inbound_example :
  ex_run =
  Some (RetMsg [97] [120], packet_pubrec 5,
        [QLoad 65541; QRead 0 false 4096],
        RetErr 524289, [],
        [QClose 0; QRead 0 false 4096; QWrite 0 (packet_pubrec 5);
         QLoad 65541; QRead 0 false 4096; QWrite 0 (packet_pubrec 5);
         QSave 65541 (encode_value (packet_pubrec 5) 1);
         QLoad 65541; QRead 0 false 4096],
        Some [(65541, encode_value (packet_pubrec 5) 1)]).
Proof. vm_compute. reflexivity. Qed.
