(* C03 — Exactly-once publish: no PUBLISH after recorded PUBREC; PUBREL until PUBCOMP.
   Property theorems only (client side, over all reachable states; the broker-side count of
   deliveries is judged on recorded histories by c03_ok). *)
From MQ Require Import Session Outbound OutboundInv OutboundRefine SessionTheorems SaveBeforeWrite.

(* Once the PUBREC of sequence number n is recorded, the record under its identifier is the
   PUBREL, not a PUBLISH: what a resend (this process or a restarted one) loads is never the PUBLISH. *)
Theorem c03_no_publish_after_pubrec : forall s n, reachable_wf s ->
  o_compl (ost_of s) <= n < o_recvd (ost_of s) ->
  (exists sq, holds (o_store (ost_of s)) (key2 n) (packet_pubrel (key2 n)) sq /\ sq <= o_rseq (ost_of s)) /\
  (forall p sq, sq < M64 -> holds (o_store (ost_of s)) (key2 n) p sq ->
     p = packet_pubrel (key2 n) /\ head_of p = 98 /\
     forall retain topic msg n', p <> pub2_packet retain topic msg n').
Proof. intros s n H. apply no_publish_after_pubrec, reachable_wf_inv, H. Qed.
Print Assumptions c03_no_publish_after_pubrec.

(* ... and it stays that PUBREL record through any further activity until PUBCOMP n is applied. *)
Theorem c03_pubrel_until_pubcomp : forall st st' n,
  OInv' st -> osteps st st' -> o_rseq st' < M64 ->
  o_compl st <= n < o_recvd st -> o_compl st' <= n ->
  n < o_recvd st' /\ store_get (o_store st') (key2 n) = store_get (o_store st) (key2 n).
Proof. exact pubrel_stable. Qed.
Print Assumptions c03_pubrel_until_pubcomp.

(* While n is in the window the only step writing its key is the PUBREC step for n itself. *)
Theorem c03_single_writer : forall st st' n, OInv' st -> ostep st st' ->
  o_compl st <= n < o_acc2 st -> o_compl st' <= n ->
  store_get (o_store st') (key2 n) <> store_get (o_store st) (key2 n) ->
  n = o_recvd st /\ o_recvd st' = o_recvd st + 1.
Proof.
  intros st st' n Hi Hs Hn Hn' Hd. destruct (key2_writer _ _ n Hi Hs Hn Hn' Hd) as [E R]. split; [exact E|].
  destruct R as [R _]. exact R.
Qed.
Print Assumptions c03_single_writer.

(* An identifier is not given to another message before its PUBCOMP: identifiers in the window are distinct. *)
Theorem c03_id_not_reused : forall s n n', reachable_wf s ->
  o_compl (ost_of s) <= n < o_acc2 (ost_of s) -> o_compl (ost_of s) <= n' < o_acc2 (ost_of s) ->
  n <> n' -> key2 n <> key2 n'.
Proof. intros s n n' H. apply ids_in_flight_distinct2, reachable_wf_inv, H. Qed.
Print Assumptions c03_id_not_reused.

(* ---- the closed loop: client + conforming broker + one FIFO connection at a time ---- *)
(* Additions for coq/props/C03.v — broker side (closed loop client + connection + conforming
   broker, theories/BrokerWorld.v).  Needs, next to the existing imports of props/C03.v:
     From Coq Require Import ZArith List.
     From MQ Require Import AdoptProofs BrokerWorld.
   (standalone here so that it can be compiled on its own:
     coqc -Q theories MQ -Q gen MQG -Q props MQP -Q /verif/work/prover-broker SB
          /verif/work/prover-broker/C03_additions.v) *)
From Coq Require Import ZArith List.
From MQ Require Import Session Outbound OutboundInv OutboundRefine SessionTheorems AdoptProofs BrokerWorld.
Import ListNotations.
Local Open Scope N_scope.

(* ---- the tie of the world's client to the proved sender machine ---- *)

(* Every step of the abstract sender machine (which every API call refines, OutboundRefine) is,
   on the four exactly-once numbers, an accept / in-order PUBREC / in-order PUBCOMP step of the
   slim client or invisible. *)
Theorem c03_slim_client : forall st st', OInv' st -> ostep st st' ->
  slim st' = slim st \/ cstep (slim st) (slim st').
Proof. exact ostep_slim. Qed.
Print Assumptions c03_slim_client.

(* Process stop + AdoptSession is a restart of the slim client: window sizes kept, counters
   moved down by a common multiple of 2^14 (anything when nothing is pending). *)
Theorem c03_slim_restart : forall st st',
  OInv' st -> known_keys st -> markers_genuine st -> adopts st st' -> crestart (slim st) (slim st').
Proof. exact adopts_slim. Qed.
Print Assumptions c03_slim_restart.

(* The client part of every step of the closed world is such a step (or none). *)
Theorem c03_world_client : forall w l w', wstep w l w' ->
  w_cl w' = w_cl w \/ cstep (w_cl w) (w_cl w') \/ crestart (w_cl w) (w_cl w').
Proof. exact wstep_client. Qed.
Print Assumptions c03_world_client.

(* ---- (a) at most once ---- *)

Theorem c03_forwarded_at_most_once : forall w, wreach w -> NoDup (w_fwd w).
Proof. exact at_most_once. Qed.
Print Assumptions c03_forwarded_at_most_once.

Theorem c03_forwarded_at_most_once_count : forall w x, wreach w ->
  (count_occ N.eq_dec (w_fwd w) x <= 1)%nat.
Proof. exact at_most_once_count. Qed.
Print Assumptions c03_forwarded_at_most_once_count.

(* ---- (b) only accepted messages; a recorded PUBREC means the message was forwarded ---- *)

Theorem c03_only_accepted_forwarded : forall w x, wreach w -> In x (w_fwd w) -> x < w_base w + wA w.
Proof. exact only_accepted. Qed.
Print Assumptions c03_only_accepted_forwarded.

Theorem c03_pubrec_means_forwarded : forall w x, wreach w -> x < w_base w + wR w -> In x (w_fwd w).
Proof. exact received_forwarded. Qed.
Print Assumptions c03_pubrec_means_forwarded.

Theorem c03_forwarded_stays : forall w l w' x, wstep w l w' -> In x (w_fwd w) -> In x (w_fwd w').
Proof. exact forwarded_stable. Qed.
Print Assumptions c03_forwarded_stays.

(* ---- (c) identifier safety ---- *)

(* An identifier held by the broker stands for exactly one pending message, already forwarded. *)
Theorem c03_broker_id_window : forall w id, wreach w -> In id (w_await w) ->
  exists n, (wC w <= n < wA w /\ id = key2 n /\ In (w_base w + n) (w_fwd w)) /\
            forall n', wC w <= n' < wA w -> id = key2 n' -> n' = n.
Proof. exact awaiting_window. Qed.
Print Assumptions c03_broker_id_window.

(* A message without recorded PUBREC that was forwarded is still held: its retransmission
   (PUBLISH with DUP after Break or Restart) is not forwarded again. *)
Theorem c03_retransmission_suppressed : forall w n, wreach w ->
  wR w <= n < wA w -> In (w_base w + n) (w_fwd w) -> In (key2 n) (w_await w).
Proof. exact pending_publish_awaited. Qed.
Print Assumptions c03_retransmission_suppressed.

(* The identifier of the next accepted message is not held by the broker: an identifier is
   reused only after the PUBCOMP, and the broker dropped it at the PUBREL before. *)
Theorem c03_fresh_identifier : forall w, wreach w ->
  wA w - wC w < c_max (w_cl w) -> ~ In (key2 (wA w)) (w_await w).
Proof. exact fresh_id_not_awaiting. Qed.
Print Assumptions c03_fresh_identifier.

(* On a live connection the acknowledgements reach the client in order: the protocol-error
   reset of on_pubrec / on_pubcomp never fires against a conforming broker (no livelock by
   duplicate PUBRECs). *)
Theorem c03_acks_in_order : forall w w', wreach w -> ~ wstep w LReject w'.
Proof. exact client_never_rejects. Qed.
Print Assumptions c03_acks_in_order.

(* ---- (d) exactly once when the faults stop ---- *)

(* every step of broker, connection or client other than Accept/Break/Restart lowers mu by one *)
Theorem c03_progress_measure : forall w l w', wreach w -> wstep w l w' -> is_progress l = true ->
  mu w = mu w' + 1.
Proof. intros w l w' H. apply good_step_measure, world_inv, H. Qed.
Print Assumptions c03_progress_measure.

Theorem c03_progress_enabled : forall w, mu w <> 0 -> exists l w', is_progress l = true /\ wstep w l w'.
Proof. exact progress_enabled. Qed.
Print Assumptions c03_progress_enabled.

(* quiescence = every accepted message forwarded exactly once, handshakes finished *)
Theorem c03_quiescent_exactly_once : forall w, wreach w -> quiescent w ->
  complete w /\ forall x, count_occ N.eq_dec (w_fwd w) x = if x <? w_base w + wA w then 1%nat else 0%nat.
Proof.
  intros w H Hq. pose proof (quiescent_complete w H Hq) as Hc. split; [exact Hc|].
  intros x. apply complete_exactly_once, Hc.
Qed.
Print Assumptions c03_quiescent_exactly_once.

(* a run without Break/Restart: p progress steps, a Accepts: p <= mu + 4a, and it is complete
   when it cannot be continued or has that length *)
Theorem c03_fault_free_run_bound : forall w p a w', wreach w -> frun w p a w' ->
  mu w + 4 * N.of_nat a = mu w' + N.of_nat p.
Proof. exact good_run_bound. Qed.
Print Assumptions c03_fault_free_run_bound.

Theorem c03_fault_free_run_complete : forall w p a w', wreach w -> frun w p a w' ->
  (quiescent w' \/ N.of_nat p = mu w + 4 * N.of_nat a) -> complete w'.
Proof. exact good_run_complete. Qed.
Print Assumptions c03_fault_free_run_complete.

Theorem c03_fault_free_run_exists : forall w, wreach w ->
  exists w', frun w (N.to_nat (mu w)) 0 w' /\ complete w'.
Proof. exact good_run_exists. Qed.
Print Assumptions c03_fault_free_run_exists.

(* ---- non-vacuity: reachable states with a retransmission ---- *)

(* PUBLISH 0 forwarded, PUBREC lost with the connection, PUBLISH 0 sent again after the
   reconnect and processed by the broker: forwarded once, PUBREC under way. *)
Example c03_retransmission_forwarded_once :
  exists w, wrun (winit 4) [AReconnect; AAccept; ABroker; ABreak; AReconnect; ABroker] = Some w /\
    wreach w /\
    w_fwd w = [0] /\ w_await w = [key2 0] /\ w_b2c w = [DRec (key2 0) 0] /\ w_c2b w = [] /\
    wR w = 0 /\ wA w = 1.
Proof. exact retransmission_forwarded_once. Qed.

(* the same continued: PUBREC read, PUBREL processed, PUBCOMP lost with the connection, process
   restart (AdoptSession), PUBREL sent again, PUBCOMP for the unknown identifier: complete. *)
Example c03_restart_forwarded_once :
  exists w, wrun (winit 4) restart_trace = Some w /\ wreach w /\ complete w /\ w_fwd w = [0].
Proof. exact restart_forwarded_once. Qed.

(* the boundary of the broker model (not a property of the client): if the broker drops its
   session (restart of the client process with Config.CleanSession = true), the retransmitted
   PUBLISH is forwarded a second time *)
Example c03_clean_session_boundary :
  exists w w', wrun (winit 4) clean_trace = Some w /\ wreach w /\
    wrun (session_wiped w) [AReconnect; ABroker] = Some w' /\ w_fwd w' = [0; 0].
Proof. exact clean_session_restart_duplicates. Qed.

(* the handler of PUBREC, every state, body and world: if it writes anything, the PUBREL record was saved successfully first (first request of the step; everything after it is a connection call) *)
Theorem c03_pubrec_release_recorded : ltac:(let t := type of on_pubrec_release_recorded in exact t).
Proof. exact on_pubrec_release_recorded. Qed.
Check c03_pubrec_release_recorded.
Print Assumptions c03_pubrec_release_recorded.

(* ... and when that Save is refused nothing is written, the step ends in the store error with pendingAck cleared and Received unchanged *)
Theorem c03_pubrec_save_refused : ltac:(let t := type of on_pubrec_save_refused in exact t).
Proof. exact on_pubrec_save_refused. Qed.
Check c03_pubrec_save_refused.
Print Assumptions c03_pubrec_save_refused.
