(* C03 — Exactly-once publish: no PUBLISH after recorded PUBREC; PUBREL until PUBCOMP.
   Property theorems only (client side, over all reachable states; the broker-side count of
   deliveries is judged on recorded histories by c03_ok). *)
From MQ Require Import Session Outbound OutboundInv OutboundRefine SessionTheorems.

(* Once the PUBREC of sequence number n is recorded, the record under its identifier is the
   PUBREL, not a PUBLISH: what a resend (this process or a restarted one) loads is never the PUBLISH. *)
Theorem c03_no_publish_after_pubrec : forall s n, reachable_wf s ->
  o_compl (ost_of s) <= n < o_recvd (ost_of s) ->
  (exists sq, holds (o_store (ost_of s)) (key2 n) (packet_pubrel (key2 n)) sq /\ sq <= o_rseq (ost_of s)) /\
  (forall p sq, sq < M64 -> holds (o_store (ost_of s)) (key2 n) p sq ->
     p = packet_pubrel (key2 n) /\ head_of p = 98 /\
     forall retain topic msg n', p <> pub2_packet retain topic msg n').
Proof. intros s n H. apply no_publish_after_pubrec, reachable_wf_inv, H. Qed.
Print Assumptions c03_no_publish_after_pubrec.

(* ... and it stays that PUBREL record through any further activity until PUBCOMP n is applied. *)
Theorem c03_pubrel_until_pubcomp : forall st st' n,
  OInv' st -> osteps st st' -> o_rseq st' < M64 ->
  o_compl st <= n < o_recvd st -> o_compl st' <= n ->
  n < o_recvd st' /\ store_get (o_store st') (key2 n) = store_get (o_store st) (key2 n).
Proof. exact pubrel_stable. Qed.
Print Assumptions c03_pubrel_until_pubcomp.

(* While n is in the window the only step writing its key is the PUBREC step for n itself. *)
Theorem c03_single_writer : forall st st' n, OInv' st -> ostep st st' ->
  o_compl st <= n < o_acc2 st -> o_compl st' <= n ->
  store_get (o_store st') (key2 n) <> store_get (o_store st) (key2 n) ->
  n = o_recvd st /\ o_recvd st' = o_recvd st + 1.
Proof.
  intros st st' n Hi Hs Hn Hn' Hd. destruct (key2_writer _ _ n Hi Hs Hn Hn' Hd) as [E R]. split; [exact E|].
  destruct R as [R _]. exact R.
Qed.
Print Assumptions c03_single_writer.

(* An identifier is not given to another message before its PUBCOMP: identifiers in the window are distinct. *)
Theorem c03_id_not_reused : forall s n n', reachable_wf s ->
  o_compl (ost_of s) <= n < o_acc2 (ost_of s) -> o_compl (ost_of s) <= n' < o_acc2 (ost_of s) ->
  n <> n' -> key2 n <> key2 n'.
Proof. intros s n n' H. apply ids_in_flight_distinct2, reachable_wf_inv, H. Qed.
Print Assumptions c03_id_not_reused.
