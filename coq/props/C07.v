(* C07 — Inbound acknowledgements go out only after the application took ownership.
   Property theorems only (statements: MQ.InboundProofs); for ALL client states and scripts. *)
From MQ Require Import Session InboundProofs.

(* Receiving a PUBLISH never writes anything: the acknowledgement is only enqueued ... *)
Theorem c07_receive_writes_nothing : ltac:(let t := type of on_publish_no_write in exact t).
Proof. exact on_publish_no_write. Qed.
Check c07_receive_writes_nothing.
Print Assumptions c07_receive_writes_nothing.

(* ... and it is the acknowledgement of that very message (its kind and its identifier). *)
Theorem c07_own_ack : ltac:(let t := type of on_publish_enqueues_own_ack in exact t).
Proof. exact on_publish_enqueues_own_ack. Qed.
Print Assumptions c07_own_ack.

(* A ReadSlices call that returns a message returns directly after receiving it: nothing was written
   since, and the pending acknowledgement is the returned message's own. *)
Theorem c07_no_ack_while_held : ltac:(let t := type of read_slices_delivery_no_ack in exact t).
Proof. exact read_slices_delivery_no_ack. Qed.
Check c07_no_ack_while_held.
Print Assumptions c07_no_ack_while_held.

(* The next ReadSlices call writes it first (after the marker Save for PUBREC), before any read; it is
   kept when the Save or the write fails, hence still sent on the next connection. *)
Theorem c07_ack_first_on_next_call : ltac:(let t := type of flush_acks_first in exact t).
Proof. exact flush_acks_first. Qed.
Print Assumptions c07_ack_first_on_next_call.

(* In every reachable client state the pending acknowledgement is nothing or one four-byte
   PUBACK/PUBREC/PUBREL/PUBCOMP: no message is acknowledged without having been returned. *)
Theorem c07_pending_ack_shape : ltac:(let t := type of reach_pack_shape in exact t).
Proof. exact reach_pack_shape. Qed.
Print Assumptions c07_pending_ack_shape.

Example c07_nonvacuous : ltac:(let t := type of inbound_example in exact t).
Proof. exact inbound_example. Qed.

(* ---- pending acknowledgement in the closed loop ---- *)
(* Additions for coq/props/C07.v — the closed loop of theories/InboundWorld.v.
   Needs, next to the existing imports of props/C07.v:
     From Coq Require Import ZArith List.
     From MQ Require Import InboundWorld.
   (standalone:  cd /verif/coq && coqc -Q theories MQ -Q gen MQG -Q props MQP \
        -Q /verif/work/prover-inbound-world SIW /verif/work/prover-inbound-world/C07_additions.v) *)
From Coq Require Import ZArith List.
From MQ Require Import InboundWorld.
Import ListNotations.
Local Open Scope N_scope.

(* A message is returned only by the delivery step; that step writes nothing, saves no marker
   and leaves exactly the PUBREC of the returned message pending. *)
Theorem c07_world_delivery_writes_nothing : forall w l w', istep w l w' -> i_deliv w' <> i_deliv w ->
  l = LDeliver /\ exists id x q, i_b2c w = DPub id x :: q /\ ~ In id (i_marks w) /\ i_owed w = None /\
    i_deliv w' = x :: i_deliv w /\ i_owed w' = Some (URec id x) /\ i_c2b w' = i_c2b w /\
    i_marks w' = i_marks w.
Proof. exact delivered_only_by_deliver. Qed.
Print Assumptions c07_world_delivery_writes_nothing.

(* While an acknowledgement is pending the client reads nothing: the flush comes first. *)
Theorem c07_world_pending_ack_first : forall w l w', istep w l w' -> i_owed w <> None -> is_read l = false.
Proof. exact owed_blocks_reading. Qed.
Print Assumptions c07_world_pending_ack_first.

(* The pending acknowledgement is kept until LFlush writes it (marker Save first for a PUBREC),
   across Break, Reconnect, failing Saves and failing writes; only a process stop loses it. *)
Theorem c07_world_ack_kept_until_written : forall w l w' u, istep w l w' -> i_owed w = Some u ->
  i_owed w' = Some u \/
  (l = LFlush /\ i_c2b w' = i_c2b w ++ [u] /\ i_marks w' = save_marker u (i_marks w)) \/
  l = LRestart.
Proof. exact owed_kept_until_written. Qed.
Print Assumptions c07_world_ack_kept_until_written.

(* In every reachable state of the closed loop a PUBREC, written or pending, is the PUBREC of a
   message that was returned to the application. *)
Theorem c07_world_pubrec_only_for_delivered : forall w id x, ireach w ->
  In (URec id x) (cl w) -> In x (i_deliv w).
Proof. exact pubrec_only_for_delivered. Qed.
Print Assumptions c07_world_pubrec_only_for_delivered.

(* the at-least-once analogue *)
Theorem c07_world_puback_only_for_delivered : forall reuse w p, qreach reuse w ->
  In p (q_c2b w ++ olp (q_owed w)) -> In (snd p) (q_deliv w).
Proof. exact qos1_ack_only_after_delivery. Qed.
Print Assumptions c07_world_puback_only_for_delivered.

Theorem c07_world_qos1_delivery_leaves_ack_pending : forall reuse w w', qstep reuse w w' ->
  q_deliv w' <> q_deliv w ->
  exists p q, q_owed w = None /\ q_b2c w = p :: q /\ q_deliv w' = snd p :: q_deliv w /\
              q_owed w' = Some p /\ q_c2b w' = q_c2b w.
Proof. exact qos1_delivery_leaves_ack_pending. Qed.
Print Assumptions c07_world_qos1_delivery_leaves_ack_pending.

Theorem c07_world_qos1_acked_were_delivered : forall w x, qreach false w ->
  In x (q_acked w) -> In x (q_deliv w).
Proof. exact qos1_acked_were_delivered. Qed.
Print Assumptions c07_world_qos1_acked_were_delivered.

Example c07_world_qos1_reuse_loses_message : ltac:(let t := type of qos1_reuse_loses_message in exact t).
Proof. exact qos1_reuse_loses_message. Qed.
Print Assumptions c07_world_qos1_reuse_loses_message.
