(* C07 — Inbound acknowledgements go out only after the application took ownership.
   Property theorems only (statements: MQ.InboundProofs); for ALL client states and scripts. *)
From MQ Require Import Session InboundProofs.

(* Receiving a PUBLISH never writes anything: the acknowledgement is only enqueued ... *)
Theorem c07_receive_writes_nothing : ltac:(let t := type of on_publish_no_write in exact t).
Proof. exact on_publish_no_write. Qed.
Check c07_receive_writes_nothing.
Print Assumptions c07_receive_writes_nothing.

(* ... and it is the acknowledgement of that very message (its kind and its identifier). *)
Theorem c07_own_ack : ltac:(let t := type of on_publish_enqueues_own_ack in exact t).
Proof. exact on_publish_enqueues_own_ack. Qed.
Print Assumptions c07_own_ack.

(* A ReadSlices call that returns a message returns directly after receiving it: nothing was written
   since, and the pending acknowledgement is the returned message's own. *)
Theorem c07_no_ack_while_held : ltac:(let t := type of read_slices_delivery_no_ack in exact t).
Proof. exact read_slices_delivery_no_ack. Qed.
Check c07_no_ack_while_held.
Print Assumptions c07_no_ack_while_held.

(* The next ReadSlices call writes it first (after the marker Save for PUBREC), before any read; it is
   kept when the Save or the write fails, hence still sent on the next connection. *)
Theorem c07_ack_first_on_next_call : ltac:(let t := type of flush_acks_first in exact t).
Proof. exact flush_acks_first. Qed.
Print Assumptions c07_ack_first_on_next_call.

(* In every reachable client state the pending acknowledgement is nothing or one four-byte
   PUBACK/PUBREC/PUBREL/PUBCOMP: no message is acknowledged without having been returned. *)
Theorem c07_pending_ack_shape : ltac:(let t := type of reach_pack_shape in exact t).
Proof. exact reach_pack_shape. Qed.
Print Assumptions c07_pending_ack_shape.

Example c07_nonvacuous : ltac:(let t := type of inbound_example in exact t).
Proof. exact inbound_example. Qed.
