(* C06 — Inbound messages are returned byte-exact under any fragmentation and size.
   This file holds the property theorems only; proofs live in MQ.ReaderProofs.

   Model: MQ.Reader (bufio.Reader over a scripted connection; Client.peekPacket, discard,
   BigMessage.ReadAll as in client.go) and MQ.ReaderRun (a whole stream read packet by
   packet the way readSlices does).  [pending s] = bytes buffered ++ data still on the
   tape of conn.Read answers; [wf s]: no latched error, buffer within its capacity
   [rcap s] > 0, tape made of non-empty data segments and deadline expiries only.
   A segment larger than the slice handed to conn.Read is delivered over several calls. *)
From MQ Require Import Bytes Spec Packets Reader ReaderRun ReaderProofs C06Check.

(* ---- one packet ------------------------------------------------------------------ *)

(* peekPacket frames the packet at the head of the pending bytes exactly as the
   independent parser Spec.frame_packet does -- whatever the cuts, wherever expiries
   fall -- or it ends in a deadline-expiry error.  Afterwards the pending bytes are
   body ++ rest and the body (for a PUBLISH beyond the buffer: exactly one buffer-load
   of it) is buffered. *)
Theorem c06_peek_packet_exact :
  forall pause s head body rest,
  wf s -> bytes (pending s) ->
  frame_packet (pending s) = Some (head, body, rest) ->
  peek_len (rcap s) head (len body) <= rcap s ->   (* only a PUBLISH may exceed the buffer *)
  (exists s', peek_packet pause s = (PkErr ETimeout false, s'))
  \/ (exists s',
        peek_packet pause s =
          ((if is_big (rcap s) head (len body)
            then PkBig head (len body) (firstn (N.to_nat (rcap s)) body)
            else PkOk head body), s')
        /\ post s s' (body ++ rest)
        /\ firstn (N.to_nat (peek_len (rcap s) head (len body))) (rbuf s')
           = firstn (N.to_nat (peek_len (rcap s) head (len body))) body
        /\ peek_len (rcap s) head (len body) <= len (rbuf s')).
Proof. exact peek_packet_spec. Qed.
Print Assumptions c06_peek_packet_exact.

(* Remaining length: every size up to 268 435 455 in its 1-4 byte encoding is decoded
   exactly ... *)
Theorem c06_remaining_length_exact :
  forall pause s head body rest,
  wf s -> bytes (pending s) -> len body <= packet_max ->
  pending s = head :: varint (len body) ++ body ++ rest ->
  peek_len (rcap s) head (len body) <= rcap s ->
  (exists s', peek_packet pause s = (PkErr ETimeout false, s'))
  \/ (exists s',
        peek_packet pause s =
          ((if is_big (rcap s) head (len body)
            then PkBig head (len body) (firstn (N.to_nat (rcap s)) body)
            else PkOk head body), s')
        /\ post s s' (body ++ rest)
        /\ firstn (N.to_nat (peek_len (rcap s) head (len body))) (rbuf s')
           = firstn (N.to_nat (peek_len (rcap s) head (len body))) body
        /\ peek_len (rcap s) head (len body) <= len (rbuf s')).
Proof. exact peek_packet_framed. Qed.
Print Assumptions c06_remaining_length_exact.

(* ... and a continuation bit on the fourth length byte is a protocol reset. *)
Theorem c06_fifth_length_byte_refused :
  forall pause s h a b c d r, wf s ->
  pending s = h :: a :: b :: c :: d :: r -> 128 <= a -> 128 <= b -> 128 <= c -> 128 <= d ->
  (exists s', peek_packet pause s = (PkErr ETimeout false, s'))
  \/ (exists s', peek_packet pause s = (PkErr EHard true, s')).
Proof. exact peek_packet_fifth_length_byte. Qed.
Print Assumptions c06_fifth_length_byte_refused.

(* ---- big messages and alignment -------------------------------------------------- *)

(* After the BigMessage return ([big_ready]: one buffer-load of the body is buffered),
   skipping the [i] bytes in front of the message and ReadAll of the announced size
   return exactly the remaining bytes of the body; the reader is then positioned on the
   next packet. *)
Theorem c06_big_message_read_exact :
  forall pause s1 body rest i,
  big_ready s1 body rest -> i <= rcap s1 ->
  let before := rcap s1 - (len (firstn (N.to_nat (rcap s1)) body) - i) in
  let s2 := snd (bufio_discard 1 s1 before 0) in
  (exists s3, read_all pause s2 (len body - before) = (inr ETimeout, s3))
  \/ (exists s3, read_all pause s2 (len body - before) = (inl (skipn (N.to_nat i) body), s3)
        /\ post s1 s3 rest).
Proof. exact big_read_spec. Qed.
Print Assumptions c06_big_message_read_exact.

(* A BigMessage that is not read: the discard of the next call leaves [rest]. *)
Theorem c06_alignment_unread_big :
  forall pause s1 body rest i,
  big_ready s1 body rest -> i <= rcap s1 ->
  let before := rcap s1 - (len (firstn (N.to_nat (rcap s1)) body) - i) in
  let s2 := snd (bufio_discard 1 s1 before 0) in
  (exists s3, client_discard pause s2 (len body - before) = (Some ETimeout, s3))
  \/ (exists s3, client_discard pause s2 (len body - before) = (None, s3) /\ post s1 s3 rest).
Proof. exact big_skip_spec. Qed.
Print Assumptions c06_alignment_unread_big.

(* A duplicate big message that is skipped. *)
Theorem c06_alignment_duplicate_big :
  forall pause s1 body rest,
  big_ready s1 body rest ->
  (exists s2, client_discard pause s1 (len body) = (Some ETimeout, s2))
  \/ (exists s2, client_discard pause s1 (len body) = (None, s2) /\ post s1 s2 rest).
Proof. exact big_dup_spec. Qed.
Print Assumptions c06_alignment_duplicate_big.

(* Client.discard and BigMessage.ReadAll in general: n bytes are skipped resp. returned. *)
Theorem c06_discard_exact :
  forall pause s n, wf s -> n <= len (pending s) ->
  (exists s', client_discard pause s n = (Some ETimeout, s'))
  \/ (exists s', client_discard pause s n = (None, s')
        /\ post s s' (skipn (N.to_nat n) (pending s))).
Proof. exact client_discard_spec. Qed.
Print Assumptions c06_discard_exact.

Theorem c06_read_all_exact :
  forall pause s size, wf s -> size <= len (pending s) ->
  (exists s', read_all pause s size = (inr ETimeout, s'))
  \/ (exists s', read_all pause s size = (inl (firstn (N.to_nat size) (pending s)), s')
        /\ post s s' (skipn (N.to_nat size) (pending s))).
Proof. exact read_all_spec. Qed.
Print Assumptions c06_read_all_exact.

(* ---- whole streams ---------------------------------------------------------------- *)

(* A stream of framed packets, each servable with this buffer size, read packet by packet
   (small bodies consumed from the buffer; big messages read, left unread, or skipped as
   duplicates, according to [mode]): the observations are those computed from the bytes
   alone ([expect_obs]) -- all of them and nothing pending when the run reaches the end
   of the script, a prefix of them when a deadline expiry ends it. *)
Theorem c06_stream_exact :
  forall pause mode l fuel s,
  wf s -> bytes (pending s) -> framed l (pending s) ->
  Forall (servable (rcap s) mode) l -> (length l < fuel)%nat ->
  let r := read_stream fuel pause mode s in
  (run_end r = EndTimeout /\
   exists l1 l2, l = l1 ++ l2 /\ run_obs r = map (expect_obs (rcap s) mode) l1)
  \/ (run_end r = EndScript /\ run_obs r = map (expect_obs (rcap s) mode) l
      /\ pending (run_state r) = [] /\ wf (run_state r)).
Proof. exact read_stream_spec. Qed.
Print Assumptions c06_stream_exact.

(* Unfragmented exactness, and any cutting without deadline expiries (every packet
   arriving whole, 1-byte reads, CONNACK coalesced with followers are instances): the run
   observes the entire stream and leaves nothing pending. *)
Theorem c06_unfragmented_exact :
  forall pause mode l fuel s,
  wf s -> Forall (fun a => a <> RTimeout) (rtape s) ->
  bytes (pending s) -> framed l (pending s) ->
  Forall (servable (rcap s) mode) l -> (length l < fuel)%nat ->
  let r := read_stream fuel pause mode s in
  run_end r = EndScript /\ run_obs r = map (expect_obs (rcap s) mode) l
  /\ pending (run_state r) = [].
Proof. exact read_stream_no_expiry. Qed.
Print Assumptions c06_unfragmented_exact.

(* Fragmentation invariance: two tapes with the same data (the same stream cut in two
   ways, deadline expiries anywhere), any buffer size from bufio's minimum up: both runs
   observe prefixes of the same list; a run not ended by a deadline expiry observes all of
   it; two such runs agree completely. *)
Theorem c06_fragmentation_invariant :
  forall pause mode cap buf t1 t2 l fuel,
  16 <= cap -> len buf <= cap -> good_tape t1 -> good_tape t2 -> data t1 = data t2 ->
  bytes (buf ++ data t1) -> framed l (buf ++ data t1) ->
  Forall (servable cap mode) l -> (length l < fuel)%nat ->
  let r1 := read_stream fuel pause mode (reader_on cap buf t1) in
  let r2 := read_stream fuel pause mode (reader_on cap buf t2) in
  let full := map (expect_obs cap mode) l in
  (exists x, full = run_obs r1 ++ x) /\ (exists x, full = run_obs r2 ++ x) /\
  (run_end r1 <> EndTimeout ->
   run_obs r1 = full /\ run_end r1 = EndScript /\ pending (run_state r1) = []) /\
  (run_end r2 <> EndTimeout ->
   run_obs r2 = full /\ run_end r2 = EndScript /\ pending (run_state r2) = []) /\
  (run_end r1 <> EndTimeout -> run_end r2 <> EndTimeout ->
   run_obs r1 = run_obs r2 /\ run_end r1 = run_end r2).
Proof. exact fragmentation_invariant_tapes. Qed.
Print Assumptions c06_fragmentation_invariant.

(* ---- non-vacuity ------------------------------------------------------------------ *)

(* buffer of 16 bytes; PUBLISH at-least-once "a/b" id 7 (10-byte body), PUBLISH at-most-once
   "t" with a 20-byte message (23-byte body: a BigMessage), PINGRESP *)
Definition ex_p1 : list N := [0; 3; 97; 47; 98; 0; 7; 1; 2; 3].
Definition ex_p2 : list N := [0; 1; 116] ++ [10; 11; 12; 13; 14; 15; 16; 17; 18; 19;
                                               20; 21; 22; 23; 24; 25; 26; 27; 28; 29].
Definition ex_packets : list (N * list N) := [(50, ex_p1); (48, ex_p2); (208, [])].
Definition ex_stream : list N := [50; 10] ++ ex_p1 ++ [48; 23] ++ ex_p2 ++ [208; 0].

Example c06_witness_hypotheses :
  framed ex_packets ex_stream /\ bytes ex_stream
  /\ Forall (servable 16 BigRead) ex_packets
  /\ good_tape [RData (firstn 5 ex_stream); RTimeout; RData (skipn 5 ex_stream)]
  /\ data [RData (firstn 5 ex_stream); RTimeout; RData (skipn 5 ex_stream)] = ex_stream
  /\ map (expect_obs 16 BigRead) ex_packets = [(50, 10, ex_p1); (48, 23, ex_p2); (208, 0, [])].
Proof.
  split.
  { cbn [framed ex_packets]. eexists. split; [reflexivity|]. eexists. split; [reflexivity|].
    eexists. split; reflexivity. }
  split.
  { unfold bytes, ex_stream. repeat (apply Forall_cons || apply Forall_app || split);
      try (unfold isbyte; reflexivity); repeat constructor; unfold isbyte; reflexivity. }
  split.
  { repeat constructor; try (vm_compute; intros H; discriminate H).
    intros _ _. exists [116], 0, 3. split; [reflexivity|vm_compute; intros H; discriminate H]. }
  split; [repeat constructor|]. split; reflexivity.
Qed.

(* the three-packet stream cut at every byte position: without an expiry, and with an
   expiry at the cut, the run returns exactly the expected observations (an expiry that
   the code counts as lacking progress would end the run with a prefix) *)
Definition ex_cut_ok (timeout : bool) (k : nat) : bool :=
  let tape := RData (firstn k ex_stream) :: (if timeout then [RTimeout] else [])
              ++ [RData (skipn k ex_stream)] in
  let r := read_stream 5 true BigRead (reader_on 16 [] tape) in
  match run_end r with
  | EndScript =>
    list_eqb_by (fun a b => (fst (fst a) =? fst (fst b)) && (snd (fst a) =? snd (fst b))
                            && list_eqb (snd a) (snd b))
      (run_obs r) [(50, 10, ex_p1); (48, 23, ex_p2); (208, 0, [])]
  | EndTimeout => timeout && Nat.leb (length (run_obs r)) 3
  | _ => false
  end.

Example c06_every_cut_position :
  forallb (ex_cut_ok false) (seq 1 (length ex_stream - 1)) = true
  /\ forallb (ex_cut_ok true) (seq 1 (length ex_stream - 1)) = true
  /\ run_obs (read_stream 5 true BigRead (reader_on 16 [] (map (fun b => RData [b]) ex_stream)))
     = [(50, 10, ex_p1); (48, 23, ex_p2); (208, 0, [])].
Proof. vm_compute. repeat split; reflexivity. Qed.

(* the same stream with the big message left unread resp. treated as a duplicate:
   the packets after it are still found *)
Example c06_alignment_witness :
  run_obs (read_stream 5 true BigSkip (reader_on 16 [] [RData ex_stream]))
    = [(50, 10, ex_p1); (48, 23, [0; 1; 116]); (208, 0, [])]
  /\ run_obs (read_stream 5 true BigDup (reader_on 16 [] (map (fun b => RData [b]) ex_stream)))
    = [(50, 10, ex_p1); (48, 23, []); (208, 0, [])].
Proof. vm_compute. split; reflexivity. Qed.

(* a fifth length byte *)
Example c06_fifth_byte_witness :
  fst (peek_packet true (reader_on 16 [] [RData [48; 132; 128; 128; 128; 0]])) = PkErr EHard true.
Proof. vm_compute. reflexivity. Qed.

(* The case checker on the model's own output (a concrete history, not a general
   soundness theorem): CONNACK + the three packets, one byte per read, the big message
   read; the case is assembled from what the model returns and from its read log. *)
Definition model_case (B : N) (pause : bool) (stream : list N) (choices : list bool)
  (tape : list rans) : c06case :=
  let '(rets0, st) := run_client B pause choices tape in
  let log := rev (rlog (d_r st)) in
  let events := map (fun x => (false, fst (fst x), snd (fst x), snd x)) (combine log tape) in
  StreamCase B pause stream choices events (with_followup rets0) (d_out st)
    (dials_of (with_followup rets0)).

Example c06_checker_accepts_model :
  let stream := [32; 2; 0; 0] ++ ex_stream in
  let c := model_case 16 true stream [true] (map (fun b => RData [b]) stream ++ [REOF]) in
  c06_agree c = true /\ c06_ok c = true
  /\ match c with
     | StreamCase _ _ _ _ _ rets acks _ =>
       rets = [RetMsg [1; 2; 3] [97; 47; 98]; RetBig [116] 20 (BigContent (skipn 3 ex_p2)); RetErr CEOF]
       /\ acks = [64; 2; 0; 7]
     | _ => False
     end.
Proof. vm_compute. repeat split; reflexivity. Qed.
