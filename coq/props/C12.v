(* C12 — Close and Disconnect end the client from any state, promptly and for good. L3 theorems hold for EVERY event sequence the monitor Sync.v accepts that is faithful (one ReadSlices goroutine; it observes the context monotonically; done closed once per connect) — for any number of goroutines of every kind and any schedule; recorded traces of the real client are checked to be accepted and faithful on every run. Sequential theorems: all client states, all scripts.
   Property theorems only; the statements are those of the named lemmas (printed by Check). *)
From MQ Require Import Session Outbound OutboundRefine ConnectProofs ClassProofs Sync SyncProofs.

(* no send on a closed channel and no double close, for any number of concurrent Close/Disconnect callers, publishers, persisted publishers and the read routine, in any interleaving *)
Theorem c12_no_chan_panic : ltac:(let t := type of no_chan_panic_tr in exact t).
Proof. exact no_chan_panic_tr. Qed.
Check c12_no_chan_panic.
Print Assumptions c12_no_chan_panic.

(* once closed, connection control and the write semaphore stay closed *)
Theorem c12_closed_for_good : ltac:(let t := type of closed_for_good in exact t).
Proof. exact closed_for_good. Qed.
Check c12_closed_for_good.
Print Assumptions c12_closed_for_good.

(* connSem closed implies writeSem closed implies the context canceled *)
Theorem c12_closed_implies : ltac:(let t := type of closed_implies in exact t).
Proof. exact closed_implies. Qed.
Check c12_closed_implies.
Print Assumptions c12_closed_implies.

(* after the close every receive on connSem reports closed: Close returns nil, Disconnect and connect ErrClosed *)
Theorem c12_after_close_connsem : ltac:(let t := type of recv_conn_after_close in exact t).
Proof. exact recv_conn_after_close. Qed.
Check c12_after_close_connsem.
Print Assumptions c12_after_close_connsem.

(* ... and every request gets ErrClosed from the write semaphore *)
Theorem c12_after_close_writesem : ltac:(let t := type of recv_write_after_close in exact t).
Proof. exact recv_write_after_close. Qed.
Check c12_after_close_writesem.
Print Assumptions c12_after_close_writesem.

(* a blocked Close/Disconnect waits for a token held by exactly one other goroutine, and no wait-for chain leads back *)
Theorem c12_close_does_not_wait_on_itself : ltac:(let t := type of close_does_not_wait_on_itself in exact t).
Proof. exact close_does_not_wait_on_itself. Qed.
Check c12_close_does_not_wait_on_itself.
Print Assumptions c12_close_does_not_wait_on_itself.

(* the wait-for graph over the four semaphores is acyclic in every state (lock order connSem < seqSem1 < seqSem2 < writeSem) *)
Theorem c12_wait_for_acyclic : ltac:(let t := type of wait_for_acyclic in exact t).
Proof. exact wait_for_acyclic. Qed.
Check c12_wait_for_acyclic.
Print Assumptions c12_wait_for_acyclic.

(* every step of the write-token holder releases or closes the token or gets strictly closer to it (at most 7 of its own steps) *)
Theorem c12_write_holder_progress : ltac:(let t := type of w_holder_step in exact t).
Proof. exact w_holder_step. Qed.
Check c12_write_holder_progress.
Print Assumptions c12_write_holder_progress.

(* and the holder always has an enabled step *)
Theorem c12_write_holder_enabled : ltac:(let t := type of w_holder_enabled in exact t).
Proof. exact w_holder_enabled. Qed.
Check c12_write_holder_enabled.
Print Assumptions c12_write_holder_enabled.

(* without the context check after taking connSem (pinned tree, F20) the monitor reaches a send on a closed sequence semaphore *)
Theorem c12_f20_pinned_refuted : ltac:(let t := type of f20_pinned_refuted in exact t).
Proof. exact f20_pinned_refuted. Qed.
Check c12_f20_pinned_refuted.
Print Assumptions c12_f20_pinned_refuted.

(* Close during the handshake (the F6 schedule): accepted, faithful, no panic *)
Example c12_f6_nonvacuous : ltac:(let t := type of f6_close_during_handshake in exact t).
Proof. exact f6_close_during_handshake. Qed.
(* ReadSlices re-entered after termCallbacks (the F20 schedule): accepted, faithful, no panic *)
Example c12_f20_nonvacuous : ltac:(let t := type of f20_reenter_after_term in exact t).
Proof. exact f20_reenter_after_term. Qed.
(* Disconnect (sequential): nil with DISCONNECT written completely and the connection closed, ErrClosed, ErrDown or ErrSubmit *)
Theorem c12_disconnect_outcomes : ltac:(let t := type of op_disconnect_classes in exact t).
Proof. exact op_disconnect_classes. Qed.
Check c12_disconnect_outcomes.
Print Assumptions c12_disconnect_outcomes.

(* ErrClosed/ErrDown: nothing written *)
Theorem c12_disconnect_not_submitted : ltac:(let t := type of op_disconnect_not_submitted in exact t).
Proof. exact op_disconnect_not_submitted. Qed.
Check c12_disconnect_not_submitted.
Print Assumptions c12_disconnect_not_submitted.

(* every result of every operation in every state is one of the model's error values *)
Theorem c12_errs_in_model : ltac:(let t := type of step_errs_in_model in exact t).
Proof. exact step_errs_in_model. Qed.
Check c12_errs_in_model.
Print Assumptions c12_errs_in_model.

