(* C12 — Close and Disconnect end the client from any state, for good (sequential part; interleavings: SyncProofs, added when proved).
   Property theorems only; the statements are those of the named lemmas (printed by Check),
   each for ALL client states and ALL environment scripts unless it says otherwise. *)
From MQ Require Import Session Outbound OutboundRefine ConnectProofs ClassProofs.

(* Disconnect: nil (DISCONNECT written completely, then the connection closed), ErrClosed, ErrDown or ErrSubmit *)
Theorem c12_disconnect_outcomes : ltac:(let t := type of op_disconnect_classes in exact t).
Proof. exact op_disconnect_classes. Qed.
Check c12_disconnect_outcomes.
Print Assumptions c12_disconnect_outcomes.

(* ErrClosed/ErrDown: nothing written *)
Theorem c12_disconnect_not_submitted : ltac:(let t := type of op_disconnect_not_submitted in exact t).
Proof. exact op_disconnect_not_submitted. Qed.
Check c12_disconnect_not_submitted.
Print Assumptions c12_disconnect_not_submitted.

(* with the write semaphore closed every request returns ErrClosed with the world untouched *)
Theorem c12_closed_requests : ltac:(let t := type of req_outcome_classes in exact t).
Proof. exact req_outcome_classes. Qed.
Check c12_closed_requests.
Print Assumptions c12_closed_requests.

(* every result of every operation in every state is one of the model's error values (no panic value) *)
Theorem c12_errs_in_model : ltac:(let t := type of step_errs_in_model in exact t).
Proof. exact step_errs_in_model. Qed.
Check c12_errs_in_model.
Print Assumptions c12_errs_in_model.

(* connection control is never re-opened by any operation *)
Theorem c12_csem_monotone : ltac:(let t := type of step_csem_monotone in exact t).
Proof. exact step_csem_monotone. Qed.
Check c12_csem_monotone.
Print Assumptions c12_csem_monotone.

