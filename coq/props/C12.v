(* C12 — Close and Disconnect end the client from any state, promptly and for good. L3 theorems hold for EVERY event sequence the monitor Sync.v accepts that is faithful (one ReadSlices goroutine; it observes the context monotonically; done closed once per connect) — for any number of goroutines of every kind and any schedule; recorded traces of the real client are checked to be accepted and faithful on every run. Sequential theorems: all client states, all scripts.
   Property theorems only; the statements are those of the named lemmas (printed by Check). *)
From MQ Require Import Session Outbound OutboundRefine ConnectProofs ClassProofs Sync SyncProofs.

(* no send on a closed channel and no double close, for any number of concurrent Close/Disconnect callers, publishers, persisted publishers and the read routine, in any interleaving *)
Theorem c12_no_chan_panic : ltac:(let t := type of no_chan_panic_tr in exact t).
Proof. exact no_chan_panic_tr. Qed.
Check c12_no_chan_panic.
Print Assumptions c12_no_chan_panic.

(* once closed, connection control and the write semaphore stay closed *)
Theorem c12_closed_for_good : ltac:(let t := type of closed_for_good in exact t).
Proof. exact closed_for_good. Qed.
Check c12_closed_for_good.
Print Assumptions c12_closed_for_good.

(* connSem closed implies writeSem closed implies the context canceled *)
Theorem c12_closed_implies : ltac:(let t := type of closed_implies in exact t).
Proof. exact closed_implies. Qed.
Check c12_closed_implies.
Print Assumptions c12_closed_implies.

(* after the close every receive on connSem reports closed: Close returns nil, Disconnect and connect ErrClosed *)
Theorem c12_after_close_connsem : ltac:(let t := type of recv_conn_after_close in exact t).
Proof. exact recv_conn_after_close. Qed.
Check c12_after_close_connsem.
Print Assumptions c12_after_close_connsem.

(* ... and every request gets ErrClosed from the write semaphore *)
Theorem c12_after_close_writesem : ltac:(let t := type of recv_write_after_close in exact t).
Proof. exact recv_write_after_close. Qed.
Check c12_after_close_writesem.
Print Assumptions c12_after_close_writesem.

(* a blocked Close/Disconnect waits for a token held by exactly one other goroutine, and no wait-for chain leads back *)
Theorem c12_close_does_not_wait_on_itself : ltac:(let t := type of close_does_not_wait_on_itself in exact t).
Proof. exact close_does_not_wait_on_itself. Qed.
Check c12_close_does_not_wait_on_itself.
Print Assumptions c12_close_does_not_wait_on_itself.

(* the wait-for graph over the four semaphores is acyclic in every state (lock order connSem < seqSem1 < seqSem2 < writeSem) *)
Theorem c12_wait_for_acyclic : ltac:(let t := type of wait_for_acyclic in exact t).
Proof. exact wait_for_acyclic. Qed.
Check c12_wait_for_acyclic.
Print Assumptions c12_wait_for_acyclic.

(* every step of the write-token holder releases or closes the token or gets strictly closer to it (at most 7 of its own steps) *)
Theorem c12_write_holder_progress : ltac:(let t := type of w_holder_step in exact t).
Proof. exact w_holder_step. Qed.
Check c12_write_holder_progress.
Print Assumptions c12_write_holder_progress.

(* and the holder always has an enabled step *)
Theorem c12_write_holder_enabled : ltac:(let t := type of w_holder_enabled in exact t).
Proof. exact w_holder_enabled. Qed.
Check c12_write_holder_enabled.
Print Assumptions c12_write_holder_enabled.

(* without the context check after taking connSem (pinned tree, F20) the monitor reaches a send on a closed sequence semaphore *)
Theorem c12_f20_pinned_refuted : ltac:(let t := type of f20_pinned_refuted in exact t).
Proof. exact f20_pinned_refuted. Qed.
Check c12_f20_pinned_refuted.
Print Assumptions c12_f20_pinned_refuted.

(* Close during the handshake (the F6 schedule): accepted, faithful, no panic *)
Example c12_f6_nonvacuous : ltac:(let t := type of f6_close_during_handshake in exact t).
Proof. exact f6_close_during_handshake. Qed.
(* ReadSlices re-entered after termCallbacks (the F20 schedule): accepted, faithful, no panic *)
Example c12_f20_nonvacuous : ltac:(let t := type of f20_reenter_after_term in exact t).
Proof. exact f20_reenter_after_term. Qed.
(* Disconnect (sequential): nil with DISCONNECT written completely and the connection closed, ErrClosed, ErrDown or ErrSubmit *)
Theorem c12_disconnect_outcomes : ltac:(let t := type of op_disconnect_classes in exact t).
Proof. exact op_disconnect_classes. Qed.
Check c12_disconnect_outcomes.
Print Assumptions c12_disconnect_outcomes.

(* ErrClosed/ErrDown: nothing written *)
Theorem c12_disconnect_not_submitted : ltac:(let t := type of op_disconnect_not_submitted in exact t).
Proof. exact op_disconnect_not_submitted. Qed.
Check c12_disconnect_not_submitted.
Print Assumptions c12_disconnect_not_submitted.

(* every result of every operation in every state is one of the model's error values *)
Theorem c12_errs_in_model : ltac:(let t := type of step_errs_in_model in exact t).
Proof. exact step_errs_in_model. Qed.
Check c12_errs_in_model.
Print Assumptions c12_errs_in_model.


(* ---- bounded progress of the skeleton: Close and Disconnect return ---- *)
(* C12 additions: PROGRESS of the L3 monitor (coq/theories/SyncProgress.v).  To be appended to coq/props/C12.v.
   Environment assumptions are listed at the top of SyncProgress.v: (E1) every I/O gate EIO returns - built into the monitor as: EIO is enabled in every state; in the client: PauseTimeout deadlines, and the waiter closes the connection first (Close K_sel/EDefault, Disconnect D_sel/EQuit, toOffline R_off/EDefault, abort goroutine A_sel/ECtx true); (E2) a started goroutine eventually runs (EStart KAbort); (E3) only the designated goroutine moves. *)
From MQ Require Import Sync SyncProofs SyncProgress.

(* Close returns promptly: from EVERY reachable state there is a schedule of at most 45 enabled events (no new API call) after which the Close call has returned; the state reached is again reachable *)
Theorem c12_close_returns : ltac:(let t := type of close_returns in exact t).
Proof. exact close_returns. Qed.
Check c12_close_returns.
Print Assumptions c12_close_returns.

(* the same for Disconnect, 46 events; quit is never needed (a nil quit is fine) *)
Theorem c12_disconnect_returns : ltac:(let t := type of disconnect_returns in exact t).
Proof. exact disconnect_returns. Qed.
Check c12_disconnect_returns.
Print Assumptions c12_disconnect_returns.

(* game form: in every round a designated goroutine (Close itself, or the goroutine it transitively waits for) has an enabled event, and WHATEVER enabled faithful event it performs (all I/O outcomes, all select branches) the game continues with one round less; 45 rounds *)
Theorem c12_close_must_return : ltac:(let t := type of close_must_return in exact t).
Proof. exact close_must_return. Qed.
Check c12_close_must_return.
Print Assumptions c12_close_must_return.

(* the same for Disconnect, 46 rounds *)
Theorem c12_disconnect_must_return : ltac:(let t := type of disconnect_must_return in exact t).
Proof. exact disconnect_must_return. Qed.
Check c12_disconnect_must_return.
Print Assumptions c12_disconnect_must_return.

(* a won game yields a schedule of enabled faithful events *)
Theorem c12_game_gives_schedule : ltac:(let t := type of must_return_schedule in exact t).
Proof. exact must_return_schedule. Qed.
Check c12_game_gives_schedule.
Print Assumptions c12_game_gives_schedule.

(* all outcomes: every non-panicking event of a goroutine that holds a token (or of a live abort goroutine) strictly decreases its weight (at most 19), except the ECtx-false stutter at P_have *)
Theorem c12_holder_step : ltac:(let t := type of holder_step in exact t).
Proof. exact holder_step. Qed.
Check c12_holder_step.
Print Assumptions c12_holder_step.

(* a goroutine with positive weight is never stuck for good: it or the goroutine it waits for has an enabled potential-decreasing event *)
Theorem c12_holder_progress : ltac:(let t := type of holder_progress in exact t).
Proof. exact holder_progress. Qed.
Check c12_holder_progress.
Print Assumptions c12_holder_progress.

(* all outcomes of the designated goroutine decrease the potential of the state *)
Theorem c12_mover_all_outcomes : ltac:(let t := type of mover_dec in exact t).
Proof. exact mover_dec. Qed.
Check c12_mover_all_outcomes.
Print Assumptions c12_mover_all_outcomes.

(* the potential of every reachable state is at most 39 *)
Theorem c12_potential_bounded : ltac:(let t := type of Phi_bound in exact t).
Proof. exact Phi_bound. Qed.
Check c12_potential_bounded.
Print Assumptions c12_potential_bounded.

(* all four semaphores are available again within 39 enabled events *)
Theorem c12_tokens_released : ltac:(let t := type of tokens_released in exact t).
Proof. exact tokens_released. Qed.
Check c12_tokens_released.
Print Assumptions c12_tokens_released.

(* a blocked goroutine waits for a token held by ANOTHER goroutine of positive weight, or (read routine) for the live abort goroutine, or (abort goroutine) for the read routine in the handshake *)
Theorem c12_blocked_waits_for : ltac:(let t := type of blocked_waits_for in exact t).
Proof. exact blocked_waits_for. Qed.
Check c12_blocked_waits_for.
Print Assumptions c12_blocked_waits_for.

(* a Publish-like request has returned, or sits at the designed wait (connPending seen, client not closed), within 43 enabled events, none of them its own quit *)
Theorem c12_request_settles : ltac:(let t := type of request_settles in exact t).
Proof. exact request_settles. Qed.
Check c12_request_settles.
Print Assumptions c12_request_settles.

(* no goroutine leak: the abort goroutine of dialAndConnect ends (F6 repair) *)
Theorem c12_abort_goroutine_ends : ltac:(let t := type of abort_goroutine_ends in exact t).
Proof. exact abort_goroutine_ends. Qed.
Check c12_abort_goroutine_ends.
Print Assumptions c12_abort_goroutine_ends.

(* the termCallbacks goroutines end *)
Theorem c12_term_goroutine_ends : ltac:(let t := type of term_goroutine_ends in exact t).
Proof. exact term_goroutine_ends. Qed.
Check c12_term_goroutine_ends.
Print Assumptions c12_term_goroutine_ends.

(* pinned tree (F6): with the rendezvous send on done the state reached by Close-during-handshake has no partner for it, for ever; the read routine keeps connSem and Close stays at K_csem whatever all other goroutines do *)
Theorem c12_f6_pinned_close_never_returns : ltac:(let t := type of f6_pinned_close_never_returns in exact t).
Proof. exact f6_pinned_close_never_returns. Qed.
Check c12_f6_pinned_close_never_returns.
Print Assumptions c12_f6_pinned_close_never_returns.

(* that state is reachable by a faithful trace *)
Theorem c12_f6_state_reachable : ltac:(let t := type of f6_state in exact t).
Proof. exact f6_state. Qed.
Check c12_f6_state_reachable.
Print Assumptions c12_f6_state_reachable.

(* non-vacuity: in the same state of the current skeleton Close returns *)
Example c12_f6_current_close_returns : ltac:(let t := type of f6_current_close_returns in exact t).
Proof. exact f6_current_close_returns. Qed.
Check c12_f6_current_close_returns.
Print Assumptions c12_f6_current_close_returns.

