(* C17 — In-flight packet identifiers unique and bounded; excess gets ErrMax, no block.
   Property theorems only.  The state space is every reachable state of the closed system
   client + Persistence (MQ.Outbound.run): any API history under any environment script. *)
From MQ Require Import Session Outbound OutboundInv OutboundRefine SessionTheorems TxCheckProofs.

(* The invariant behind it holds in every reachable state. *)
Theorem c17_invariant : forall s, reachable_wf s -> OInv' (ost_of s).
Proof. exact reachable_wf_inv. Qed.
Print Assumptions c17_invariant.

(* The number of transfers in flight per level never exceeds the configured maximum (<= 16384). *)
Theorem c17_inflight_le_max : forall s, reachable_wf s ->
  let st := ost_of s in
  o_acc1 st - o_acked st <= o_max1 st /\ o_max1 st <= 16384 /\
  o_acc2 st - o_compl st <= o_max2 st /\ o_max2 st <= 16384 /\
  o_acked st <= o_acc1 st /\ o_compl st <= o_recvd st /\ o_recvd st <= o_acc2 st.
Proof. intros s H. apply inflight_le_max, reachable_wf_inv, H. Qed.
Print Assumptions c17_inflight_le_max.

(* Identifiers in flight are pairwise distinct, also across the 14-bit wrap-around ... *)
Theorem c17_ids_distinct_alo : forall s n n', reachable_wf s ->
  o_acked (ost_of s) <= n < o_acc1 (ost_of s) -> o_acked (ost_of s) <= n' < o_acc1 (ost_of s) ->
  n <> n' -> key1 n <> key1 n'.
Proof. intros s n n' H. apply ids_in_flight_distinct, reachable_wf_inv, H. Qed.
Print Assumptions c17_ids_distinct_alo.

Theorem c17_ids_distinct_eo : forall s n n', reachable_wf s ->
  o_compl (ost_of s) <= n < o_acc2 (ost_of s) -> o_compl (ost_of s) <= n' < o_acc2 (ost_of s) ->
  n <> n' -> key2 n <> key2 n'.
Proof. intros s n n' H. apply ids_in_flight_distinct2, reachable_wf_inv, H. Qed.
Print Assumptions c17_ids_distinct_eo.

(* ... non-zero, in the range of their kind, and the two kinds never collide. *)
Theorem c17_ids_range : forall n,
  (key1 n <> 0 /\ 32768 <= key1 n <= 49151 /\ in_space (key1 n) alo_space) /\
  (key2 n <> 0 /\ 49152 <= key2 n <= 65535 /\ in_space (key2 n) eo_space).
Proof. exact ids_in_flight_range. Qed.
Print Assumptions c17_ids_range.

Theorem c17_ids_levels_disjoint : forall n n', key1 n <> key2 n'.
Proof. exact ids_in_flight_levels. Qed.
Print Assumptions c17_ids_levels_disjoint.

(* A new message gets the identifier of its acceptance position: one step accepts at most one. *)
Theorem c17_accept_id : forall st st', ostep st st' -> o_acc1 st' <> o_acc1 st ->
  o_acc1 st' = o_acc1 st + 1.
Proof. intros st st' H Hn. destruct (accept_id1 _ _ H Hn) as [E _]. exact E. Qed.
Print Assumptions c17_accept_id.

(* ---- subscribe/unsubscribe identifiers (13-bit counter, skip on collision, limit 512) ---- *)
(* ---- to append to coq/props/C17.v ----
   needs, in addition to the imports already there:                                  *)
From Coq Require Import List.
From RecordUpdate Require Import RecordUpdate.
From MQ Require Import InboundProofs TxIds.

(* Subscribe/Unsubscribe identifiers (request.go unorderedTxs): in every reachable state of the
   closed system -- any API history, OpAdopt included, under any environment script -- the
   pending requests have pairwise distinct, non-zero 16-bit identifiers, each in the address
   space of its kind, and there are at most 512 of them. *)
Theorem c17_tx_invariant : forall s, reachable s -> TxInv (sy_c s).
Proof. exact reachable_TxInv. Qed.
Print Assumptions c17_tx_invariant.

(* the same for every client state the sequential interface can reach under ANY worlds (scripted,
   i.e. arbitrary/hostile Persistence answers included) *)
Theorem c17_tx_invariant_any_world : forall c, reach c -> TxInv c.
Proof. exact reach_TxInv. Qed.
Print Assumptions c17_tx_invariant_any_world.

(* one step: every operation, every world *)
Theorem c17_tx_step : forall c o w c' r w',
  TxInv c -> step c o w = Some ((c', r), w') -> TxInv c'.
Proof. exact step_TxInv. Qed.
Print Assumptions c17_tx_step.

(* a fresh client (InitSession, AdoptSession) has no pending request *)
Theorem c17_tx_init : forall cf cid w c r w', op_init cf cid w = Some ((Some c, r), w') -> TxInv c.
Proof. exact op_init_TxInv. Qed.
Print Assumptions c17_tx_init.
Theorem c17_tx_adopt : forall cf z1 z2 w c r w', op_adopt cf z1 z2 w = Some ((Some c, r), w') -> TxInv c.
Proof. exact op_adopt_TxInv. Qed.
Print Assumptions c17_tx_adopt.

(* the invariant spelled out *)
Theorem c17_tx_distinct : forall c t t',
  TxInv c -> In t (k_txs c) -> In t' (k_txs c) -> tx_pid t = tx_pid t' -> t = t'.
Proof. exact TxInv_distinct. Qed.
Print Assumptions c17_tx_distinct.

Theorem c17_tx_range : forall c t, TxInv c -> In t (k_txs c) ->
  tx_pid t <> 0 /\
  match snd t with
  | Some _ => 24576 <= tx_pid t < 32768
  | None => 16384 <= tx_pid t < 24576
  end.
Proof. exact TxInv_range. Qed.
Print Assumptions c17_tx_range.

Theorem c17_tx_limit : forall c, TxInv c -> (length (k_txs c) <= 512)%nat.
Proof. exact TxInv_limit. Qed.
Print Assumptions c17_tx_limit.

(* startTx: with fewer pending requests than fuel the search ends (the fuel-exhaustion branch of
   the model, which the unbounded Go loop does not have, is unreachable), after at most as many
   skips as there are pending requests, with an identifier of the requested space that no pending
   request holds; only the counter changes *)
Theorem c17_tx_pick_fresh : forall space (fuel : nat) c c' pid,
  un_space space -> (length (k_txs c) < fuel)%nat -> N.of_nat fuel <= 8192 ->
  tx_pick fuel c space = (c', pid) ->
  ~ In pid (pids c) /\ pid <> 0 /\ pid < 65536 /\ in_un_space pid space /\
  c' = c <| k_txn := k_txn c' |> /\
  exists i : nat, (i <= length (k_txs c))%nat /\ pid = cand space (k_txn c + N.of_nat i) /\
                  k_txn c' = k_txn c + N.of_nat i + 1.
Proof. exact tx_pick_fresh. Qed.
Print Assumptions c17_tx_pick_fresh.

(* what Subscribe/Unsubscribe does to the pending set (no precondition at all): an error return
   leaves it exactly as it was (ErrMax only with 512 pending); otherwise fewer than 512 were
   pending and one entry with a fresh identifier of the right space was added *)
Theorem c17_subscribe_post : forall c sub level fs w c' r w',
  op_subscribe c sub level fs w = Some ((c', r), w') -> sub_post c sub fs (c', r).
Proof. intros c sub level fs w c' r w' H. exact (proj2 (op_subscribe_post c sub level fs _ _ _ H)). Qed.
Print Assumptions c17_subscribe_post.

(* excess gets ErrMax: with valid arguments, exactly when 512 requests are pending (the test comes
   before lockWrite: also on a closed or disconnected client) ... *)
Theorem c17_subscribe_errmax_iff : forall c sub level fs w c' r w',
  sub_args_ok sub fs -> op_subscribe c sub level fs w = Some ((c', r), w') ->
  (r = RetErr E_max <-> (tx_limit <= length (k_txs c))%nat).
Proof. exact op_subscribe_errmax. Qed.
Print Assumptions c17_subscribe_errmax_iff.

(* ... and without any call to the outside world: no block, nothing written *)
Theorem c17_subscribe_errmax_silent : forall c sub level fs w c' w',
  op_subscribe c sub level fs w = Some ((c', RetErr E_max), w') ->
  w' = w /\ k_txs c' = k_txs c /\ (tx_limit <= length (k_txs c))%nat.
Proof. exact op_subscribe_errmax_silent. Qed.
Print Assumptions c17_subscribe_errmax_silent.

(* non-vacuity: a connected client with three pending Subscribes (the third one skipped two taken
   candidates after the counter wrapped) and one Unsubscribe; it satisfies the invariant *)
Example c17_tx_nonvacuous :
  ex_tx_run = Some ([(16384 + 2, 3, None); (24576 + 1, 2, Some [[100]]);
                     (24576, 1, Some [[98]; [99]]); (24576 + 8191, 0, Some [[97]])], 8195).
Proof. exact tx_example. Qed.

(* the model side of the startTx tie (runner C17TX) meets the judgement tx_ok for EVERY table and
   counter: identifier free, non-zero, in the space of its kind; ErrMax exactly above 511 pending *)
Theorem c17_tx_model_meets_tx_ok : ltac:(let t := type of tx_model_meets_tx_ok in exact t).
Proof. exact tx_model_meets_tx_ok. Qed.
Check c17_tx_model_meets_tx_ok.
Print Assumptions c17_tx_model_meets_tx_ok.
