(* C17 — In-flight packet identifiers unique and bounded; excess gets ErrMax, no block.
   Property theorems only.  The state space is every reachable state of the closed system
   client + Persistence (MQ.Outbound.run): any API history under any environment script. *)
From MQ Require Import Session Outbound OutboundInv OutboundRefine SessionTheorems.

(* The invariant behind it holds in every reachable state. *)
Theorem c17_invariant : forall s, reachable_wf s -> OInv' (ost_of s).
Proof. exact reachable_wf_inv. Qed.
Print Assumptions c17_invariant.

(* The number of transfers in flight per level never exceeds the configured maximum (<= 16384). *)
Theorem c17_inflight_le_max : forall s, reachable_wf s ->
  let st := ost_of s in
  o_acc1 st - o_acked st <= o_max1 st /\ o_max1 st <= 16384 /\
  o_acc2 st - o_compl st <= o_max2 st /\ o_max2 st <= 16384 /\
  o_acked st <= o_acc1 st /\ o_compl st <= o_recvd st /\ o_recvd st <= o_acc2 st.
Proof. intros s H. apply inflight_le_max, reachable_wf_inv, H. Qed.
Print Assumptions c17_inflight_le_max.

(* Identifiers in flight are pairwise distinct, also across the 14-bit wrap-around ... *)
Theorem c17_ids_distinct_alo : forall s n n', reachable_wf s ->
  o_acked (ost_of s) <= n < o_acc1 (ost_of s) -> o_acked (ost_of s) <= n' < o_acc1 (ost_of s) ->
  n <> n' -> key1 n <> key1 n'.
Proof. intros s n n' H. apply ids_in_flight_distinct, reachable_wf_inv, H. Qed.
Print Assumptions c17_ids_distinct_alo.

Theorem c17_ids_distinct_eo : forall s n n', reachable_wf s ->
  o_compl (ost_of s) <= n < o_acc2 (ost_of s) -> o_compl (ost_of s) <= n' < o_acc2 (ost_of s) ->
  n <> n' -> key2 n <> key2 n'.
Proof. intros s n n' H. apply ids_in_flight_distinct2, reachable_wf_inv, H. Qed.
Print Assumptions c17_ids_distinct_eo.

(* ... non-zero, in the range of their kind, and the two kinds never collide. *)
Theorem c17_ids_range : forall n,
  (key1 n <> 0 /\ 32768 <= key1 n <= 49151 /\ in_space (key1 n) alo_space) /\
  (key2 n <> 0 /\ 49152 <= key2 n <= 65535 /\ in_space (key2 n) eo_space).
Proof. exact ids_in_flight_range. Qed.
Print Assumptions c17_ids_range.

Theorem c17_ids_levels_disjoint : forall n n', key1 n <> key2 n'.
Proof. exact ids_in_flight_levels. Qed.
Print Assumptions c17_ids_levels_disjoint.

(* A new message gets the identifier of its acceptance position: one step accepts at most one. *)
Theorem c17_accept_id : forall st st', ostep st st' -> o_acc1 st' <> o_acc1 st ->
  o_acc1 st' = o_acc1 st + 1.
Proof. intros st st' H Hn. destruct (accept_id1 _ _ H Hn) as [E _]. exact E. Qed.
Print Assumptions c17_accept_id.
