(* C16 — A damaged Persistence never bricks the session: adopt, warn, connect, go on.
   Property theorems only; the statements are those of the named lemmas (printed by Check),
   each for ALL client states and ALL environment scripts unless it says otherwise. *)
From MQ Require Import Session Outbound OutboundInv OutboundRefine AdoptProofs RecordProofs.

(* for ANY Persistence content (arbitrary byte strings under arbitrary keys), with no Persistence failure, AdoptSession terminates; every undecodable record under a non-zero key is deleted and counted in the warnings, everything else is kept (the only other outcome needs a record forged with a valid checksum over an empty packet) *)
Theorem c16_adopt_total : ltac:(let t := type of adopt_total_genuine in exact t).
Proof. exact adopt_total_genuine. Qed.
Check c16_adopt_total.
Print Assumptions c16_adopt_total.

(* a record altered in one byte never decodes (C15), so damage is always seen as undecodable *)
Theorem c16_single_byte_damage_is_undecodable : ltac:(let t := type of single_byte_damage in exact t).
Proof. exact single_byte_damage. Qed.
Check c16_single_byte_damage_is_undecodable.
Print Assumptions c16_single_byte_damage_is_undecodable.

(* a record cut below 12 bytes never decodes *)
Theorem c16_truncated_is_undecodable : ltac:(let t := type of short_rejected in exact t).
Proof. exact short_rejected. Qed.
Check c16_truncated_is_undecodable.
Print Assumptions c16_truncated_is_undecodable.

(* removing undecodable records leaves every decodable record as it was *)
Theorem c16_purge_keeps_good_records : ltac:(let t := type of purge_keeps in exact t).
Proof. exact purge_keeps. Qed.
Check c16_purge_keeps_good_records.
Print Assumptions c16_purge_keeps_good_records.

(* AdoptSession changes the Persistence only by deleting undecodable records *)
Theorem c16_adopt_changes_store_only_by_purge : ltac:(let t := type of op_adopt_trip in exact t).
Proof. exact op_adopt_trip. Qed.
Check c16_adopt_changes_store_only_by_purge.
Print Assumptions c16_adopt_changes_store_only_by_purge.

(* on a consistent Persistence (invariant OInv') adoption is exact: what remains after a purge of an otherwise consistent store is handled by the gap rules (judged on histories) *)
Theorem c16_adopt_of_consistent_store : ltac:(let t := type of adopt_exact in exact t).
Proof. exact adopt_exact. Qed.
Check c16_adopt_of_consistent_store.
Print Assumptions c16_adopt_of_consistent_store.


(* ---- after adopting a damaged store: invariant, connect, new publishes, reception ---- *)
(* C16 — additions for props/C16.v: what the client returned by AdoptSession on an
   ARBITRARILY damaged Persistence can do afterwards.
   To be appended to coq/props/C16.v; needs
     From MQ Require Import AdoptDamaged ResendOrder InboundTie.
   Store hypotheses used below (coq/theories/AdoptDamaged.v):
     sorted_keys m      a finite map (ascending keys)
     bytes_store m      of byte strings
     rel_in_space m     a decodable PUBREL-headed record lives in the exactly-once key space
                        (true of every record the client wrote; false only for a record FORGED
                        with a valid checksum: c16_forged_pubrel_bricks)
     cid_ok m           key 0 decodes or is absent (damaged: known finding F15)
   Nothing else is assumed about which records decode. *)
From MQ Require Import Session Outbound OutboundInv OutboundRefine AdoptProofs RecordProofs
     ResendOrder InboundTie AdoptDamaged.

(* a byte string that decodes IS encode_value of its packet and storage number: "decodable" = "genuinely saved record" (no third kind) *)
Theorem c16_decodable_is_genuine : ltac:(let t := type of decode_inv in exact t).
Proof. exact decode_inv. Qed.
Check c16_decodable_is_genuine.
Print Assumptions c16_decodable_is_genuine.

(* shape of the adopted client on ANY store: the three kept runs are windows of consecutive keys, each key holding a decodable record of its kind in the original store, in non-decreasing storage order; every deletion is counted in the warnings *)
Theorem c16_adopted_shape : ltac:(let t := type of adopted_shape in exact t).
Proof. exact adopted_shape. Qed.
Check c16_adopted_shape.
Print Assumptions c16_adopted_shape.

(* (a) the adopted state (client + purged store) satisfies DInv = OInv' minus "nothing else lives in the publish key spaces" (skipped records are not deleted) minus strictness of the storage order; windows hold records of the ORIGINAL store in the order saved; the storage counter continues above every record left *)
Theorem c16_adopted_inv : ltac:(let t := type of Adopted_inv in exact t).
Proof. exact Adopted_inv. Qed.
Check c16_adopted_inv.
Print Assumptions c16_adopted_inv.

(* DInv is weaker than the working invariant OInv' ... *)
Theorem c16_dinv_weaker_than_oinv : ltac:(let t := type of OInv'_DInv in exact t).
Proof. exact OInv'_DInv. Qed.
Check c16_dinv_weaker_than_oinv.
Print Assumptions c16_dinv_weaker_than_oinv.

(* ... is kept by every abstract outbound step (no bound on the storage counter needed) ... *)
Theorem c16_dinv_step : ltac:(let t := type of dinv_step in exact t).
Proof. exact dinv_step. Qed.
Check c16_dinv_step.
Print Assumptions c16_dinv_step.

(* ... hence by every later API call under every environment script: the adopted client goes on *)
Theorem c16_dinv_every_history : ltac:(let t := type of dinv_run in exact t).
Proof. exact dinv_run. Qed.
Check c16_dinv_every_history.
Print Assumptions c16_dinv_every_history.

(* OInv' itself fails after adoption of a store with a gap, exactly by the clause "nothing else lives in the publish key spaces": the record before the gap is skipped with a warning and stays *)
Theorem c16_leftover_stays : ltac:(let t := type of leftover_stays in exact t).
Proof. exact leftover_stays. Qed.
Check c16_leftover_stays.
Print Assumptions c16_leftover_stays.

(* (b) every environment: a connect of a client in DInv ends as one of the constructors of connect_run: success, or a failure of the environment (key-0 Load, Dialer, CONNECT/CONNACK, a Write, an injected Load failure); never "gone missing", never a corrupt record *)
Theorem c16_adopted_connect_any_environment : ltac:(let t := type of adopted_connect_any in exact t).
Proof. exact adopted_connect_any. Qed.
Check c16_adopted_connect_any_environment.
Print Assumptions c16_adopted_connect_any_environment.

(* (b) accepting broker, any client in DInv whose submit counters have caught up: connect succeeds and the calls are exactly Load 0, Dial, CONNECT, Read, then per sequence number of the two windows, in order, Load + ONE Write of the stored packet (DUP set) *)
Theorem c16_connect_accepting_broker : ltac:(let t := type of connect_acc in exact t).
Proof. exact connect_acc. Qed.
Check c16_connect_accepting_broker.
Print Assumptions c16_connect_accepting_broker.

(* (b) the client AdoptSession returned on an arbitrary store connects; the wire shows CONNECT, then exactly the packets of the surviving records of the ORIGINAL store, window by window in storage order *)
Theorem c16_adopted_connects : ltac:(let t := type of adopted_connects in exact t).
Proof. exact adopted_connects. Qed.
Check c16_adopted_connects.
Print Assumptions c16_adopted_connects.

(* (c) any client in DInv: an accepted persisted publish saves under the key of the accept counter, which lies outside BOTH windows (and is neither key 0 nor a marker key): no record of a window is overwritten; a leftover under that key is replaced; DInv again *)
Theorem c16_publish_after_adoption_fresh : ltac:(let t := type of dinv_publish_fresh in exact t).
Proof. exact dinv_publish_fresh. Qed.
Check c16_publish_after_adoption_fresh.
Print Assumptions c16_publish_after_adoption_fresh.

(* (c) for the adopted client: the window records it leaves untouched are those of the original store *)
Theorem c16_adopted_accepts_new : ltac:(let t := type of adopted_accepts_new in exact t).
Proof. exact adopted_accepts_new. Qed.
Check c16_adopted_accepts_new.
Print Assumptions c16_adopted_accepts_new.

(* (d) after adoption every record under a marker key decodes (InboundTie.mdec, the invariant of the inbound tie) ... *)
Theorem c16_adopted_markers_decode : ltac:(let t := type of adopted_mdec in exact t).
Proof. exact adopted_mdec. Qed.
Check c16_adopted_markers_decode.
Print Assumptions c16_adopted_markers_decode.

(* ... so the marker Load of an inbound exactly-once PUBLISH never fails: with no acknowledgement pending the only error on_publish reports is a protocol violation of the packet itself *)
Theorem c16_adopted_receives : ltac:(let t := type of adopted_receives in exact t).
Proof. exact adopted_receives. Qed.
Check c16_adopted_receives.
Print Assumptions c16_adopted_receives.

(* boundary (outside the quantifier: "not: records forged with a valid checksum"): a PUBREL record with a valid checksum under a key outside the exactly-once space is adopted as a pending release; every connect then fails on "gone missing" *)
Theorem c16_forged_pubrel_bricks : ltac:(let t := type of forged_pubrel_bricks in exact t).
Proof. exact forged_pubrel_bricks. Qed.
Check c16_forged_pubrel_bricks.
Print Assumptions c16_forged_pubrel_bricks.

(* non-vacuity: a store with a stray entry, the middle record of the at-least-once run altered in one byte and a truncated marker satisfies every store hypothesis *)
Example c16_damaged_store_hypotheses : ltac:(let t := type of exd_hypotheses in exact t).
Proof. exact exd_hypotheses. Qed.
Print Assumptions c16_damaged_store_hypotheses.

(* ... and on it (vm_compute): four warnings (three deletions, one gap), the record before the gap stays, connect writes CONNECT and the one surviving PUBLISH with DUP, the next publish gets identifier 0x8003 and leaves both old records alone *)
Example c16_damaged_store_run : ltac:(let t := type of exd_run in exact t).
Proof. exact exd_run. Qed.
Check c16_damaged_store_run.
Print Assumptions c16_damaged_store_run.
