(* C16 — A damaged Persistence never bricks the session: adopt, warn, connect, go on.
   Property theorems only; the statements are those of the named lemmas (printed by Check),
   each for ALL client states and ALL environment scripts unless it says otherwise. *)
From MQ Require Import Session Outbound OutboundInv OutboundRefine AdoptProofs RecordProofs.

(* for ANY Persistence content (arbitrary byte strings under arbitrary keys), with no Persistence failure, AdoptSession terminates; every undecodable record under a non-zero key is deleted and counted in the warnings, everything else is kept (the only other outcome needs a record forged with a valid checksum over an empty packet) *)
Theorem c16_adopt_total : ltac:(let t := type of adopt_total_genuine in exact t).
Proof. exact adopt_total_genuine. Qed.
Check c16_adopt_total.
Print Assumptions c16_adopt_total.

(* a record altered in one byte never decodes (C15), so damage is always seen as undecodable *)
Theorem c16_single_byte_damage_is_undecodable : ltac:(let t := type of single_byte_damage in exact t).
Proof. exact single_byte_damage. Qed.
Check c16_single_byte_damage_is_undecodable.
Print Assumptions c16_single_byte_damage_is_undecodable.

(* a record cut below 12 bytes never decodes *)
Theorem c16_truncated_is_undecodable : ltac:(let t := type of short_rejected in exact t).
Proof. exact short_rejected. Qed.
Check c16_truncated_is_undecodable.
Print Assumptions c16_truncated_is_undecodable.

(* removing undecodable records leaves every decodable record as it was *)
Theorem c16_purge_keeps_good_records : ltac:(let t := type of purge_keeps in exact t).
Proof. exact purge_keeps. Qed.
Check c16_purge_keeps_good_records.
Print Assumptions c16_purge_keeps_good_records.

(* AdoptSession changes the Persistence only by deleting undecodable records *)
Theorem c16_adopt_changes_store_only_by_purge : ltac:(let t := type of op_adopt_trip in exact t).
Proof. exact op_adopt_trip. Qed.
Check c16_adopt_changes_store_only_by_purge.
Print Assumptions c16_adopt_changes_store_only_by_purge.

(* on a consistent Persistence (invariant OInv') adoption is exact: what remains after a purge of an otherwise consistent store is handled by the gap rules (judged on histories) *)
Theorem c16_adopt_of_consistent_store : ltac:(let t := type of adopt_exact in exact t).
Proof. exact adopt_exact. Qed.
Check c16_adopt_of_consistent_store.
Print Assumptions c16_adopt_of_consistent_store.

