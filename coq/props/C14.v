(* C14 — Errors stay in documented classes; 'not submitted' means no byte was sent.
   Property theorems only; the statements are those of the named lemmas (printed by Check),
   each for ALL client states and ALL environment scripts unless it says otherwise. *)
From MQ Require Import Session Outbound OutboundRefine ConnectProofs ClassProofs ErrTree ErrTreeProofs ErrTreeTheorems TermCheck TermCheckProofs.

(* a result among IsDeny, ErrClosed, ErrDown, ErrMax, ErrCanceled leaves the world exactly as it was: no byte written *)
Theorem c14_not_submitted_nothing_written : ltac:(let t := type of not_submitted_nothing_written in exact t).
Proof. exact not_submitted_nothing_written. Qed.
Check c14_not_submitted_nothing_written.
Print Assumptions c14_not_submitted_nothing_written.

(* the possible outcomes of a request *)
Theorem c14_request_outcomes : ltac:(let t := type of req_outcome_classes in exact t).
Proof. exact req_outcome_classes. Qed.
Check c14_request_outcomes.
Print Assumptions c14_request_outcomes.

(* Publish: nil, IsDeny, ErrClosed, ErrDown (ErrCanceled by quit) or ErrSubmit; never ErrMax *)
Theorem c14_publish_classes : ltac:(let t := type of op_publish_classes in exact t).
Proof. exact op_publish_classes. Qed.
Check c14_publish_classes.
Print Assumptions c14_publish_classes.

(* Subscribe/Unsubscribe: also ErrMax *)
Theorem c14_subscribe_classes : ltac:(let t := type of op_subscribe_classes in exact t).
Proof. exact op_subscribe_classes. Qed.
Check c14_subscribe_classes.
Print Assumptions c14_subscribe_classes.

(* Ping: never IsDeny *)
Theorem c14_ping_classes : ltac:(let t := type of op_ping_classes in exact t).
Proof. exact op_ping_classes. Qed.
Check c14_ping_classes.
Print Assumptions c14_ping_classes.

(* Disconnect: nil, ErrClosed, ErrDown or ErrSubmit *)
Theorem c14_disconnect_classes : ltac:(let t := type of op_disconnect_classes in exact t).
Proof. exact op_disconnect_classes. Qed.
Check c14_disconnect_classes.
Print Assumptions c14_disconnect_classes.

(* a quit signal leads only to ErrCanceled (not yet sent) or ErrAbandoned (sent) *)
Theorem c14_quit_classes : ltac:(let t := type of op_quit_classes in exact t).
Proof. exact op_quit_classes. Qed.
Check c14_quit_classes.
Print Assumptions c14_quit_classes.

(* a persisted publish that returns an error (IsDeny, ErrClosed, ErrMax or the Save error) was not enqueued, wrote nothing and left the Persistence as it was *)
Theorem c14_persisted_error_not_enqueued : ltac:(let t := type of op_publish_persisted_error_not_enqueued in exact t).
Proof. exact op_publish_persisted_error_not_enqueued. Qed.
Check c14_persisted_error_not_enqueued.
Print Assumptions c14_persisted_error_not_enqueued.

(* an accepted one saved exactly one record and joined its queue *)
Theorem c14_persisted_accepted : ltac:(let t := type of op_publish_persisted_accepted in exact t).
Proof. exact op_publish_persisted_accepted. Qed.
Check c14_persisted_accepted.
Print Assumptions c14_persisted_accepted.

(* requests complete with nil, SubscribeError, ErrBreak, ErrDown, ErrClosed, ErrCanceled or ErrAbandoned only *)
Theorem c14_completion_classes : ltac:(let t := type of completion_classes in exact t).
Proof. exact completion_classes. Qed.
Check c14_completion_classes.
Print Assumptions c14_completion_classes.

(* ErrCanceled/ErrAbandoned arise only from a quit *)
Theorem c14_canceled_only_by_quit : ltac:(let t := type of canceled_only_by_quit in exact t).
Proof. exact canceled_only_by_quit. Qed.
Check c14_canceled_only_by_quit.
Print Assumptions c14_canceled_only_by_quit.

(* IsDeny and IsEnd are disjoint on every error value the model produces *)
Theorem c14_deny_end_disjoint : ltac:(let t := type of deny_end_disjoint_model in exact t).
Proof. exact deny_end_disjoint_model. Qed.
Check c14_deny_end_disjoint.
Print Assumptions c14_deny_end_disjoint.

(* ... hence on every result of every operation *)
Theorem c14_step_deny_end_disjoint : ltac:(let t := type of step_deny_end_disjoint in exact t).
Proof. exact step_deny_end_disjoint. Qed.
Check c14_step_deny_end_disjoint.
Print Assumptions c14_step_deny_end_disjoint.

(* the classifier finds a target iff it occurs in the wrap/join tree (arbitrarily wrapped and joined) *)
Theorem c14_is_any_iff : ltac:(let t := type of c14_is_any_iff in exact t).
Proof. exact c14_is_any_iff. Qed.
Check c14_is_any_iff.
Print Assumptions c14_is_any_iff.

(* IsDeny/IsEnd disjoint on every error shape the library builds *)
Theorem c14_lib_deny_end_disjoint : ltac:(let t := type of c14_lib_deny_end_disjoint in exact t).
Proof. exact c14_lib_deny_end_disjoint. Qed.
Check c14_lib_deny_end_disjoint.
Print Assumptions c14_lib_deny_end_disjoint.

(* Backoff returns nil exactly for nil, IsDeny, IsEnd and SubscribeError (without ErrMax) *)
Theorem c14_backoff_nil_iff : ltac:(let t := type of c14_backoff_nil_iff in exact t).
Proof. exact c14_backoff_nil_iff. Qed.
Check c14_backoff_nil_iff.
Print Assumptions c14_backoff_nil_iff.

(* ReadBackoff returns nil exactly for ErrClosed (no big message pending) *)
Theorem c14_read_backoff_nil_iff_closed : ltac:(let t := type of c14_read_backoff_nil_iff_closed in exact t).
Proof. exact c14_read_backoff_nil_iff_closed. Qed.
Check c14_read_backoff_nil_iff_closed.
Print Assumptions c14_read_backoff_nil_iff_closed.


(* Close/Disconnect with a transport whose Close may fail, every script of the DISCONNECT write:
   each outcome is nil, ErrClosed, ErrDown, ErrCanceled or ErrSubmit; the first three without a byte sent *)
Theorem c14_disconnect_close_failure_classes : ltac:(let t := type of term_model_in_contract in exact t).
Proof. exact term_model_in_contract. Qed.
Check c14_disconnect_close_failure_classes.
Print Assumptions c14_disconnect_close_failure_classes.

(* the Close/Disconnect micro-model refines the session model: whatever Session.op_disconnect returns,
   in any state under any world, is an outcome term_model allows for that state *)
Theorem c14_session_disconnect_in_term_model : ltac:(let t := type of session_disconnect_in_term_model in exact t).
Proof. exact session_disconnect_in_term_model. Qed.
Check c14_session_disconnect_in_term_model.
Print Assumptions c14_session_disconnect_in_term_model.

Theorem c14_session_close_in_term_model : ltac:(let t := type of session_close_in_term_model in exact t).
Proof. exact session_close_in_term_model. Qed.
Check c14_session_close_in_term_model.
Print Assumptions c14_session_close_in_term_model.
