(* C18 — Connection set-up: CONNECT first, clean session once, resend before new.
   Property theorems only; the statements are those of the named lemmas (printed by Check),
   each for ALL client states and ALL environment scripts unless it says otherwise. *)
From MQ Require Import Session Outbound OutboundRefine ConnectProofs ClassProofs.

(* every connect attempt: Load of the client identifier, Dial, then only writes forming (a prefix of) the CONNECT built from Config and the stored identifier, then only reads (the CONNACK), then either close (no other write ever) or the resends in order and Online *)
Theorem c18_connect_log_shape : ltac:(let t := type of connect_log_shape in exact t).
Proof. exact connect_log_shape. Qed.
Check c18_connect_log_shape.
Print Assumptions c18_connect_log_shape.

(* the handshake verdict is a function of the CONNECT write result and the four bytes peeked *)
Theorem c18_handshake_rejects : ltac:(let t := type of handshake_rejects in exact t).
Proof. exact handshake_rejects. Qed.
Check c18_handshake_rejects.
Print Assumptions c18_handshake_rejects.

(* accepted iff 0x20 0x02 flags 0x00 with flags 0, or 1 when no clean session was requested *)
Theorem c18_accept_iff : ltac:(let t := type of hs_class_ok_iff in exact t).
Proof. exact hs_class_ok_iff. Qed.
Check c18_accept_iff.
Print Assumptions c18_accept_iff.

(* return codes 1-255 give IsConnectionRefused *)
Theorem c18_refused : ltac:(let t := type of hs_class_refused in exact t).
Proof. exact hs_class_refused. Qed.
Check c18_refused.
Print Assumptions c18_refused.

(* a wrong fixed header is a protocol violation *)
Theorem c18_wrong_header : ltac:(let t := type of hs_class_wrong_header in exact t).
Proof. exact hs_class_wrong_header. Qed.
Check c18_wrong_header.
Print Assumptions c18_wrong_header.

(* reserved flags, or session-present for a clean request, are protocol violations *)
Theorem c18_bad_flags : ltac:(let t := type of hs_class_bad_flags in exact t).
Proof. exact hs_class_bad_flags. Qed.
Check c18_bad_flags.
Print Assumptions c18_bad_flags.

(* a missing CONNACK (EOF) is reported as broker termination *)
Theorem c18_eof : ltac:(let t := type of hs_class_eof in exact t).
Proof. exact hs_class_eof. Qed.
Check c18_eof.
Print Assumptions c18_eof.

(* every rejected handshake closes that connection and leaves the client Down *)
Theorem c18_reject_closes : ltac:(let t := type of connect_hs_err_closes in exact t).
Proof. exact connect_hs_err_closes. Qed.
Check c18_reject_closes.
Print Assumptions c18_reject_closes.

(* CleanSession is requested iff configured and no connection was established before *)
Theorem c18_clean_session_once : ltac:(let t := type of clean_session_once in exact t).
Proof. exact clean_session_once. Qed.
Check c18_clean_session_once.
Print Assumptions c18_clean_session_once.

(* after a successful connect it is never requested again *)
Theorem c18_no_more_clean : ltac:(let t := type of connect_ok_no_more_clean in exact t).
Proof. exact connect_ok_no_more_clean. Qed.
Check c18_no_more_clean.
Print Assumptions c18_no_more_clean.

(* the established-before mark is never cleared by any operation of this client *)
Theorem c18_csem_monotone : ltac:(let t := type of step_csem_monotone in exact t).
Proof. exact step_csem_monotone. Qed.
Check c18_csem_monotone.
Print Assumptions c18_csem_monotone.

(* requests waiting for the connect attempt get ErrDown when it fails *)
Theorem c18_failed_attempt_releases_waiters : ltac:(let t := type of connect_failure_releases in exact t).
Proof. exact connect_failure_releases. Qed.
Check c18_failed_attempt_releases_waiters.
Print Assumptions c18_failed_attempt_releases_waiters.

