(* C13 — Hostile broker input: no panic, reset on violation, no forged progress.
   Property theorems only; the statements are those of the named lemmas (printed by Check),
   each for ALL client states and ALL environment scripts unless it says otherwise. *)
From MQ Require Import Session Outbound OutboundRefine ConnectProofs ClassProofs.

(* every listed violation (reserved and client-only packet types, second CONNACK, zero/foreign/out-of-order/unsolicited identifiers, wrong lengths, illegal SUBACK codes, QoS 3) is a protocol-reset error *)
Theorem c13_violation_resets : ltac:(let t := type of dispatch_violation_resets in exact t).
Proof. exact dispatch_violation_resets. Qed.
Check c13_violation_resets.
Print Assumptions c13_violation_resets.

(* any packet type outside the eight a broker may send is a protocol-reset error *)
Theorem c13_other_types : ltac:(let t := type of dispatch_other_type in exact t).
Proof. exact dispatch_other_type. Qed.
Check c13_other_types.
Print Assumptions c13_other_types.

(* a SUBACK with a wrong number of return codes resets the connection and fails the request with ErrBreak *)
Theorem c13_suback_count : ltac:(let t := type of on_suback_count_mismatch in exact t).
Proof. exact on_suback_count_mismatch. Qed.
Check c13_suback_count.
Print Assumptions c13_suback_count.

(* every handler error makes ReadSlices close the connection, go offline and return the error *)
Theorem c13_error_resets : ltac:(let t := type of read_loop_handler_error_resets in exact t).
Proof. exact read_loop_handler_error_resets. Qed.
Check c13_error_resets.
Print Assumptions c13_error_resets.

(* the same on the big-message path *)
Theorem c13_big_error_resets : ltac:(let t := type of read_loop_big_error_resets in exact t).
Proof. exact read_loop_big_error_resets. Qed.
Check c13_big_error_resets.
Print Assumptions c13_big_error_resets.

(* a remaining length of more than four bytes is a protocol reset *)
Theorem c13_remlen_resets : ltac:(let t := type of read_loop_remlen_resets in exact t).
Proof. exact read_loop_remlen_resets. Qed.
Check c13_remlen_resets.
Print Assumptions c13_remlen_resets.

(* after a reset the next ReadSlices starts with a fresh connect (Load, Dial) *)
Theorem c13_redial : ltac:(let t := type of read_slices_redials in exact t).
Proof. exact read_slices_redials. Qed.
Check c13_redial.
Print Assumptions c13_redial.

(* counters advance, queue heads are released and records of the publish spaces are deleted only by the in-order acknowledgement that passed all guards *)
Theorem c13_no_forged_progress : ltac:(let t := type of no_forged_progress in exact t).
Proof. exact no_forged_progress. Qed.
Check c13_no_forged_progress.
Print Assumptions c13_no_forged_progress.

(* corollary: counters move only in order *)
Theorem c13_counters_in_order : ltac:(let t := type of counters_move_only_in_order in exact t).
Proof. exact counters_move_only_in_order. Qed.
Check c13_counters_in_order.
Print Assumptions c13_counters_in_order.

(* corollary: records are deleted only in order *)
Theorem c13_records_in_order : ltac:(let t := type of publish_records_deleted_only_in_order in exact t).
Proof. exact publish_records_deleted_only_in_order. Qed.
Check c13_records_in_order.
Print Assumptions c13_records_in_order.

(* corollary: exchanges are released only in order *)
Theorem c13_release_in_order : ltac:(let t := type of release_only_in_order in exact t).
Proof. exact release_only_in_order. Qed.
Check c13_release_in_order.
Print Assumptions c13_release_in_order.

(* totality with explicit classes: every result, completion and exchange error of every operation is one of the model's finite error values (no panic value exists in the model; panics of the implementation are events of the harness) *)
Theorem c13_errs_in_model : ltac:(let t := type of step_errs_in_model in exact t).
Proof. exact step_errs_in_model. Qed.
Check c13_errs_in_model.
Print Assumptions c13_errs_in_model.


(* ---- every mid-packet read has a deadline (PauseTimeout) ---- *)
(* ---- to append to coq/props/C13.v (the same block fits coq/props/C10.v) ----
   needs, in addition to the imports already there:                                  *)
From Coq Require Import List.
From MQ Require Import Reader ReaderProofs ArmedReads.

(* "Never waits beyond PauseTimeout": which conn.Read calls carry a read deadline.

   L1, Reader.v: any reader state, any connection script.
   peekPacket with a PauseTimeout: the log of conn.Read calls grows by [rest ++ first]; [first] is
   the conn.Read of the initial ReadByte, present only when bufio's buffer is empty on entry (the
   idle wait for the first byte of a packet; made with whatever deadline state the caller left);
   every later conn.Read of the call -- remaining length, payload, retries after a progress-making
   expiry -- is armed.  Once the first byte is there the deadline is cleared on return. *)
Theorem c13_peek_packet_armed : forall s r s', peek_packet true s = (r, s') ->
  rcap s' = rcap s /\
  exists first rest,
    rlog s' = rest ++ first ++ rlog s /\ Forall armed rest /\
    (first = [] \/ (rbuf s = [] /\ rerr s = None /\ first = [(rarmed s, rcap s)])) /\
    ((forall e p, r <> PkErr e p) -> r <> PkBrokerTerm -> rarmed s' = false) /\
    (rarmed s' = false \/ (rarmed s' = rarmed s /\ rest = [])).
Proof. exact peek_packet_armed. Qed.
Print Assumptions c13_peek_packet_armed.

(* with bytes buffered on entry there is no exception at all *)
Theorem c13_peek_packet_buffered : forall s r s',
  peek_packet true s = (r, s') -> rbuf s <> [] -> armed_ext s s'.
Proof. exact peek_packet_buffered_armed. Qed.
Print Assumptions c13_peek_packet_buffered.

(* Client.discard (BigMessage left unread, duplicate beyond the buffer): all armed, cleared on return *)
Theorem c13_discard_armed : forall s n r s',
  client_discard true s n = (r, s') -> armed_ext s s' /\ rarmed s' = false.
Proof. exact client_discard_armed. Qed.
Print Assumptions c13_discard_armed.

(* BigMessage.ReadAll after the F19 repair: all armed, cleared on return *)
Theorem c13_read_all_armed : forall s size r s',
  read_all true s size = (r, s') -> armed_ext s s' /\ rarmed s' = false.
Proof. exact read_all_armed. Qed.
Print Assumptions c13_read_all_armed.

(* the CONNACK wait: Peek(4) under the deadline handshake sets *)
Theorem c13_connack_armed : forall s n r s', rarmed s = true -> peek s n = (r, s') -> armed_ext s s'.
Proof. exact peek_armed. Qed.
Print Assumptions c13_connack_armed.

(* L2, Session.v: one API call -- any operation, any client state with the deadline cleared, any
   world (all tapes, scripted or genuine Persistence): the deadline is cleared again afterwards, and
   with a PauseTimeout every QRead the call logs is armed or asks for the full buffer capacity, i.e.
   is made with bufio empty *)
Theorem c13_step_reads_armed : forall c o w c' r w',
  k_rarm c = false -> step c o w = Some ((c', r), w') ->
  k_rarm c' = false /\
  s_pause (k_cfg c') = s_pause (k_cfg c) /\ s_rcap (k_cfg c') = s_rcap (k_cfg c) /\
  exists new, w_log w' = new ++ w_log w /\
              (s_pause (k_cfg c) = true -> reads_armed_or_idle (s_rcap (k_cfg c)) new).
Proof. exact step_reads_armed. Qed.
Print Assumptions c13_step_reads_armed.

(* ... and the read that may be unarmed is the first conn.Read of a peekPacket call entered with
   the session's buffer empty (every iteration of the read loop starts with that call:
   ArmedReads.read_loop_starts_with_peek) *)
Theorem c13_peek_packet_call_reads : forall c w c1 pk w1,
  s_pause (k_cfg c) = true ->
  with_reader c (peek_packet (s_pause (k_cfg c))) w = Some ((c1, pk), w1) ->
  exists first rest,
    w_log w1 = rest ++ first ++ w_log w /\ reads_all_armed rest /\
    (first = [] \/
     (k_rbuf c = [] /\ k_rerr c = None /\ first = [QRead (conn_of c) (k_rarm c) (s_rcap (k_cfg c))])) /\
    ((forall e p, pk <> PkErr e p) -> pk <> PkBrokerTerm -> k_rarm c1 = false).
Proof. exact peek_packet_call_reads. Qed.
Print Assumptions c13_peek_packet_call_reads.

(* BigMessage.ReadAll as an API call: every conn.Read armed, without exception and in any state *)
Theorem c13_op_read_all_armed : forall c w c' r w',
  s_pause (k_cfg c) = true -> step c OpReadAll w = Some ((c', r), w') ->
  exists new, w_log w' = new ++ w_log w /\ reads_all_armed new.
Proof. exact op_read_all_armed. Qed.
Print Assumptions c13_op_read_all_armed.

(* every reachable state of the closed system (any history, OpAdopt included, any scripts) has
   the deadline cleared, so the step theorem applies to every call of every history *)
Theorem c13_reachable_disarmed : forall s, reachable s -> k_rarm (sy_c s) = false.
Proof. exact reachable_disarmed. Qed.
Print Assumptions c13_reachable_disarmed.

Theorem c13_reachable_reads_armed : forall s o tp s' r log,
  reachable s -> s_pause (k_cfg (sy_c s)) = true -> exec s o tp = Some (s', r, log) ->
  reads_armed_or_idle (s_rcap (k_cfg (sy_c s))) log.
Proof. exact reachable_reads_armed. Qed.
Print Assumptions c13_reachable_reads_armed.

(* the same for every client state reachable under ANY worlds *)
Theorem c13_reach_disarmed : forall c, InboundProofs.reach c -> k_rarm c = false.
Proof. exact reach_disarmed. Qed.
Print Assumptions c13_reach_disarmed.

(* non-vacuity: a fragmented stream with a progress-making expiry, two ReadSlices calls; the two
   unarmed reads are the waits for the first byte of the first and of the third packet *)
Example c13_reads_nonvacuous :
  match step ex_rd_client OpRead ex_rd_world with
  | Some ((c1, r1), w1) =>
    match step c1 OpRead w1 with
    | Some ((c2, r2), w2) => Some (r1, r2, w_log w2, k_rarm c2)
    | None => None
    end
  | None => None
  end =
  Some (RetMsg [97] [120; 121], RetMsg [98] [],
        [QRead 0 true 255; QRead 0 false 256; QRead 0 true 256;
         QRead 0 true 253; QRead 0 true 253; QRead 0 true 255; QRead 0 true 256; QRead 0 false 256],
        false).
Proof. exact ex_read_slices. Qed.

Example c13_peek_packet_nonvacuous :
  (let '(r, s) := peek_packet true (reader_on 256 [] ex_tape) in (r, rlog s, rarmed s)) =
  (PkOk 48 [0; 1; 97; 120; 121],
   [(true, 253); (true, 253); (true, 255); (true, 256); (false, 256)], false).
Proof. exact ex_peek_packet. Qed.
