(* C13 — Hostile broker input: no panic, reset on violation, no forged progress.
   Property theorems only; the statements are those of the named lemmas (printed by Check),
   each for ALL client states and ALL environment scripts unless it says otherwise. *)
From MQ Require Import Session Outbound OutboundRefine ConnectProofs ClassProofs.

(* every listed violation (reserved and client-only packet types, second CONNACK, zero/foreign/out-of-order/unsolicited identifiers, wrong lengths, illegal SUBACK codes, QoS 3) is a protocol-reset error *)
Theorem c13_violation_resets : ltac:(let t := type of dispatch_violation_resets in exact t).
Proof. exact dispatch_violation_resets. Qed.
Check c13_violation_resets.
Print Assumptions c13_violation_resets.

(* any packet type outside the eight a broker may send is a protocol-reset error *)
Theorem c13_other_types : ltac:(let t := type of dispatch_other_type in exact t).
Proof. exact dispatch_other_type. Qed.
Check c13_other_types.
Print Assumptions c13_other_types.

(* a SUBACK with a wrong number of return codes resets the connection and fails the request with ErrBreak *)
Theorem c13_suback_count : ltac:(let t := type of on_suback_count_mismatch in exact t).
Proof. exact on_suback_count_mismatch. Qed.
Check c13_suback_count.
Print Assumptions c13_suback_count.

(* every handler error makes ReadSlices close the connection, go offline and return the error *)
Theorem c13_error_resets : ltac:(let t := type of read_loop_handler_error_resets in exact t).
Proof. exact read_loop_handler_error_resets. Qed.
Check c13_error_resets.
Print Assumptions c13_error_resets.

(* the same on the big-message path *)
Theorem c13_big_error_resets : ltac:(let t := type of read_loop_big_error_resets in exact t).
Proof. exact read_loop_big_error_resets. Qed.
Check c13_big_error_resets.
Print Assumptions c13_big_error_resets.

(* a remaining length of more than four bytes is a protocol reset *)
Theorem c13_remlen_resets : ltac:(let t := type of read_loop_remlen_resets in exact t).
Proof. exact read_loop_remlen_resets. Qed.
Check c13_remlen_resets.
Print Assumptions c13_remlen_resets.

(* after a reset the next ReadSlices starts with a fresh connect (Load, Dial) *)
Theorem c13_redial : ltac:(let t := type of read_slices_redials in exact t).
Proof. exact read_slices_redials. Qed.
Check c13_redial.
Print Assumptions c13_redial.

(* counters advance, queue heads are released and records of the publish spaces are deleted only by the in-order acknowledgement that passed all guards *)
Theorem c13_no_forged_progress : ltac:(let t := type of no_forged_progress in exact t).
Proof. exact no_forged_progress. Qed.
Check c13_no_forged_progress.
Print Assumptions c13_no_forged_progress.

(* corollary: counters move only in order *)
Theorem c13_counters_in_order : ltac:(let t := type of counters_move_only_in_order in exact t).
Proof. exact counters_move_only_in_order. Qed.
Check c13_counters_in_order.
Print Assumptions c13_counters_in_order.

(* corollary: records are deleted only in order *)
Theorem c13_records_in_order : ltac:(let t := type of publish_records_deleted_only_in_order in exact t).
Proof. exact publish_records_deleted_only_in_order. Qed.
Check c13_records_in_order.
Print Assumptions c13_records_in_order.

(* corollary: exchanges are released only in order *)
Theorem c13_release_in_order : ltac:(let t := type of release_only_in_order in exact t).
Proof. exact release_only_in_order. Qed.
Check c13_release_in_order.
Print Assumptions c13_release_in_order.

(* totality with explicit classes: every result, completion and exchange error of every operation is one of the model's finite error values (no panic value exists in the model; panics of the implementation are events of the harness) *)
Theorem c13_errs_in_model : ltac:(let t := type of step_errs_in_model in exact t).
Proof. exact step_errs_in_model. Qed.
Check c13_errs_in_model.
Print Assumptions c13_errs_in_model.

