(* C20 — the mqtttest doubles flag every deviation and mimic the client's contract.
   This file holds the property theorems only; proofs live in MQ.MocksProofs.
   All statements range over ALL expectation lists, ALL invocation sequences and
   ALL scripts (induction, not enumeration). *)
From MQ Require Import Bytes Mocks C20Check MocksProofs.

(* ---- publish mock ----
   obs = what each invocation returned and reported, cl = what Cleanup reported.
   Invocation i with a closed quit: ErrCanceled, silent, no expectation consumed.
   Otherwise it meets expectation number k = (open-quit invocations before i), and
   a failure is recorded iff there is no such expectation (surplus) or message or
   topic differs; the scripted error (nil when surplus) comes back.
   Cleanup reports iff the number of open-quit invocations differs from the number
   of expectations; with fewer it says how many are missing. *)
Theorem publish_mock_reports_iff :
  forall (want : list transfer) (calls : list pubcall),
    let obs := fst (pub_mock want calls) in
    let cl := snd (pub_mock want calls) in
    length obs = length calls /\
    (forall i c, nth_error calls i = Some c ->
       exists r, nth_error obs i = Some r /\
       let k := count_open (firstn i calls) in
       (pc_quit c = true -> r = mkres (ORet CCanceled) []) /\
       (pc_quit c = false ->
          cr_out r = ORet (match nth_error want k with Some t => t_err t | None => CNil end) /\
          (cr_fails r <> [] <->
             nth_error want k = None \/
             exists t, nth_error want k = Some t /\ (pc_msg c <> t_msg t \/ pc_topic c <> t_topic t)))) /\
    (N.of_nat (length want) < two64 -> N.of_nat (length calls) < two64 ->
       (cl <> [] <-> count_open calls <> length want) /\
       ((count_open calls < length want)%nat ->
          cl = [FMissing (N.of_nat (length want - count_open calls))])).
Proof. exact publish_mock_reports_iff_proof. Qed.
Print Assumptions publish_mock_reports_iff.

(* never a failure for a matching sequence, and the scripted errors come back *)
Theorem c20_publish_mock_silent_on_match :
  forall want : list transfer,
    pub_mock want (map call_of want) = (map (fun t => mkres (ORet (t_err t)) []) want, []).
Proof. exact publish_mock_silent_on_match. Qed.
Print Assumptions c20_publish_mock_silent_on_match.

(* a wart, not a violation: after surplus invocations (each already reported) the
   unsigned subtraction in Cleanup wraps, "want 18446744073709551615 more" *)
Theorem c20_cleanup_after_surplus :
  forall nwant idx, N.of_nat idx < two64 -> (nwant < idx)%nat ->
    cleanup nwant idx = [FMissing (two64 - N.of_nat (idx - nwant))].
Proof. exact cleanup_surplus. Qed.
Print Assumptions c20_cleanup_after_surplus.

Example c20_witness_publish :
  pub_mock [mkT [1] [2] (COther 0); mkT [3] [4] CNil; mkT [5] [6] CClosed]
           [mkPC true [9] [9]; mkPC false [1] [7]; mkPC false [8] [4]]
  = ([mkres (ORet CCanceled) []; mkres (ORet (COther 0)) [FMismatch]; mkres (ORet CNil) [FMismatch]],
     [FMissing 1])
  /\ pub_mock [] [mkPC false [1] [2]] = ([mkres (ORet CNil) [FUnwanted]], [FMissing 18446744073709551615])
  /\ N.of_nat (length [mkT [1] [2] CNil]) < two64.
Proof. vm_compute. repeat split; reflexivity. Qed.

(* ---- subscribe / unsubscribe mock ----
   ex = the invocations that take place: Fatalf ("without topic filters") ends the
   invoking goroutine, so the sequence stops at the first invocation without filters.
   "Same filter set" (same_filter_set_P want call) is: the invocation repeats no
   filter, and has exactly the members of the expectation; a repetition inside
   the expectation is immaterial. *)
Theorem subscribe_mock_reports_iff :
  forall (want : list filterexp) (calls : list subcall),
    let obs := fst (sub_mock want calls) in
    let cl := snd (sub_mock want calls) in
    let ex := sub_executed calls in
    length obs = length ex /\
    (forall i c, nth_error ex i = Some c ->
       exists r, nth_error obs i = Some r /\
       let k := count_sub (firstn i ex) in
       (sc_filters c = [] -> r = mkres OFatal [FFatal]) /\
       (sc_filters c <> [] -> sc_quit c = true -> r = mkres (ORet CCanceled) []) /\
       (sc_filters c <> [] -> sc_quit c = false ->
          cr_out r = ORet (match nth_error want k with Some f => f_err f | None => CNil end) /\
          (cr_fails r <> [] <->
             nth_error want k = None \/
             exists f, nth_error want k = Some f /\
               ~ (NoDup (sc_filters c) /\ forall x, In x (sc_filters c) <-> In x (f_topics f))))) /\
    (N.of_nat (length want) < two64 -> N.of_nat (length calls) < two64 ->
       (cl <> [] <-> count_sub ex <> length want) /\
       ((count_sub ex < length want)%nat ->
          cl = [FMissing (N.of_nat (length want - count_sub ex))])).
Proof. exact subscribe_mock_reports_iff_proof. Qed.
Print Assumptions subscribe_mock_reports_iff.

Theorem c20_subscribe_mock_silent_on_match :
  forall (want : list filterexp) (calls : list subcall),
    Forall2 (fun f c => sc_quit c = false /\ sc_filters c <> [] /\
                        same_filter_set_P (f_topics f) (sc_filters c)) want calls ->
    sub_mock want calls = (map (fun f => mkres (ORet (f_err f)) []) want, []).
Proof. exact subscribe_mock_silent_on_match. Qed.
Print Assumptions c20_subscribe_mock_silent_on_match.

(* what exactly is listed as wrong and as missing *)
Theorem c20_subscribe_compare :
  forall fs todo,
    (forall x, In x (fst (sub_cmp todo fs)) <-> In x todo /\ ~ In x fs) /\
    (snd (sub_cmp todo fs) = [] <-> NoDup fs /\ incl fs todo) /\
    (forall x, In x (snd (sub_cmp todo fs)) -> In x fs /\ (~ In x todo \/ ~ NoDup fs)).
Proof. exact sub_cmp_spec. Qed.
Print Assumptions c20_subscribe_compare.

Example c20_witness_subscribe :
  sub_mock [mkF [[97]; [98]; [97]] (COther 1); mkF [[97]] CNil; mkF [[99]] CNil]
           [mkSC false [[98]; [97]]; mkSC true [[1]]; mkSC false [[97]; [97]; [100]]; mkSC false []; mkSC false [[99]]]
  = ([mkres (ORet (COther 1)) []; mkres (ORet CCanceled) [];
      mkres (ORet CNil) [FWrong [[97]; [100]]]; mkres OFatal [FFatal]], [FMissing 1])
  /\ sub_mock [mkF [[97]; [98]] CNil] [mkSC false [[97]]] = ([mkres (ORet CNil) [FMiss [[98]]]], [])
  /\ same_filter_set_P [[97]; [98]; [97]] [[98]; [97]].
Proof.
  split; [vm_compute; reflexivity|split; [vm_compute; reflexivity|]].
  apply same_filter_set_iff. vm_compute. reflexivity.
Qed.

(* ---- ReadSlices mock and stub ---- *)
Theorem c20_readslices_mock_reports_iff :
  forall (want : list transfer) (n : nat),
    let obs := fst (rs_mock want n) in
    let cl := snd (rs_mock want n) in
    length obs = n /\
    (forall i, (i < n)%nat ->
       exists r, nth_error obs i = Some r /\
       match nth_error want i with
       | Some t => r = mkRs (t_msg t) (t_topic t) (t_err t) []
       | None => rs_fails r = [FUnwanted] /\ rs_err r <> CNil
       end) /\
    (N.of_nat (length want) < two64 -> N.of_nat n < two64 ->
       (cl <> [] <-> n <> length want) /\
       ((n < length want)%nat -> cl = [FMissing (N.of_nat (length want - n))])).
Proof. exact readslices_mock_reports_iff_proof. Qed.
Print Assumptions c20_readslices_mock_reports_iff.

(* "private copies" has no meaning in Gallina; the model states statelessness, the
   aliasing itself is checked on the Go side (CopyCase). *)
Theorem c20_readslices_stub_stateless :
  forall fx : transfer, rs_stub fx = mkRs (t_msg fx) (t_topic fx) (t_err fx) [].
Proof. exact readslices_stub_stateless. Qed.
Print Assumptions c20_readslices_stub_stateless.

(* ---- quit ---- every double with a quit parameter *)
Theorem quit_closed_cancels :
  (forall W k c, pc_quit c = true -> pub_step W k c = (mkres (ORet CCanceled) [], k)) /\
  (forall W k c, sc_filters c <> [] -> sc_quit c = true ->
     sub_step W k c = (mkres (ORet CCanceled) [], k)) /\
  (forall fx, pub_stub fx true = ORet CCanceled) /\
  (forall fx fs, fs <> [] -> sub_stub fx true fs = ORet CCanceled) /\
  (forall fx, pub_stub fx false = ORet fx) /\
  (forall fx fs, fs <> [] -> sub_stub fx false fs = ORet fx).
Proof. exact quit_closed_cancels_proof. Qed.
Print Assumptions quit_closed_cancels.

Example c20_witness_quit :
  pub_step [mkT [1] [2] CNil] 0 (mkPC true [7] [7]) = (mkres (ORet CCanceled) [], 0%nat)
  /\ sub_stub (COther 0) true [[97]] = ORet CCanceled.
Proof. vm_compute. split; reflexivity. Qed.

(* ---- exchange stub ----
   For every script the constructor accepts: the channel delivers the plain errors
   and the (last) ErrClosed in script order, blocks deliver nothing; then it is
   closed unless the script ends in ErrClosed or in an indefinite block. *)
Theorem exchange_script :
  forall s : list errclass,
    script_accepted CNil s = true ->
    exch_stub CNil s = ExChan (filter deliverable s) (if ends_open s then LeftOpen else Closed).
Proof. exact exchange_script_proof. Qed.
Print Assumptions exchange_script.

Theorem c20_exchange_errfix :
  forall (c : errclass) (s : list errclass),
    c <> CNil -> script_accepted c s = true -> s = [] /\ exch_stub c s = ExErr c.
Proof. exact exchange_errfix. Qed.
Print Assumptions c20_exchange_errfix.

Theorem c20_exchange_never_blocks :
  forall s, (length (fst (exch_go s)) <= length s)%nat.
Proof. exact exchange_never_blocks. Qed.
Print Assumptions c20_exchange_never_blocks.

Example c20_witness_exchange :
  script_accepted CNil [COther 0; CBlockDelay; COther 1; CWrapClosed] = true
  /\ exch_stub CNil [COther 0; CBlockDelay; COther 1; CWrapClosed] = ExChan [COther 0; COther 1; CWrapClosed] LeftOpen
  /\ exch_stub CNil [COther 0; CBlockDelay] = ExChan [COther 0] Closed
  /\ exch_stub CNil [COther 0; CBlockIndef] = ExChan [COther 0] LeftOpen
  /\ exch_stub CNil [CClosed; COther 0] = ExRejected.
Proof. vm_compute. repeat split; reflexivity. Qed.

(* ---- no panic ---- except the documented ones *)
Theorem no_panic :
  (forall want calls, Forall (fun r => is_ret (cr_out r) = true) (fst (pub_mock want calls))) /\
  (forall W k c, cr_out (fst (sub_step W k c)) <> OPanic /\
                 (cr_out (fst (sub_step W k c)) = OFatal <-> sc_filters c = [])) /\
  (forall want calls, Forall (fun r => cr_out r <> OPanic) (fst (sub_mock want calls))) /\
  (forall fx q, pub_stub fx q <> OPanic) /\
  (forall fx q fs, sub_stub fx q fs = OPanic <-> fs = []) /\
  (forall c s, exch_stub c s = ExRejected <-> script_wellformed c s = false).
Proof. exact no_panic_proof. Qed.
Print Assumptions no_panic.

(* ---- the trace checker accepts everything the model produces ---- *)
Theorem c20_checker_sound_pub :
  forall want calls, N.of_nat (length want) < two64 ->
    c20_ok (PubMockCase want calls (fst (pub_mock want calls)) (snd (pub_mock want calls))) = true.
Proof. exact pub_checker_sound. Qed.
Print Assumptions c20_checker_sound_pub.

Theorem c20_checker_sound_sub :
  forall unsub want calls, N.of_nat (length want) < two64 ->
    c20_ok (SubMockCase unsub want calls (fst (sub_mock want calls)) (snd (sub_mock want calls))) = true.
Proof. exact sub_checker_sound. Qed.
Print Assumptions c20_checker_sound_sub.

Theorem c20_checker_sound_rs :
  forall want n, N.of_nat (length want) < two64 ->
    c20_ok (RsMockCase want n (fst (rs_mock want n)) (snd (rs_mock want n))) = true.
Proof. exact rs_checker_sound. Qed.
Print Assumptions c20_checker_sound_rs.

Theorem c20_checker_sound_exch :
  forall ef s, c20_ok (ExchCase ef s [exch_obs_of (exch_stub ef s)]) = true.
Proof. exact exch_checker_sound. Qed.
Print Assumptions c20_checker_sound_exch.

Theorem c20_checker_sound_stubs :
  (forall fx q, c20_ok (PubStubCase fx q (pub_stub fx q)) = true) /\
  (forall u fx q fs, c20_ok (SubStubCase u fx q fs (sub_stub fx q fs)) = true) /\
  (forall fx n, c20_ok (RsStubCase fx (repeat (rs_stub fx) n)) = true).
Proof. exact stub_checker_sound. Qed.
Print Assumptions c20_checker_sound_stubs.

(* the checker is not vacuous: it rejects the pinned tree's behaviour (F12) *)
Example c20_checker_rejects_f12 :
  (* publish mock silent when only the topic differs *)
  c20_ok (PubMockCase [mkT [1] [2] CNil] [mkPC false [1] [3]] [mkres (ORet CNil) []] []) = false
  (* subscribe mock panicking on a surplus invocation *)
  /\ c20_ok (SubMockCase false [] [mkSC false [[97]]] [mkres OPanic [FUnwanted]] []) = false.
Proof. vm_compute. split; reflexivity. Qed.
