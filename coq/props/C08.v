(* C08 — A connection carries whole packets only, under short writes; success means
   the packet was written completely.  Property theorems only. *)
From MQ Require Import Bytes WriteLoop WriteLoopProofs C08Check.

(* writeTo: for every script of write outcomes (any accepted counts, deadline expiries,
   errors, at any split), what the connection accepted is a prefix of the packet, and
   success is reported only if it is the whole packet. *)
Theorem c08_write_to :
  forall fuel p tape cs r t, write_to fuel p tape = (cs, r, t) ->
    (exists k, accepted_all cs = firstn k p) /\ (r = WOk -> accepted_all cs = p).
Proof. exact write_to_prefix. Qed.
Print Assumptions c08_write_to.

(* writeBuffersTo (header + payload): the same for the concatenation of the buffers. *)
Theorem c08_write_buffers_to :
  forall fuel bs tape cs r t, write_buffers_to fuel bs tape = (cs, r, t) ->
    (exists k, accepted_all cs = firstn k (concat bs)) /\ (r = WOk -> accepted_all cs = concat bs).
Proof. exact write_buffers_to_prefix. Qed.
Print Assumptions c08_write_buffers_to.

(* net.Buffers.WriteTo + consume: the remaining buffers are exactly the unwritten suffix. *)
Theorem c08_consume :
  forall bs n, n <= len (concat bs) -> concat (consume bs n) = skipn (N.to_nat n) (concat bs).
Proof. exact consume_concat. Qed.
Print Assumptions c08_consume.

(* The loop as it was on the pinned tree (F1, repaired in /repo 4dcfa77) violates the
   statement: bytes vanish and success is reported. *)
Theorem c08_write_buffers_to_pinned_refuted :
  exists bs tape, let '(cs, r, _) := write_buffers_to_f1 20 bs tape in
                  r = WOk /\ accepted_all cs <> concat bs.
Proof. exact write_buffers_to_f1_refuted. Qed.
Print Assumptions c08_write_buffers_to_pinned_refuted.

(* Non-vacuity: a header+payload write cut by two progress-making expiries completes. *)
Example c08_witness :
  let '(cs, r, _) := write_buffers_to_run [[48; 5; 0; 1; 116]; [7; 8; 9]] [(3, WTimeout); (1, WTimeout); (0, WOk); (0, WOk)] in
  r = WOk /\ accepted_all cs = [48; 5; 0; 1; 116; 7; 8; 9].
Proof. vm_compute. split; reflexivity. Qed.

(* Any number of goroutines submitting at the same time: at most one of them is between taking and
   returning the write token, in every reachable state of the L3 monitor (faithful traces). *)
From MQ Require Import Sync SyncProofs.
Theorem c08_write_token_exclusive : ltac:(let t := type of write_token_exclusive in exact t).
Proof. exact write_token_exclusive. Qed.
Check c08_write_token_exclusive.
Print Assumptions c08_write_token_exclusive.
