(* C08 — A connection carries whole packets only, under short writes; success means
   the packet was written completely.  Property theorems only. *)
From MQ Require Import Bytes WriteLoop WriteLoopProofs C08Check.

(* writeTo: for every script of write outcomes (any accepted counts, deadline expiries,
   errors, at any split), what the connection accepted is a prefix of the packet, and
   success is reported only if it is the whole packet. *)
Theorem c08_write_to :
  forall fuel p tape cs r t, write_to fuel p tape = (cs, r, t) ->
    (exists k, accepted_all cs = firstn k p) /\ (r = WOk -> accepted_all cs = p).
Proof. exact write_to_prefix. Qed.
Print Assumptions c08_write_to.

(* writeBuffersTo (header + payload): the same for the concatenation of the buffers. *)
Theorem c08_write_buffers_to :
  forall fuel bs tape cs r t, write_buffers_to fuel bs tape = (cs, r, t) ->
    (exists k, accepted_all cs = firstn k (concat bs)) /\ (r = WOk -> accepted_all cs = concat bs).
Proof. exact write_buffers_to_prefix. Qed.
Print Assumptions c08_write_buffers_to.

(* net.Buffers.WriteTo + consume: the remaining buffers are exactly the unwritten suffix. *)
Theorem c08_consume :
  forall bs n, n <= len (concat bs) -> concat (consume bs n) = skipn (N.to_nat n) (concat bs).
Proof. exact consume_concat. Qed.
Print Assumptions c08_consume.

(* The loop as it was on the pinned tree (F1, repaired in /repo 4dcfa77) violates the
   statement: bytes vanish and success is reported. *)
Theorem c08_write_buffers_to_pinned_refuted :
  exists bs tape, let '(cs, r, _) := write_buffers_to_f1 20 bs tape in
                  r = WOk /\ accepted_all cs <> concat bs.
Proof. exact write_buffers_to_f1_refuted. Qed.
Print Assumptions c08_write_buffers_to_pinned_refuted.

(* Non-vacuity: a header+payload write cut by two progress-making expiries completes. *)
Example c08_witness :
  let '(cs, r, _) := write_buffers_to_run [[48; 5; 0; 1; 116]; [7; 8; 9]] [(3, WTimeout); (1, WTimeout); (0, WOk); (0, WOk)] in
  r = WOk /\ accepted_all cs = [48; 5; 0; 1; 116; 7; 8; 9].
Proof. vm_compute. split; reflexivity. Qed.

(* Any number of goroutines submitting at the same time: at most one of them is between taking and
   returning the write token, in every reachable state of the L3 monitor (faithful traces). *)
From MQ Require Import Sync SyncProofs.
Theorem c08_write_token_exclusive : ltac:(let t := type of write_token_exclusive in exact t).
Proof. exact write_token_exclusive. Qed.
Check c08_write_token_exclusive.
Print Assumptions c08_write_token_exclusive.

(* ---- the whole-packets invariant of the session model, over all histories ---- *)
(* Additions for coq/props/C08.v: C08 as a theorem about the session model (Session.v),
   for all histories.  Append after the existing content of C08.v (needs
   theories/WholePackets.v in _CoqProject after theories/C08Check.v and theories/TxIds.v). *)
From Coq Require Import ZArith List.
From MQ Require Import Session Outbound PacketsProofs Spec Trace C08Check ConnectProofs WholePackets.
Import ListNotations.
Local Open Scope N_scope.

(* Vocabulary (WholePackets.v):
   one_packet bs    := exists pk, Spec.parse_packet bs = Some (pk, [])
   whole s          := s is a concatenation of one_packet strings
   framed s         := s = s0 ++ t, whole s0, t a prefix of some one_packet string
   wchunks tape tr  := replay of the logged calls tr against the write tape: per conn.Write
                       with a non-empty argument the (connection, accepted bytes)
   wire G cn        := everything connection cn accepted in the chunk list G
   op_ok o          := persisted levels 1/2, subscription maxima below 3 (the Go API)
   store_ok m       := every decodable record: key 0 a checked client identifier, any other
                       key a packet (also with the DUP flag set, if it is a PUBLISH)
   ConnLogInv c m G := store_ok m, cfg_wf, pending acknowledgement empty or one packet,
                       connections >= k_nconn c untouched, every connection framed,
                       the connection in k_wsem c below k_nconn c and whole *)

(* L-A.  One API call, any client state that is sound so far, any script: what each
   connection accepted during the call is whole packets, then at most a prefix of one. *)
Theorem c08_step_writes_framed :
  forall c o w c' r w' m,
    op_ok o -> w_store w = Some m -> store_ok m -> cfg_wf (s_cfg (k_cfg c)) -> sendable (k_pack c) ->
    (forall cn, k_wsem c = WsConn cn -> cn < k_nconn c) ->
    step c o w = Some ((c', r), w') ->
    exists tr, grows w w' tr /\ t_wr w' = wtape (t_wr w) tr /\
               forall cn, framed (wire (wchunks (t_wr w) tr) cn).
Proof. exact step_writes_framed. Qed.
Print Assumptions c08_step_writes_framed.

(* L-B.  A failed write gives the token up ... *)
Theorem c08_failed_write_gives_up :
  forall c cn bufs single w c' e w',
    locked_write c cn bufs single w = Some ((c', e), w') -> e <> 0 -> k_wsem c' = WsPending.
Proof. exact locked_write_error_gives_up. Qed.
Print Assumptions c08_failed_write_gives_up.

(* ... and a connection below k_nconn that does not hold the token is never written again
   (no conn.Write call consumes a tape answer for it) and never gets the token back. *)
Theorem c08_dead_connection_frozen :
  forall c o w c' r w' m G cn,
    op_ok o -> w_store w = Some m -> ConnLogInv c m G -> cn < k_nconn c -> k_wsem c <> WsConn cn ->
    step c o w = Some ((c', r), w') ->
    exists m' d, w_store w' = Some m' /\ wrel w w' d /\ ConnLogInv c' m' (G ++ d) /\
                 chunks_on d cn = [] /\ wire d cn = [] /\ cn < k_nconn c' /\ k_wsem c' <> WsConn cn.
Proof. exact step_dead_frozen. Qed.
Print Assumptions c08_dead_connection_frozen.

Theorem c08_writes_only_live :
  forall c o w c' r w' m G cn,
    op_ok o -> w_store w = Some m -> ConnLogInv c m G -> step c o w = Some ((c', r), w') ->
    exists d, wrel w w' d /\ (chunks_on d cn <> [] -> k_wsem c = WsConn cn \/ k_nconn c <= cn).
Proof. exact step_writes_only_live. Qed.
Print Assumptions c08_writes_only_live.

Theorem c08_conn_numbers_grow :
  forall c o w c' r w' m G,
    op_ok o -> w_store w = Some m -> ConnLogInv c m G -> step c o w = Some ((c', r), w') ->
    k_nconn c <= k_nconn c'.
Proof. exact step_nconn_mono. Qed.
Print Assumptions c08_conn_numbers_grow.

(* L-C.  The invariant is kept by every API call (AdoptSession included) under every
   script in map mode ... *)
Theorem c08_step_conn_log_inv :
  forall c o w c' r w' m G,
    op_ok o -> w_store w = Some m -> ConnLogInv c m G -> step c o w = Some ((c', r), w') ->
    exists m' d, w_store w' = Some m' /\ wrel w w' d /\ ConnLogInv c' m' (G ++ d).
Proof. exact step_conn_log_inv. Qed.
Print Assumptions c08_step_conn_log_inv.

(* ... hence holds after every history of the closed system ... *)
Theorem c08_run_conn_log_inv :
  forall cf cid tp0 s0 h,
    cfg_wf (s_cfg cf) -> init_sys cf cid tp0 = Some s0 -> Forall (fun p => op_ok (fst p)) h ->
    ConnLogInv (sy_c (run s0 h)) (sy_m (run s0 h)) (snd (run_wire s0 h [])).
Proof. exact run_conn_log_inv. Qed.
Print Assumptions c08_run_conn_log_inv.

Theorem c08_run_conn_framed :
  forall cf cid tp0 s0 h cn,
    cfg_wf (s_cfg cf) -> init_sys cf cid tp0 = Some s0 -> Forall (fun p => op_ok (fst p)) h ->
    framed (wire (snd (run_wire s0 h [])) cn) /\
    (k_wsem (sy_c (run s0 h)) = WsConn cn -> whole (wire (snd (run_wire s0 h [])) cn)).
Proof. exact run_conn_framed. Qed.
Print Assumptions c08_run_conn_framed.

(* ... and the checker's predicate (C08Check.conn_whole, the boolean one the recorded
   traces are judged by) holds of the trace of every history of the model. *)
Theorem c08_conn_whole_model :
  forall cf cid tp0 s0 h cn,
    cfg_wf (s_cfg cf) -> init_sys cf cid tp0 = Some s0 -> Forall (fun p => op_ok (fst p)) h ->
    conn_whole (run_trace s0 h 1) cn = true.
Proof. exact WholePackets.c08_conn_whole_model. Qed.
Print Assumptions c08_conn_whole_model.

(* every framed stream passes the checker: the bridge from Prop to bool *)
Theorem c08_framed_passes_checker :
  forall s, framed s -> (let '(_, tail) := packets_of s in incomplete_tail tail) = true.
Proof. exact framed_tail_incomplete. Qed.
Print Assumptions c08_framed_passes_checker.

(* Non-vacuity: connect, a PINGREQ cut after one byte (request fails, connection 0 is given
   up with the tail [192]), redial, PINGREQ on connection 1 (whole packets). *)
Example c08_model_witness :
  exists s0, init_sys wp_cfg [99] (mkTapes [false; false] [] [] []) = Some s0 /\
    Forall (fun p => op_ok (fst p)) wp_hist /\
    let s := run s0 wp_hist in
    let G := snd (run_wire s0 wp_hist []) in
    k_wsem (sy_c s) = WsConn 1 /\ k_nconn (sy_c s) = 2 /\
    packets_of (wire G 0) = ([PConnect false 0 [99] None None None], [192]) /\
    packets_of (wire G 1) = ([PConnect false 0 [99] None None None; PPingreq], []) /\
    conn_whole (run_trace s0 wp_hist 1) 0 = true /\ conn_whole (run_trace s0 wp_hist 1) 1 = true.
Proof. exact wp_short_write_history. Qed.

(* The store hypothesis is needed: a forged record under a publish key is resent as it is. *)
Example c08_forged_record_is_resent :
  let s := mkSys (new_client wp_cfg 0) [(0, encode_value [99] 1); (32768, encode_value [50; 0] 2)] in
  let h := [ (OpAdopt 4 4, mkTapes [false; false] [] [] []);
             (OpRead, mkTapes [false; false] [true] [(0, WOk); (0, WOk)]
                              [RData [32; 2; 1; 0]; RData [48; 3; 0; 1; 97]]) ] in
  wire (snd (run_wire s h [])) 0 = [16; 13; 0; 4; 77; 81; 84; 84; 4; 0; 0; 0; 0; 1; 99; 58; 0] /\
  conn_whole (run_trace s h 1) 0 = false.
Proof. exact forged_record_is_resent. Qed.
