(* C05 — Publishes and resends keep acceptance order; DUP marks only re-deliveries.
   Property theorems only (order part; the DUP flag and the wire order are judged on recorded
   histories by c05_ok). *)
From MQ Require Import Session Outbound OutboundInv OutboundRefine SessionTheorems.

(* The storage numbers of the unacknowledged transfers increase with acceptance order inside each
   group (at-least-once PUBLISH, PUBREL, exactly-once PUBLISH): a resend in sequence order, and a
   restart that sorts by storage number, both see acceptance order. *)
Theorem c05_resend_order : forall s, reachable_wf s ->
  let st := ost_of s in
  (forall n n' p p' sq sq', o_acked st <= n -> n < n' -> n' < o_acc1 st -> sq < M64 -> sq' < M64 ->
     holds (o_store st) (key1 n) p sq -> holds (o_store st) (key1 n') p' sq' -> sq < sq') /\
  (forall n n' p p' sq sq', o_compl st <= n -> n < n' -> n' < o_recvd st -> sq < M64 -> sq' < M64 ->
     holds (o_store st) (key2 n) p sq -> holds (o_store st) (key2 n') p' sq' -> sq < sq') /\
  (forall n n' p p' sq sq', o_recvd st <= n -> n < n' -> n' < o_acc2 st -> sq < M64 -> sq' < M64 ->
     holds (o_store st) (key2 n) p sq -> holds (o_store st) (key2 n') p' sq' -> sq < sq').
Proof. intros s H. apply resend_order, reachable_wf_inv, H. Qed.
Print Assumptions c05_resend_order.

(* Every accepted message gets the identifier of its acceptance position and the next storage number. *)
Theorem c05_accept_position_alo : forall st st', ostep st st' -> o_acc1 st' <> o_acc1 st ->
  o_acc1 st' = o_acc1 st + 1 /\
  exists retain topic msg,
    holds (o_store st') (key1 (o_acc1 st)) (pub1_packet retain topic msg (o_acc1 st)) (o_rseq st + 1).
Proof. exact accept_id1. Qed.
Print Assumptions c05_accept_position_alo.

Theorem c05_accept_position_eo : forall st st', ostep st st' -> o_acc2 st' <> o_acc2 st ->
  o_acc2 st' = o_acc2 st + 1 /\
  exists retain topic msg,
    holds (o_store st') (key2 (o_acc2 st)) (pub2_packet retain topic msg (o_acc2 st)) (o_rseq st + 1).
Proof. exact accept_id2. Qed.
Print Assumptions c05_accept_position_eo.

(* Concurrent publishers: per level, submitPersisted and connect/resend exclude each other (the
   sequence semaphore has at most one holder), so wire order = semaphore order = identifier order. *)
From MQ Require Import Sync SyncProofs.
Theorem c05_seq_exclusive : ltac:(let t := type of seq_exclusive in exact t).
Proof. exact seq_exclusive. Qed.
Check c05_seq_exclusive.
Print Assumptions c05_seq_exclusive.

(* ---- what resend, connect and the persisted publish write: order and DUP ---- *)
(* Additions for coq/props/C05.v: wire order and DUP flag of connect/resend and of the
   persisted-publish path, as theorems on Session.v (theories/ResendOrder.v).
   Needs in the import line of props/C05.v:
     From Coq Require Import ZArith List.  Import ListNotations.
     From RecordUpdate Require Import RecordUpdate.
     From MQ Require Import ConnectProofs ResendOrder.                      *)
From Coq Require Import ZArith List.
From RecordUpdate Require Import RecordUpdate.
From MQ Require Import Session Outbound OutboundInv OutboundRefine ConnectProofs ResendOrder.
Import ListNotations.
Open Scope N_scope.

(* ---- 1. resend: order, DUP, submit counter ---- *)

(* the calls of one resend run are exactly [resend_run]: Load n, the stored packet n with
   DUP iff n < sub0 offered to the connection, for n = seqno, seqno+1, ... up to and
   including the first failure *)
Theorem c05_resend_writes : forall m cn space fuel seqno acc subm w s e w',
  w_store w = Some m ->
  (N.to_nat (acc - seqno) < fuel)%nat ->
  (forall n, seqno <= n < acc -> genuine_at m (key_of space n)) ->
  resend fuel cn space seqno acc subm w = Some ((s, e), w') ->
  w_store w' = Some m /\
  exists tr, grows w w' tr /\ resend_run m cn space acc subm seqno seqno tr s e.
Proof. exact resend_writes. Qed.
Print Assumptions c05_resend_writes.

(* as connect calls it for at-least-once, under the invariant: sequence numbers
   acked, acked+1, ...; each packet the stored PUBLISH with DUP iff below the submit
   counter at entry; complete on success; the failing number not counted *)
Theorem c05_resend_writes_alo : forall c m cn w s e w',
  w_store w = Some m -> OInv' (oproj c m) ->
  resend (S (N.to_nat (k_acc1 c - k_acked c))) cn alo_space (k_acked c) (k_acc1 c) (k_sub1 c) w
    = Some ((s, e), w') ->
  w_store w' = Some m /\
  exists tr os, grows w w' tr /\
    resend_run m cn alo_space (k_acc1 c) (k_sub1 c) (k_acked c) (k_acked c) tr s e /\
    run_offers m cn alo_space (k_acc1 c) (k_sub1 c) (k_acked c) tr os /\
    map fst os = seq_from (k_acked c) (length os) /\
    Forall (fun o => k_acked c <= fst o < k_acc1 c /\
                     exists retain topic msg,
                       resend_packet m alo_space (k_sub1 c) (fst o)
                       = publish_packet (head_publish 1 retain (fst o <? k_sub1 c)) topic msg (key1 (fst o))) os /\
    (e = 0 -> N.of_nat (length os) = k_acc1 c - k_acked c /\
              s = if k_acc1 c =? k_acked c then k_sub1 c else k_acc1 c) /\
    (e <> 0 -> exists k, k_acked c <= k < k_acc1 c /\ s = sub_at (k_sub1 c) (k_acked c) k).
Proof. exact resend_writes_level1. Qed.
Print Assumptions c05_resend_writes_alo.

(* exactly-once: PUBREL (as stored, no DUP bit) for [compl, recvd), PUBLISH for [recvd, acc) *)
Theorem c05_resend_writes_eo : forall c m cn w s e w',
  w_store w = Some m -> OInv' (oproj c m) ->
  resend (S (N.to_nat (k_acc2 c - k_compl c))) cn eo_space (k_compl c) (k_acc2 c) (k_sub2 c) w
    = Some ((s, e), w') ->
  w_store w' = Some m /\
  exists tr os, grows w w' tr /\
    resend_run m cn eo_space (k_acc2 c) (k_sub2 c) (k_compl c) (k_compl c) tr s e /\
    run_offers m cn eo_space (k_acc2 c) (k_sub2 c) (k_compl c) tr os /\
    map fst os = seq_from (k_compl c) (length os) /\
    Forall (fun o => k_compl c <= fst o < k_acc2 c /\
                     ((fst o < k_recvd c /\
                       resend_packet m eo_space (k_sub2 c) (fst o) = packet_pubrel (key2 (fst o)))
                      \/ (k_recvd c <= fst o /\ exists retain topic msg,
                            resend_packet m eo_space (k_sub2 c) (fst o)
                            = publish_packet (head_publish 2 retain (fst o <? k_sub2 c)) topic msg (key2 (fst o))))) os /\
    (e = 0 -> N.of_nat (length os) = k_acc2 c - k_compl c /\
              s = if k_acc2 c =? k_compl c then k_sub2 c else k_acc2 c) /\
    (e <> 0 -> exists k, k_compl c <= k < k_acc2 c /\ s = sub_at (k_sub2 c) (k_compl c) k).
Proof. exact resend_writes_level2. Qed.
Print Assumptions c05_resend_writes_eo.

Theorem c05_resend_success_counter : forall m cn space acc sub0 lo n tr s,
  resend_run m cn space acc sub0 lo n tr s 0 -> s = sub_at sub0 lo (N.max n acc).
Proof. exact resend_run_ok. Qed.
Print Assumptions c05_resend_success_counter.

Theorem c05_resend_failure_counter : forall m cn space acc sub0 lo n tr s e,
  resend_run m cn space acc sub0 lo n tr s e -> e <> 0 ->
  exists k, n <= k < acc /\ s = sub_at sub0 lo k.
Proof. exact resend_run_failed. Qed.
Print Assumptions c05_resend_failure_counter.

Theorem c05_sub_at_max : forall sub0 lo k, lo <= sub0 -> lo <= k -> sub_at sub0 lo k = N.max sub0 k.
Proof. exact sub_at_max. Qed.
Print Assumptions c05_sub_at_max.

Theorem c05_resend_consecutive : forall m cn space acc sub0 n tr os,
  run_offers m cn space acc sub0 n tr os ->
  map fst os = seq_from n (length os) /\ n + N.of_nat (length os) <= N.max n acc /\
  Forall (fun o => snd o = WOk) (removelast os).
Proof. exact run_offers_consecutive. Qed.
Print Assumptions c05_resend_consecutive.

Theorem c05_resend_complete_on_success : forall m cn space acc sub0 lo n tr s,
  resend_run m cn space acc sub0 lo n tr s 0 ->
  exists os, run_offers m cn space acc sub0 n tr os /\
             map fst os = seq_from n (N.to_nat (acc - n)) /\ Forall (fun o => snd o = WOk) os.
Proof. exact resend_run_ok_offers. Qed.
Print Assumptions c05_resend_complete_on_success.

Theorem c05_resend_packets_alo : forall c m cn n tr os,
  OInv' (oproj c m) -> k_acked c <= n ->
  run_offers m cn alo_space (k_acc1 c) (k_sub1 c) n tr os ->
  Forall (fun o => k_acked c <= fst o < k_acc1 c /\
                   exists retain topic msg,
                     resend_packet m alo_space (k_sub1 c) (fst o)
                     = publish_packet (head_publish 1 retain (fst o <? k_sub1 c)) topic msg (key1 (fst o))) os.
Proof. exact resend_offers_level1. Qed.
Print Assumptions c05_resend_packets_alo.

Theorem c05_resend_packets_eo : forall c m cn n tr os,
  OInv' (oproj c m) -> k_compl c <= n ->
  run_offers m cn eo_space (k_acc2 c) (k_sub2 c) n tr os ->
  Forall (fun o => k_compl c <= fst o < k_acc2 c /\
                   ((fst o < k_recvd c /\
                     resend_packet m eo_space (k_sub2 c) (fst o) = packet_pubrel (key2 (fst o)))
                    \/ (k_recvd c <= fst o /\ exists retain topic msg,
                          resend_packet m eo_space (k_sub2 c) (fst o)
                          = publish_packet (head_publish 2 retain (fst o <? k_sub2 c)) topic msg (key2 (fst o))))) os.
Proof. exact resend_offers_level2. Qed.
Print Assumptions c05_resend_packets_eo.

Theorem c05_dup_bit : forall level retain dup topic msg pid, level = 1 \/ level = 2 ->
  dup_bit (publish_packet (head_publish level retain dup) topic msg pid) = dup.
Proof. exact dup_bit_publish. Qed.
Print Assumptions c05_dup_bit.

(* ---- 2. connect: CONNECT first, level 1 before level 2, both before the token ---- *)

Theorem c05_connect_order : forall c m w c' e w',
  w_store w = Some m -> OInv' (oproj c m) ->
  connect c w = Some ((c', e), w') ->
  w_store w' = Some m /\ exists tr, grows w w' tr /\ connect_run c m c' e tr.
Proof. exact connect_order. Qed.
Print Assumptions c05_connect_order.

Theorem c05_connect_ok_shape : forall c m c' tr,
  connect_run c m c' 0 tr ->
  exists wtr rtr rs1 rs2 s1 s2,
    tr = QLoad 0 :: QDial :: wtr ++ rtr ++ rs1 ++ rs2 /\
    offered (k_nconn c) [connect_pkt c m] true WOk wtr /\
    Forall (is_read (k_nconn c)) rtr /\
    resend_run m (k_nconn c) alo_space (k_acc1 c) (k_sub1 c) (k_acked c) (k_acked c) rs1 s1 0 /\
    resend_run m (k_nconn c) eo_space (k_acc2 c) (k_sub2 c) (k_compl c) (k_compl c) rs2 s2 0 /\
    k_wsem c' = WsConn (k_nconn c) /\ k_nconn c' = k_nconn c + 1 /\
    cp c' = cp (c <| k_sub1 := s1 |> <| k_sub2 := s2 |>).
Proof. exact connect_ok_shape. Qed.
Print Assumptions c05_connect_ok_shape.

Theorem c05_connect_failed_down : forall c m c' e tr,
  connect_run c m c' e tr -> e <> 0 -> k_closed c = false -> k_wsem c' = WsDown.
Proof. exact connect_failed_down. Qed.
Print Assumptions c05_connect_failed_down.

Theorem c05_connect_first_write : forall c m c' e tr,
  connect_run c m c' e tr ->
  Forall (write_on (k_nconn c)) tr /\
  (Forall no_write tr \/
   exists rest, tr = QLoad 0 :: QDial :: QWrite (k_nconn c) (connect_pkt c m) :: rest).
Proof. exact connect_first_write. Qed.
Print Assumptions c05_connect_first_write.

Theorem c05_connect_success_counters : forall c m c' tr,
  OInv' (oproj c m) -> connect_run c m c' 0 tr ->
  k_sub1 c' = (if k_acc1 c =? k_acked c then k_sub1 c else k_acc1 c) /\
  k_sub2 c' = (if k_acc2 c =? k_compl c then k_sub2 c else k_acc2 c) /\
  k_acc1 c' = k_acc1 c /\ k_acc2 c' = k_acc2 c /\ k_acked c' = k_acked c /\
  k_compl c' = k_compl c /\ k_recvd c' = k_recvd c.
Proof. exact connect_success_counters. Qed.
Print Assumptions c05_connect_success_counters.

Theorem c05_connect_failed_alo : forall c m c' e tr wtr rtr rs1 s1,
  OInv' (oproj c m) ->
  resend_run m (k_nconn c) alo_space (k_acc1 c) (k_sub1 c) (k_acked c) (k_acked c) rs1 s1 e -> e <> 0 ->
  cp c' = cp (c <| k_sub1 := s1 |>) ->
  tr = QLoad 0 :: QDial :: wtr ++ rtr ++ rs1 ++ [QClose (k_nconn c)] ->
  exists k, k_acked c <= k < k_acc1 c /\ k_sub1 c' = sub_at (k_sub1 c) (k_acked c) k /\
            (k <? k_sub1 c') = (k <? k_sub1 c).
Proof. exact connect_failed_level1. Qed.
Print Assumptions c05_connect_failed_alo.

(* ---- 3. first transmission ---- *)

Theorem c05_first_transmission : forall c m level retain msg topic w c' r w',
  w_store w = Some m -> level = 1 \/ level = 2 ->
  op_publish_persisted c level retain msg topic w = Some ((c', r), w') ->
  exists m' tr, w_store w' = Some m' /\ grows w w' tr /\
                persisted_run c m level retain msg topic c' r m' tr.
Proof. exact first_transmission. Qed.
Print Assumptions c05_first_transmission.

Theorem c05_first_transmission_writes : forall c m level retain msg topic c' r m' tr,
  level = 1 \/ level = 2 ->
  persisted_run c m level retain msg topic c' r m' tr ->
  (Forall no_write tr /\ (forall x, r = RetExch x -> lv_sub level c' = lv_sub level c))
  \/ exists cn wr, first_tx c m level retain msg topic c' r m' tr cn wr.
Proof. exact persisted_run_writes. Qed.
Print Assumptions c05_first_transmission_writes.

Theorem c05_first_transmission_no_dup : forall c level retain msg topic, level = 1 \/ level = 2 ->
  dup_bit (pp_packet c level retain msg topic) = false.
Proof. exact pp_packet_no_dup. Qed.
Print Assumptions c05_first_transmission_no_dup.

Theorem c05_first_transmission_is_saved : forall c m level retain msg topic, k_rseq c + 1 < M64 ->
  packet_at (store_put m (pp_key c level) (pp_record c level retain msg topic)) (pp_key c level)
  = concat [pp_head c level retain msg topic; msg].
Proof. exact pp_saved_is_offered. Qed.
Print Assumptions c05_first_transmission_is_saved.

Theorem c05_first_transmission_no_backlog : forall c m level retain msg topic c' r m' tr cn wr,
  level = 1 \/ level = 2 -> OInv' (oproj c m) ->
  first_tx c m level retain msg topic c' r m' tr cn wr -> lv_sub level c = lv_acc level c.
Proof. exact first_tx_no_backlog. Qed.
Print Assumptions c05_first_transmission_no_backlog.

Theorem c05_backlog_enqueues : forall c m level retain msg topic c' r m' tr,
  lv_sub level c < lv_acc level c ->
  persisted_run c m level retain msg topic c' r m' tr ->
  Forall no_write tr /\
  (forall x, r = RetExch x -> x = pp_x c /\ c' = xsend (accepted level c) x E_down).
Proof. exact persisted_backlog. Qed.
Print Assumptions c05_backlog_enqueues.

(* ---- 4. one connection ---- *)

Theorem c05_batch_increasing : forall m cn space acc sub0 n tr os,
  run_offers m cn space acc sub0 n tr os -> increasing (map fst os).
Proof. exact run_offers_increasing. Qed.
Print Assumptions c05_batch_increasing.

Theorem c05_batch_before_first_tx : forall level c0 m0 c1 m1 cn lo tr0 os c m retain msg topic c' r m' tr cn' wr,
  level = 1 \/ level = 2 ->
  run_offers m0 cn (lv_space level) (lv_acc level c0) (lv_sub level c0) lo tr0 os ->
  lv_acc level c1 = lv_acc level c0 ->
  osteps (oproj c1 m1) (oproj c m) ->
  first_tx c m level retain msg topic c' r m' tr cn' wr ->
  Forall (fun o => fst o < lv_acc level c) os /\
  dup_bit (pp_packet c level retain msg topic) = false /\
  (lv_sub level c0 <= lv_acc level c0 -> (lv_acc level c <? lv_sub level c0) = false).
Proof. exact batch_before_first_tx. Qed.
Print Assumptions c05_batch_before_first_tx.

Theorem c05_first_tx_increasing : forall level c m retain msg topic c' r m' tr cn wr
        d md retain2 msg2 topic2 d' r2 md' tr2 cn2 wr2,
  level = 1 \/ level = 2 ->
  first_tx c m level retain msg topic c' r m' tr cn wr ->
  osteps (oproj c' m') (oproj d md) ->
  first_tx d md level retain2 msg2 topic2 d' r2 md' tr2 cn2 wr2 ->
  lv_acc level c < lv_acc level d /\ lv_acc level d <= lv_sub level d.
Proof. exact first_tx_increasing. Qed.
Print Assumptions c05_first_tx_increasing.

(* ---- concrete runs (vm_compute) ---- *)

(* three pending at-least-once publishes, only the first ever submitted; the reconnect
   (last call) writes CONNECT, 1 with DUP (head 58), 2 and 3 without (head 50) *)
Example c05_reconnect_dup_example :
  exo_hist exo_h1 =
  Some ((0, 3, 3, WsConn 1),
        [ (RetMsg [97] [120], [(0, exo_connect_pkt)]);
          (RetExch 1, [(0, [50; 7; 0; 1; 116; 128; 0]); (0, [109; 49])]);
          (RetErr E_brokerterm, []);
          (RetExch 2, []); (RetExch 3, []);
          (RetMsg [97] [120],
           [(1, exo_connect_pkt);
            (1, [58; 7; 0; 1; 116; 128; 0; 109; 49]);
            (1, [50; 7; 0; 1; 116; 128; 1; 109; 50]);
            (1, [50; 7; 0; 1; 116; 128; 2; 109; 51])]) ]).
Proof. exact reconnect_dup_example. Qed.
Print Assumptions c05_reconnect_dup_example.

(* the scenario of the seeded change M3-C05b: the write of the second PUBLISH fails inside
   resend with no byte accepted; the next connection carries it without DUP *)
Example c05_failed_resend_not_counted :
  exo_hist exo_h2 =
  Some ((0, 2, 2, WsConn 1),
        [ (RetExch 1, []); (RetExch 2, []);
          (RetErr (werr WClosed),
           [(0, exo_connect_pkt);
            (0, [50; 7; 0; 1; 116; 128; 0; 109; 49]);
            (0, [50; 7; 0; 1; 116; 128; 1; 109; 50])]);
          (RetMsg [97] [120],
           [(1, exo_connect_pkt);
            (1, [58; 7; 0; 1; 116; 128; 0; 109; 49]);
            (1, [50; 7; 0; 1; 116; 128; 1; 109; 50])]) ]).
Proof. exact failed_resend_not_counted_example. Qed.
Print Assumptions c05_failed_resend_not_counted.

(* corner: every byte accepted but the write reported an error: retransmitted without DUP *)
Example c05_dup_corner_accepted_but_failed :
  exo_hist exo_h3 =
  Some ((0, 1, 1, WsConn 1),
        [ (RetMsg [97] [120], [(0, exo_connect_pkt)]);
          (RetExch 1, [(0, [50; 7; 0; 1; 116; 128; 0]); (0, [109; 49])]);
          (RetMsg [97] [120],
           [(1, exo_connect_pkt);
            (1, [50; 7; 0; 1; 116; 128; 0; 109; 49])]) ]).
Proof. exact dup_corner_accepted_but_failed. Qed.
Print Assumptions c05_dup_corner_accepted_but_failed.

(* corner: acknowledged beyond submitted; the submit counter stays behind after a
   successful connect and the next publish is only enqueued although online *)
Example c05_backlog_stuck_corner :
  exo_hist exo_h4 =
  Some ((1, 0, 2, WsConn 1),
        [ (RetMsg [97] [120], [(0, exo_connect_pkt)]);
          (RetExch 1, [(0, [50; 7; 0; 1; 116; 128; 0])]);
          (RetMsg [97] [120], [(1, exo_connect_pkt)]);
          (RetExch 2, []) ]).
Proof. exact backlog_stuck_corner. Qed.
Print Assumptions c05_backlog_stuck_corner.
