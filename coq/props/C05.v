(* C05 — Publishes and resends keep acceptance order; DUP marks only re-deliveries.
   Property theorems only (order part; the DUP flag and the wire order are judged on recorded
   histories by c05_ok). *)
From MQ Require Import Session Outbound OutboundInv OutboundRefine SessionTheorems.

(* The storage numbers of the unacknowledged transfers increase with acceptance order inside each
   group (at-least-once PUBLISH, PUBREL, exactly-once PUBLISH): a resend in sequence order, and a
   restart that sorts by storage number, both see acceptance order. *)
Theorem c05_resend_order : forall s, reachable_wf s ->
  let st := ost_of s in
  (forall n n' p p' sq sq', o_acked st <= n -> n < n' -> n' < o_acc1 st -> sq < M64 -> sq' < M64 ->
     holds (o_store st) (key1 n) p sq -> holds (o_store st) (key1 n') p' sq' -> sq < sq') /\
  (forall n n' p p' sq sq', o_compl st <= n -> n < n' -> n' < o_recvd st -> sq < M64 -> sq' < M64 ->
     holds (o_store st) (key2 n) p sq -> holds (o_store st) (key2 n') p' sq' -> sq < sq') /\
  (forall n n' p p' sq sq', o_recvd st <= n -> n < n' -> n' < o_acc2 st -> sq < M64 -> sq' < M64 ->
     holds (o_store st) (key2 n) p sq -> holds (o_store st) (key2 n') p' sq' -> sq < sq').
Proof. intros s H. apply resend_order, reachable_wf_inv, H. Qed.
Print Assumptions c05_resend_order.

(* Every accepted message gets the identifier of its acceptance position and the next storage number. *)
Theorem c05_accept_position_alo : forall st st', ostep st st' -> o_acc1 st' <> o_acc1 st ->
  o_acc1 st' = o_acc1 st + 1 /\
  exists retain topic msg,
    holds (o_store st') (key1 (o_acc1 st)) (pub1_packet retain topic msg (o_acc1 st)) (o_rseq st + 1).
Proof. exact accept_id1. Qed.
Print Assumptions c05_accept_position_alo.

Theorem c05_accept_position_eo : forall st st', ostep st st' -> o_acc2 st' <> o_acc2 st ->
  o_acc2 st' = o_acc2 st + 1 /\
  exists retain topic msg,
    holds (o_store st') (key2 (o_acc2 st)) (pub2_packet retain topic msg (o_acc2 st)) (o_rseq st + 1).
Proof. exact accept_id2. Qed.
Print Assumptions c05_accept_position_eo.

(* Concurrent publishers: per level, submitPersisted and connect/resend exclude each other (the
   sequence semaphore has at most one holder), so wire order = semaphore order = identifier order. *)
From MQ Require Import Sync SyncProofs.
Theorem c05_seq_exclusive : ltac:(let t := type of seq_exclusive in exact t).
Proof. exact seq_exclusive. Qed.
Check c05_seq_exclusive.
Print Assumptions c05_seq_exclusive.
