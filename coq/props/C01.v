(* C01 — Accepted QoS>=1 publishes are retransmitted until acknowledged, never lost.
   Property theorems only (safety part over all histories and all environment scripts;
   the state space is every reachable state of the closed system client + Persistence). *)
From MQ Require Import Session Outbound OutboundInv OutboundRefine SessionTheorems.

(* Every API call, under every script of connection breaks, short writes, expiries, failed
   dials and Persistence failures, is a sequence of the abstract bookkeeping steps. *)
Theorem c01_every_call_refines : forall s o tp s' r log,
  exec s o tp = Some (s', r, log) -> op_wf o -> osteps (ost_of s) (ost_of s').
Proof. exact exec_refines. Qed.
Print Assumptions c01_every_call_refines.

(* In every reachable state, each accepted and not finally acknowledged message has its record
   in the Persistence, at its stage: no fault sequence loses one. *)
Theorem c01_record_kept : forall s, reachable_wf s ->
  let st := ost_of s in
  (forall n, o_acked st <= n < o_acc1 st ->
     exists retain topic msg sq, holds (o_store st) (key1 n) (pub1_packet retain topic msg n) sq /\ sq <= o_rseq st) /\
  (forall n, o_compl st <= n < o_recvd st ->
     exists sq, holds (o_store st) (key2 n) (packet_pubrel (key2 n)) sq /\ sq <= o_rseq st) /\
  (forall n, o_recvd st <= n < o_acc2 st ->
     exists retain topic msg sq, holds (o_store st) (key2 n) (pub2_packet retain topic msg n) sq /\ sq <= o_rseq st).
Proof. intros s H. apply record_kept, reachable_wf_inv, H. Qed.
Print Assumptions c01_record_kept.

(* A record leaves the Persistence only in the step that applies the in-order final
   acknowledgement (PUBACK of the oldest / PUBCOMP of the oldest), which also releases the head of
   the queue: only then does the exchange channel close. *)
Theorem c01_record_leaves_only_by_puback : forall st st' k,
  sorted_keys (o_store st) -> ostep st st' -> in_space k alo_space ->
  store_get (o_store st) k <> None -> store_get (o_store st') k = None ->
  k = key1 (o_acked st) /\ o_acked st' = o_acked st + 1 /\ exists x, o_q1 st = x :: o_q1 st'.
Proof. exact record_removed_only_by_ack1. Qed.
Print Assumptions c01_record_leaves_only_by_puback.

Theorem c01_record_leaves_only_by_pubcomp : forall st st' k,
  sorted_keys (o_store st) -> ostep st st' -> in_space k eo_space ->
  store_get (o_store st) k <> None -> store_get (o_store st') k = None ->
  k = key2 (o_compl st) /\ o_compl st' = o_compl st + 1 /\ o_compl st < o_recvd st /\
  exists x, o_q2 st = x :: o_q2 st'.
Proof. exact record_removed_only_by_comp2. Qed.
Print Assumptions c01_record_leaves_only_by_pubcomp.

(* No fault stops it: one more call from a reachable state lands in a state with the invariant. *)
Theorem c01_no_fault_stops_it : forall s o tp s' r log,
  reachable_wf s -> op_wf o -> exec s o tp = Some (s', r, log) -> o_rseq (ost_of s') < M64 ->
  osteps (ost_of s) (ost_of s') /\ OInv' (ost_of s').
Proof. exact reachable_step. Qed.
Print Assumptions c01_no_fault_stops_it.

Example c01_nonvacuous :
  exists s0, init_sys (mkScfg {| cfg_user := []; cfg_pass := None; cfg_will := None; cfg_keepalive := 0; cfg_clean := false |}
                              true 4 4 256 1000 1000) [99] (mkTapes [false; false] [] [] []) = Some s0.
Proof. exact reachable_nonvacuous. Qed.

(* ---- mixed histories: API calls interleaved with process stop + AdoptSession ---- *)
From MQ Require Import Session Outbound OutboundInv OutboundRefine SessionTheorems AdoptProofs MixedHistories.
Open Scope N_scope.
(* Additions for coq/props/C01.v (needs AdoptProofs MixedHistories in its Require line):
   c01_record_kept for mixed histories. *)
Theorem c01_record_kept_mixed : forall s, reachable_mixed s ->
  let st := ost_of s in
  (forall n, o_acked st <= n < o_acc1 st ->
     exists retain topic msg sq, holds (o_store st) (key1 n) (pub1_packet retain topic msg n) sq /\ sq <= o_rseq st) /\
  (forall n, o_compl st <= n < o_recvd st ->
     exists sq, holds (o_store st) (key2 n) (packet_pubrel (key2 n)) sq /\ sq <= o_rseq st) /\
  (forall n, o_recvd st <= n < o_acc2 st ->
     exists retain topic msg sq, holds (o_store st) (key2 n) (pub2_packet retain topic msg n) sq /\ sq <= o_rseq st).
Proof. intros s H. apply record_kept. exact (proj1 (reachable_mixed_good s H)). Qed.
Print Assumptions c01_record_kept_mixed.

(* reachable_inv for mixed histories *)
Theorem c01_reachable_inv_mixed : forall cf cid tp0 s0 h,
  cfg_ok cf -> init_sys cf cid tp0 = Some s0 ->
  Forall (fun p => op_level_ok (fst p)) h ->
  rseq_bounded s0 h ->
  OInv' (ost_of (run s0 h)).
Proof. intros. eapply reachable_good_mixed; eassumption. Qed.
Print Assumptions c01_reachable_inv_mixed.

(* the adoption-free reachable states of c01_record_kept are among the mixed ones *)
Theorem c01_reachable_wf_mixed : forall s, reachable_wf s -> reachable_mixed s.
Proof. exact reachable_wf_mixed. Qed.
Print Assumptions c01_reachable_wf_mixed.

(* one more call of any kind from a state reached by a mixed history *)
Theorem c01_no_fault_stops_it_mixed : forall s o tp s' r log,
  reachable_mixed s -> op_level_ok o -> exec s o tp = Some (s', r, log) ->
  o_rseq (ost_of s') < M64 -> OInv' (ost_of s').
Proof.
  intros s o tp s' r log Hr Hl E Hb.
  exact (proj1 (exec_good _ _ _ _ _ _ E Hl (reachable_mixed_good s Hr) Hb)).
Qed.
Print Assumptions c01_no_fault_stops_it_mixed.

(* ---- the closed loop for at-least-once: client + conforming broker + one FIFO connection ---- *)
(* Additions for coq/props/C01.v — broker side for QoS 1 (closed loop at-least-once client +
   connection + conforming broker, theories/AloWorld.v).  Needs, next to the existing imports
   of props/C01.v:
     From Coq Require Import ZArith List.
     From MQ Require Import AdoptProofs ConnectProofs ResendOrder AloWorld.
   (standalone here so that it can be compiled on its own:
     coqc -Q theories MQ -Q gen MQG -Q props MQP -Q /verif/work/prover-alo-world SA
          /verif/work/prover-alo-world/C01_additions.v) *)
From Coq Require Import ZArith List.
From MQ Require Import Session Outbound OutboundInv OutboundRefine SessionTheorems AdoptProofs
  ConnectProofs ResendOrder AloWorld.
Import ListNotations.
Local Open Scope N_scope.

(* ---- the tie of the world's client to the proved sender machine ---- *)

(* Every step of the abstract sender machine (which every API call refines, OutboundRefine) is,
   on the at-least-once numbers and the exchange queue, an accept / in-order PUBACK / submit /
   termination step of the slim client or invisible (a failed Save is invisible, a failed
   Delete is no step at all). *)
Theorem c01_slim_client : forall st st', OInv' st -> ostep st st' ->
  aslim st' = aslim st \/ alstep (aslim st) (aslim st').
Proof. exact ostep_aslim. Qed.
Print Assumptions c01_slim_client.

(* Process stop + AdoptSession is a restart of the slim client: window kept, counters moved
   down by a multiple of 2^14 (to 0 when nothing is pending), one fresh exchange per pending
   message, everything counts as submitted (so the resend carries DUP). *)
Theorem c01_slim_restart : forall st st',
  OInv' st -> known_keys st -> markers_genuine st -> adopts st st' -> arestart (aslim st) (aslim st').
Proof. exact adopts_aslim. Qed.
Print Assumptions c01_slim_restart.

(* The client part of every step of the closed world is such a step (or none). *)
Theorem c01_world_client : forall w l w', AInv w -> astep w l w' ->
  a_cl w' = a_cl w \/ alstep (a_cl w) (a_cl w') \/ arestart (a_cl w) (a_cl w').
Proof. exact astep_client. Qed.
Print Assumptions c01_world_client.

(* The world's guard for a PUBACK is the guard of Session.on_puback. *)
Theorem c01_world_puback_guard : forall c body, len body = 2 ->
  (ack1_guard c body <-> u16 body = key1 (k_acked c) /\ 0 < len (k_q1 c)).
Proof. exact world_guard_is_ack1_guard. Qed.
Print Assumptions c01_world_puback_guard.

(* ---- (a) nothing accepted is lost ---- *)

(* the record of every unacknowledged accepted message is in the Persistence (via the tie) *)
Theorem c01_slim_record_kept : forall st, OInv' st ->
  forall n, l_acked (aslim st) <= n < l_acc (aslim st) ->
    exists retain topic msg sq, holds (o_store st) (key1 n) (pub1_packet retain topic msg n) sq
                                /\ sq <= o_rseq st.
Proof. exact alo_record_kept. Qed.
Print Assumptions c01_slim_record_kept.

Theorem c01_world_invariant : forall w, areach w -> AInv w.
Proof. exact aworld_inv. Qed.
Print Assumptions c01_world_invariant.

(* every message whose PUBACK the client applied was received and forwarded by the broker *)
Theorem c01_acked_was_forwarded : forall w x, areach w -> x < a_base w + wK w -> In x (a_fwd w).
Proof. exact acked_forwarded. Qed.
Print Assumptions c01_acked_was_forwarded.

Theorem c01_acked_was_forwarded_count : forall w x, areach w -> x < a_base w + wK w ->
  (1 <= count_occ N.eq_dec (a_fwd w) x)%nat.
Proof. exact acked_forwarded_count. Qed.
Print Assumptions c01_acked_was_forwarded_count.

Theorem c01_only_accepted_forwarded : forall w x, areach w -> In x (a_fwd w) -> x < a_base w + wA w.
Proof. exact only_accepted_fwd. Qed.
Print Assumptions c01_only_accepted_forwarded.

Theorem c01_inflight_puback_forwarded : forall w id x, areach w ->
  In (AAck id x) (a_b2c w) -> In x (a_fwd w).
Proof. exact inflight_ack_forwarded. Qed.
Print Assumptions c01_inflight_puback_forwarded.

(* in absolute numbers neither end of the window ever moves back: no step (Break, failed
   write, failed Save/Delete/Load, Close, Restart) drops an accepted message *)
Theorem c01_accepted_never_dropped : forall w l w', AInv w -> astep w l w' ->
  a_base w + wK w <= a_base w' + wK w' /\ a_base w + wA w <= a_base w' + wA w'.
Proof. exact accepted_monotone. Qed.
Print Assumptions c01_accepted_never_dropped.

(* ... and the lower end moves only by the in-order PUBACK of a forwarded message *)
Theorem c01_window_leaves_only_by_puback : forall w l w', AInv w -> astep w l w' ->
  a_base w' + wK w' <> a_base w + wK w ->
  l = ALClientAck /\ a_base w' = a_base w /\ wK w' = wK w + 1 /\ In (a_base w + wK w) (a_fwd w).
Proof. exact acked_moves_only_by_ack. Qed.
Print Assumptions c01_window_leaves_only_by_puback.

Theorem c01_forwarded_stays : forall w l w' x, astep w l w' -> In x (a_fwd w) -> In x (a_fwd w').
Proof. exact fwd_stable. Qed.
Print Assumptions c01_forwarded_stays.

Theorem c01_forwarded_only_by_publish : forall w l w', astep w l w' -> a_fwd w' <> a_fwd w ->
  (exists d id x q, l = ALBroker /\ a_c2b w = APub d id x :: q /\ a_fwd w' = x :: a_fwd w)
  \/ (exists j, l = ALReconnectFail /\ wK w <= j <= wA w /\
        a_fwd w' = rev (map (N.add (a_base w)) (aseq (wK w) j)) ++ a_fwd w).
Proof. exact fwd_only_by_publish. Qed.
Print Assumptions c01_forwarded_only_by_publish.

(* ---- (b) the exchange closes exactly with the in-order PUBACK ---- *)

Theorem c01_open_exchanges : forall w, areach w -> wT w = false -> wQ w = wA w - wK w.
Proof. exact open_exchanges. Qed.
Print Assumptions c01_open_exchanges.

Theorem c01_exchange_closes_only_by_puback : forall w l w', AInv w -> astep w l w' ->
  wT w' = false -> wQ w' < wQ w ->
  l = ALClientAck /\ wK w' = wK w + 1 /\ wQ w' + 1 = wQ w /\ wA w' = wA w /\ a_base w' = a_base w /\
  In (a_base w + wK w) (a_fwd w) /\
  exists q, a_b2c w = AAck (key1 (wK w)) (a_base w + wK w) :: q /\ a_b2c w' = q.
Proof. exact exchange_closes_only_by_ack. Qed.
Print Assumptions c01_exchange_closes_only_by_puback.

Theorem c01_queue_changes_only_by_accept_puback_term : forall st st', ostep st st' ->
  o_q1 st' <> o_q1 st ->
  (exists x, o_q1 st' = o_q1 st ++ [x] /\ o_acc1 st' = o_acc1 st + 1 /\ o_acked st' = o_acked st)
  \/ (exists x, o_q1 st = x :: o_q1 st' /\ o_acked st' = o_acked st + 1 /\ o_acc1 st' = o_acc1 st /\
                o_store st' = store_del (o_store st) (key1 (o_acked st)))
  \/ (o_term st' = true /\ o_q1 st' = []).
Proof. exact exchange_pop_only_by_ack1. Qed.
Print Assumptions c01_queue_changes_only_by_accept_puback_term.

(* ---- (c) identifier safety across the 14-bit wrap, no reset livelock ---- *)

Theorem c01_inflight_puback_window : forall w id x, areach w -> In (AAck id x) (a_b2c w) ->
  exists n, (wK w <= n < wA w /\ id = key1 n /\ x = a_base w + n) /\
            forall n', wK w <= n' < wA w -> id = key1 n' -> n' = n.
Proof. exact inflight_ack_window. Qed.
Print Assumptions c01_inflight_puback_window.

Theorem c01_inflight_publish_window : forall w d id x, areach w -> In (APub d id x) (a_c2b w) ->
  exists n, (wK w <= n < wA w /\ id = key1 n /\ x = a_base w + n) /\
            forall n', wK w <= n' < wA w -> id = key1 n' -> n' = n.
Proof. exact inflight_pub_window. Qed.
Print Assumptions c01_inflight_publish_window.

Theorem c01_pipeline : forall w, areach w -> a_on w = true ->
  apend w = map (apk (a_base w)) (aseq (wK w) (wA w)).
Proof. exact pipeline_acks. Qed.
Print Assumptions c01_pipeline.

Theorem c01_online_no_backlog : forall w, areach w -> a_on w = true -> wS w = wA w /\ wT w = false.
Proof. exact online_no_backlog. Qed.
Print Assumptions c01_online_no_backlog.

Theorem c01_client_never_rejects : forall w w', areach w -> ~ astep w ALReject w'.
Proof. exact alo_never_rejects. Qed.
Print Assumptions c01_client_never_rejects.

(* ---- (d) at least once and all exchanges closed when the faults stop ---- *)

Theorem c01_good_step_measure : forall w l w', AInv w -> astep w l w' -> a_progress l = true ->
  amu w = amu w' + 1.
Proof. exact agood_step_measure. Qed.
Print Assumptions c01_good_step_measure.

Theorem c01_accept_step_measure : forall w w', AInv w -> astep w ALAccept w' -> amu w' = amu w + 2.
Proof. exact aaccept_step_measure. Qed.
Print Assumptions c01_accept_step_measure.

Theorem c01_progress_enabled : forall w, wT w = false -> amu w <> 0 ->
  exists l w', a_progress l = true /\ astep w l w'.
Proof. exact aprogress_enabled. Qed.
Print Assumptions c01_progress_enabled.

Theorem c01_quiescent_complete : forall w, areach w -> wT w = false -> aquiescent w -> acomplete w.
Proof. exact aquiescent_complete. Qed.
Print Assumptions c01_quiescent_complete.

Theorem c01_complete_at_least_once : forall w x, acomplete w -> x < a_base w + wA w ->
  (1 <= count_occ N.eq_dec (a_fwd w) x)%nat.
Proof. exact acomplete_at_least_once. Qed.
Print Assumptions c01_complete_at_least_once.

Theorem c01_good_run_bound : forall w p a w', areach w -> afrun w p a w' ->
  amu w + 2 * N.of_nat a = amu w' + N.of_nat p.
Proof. exact agood_run_bound. Qed.
Print Assumptions c01_good_run_bound.

Theorem c01_good_run_complete : forall w p a w', areach w -> wT w = false -> afrun w p a w' ->
  (aquiescent w' \/ N.of_nat p = amu w + 2 * N.of_nat a) -> acomplete w'.
Proof. exact agood_run_complete. Qed.
Print Assumptions c01_good_run_complete.

Theorem c01_good_run_exists : forall w, areach w -> wT w = false ->
  exists w', afrun w (N.to_nat (amu w)) 0 w' /\ acomplete w'.
Proof. exact agood_run_exists. Qed.
Print Assumptions c01_good_run_exists.

(* from every reachable state (also after Close, also mid-handshake): Restart, then amu good
   steps: every message accepted so far is acknowledged and was forwarded at least once *)
Theorem c01_restart_good_run_exists : forall w, areach w ->
  exists w1 w', astep w ALRestart w1 /\ afrun w1 (N.to_nat (amu w1)) 0 w' /\ acomplete w' /\
    a_base w' + wA w' = a_base w + wA w /\
    forall x, x < a_base w + wA w -> In x (a_fwd w').
Proof. exact restart_good_run_exists. Qed.
Print Assumptions c01_restart_good_run_exists.

Theorem c01_restart_keeps_window : forall w c', AInv w -> arestart (a_cl w) c' ->
  l_acc c' - l_acked c' = wA w - wK w /\ l_term c' = false /\ l_q c' = wA w - wK w /\
  (a_base w + wK w - l_acked c') + l_acked c' = a_base w + wK w.
Proof. exact restart_keeps_window. Qed.
Print Assumptions c01_restart_keeps_window.

(* ---- the stepper and the concrete traces (non-vacuity; (e) duplicates) ---- *)

Theorem c01_stepper_sound : forall w a w', aexec w a = Some w' -> exists l, astep w l w'.
Proof. exact aexec_sound. Qed.
Print Assumptions c01_stepper_sound.

Theorem c01_duplicate_after_lost_puback :
  exists w, arun (ainit 4) dup_trace = Some w /\ areach w /\ acomplete w /\
    a_fwd w = [0; 0] /\ count_occ N.eq_dec (a_fwd w) 0 = 2%nat /\ ~ NoDup (a_fwd w).
Proof. exact duplicate_after_lost_puback. Qed.
Print Assumptions c01_duplicate_after_lost_puback.

Theorem c01_retransmission_has_dup :
  exists w, arun (ainit 4) [XReconnect; XAccept; XBreak; XReconnect] = Some w /\
    a_c2b w = [APub true (key1 0) 0] /\
  exists w', arun (ainit 4) [XReconnect; XAccept] = Some w' /\ a_c2b w' = [APub false (key1 0) 0].
Proof. exact retransmission_has_dup. Qed.
Print Assumptions c01_retransmission_has_dup.

Theorem c01_delete_fault_restart_complete :
  exists w, arun (ainit 4) delete_fault_trace = Some w /\ areach w /\ acomplete w /\
    a_fwd w = [1; 1; 0].
Proof. exact delete_fault_restart_complete. Qed.
Print Assumptions c01_delete_fault_restart_complete.

Theorem c01_resend_fault_trace :
  exists w, arun (ainit 4) resend_fault_actions = Some w /\ areach w /\ acomplete w /\
    a_base w = 2 /\ a_fwd w = [2; 2; 1; 1; 0].
Proof. exact resend_fault_trace. Qed.
Print Assumptions c01_resend_fault_trace.

Theorem c01_close_keeps_message :
  exists w, arun (ainit 4) [XReconnect; XAccept; XClose] = Some w /\
    wQ w = 0 /\ wT w = true /\ wK w = 0 /\ wA w = 1 /\ aexec w XReconnect = None /\
  exists w', arun w [XRestart (mkAcl 0 1 1 4 1 false); XReconnect; XBroker; XClient] = Some w' /\
    acomplete w' /\ a_fwd w' = [0].
Proof. exact close_keeps_message. Qed.
Print Assumptions c01_close_keeps_message.
