(* C01 — Accepted QoS>=1 publishes are retransmitted until acknowledged, never lost.
   Property theorems only (safety part over all histories and all environment scripts;
   the state space is every reachable state of the closed system client + Persistence). *)
From MQ Require Import Session Outbound OutboundInv OutboundRefine SessionTheorems.

(* Every API call, under every script of connection breaks, short writes, expiries, failed
   dials and Persistence failures, is a sequence of the abstract bookkeeping steps. *)
Theorem c01_every_call_refines : forall s o tp s' r log,
  exec s o tp = Some (s', r, log) -> op_wf o -> osteps (ost_of s) (ost_of s').
Proof. exact exec_refines. Qed.
Print Assumptions c01_every_call_refines.

(* In every reachable state, each accepted and not finally acknowledged message has its record
   in the Persistence, at its stage: no fault sequence loses one. *)
Theorem c01_record_kept : forall s, reachable_wf s ->
  let st := ost_of s in
  (forall n, o_acked st <= n < o_acc1 st ->
     exists retain topic msg sq, holds (o_store st) (key1 n) (pub1_packet retain topic msg n) sq /\ sq <= o_rseq st) /\
  (forall n, o_compl st <= n < o_recvd st ->
     exists sq, holds (o_store st) (key2 n) (packet_pubrel (key2 n)) sq /\ sq <= o_rseq st) /\
  (forall n, o_recvd st <= n < o_acc2 st ->
     exists retain topic msg sq, holds (o_store st) (key2 n) (pub2_packet retain topic msg n) sq /\ sq <= o_rseq st).
Proof. intros s H. apply record_kept, reachable_wf_inv, H. Qed.
Print Assumptions c01_record_kept.

(* A record leaves the Persistence only in the step that applies the in-order final
   acknowledgement (PUBACK of the oldest / PUBCOMP of the oldest), which also releases the head of
   the queue: only then does the exchange channel close. *)
Theorem c01_record_leaves_only_by_puback : forall st st' k,
  sorted_keys (o_store st) -> ostep st st' -> in_space k alo_space ->
  store_get (o_store st) k <> None -> store_get (o_store st') k = None ->
  k = key1 (o_acked st) /\ o_acked st' = o_acked st + 1 /\ exists x, o_q1 st = x :: o_q1 st'.
Proof. exact record_removed_only_by_ack1. Qed.
Print Assumptions c01_record_leaves_only_by_puback.

Theorem c01_record_leaves_only_by_pubcomp : forall st st' k,
  sorted_keys (o_store st) -> ostep st st' -> in_space k eo_space ->
  store_get (o_store st) k <> None -> store_get (o_store st') k = None ->
  k = key2 (o_compl st) /\ o_compl st' = o_compl st + 1 /\ o_compl st < o_recvd st /\
  exists x, o_q2 st = x :: o_q2 st'.
Proof. exact record_removed_only_by_comp2. Qed.
Print Assumptions c01_record_leaves_only_by_pubcomp.

(* No fault stops it: one more call from a reachable state lands in a state with the invariant. *)
Theorem c01_no_fault_stops_it : forall s o tp s' r log,
  reachable_wf s -> op_wf o -> exec s o tp = Some (s', r, log) -> o_rseq (ost_of s') < M64 ->
  osteps (ost_of s) (ost_of s') /\ OInv' (ost_of s').
Proof. exact reachable_step. Qed.
Print Assumptions c01_no_fault_stops_it.

Example c01_nonvacuous :
  exists s0, init_sys (mkScfg {| cfg_user := []; cfg_pass := None; cfg_will := None; cfg_keepalive := 0; cfg_clean := false |}
                              true 4 4 256 1000 1000) [99] (mkTapes [false; false] [] [] []) = Some s0.
Proof. exact reachable_nonvacuous. Qed.

(* ---- mixed histories: API calls interleaved with process stop + AdoptSession ---- *)
From MQ Require Import Session Outbound OutboundInv OutboundRefine SessionTheorems AdoptProofs MixedHistories.
Open Scope N_scope.
(* Additions for coq/props/C01.v (needs AdoptProofs MixedHistories in its Require line):
   c01_record_kept for mixed histories. *)
Theorem c01_record_kept_mixed : forall s, reachable_mixed s ->
  let st := ost_of s in
  (forall n, o_acked st <= n < o_acc1 st ->
     exists retain topic msg sq, holds (o_store st) (key1 n) (pub1_packet retain topic msg n) sq /\ sq <= o_rseq st) /\
  (forall n, o_compl st <= n < o_recvd st ->
     exists sq, holds (o_store st) (key2 n) (packet_pubrel (key2 n)) sq /\ sq <= o_rseq st) /\
  (forall n, o_recvd st <= n < o_acc2 st ->
     exists retain topic msg sq, holds (o_store st) (key2 n) (pub2_packet retain topic msg n) sq /\ sq <= o_rseq st).
Proof. intros s H. apply record_kept. exact (proj1 (reachable_mixed_good s H)). Qed.
Print Assumptions c01_record_kept_mixed.

(* reachable_inv for mixed histories *)
Theorem c01_reachable_inv_mixed : forall cf cid tp0 s0 h,
  cfg_ok cf -> init_sys cf cid tp0 = Some s0 ->
  Forall (fun p => op_level_ok (fst p)) h ->
  rseq_bounded s0 h ->
  OInv' (ost_of (run s0 h)).
Proof. intros. eapply reachable_good_mixed; eassumption. Qed.
Print Assumptions c01_reachable_inv_mixed.

(* the adoption-free reachable states of c01_record_kept are among the mixed ones *)
Theorem c01_reachable_wf_mixed : forall s, reachable_wf s -> reachable_mixed s.
Proof. exact reachable_wf_mixed. Qed.
Print Assumptions c01_reachable_wf_mixed.

(* one more call of any kind from a state reached by a mixed history *)
Theorem c01_no_fault_stops_it_mixed : forall s o tp s' r log,
  reachable_mixed s -> op_level_ok o -> exec s o tp = Some (s', r, log) ->
  o_rseq (ost_of s') < M64 -> OInv' (ost_of s').
Proof.
  intros s o tp s' r log Hr Hl E Hb.
  exact (proj1 (exec_good _ _ _ _ _ _ E Hl (reachable_mixed_good s Hr) Hb)).
Qed.
Print Assumptions c01_no_fault_stops_it_mixed.
