(* C09 — Emitted packets decode to the request; invalid arguments are denied without trace.
   This file holds the property theorems only; proofs live in MQ.Utf8Proofs,
   MQ.PacketsProofs, MQ.RequestsProofs and MQ.C09CheckProofs. *)
From RecordUpdate Require Import RecordUpdate.
From MQ Require Import Bytes Utf8 Utf8Proofs Packets Spec PacketsProofs Requests RequestsProofs
                       Session C09Check C09CheckProofs.

(* ================================================================== *)
(* A. The string checks accept exactly the MQTT "UTF-8 encoded strings" *)

(* utf8.ValidString (as modelled) accepts exactly the concatenations of RFC 3629
   encodings of Unicode scalar values *)
Theorem c09_utf8_valid_iff : forall s, bytes s ->
  (utf8_valid s = true <->
   exists cps, Forall scalar cps /\ s = flat_map utf8_encode cps).
Proof. exact utf8_valid_iff. Qed.
Print Assumptions c09_utf8_valid_iff.

Theorem c09_string_check_iff : forall s, bytes s ->
  (string_check s = None <->
   N.of_nat (length s) <= 65535 /\
   (exists cps, Forall scalar cps /\ ~ In 0 cps /\ s = flat_map utf8_encode cps)).
Proof. exact string_check_iff. Qed.
Print Assumptions c09_string_check_iff.

Theorem c09_topic_check_iff : forall s, bytes s ->
  (topic_check s = None <->
   s <> [] /\ N.of_nat (length s) <= 65535 /\
   (exists cps, Forall scalar cps /\ ~ In 0 cps /\ s = flat_map utf8_encode cps)).
Proof. exact topic_check_iff. Qed.
Print Assumptions c09_topic_check_iff.

(* the refusal names the first failing check: size, then UTF-8, then U+0000; "" first for topics *)
Theorem c09_string_check_reason : forall s d, string_check s = Some d <-> string_fault s d.
Proof. exact string_check_fault. Qed.
Print Assumptions c09_string_check_reason.

Theorem c09_topic_check_reason : forall s d, topic_check s = Some d <-> topic_fault s d.
Proof. exact topic_check_fault. Qed.
Print Assumptions c09_topic_check_reason.

(* ================================================================== *)
(* B. Denied iff invalid, per request kind, with the reason            *)

Theorem c09_deny_iff_invalid : forall r, req_deny r <> None <-> ~ req_valid r.
Proof. exact deny_iff_invalid. Qed.
Print Assumptions c09_deny_iff_invalid.

Theorem c09_no_valid_denied : forall r, req_valid r -> req_deny r = None.
Proof. exact no_valid_denied. Qed.
Print Assumptions c09_no_valid_denied.

(* Publish*, all levels: [space] is 0 or the identifier space of the level *)
Theorem c09_publish_deny_iff_invalid : forall topic msg space,
  publish_deny topic msg space <> None <->
  ~ (wf_topic topic /\ publish_size topic msg space <= 268435455).
Proof. exact publish_deny_iff_invalid. Qed.
Print Assumptions c09_publish_deny_iff_invalid.

Theorem c09_publish_deny_reason : forall topic msg space d,
  publish_deny topic msg space = Some d <->
  topic_fault topic d \/
  (wf_topic topic /\ 268435455 < publish_size topic msg space /\ d = DenyPacketMax).
Proof. exact publish_deny_reason. Qed.
Print Assumptions c09_publish_deny_reason.

Theorem c09_subscribe_deny_iff_invalid : forall fs,
  subscribe_deny fs <> None <->
  ~ (fs <> [] /\ Forall wf_topic fs /\ subscribe_size fs <= 268435455).
Proof. exact subscribe_deny_iff_invalid. Qed.
Print Assumptions c09_subscribe_deny_iff_invalid.

Theorem c09_subscribe_deny_reason : forall fs d,
  subscribe_deny fs = Some d <->
  (fs = [] /\ d = DenySubscribeNone) \/
  (exists pre f post, fs = pre ++ f :: post /\ Forall wf_topic pre /\ topic_fault f d) \/
  (fs <> [] /\ Forall wf_topic fs /\ 268435455 < subscribe_size fs /\ d = DenyPacketMax).
Proof. exact subscribe_deny_reason. Qed.
Print Assumptions c09_subscribe_deny_reason.

Theorem c09_unsubscribe_deny_iff_invalid : forall fs,
  unsubscribe_deny fs <> None <->
  ~ (fs <> [] /\ Forall wf_topic fs /\ unsubscribe_size fs <= 268435455).
Proof. exact unsubscribe_deny_iff_invalid. Qed.
Print Assumptions c09_unsubscribe_deny_iff_invalid.

Theorem c09_unsubscribe_deny_reason : forall fs d,
  unsubscribe_deny fs = Some d <->
  (fs = [] /\ d = DenyUnsubscribeNone) \/
  (exists pre f post, fs = pre ++ f :: post /\ Forall wf_topic pre /\ topic_fault f d) \/
  (fs <> [] /\ Forall wf_topic fs /\ 268435455 < unsubscribe_size fs /\ d = DenyPacketMax).
Proof. exact unsubscribe_deny_reason. Qed.
Print Assumptions c09_unsubscribe_deny_reason.

Theorem c09_clientid_deny_iff : forall cid, clientid_deny cid = None <-> wf_string cid.
Proof. exact clientid_deny_none_iff. Qed.
Print Assumptions c09_clientid_deny_iff.

(* Config.valid *)
Theorem c09_config_valid_iff : forall c,
  config_valid c = None <->
  cf_dialer c = true /\ wf_string (cf_user c) /\
  opt_len (cf_pass c) <= 65535 /\ opt_len (cf_wmsg c) <= 65535 /\
  match cf_wmsg c with
  | Some _ => wf_topic (cf_wtopic c)
  | None => wf_string (cf_wtopic c)
  end.
Proof. exact config_valid_iff. Qed.
Print Assumptions c09_config_valid_iff.

Theorem c09_config_valid_reason : forall c e,
  config_valid c = Some e <->
  (cf_dialer c = false /\ e = CfgNoDialer) \/
  (cf_dialer c = true /\ exists d, string_fault (cf_user c) d /\ e = CfgUserName d) \/
  (cf_dialer c = true /\ wf_string (cf_user c) /\ 65535 < opt_len (cf_pass c) /\ e = CfgPassword) \/
  (cf_dialer c = true /\ wf_string (cf_user c) /\ opt_len (cf_pass c) <= 65535 /\
   65535 < opt_len (cf_wmsg c) /\ e = CfgWillMessage) \/
  (cf_dialer c = true /\ wf_string (cf_user c) /\ opt_len (cf_pass c) <= 65535 /\
   opt_len (cf_wmsg c) <= 65535 /\ exists d, will_topic_fault c d /\ e = CfgWillTopic d).
Proof. exact config_valid_reason. Qed.
Print Assumptions c09_config_valid_reason.

(* InitSession: client identifier, then the Config *)
Theorem c09_init_valid_iff : forall cid c,
  init_valid cid c = None <-> wf_string cid /\ config_ok c.
Proof. exact init_valid_iff. Qed.
Print Assumptions c09_init_valid_iff.

(* ================================================================== *)
(* C. Every accepted request is emitted as a well-formed MQTT 3.1.1    *)
(*    packet that decodes to exactly the requested fields              *)

(* all kinds at once: CONNECT for every accepted Config and client identifier, PUBLISH at
   every level with and without retain and for every sequence number, SUBSCRIBE with each
   level limit, UNSUBSCRIBE, the four acknowledgements, PINGREQ, DISCONNECT; all sizes *)
Theorem c09_emitted_well_formed : forall r rest,
  req_accepted r -> req_typed r ->
  parse_packet (emit r ++ rest) = Some (expect r, rest).
Proof. exact emitted_well_formed. Qed.
Print Assumptions c09_emitted_well_formed.

Theorem c09_emitted_bytes : forall r, req_accepted r -> req_typed r -> bytes (emit r).
Proof. exact emitted_bytes. Qed.
Print Assumptions c09_emitted_bytes.

(* the same, kind by kind, with the expectations spelled out *)
Theorem c09_emit_publish : forall retain msg topic rest,
  publish_deny topic msg 0 = None -> bytes msg ->
  parse_packet (publish_packet (head_publish 0 retain false) topic msg 0 ++ rest)
  = Some (PPublish false 0 retain topic None msg, rest).
Proof. exact emit_publish. Qed.
Print Assumptions c09_emit_publish.

Theorem c09_emit_publish_persisted : forall level retain msg topic acc rest,
  level = 1 \/ level = 2 ->
  publish_deny topic msg (pub_space level) = None -> bytes msg ->
  parse_packet (publish_packet (head_publish level retain false) topic msg (pub_pid level acc) ++ rest)
  = Some (PPublish false level retain topic (Some (pub_pid level acc)) msg, rest).
Proof. exact emit_publish_persisted. Qed.
Print Assumptions c09_emit_publish_persisted.

Theorem c09_emit_subscribe : forall level fs txn rest,
  subscribe_deny fs = None -> level < 3 ->
  parse_packet (subscribe_packet (sub_pid txn) fs level ++ rest)
  = Some (PSubscribe (sub_pid txn) (map (fun f => (f, level)) fs), rest).
Proof. exact emit_subscribe. Qed.
Print Assumptions c09_emit_subscribe.

Theorem c09_emit_unsubscribe : forall fs txn rest,
  unsubscribe_deny fs = None ->
  parse_packet (unsubscribe_packet (unsub_pid txn) fs ++ rest)
  = Some (PUnsubscribe (unsub_pid txn) fs, rest).
Proof. exact emit_unsubscribe. Qed.
Print Assumptions c09_emit_unsubscribe.

Theorem c09_emit_connect : forall c cid rest,
  init_valid cid c = None ->
  cf_keepalive c < 65536 -> opt_bytes (cf_pass c) -> opt_bytes (cf_wmsg c) ->
  parse_packet (connect_packet (cfg_of_config c) cid ++ rest)
  = Some (PConnect (cf_clean c) (cf_keepalive c) cid (will_spec_of c) (user_of c) (cf_pass c), rest).
Proof. exact emit_connect. Qed.
Print Assumptions c09_emit_connect.

Theorem c09_emit_acks : forall id rest,
  id < 65536 ->
  parse_packet (packet_puback id ++ rest) = Some (PPuback id, rest) /\
  parse_packet (packet_pubrec id ++ rest) = Some (PPubrec id, rest) /\
  parse_packet (packet_pubrel id ++ rest) = Some (PPubrel id, rest) /\
  parse_packet (packet_pubcomp id ++ rest) = Some (PPubcomp id, rest).
Proof. exact ack_roundtrip. Qed.
Print Assumptions c09_emit_acks.

Theorem c09_ping_disconnect_literal : forall rest,
  parse_packet (packet_pingreq ++ rest) = Some (PPingreq, rest) /\
  parse_packet (packet_disconnect ++ rest) = Some (PDisconnect, rest).
Proof. exact literal_roundtrip. Qed.
Print Assumptions c09_ping_disconnect_literal.

(* the identifiers are never zero and fit 16 bits, for every counter value *)
Theorem c09_identifiers_in_range : forall level acc txn,
  0 < pub_pid level acc < 65536 /\ 0 < sub_pid txn < 65536 /\ 0 < unsub_pid txn < 65536.
Proof.
  intros level acc txn.
  exact (conj (pub_pid_range level acc) (conj (sub_pid_range txn) (unsub_pid_range txn))).
Qed.
Print Assumptions c09_identifiers_in_range.

(* ================================================================== *)
(* D. The session model (L2) uses this validation, and a denied        *)
(*    request leaves no trace                                          *)

Theorem c09_session_publish_deny_iff : forall c retain msg topic w,
  (exists c' w', op_publish c retain msg topic w = Some (c', RetErr E_deny, w')) <->
  publish_deny topic msg 0 <> None.
Proof. exact op_publish_deny_iff. Qed.
Print Assumptions c09_session_publish_deny_iff.

Theorem c09_session_publish_persisted_deny_iff : forall c level retain msg topic w,
  (exists c' w', op_publish_persisted c level retain msg topic w = Some (c', RetErr E_deny, w')) <->
  publish_deny topic msg (pub_space level) <> None.
Proof. exact op_publish_persisted_deny_iff. Qed.
Print Assumptions c09_session_publish_persisted_deny_iff.

Theorem c09_session_subscribe_deny_iff : forall c (sub : bool) level fs w,
  (exists c' w', op_subscribe c sub level fs w = Some (c', RetErr E_deny, w')) <->
  (if sub then subscribe_deny fs else unsubscribe_deny fs) <> None.
Proof. exact op_subscribe_deny_iff. Qed.
Print Assumptions c09_session_subscribe_deny_iff.

(* a denied Publish / PublishAtLeastOnce / PublishExactlyOnce (+Retained) / Subscribe* /
   Unsubscribe returns the deny class; the world is the same world (no call logged, no answer
   consumed, store untouched) and the client is the same client but for the model's request
   counter and the per-step event lists that [step] clears *)
Theorem c09_deny_no_trace : forall c o w d,
  op_deny o = Some d ->
  step c o w = Some (after_deny c o, RetErr E_deny, w).
Proof. exact deny_no_trace. Qed.
Print Assumptions c09_deny_no_trace.

Theorem c09_deny_world_untouched : forall c o w d c' r w',
  op_deny o = Some d -> step c o w = Some (c', r, w') ->
  r = RetErr E_deny /\ w' = w /\
  w_log w' = w_log w /\ w_store w' = w_store w /\
  t_st w' = t_st w /\ t_stf w' = t_stf w /\ t_dial w' = t_dial w /\
  t_wr w' = t_wr w /\ t_rd w' = t_rd w.
Proof. exact deny_world_untouched. Qed.
Print Assumptions c09_deny_world_untouched.

Theorem c09_deny_client_untouched : forall c o w d c' r w',
  op_deny o = Some d -> step c o w = Some (c', r, w') ->
  k_q1 c' = k_q1 c /\ k_q2 c' = k_q2 c /\
  k_acc1 c' = k_acc1 c /\ k_sub1 c' = k_sub1 c /\ k_acked c' = k_acked c /\
  k_acc2 c' = k_acc2 c /\ k_sub2 c' = k_sub2 c /\ k_recvd c' = k_recvd c /\ k_compl c' = k_compl c /\
  k_txn c' = k_txn c /\ k_txs c' = k_txs c /\ k_ping c' = k_ping c /\
  k_parked c' = k_parked c /\ k_nextx c' = k_nextx c /\ k_rseq c' = k_rseq c /\
  k_wsem c' = k_wsem c /\ k_csem c' = k_csem c /\ k_rconn c' = k_rconn c /\
  k_nconn c' = k_nconn c /\ k_rbuf c' = k_rbuf c /\ k_rerr c' = k_rerr c /\ k_rarm c' = k_rarm c /\
  k_peekn c' = k_peekn c /\
  k_pack c' = k_pack c /\ k_big c' = k_big c /\ k_online c' = k_online c /\
  k_newsess c' = k_newsess c /\ k_rwait c' = k_rwait c /\
  k_closed c' = k_closed c /\ k_seqclosed c' = k_seqclosed c /\ k_cfg c' = k_cfg c /\
  k_done c' = [] /\ k_xev c' = [] /\
  k_nextr c' = (if op_numbered o then N.succ (k_nextr c) else k_nextr c).
Proof. exact deny_client_untouched. Qed.
Print Assumptions c09_deny_client_untouched.

(* and the deny class is returned by these operations only then *)
Theorem c09_step_deny_only_if_invalid : forall c o w c' w',
  match o with OpPublish _ _ _ | OpPubP _ _ _ _ | OpSub _ _ | OpUnsub _ => True | _ => False end ->
  step c o w = Some (c', RetErr E_deny, w') -> op_deny o <> None.
Proof. exact step_deny_only_if_invalid. Qed.
Print Assumptions c09_step_deny_only_if_invalid.

Theorem c09_init_denied_no_trace : forall cf cid w d,
  clientid_deny cid = Some d ->
  op_init cf cid w = Some (None, RetErr E_deny, w).
Proof. exact init_denied_no_trace. Qed.
Print Assumptions c09_init_denied_no_trace.

(* ================================================================== *)
(* E. The trace checker                                                *)

(* its decision procedures decide the declarative notions *)
Theorem c09_spec_string_ok_iff : forall s, spec_string_ok s = true <-> wf_string s.
Proof. exact spec_string_ok_iff. Qed.
Print Assumptions c09_spec_string_ok_iff.

Theorem c09_spec_topic_ok_iff : forall s, spec_topic_ok s = true <-> wf_topic s.
Proof. exact spec_topic_ok_iff. Qed.
Print Assumptions c09_spec_topic_ok_iff.

Theorem c09_parses_to_spec : forall wire p,
  parses_to wire p = true <-> parse_packet wire = Some (p, []).
Proof. exact parses_to_spec. Qed.
Print Assumptions c09_parses_to_spec.

(* and it accepts everything the model produces *)
Theorem c09_checker_sound_str : forall topic s, c09_ok (StrCase topic s (str_model topic s)) = true.
Proof. exact c09_sound_str. Qed.
Print Assumptions c09_checker_sound_str.

Theorem c09_checker_sound_block : forall topic prefix alpha depth,
  c09_ok (StrBlock topic prefix alpha depth
            (map (fun w => str_model topic (prefix ++ w)) (words alpha depth))) = true.
Proof. exact c09_sound_block. Qed.
Print Assumptions c09_checker_sound_block.

Theorem c09_checker_sound_emitted : forall r saves,
  req_accepted r -> req_typed r -> c09_ok (ReqCase r 0 (emit r) saves) = true.
Proof. exact c09_sound_emitted. Qed.
Print Assumptions c09_checker_sound_emitted.

Theorem c09_checker_sound_denied : forall r d,
  req_deny r = Some d -> c09_ok (ReqCase r (deny_code (Some d)) [] 0) = true.
Proof. exact c09_sound_denied. Qed.
Print Assumptions c09_checker_sound_denied.

Theorem c09_checker_sound_deny_probe : forall r d probe,
  req_deny r = Some d -> req_accepted probe -> req_typed probe -> req_slot r = req_slot probe ->
  c09_ok (DenyCase r (deny_code (Some d)) 0 0 probe 0 (emit probe)) = true.
Proof. exact c09_sound_deny_probe. Qed.
Print Assumptions c09_checker_sound_deny_probe.

Theorem c09_checker_sound_big : forall level retain msg topic acc saves,
  level < 3 -> big_deny level (len msg) topic = None ->
  let head := publish_head_len (head_publish level retain false) topic (len msg) (big_pid level acc) in
  c09_ok (BigPubCase level retain (len msg) topic acc 0 head (len head + len msg) true saves) = true.
Proof. exact c09_sound_big. Qed.
Print Assumptions c09_checker_sound_big.

Theorem c09_checker_sound_config : forall c, c09_ok (ConfigCase c (config_code (config_valid c))) = true.
Proof. exact c09_sound_config. Qed.
Print Assumptions c09_checker_sound_config.

Theorem c09_checker_sound_init : forall cid c,
  c09_ok (InitCase cid c (config_code (init_valid cid c))
            (match init_valid cid c with None => 2 | Some _ => 0 end)) = true.
Proof. exact c09_sound_init. Qed.
Print Assumptions c09_checker_sound_init.

(* ================================================================== *)
(* F. Non-vacuity                                                      *)

(* "a/€" is a topic name; every refusal reason occurs *)
Example c09_witness_topic :
  wf_topic [97; 47; 226; 130; 172]
  /\ topic_fault [] DenyZero
  /\ topic_fault [237; 160; 128] DenyUTF8            (* U+D800 as three bytes *)
  /\ topic_fault [97; 0] DenyNull
  /\ string_fault (repN 65536 97) DenyStringMax.
Proof.
  split; [apply topic_check_wf; vm_compute; reflexivity|].
  split; [apply topic_check_fault; vm_compute; reflexivity|].
  split; [apply topic_check_fault; vm_compute; reflexivity|].
  split; [apply topic_check_fault; vm_compute; reflexivity|].
  apply (proj1 (string_check_fault (repN 65536 97) DenyStringMax)). vm_compute. reflexivity.
Qed.

(* an accepted request of every validated kind, with what the parser reads *)
Example c09_witness_emitted :
  let r1 := RqPublishP 2 true [1; 2; 3] [97; 47; 226; 130; 172] 16385 in
  let r2 := RqSubscribe 1 [[97; 47; 35]; [43]] 8192 in
  let c := mkConfig true [117] (Some [0; 255]) [119] (Some []) true true false 65535 true in
  let r3 := RqConnect c [99; 105; 100] in
  (req_accepted r1 /\ req_typed r1) /\ (req_accepted r2 /\ req_typed r2) /\ (req_accepted r3 /\ req_typed r3)
  /\ parse_packet (emit r1) = Some (PPublish false 2 true [97; 47; 226; 130; 172] (Some 49153) [1; 2; 3], [])
  /\ parse_packet (emit r2) = Some (PSubscribe 24576 [([97; 47; 35], 1); ([43], 1)], [])
  /\ parse_packet (emit r3)
     = Some (PConnect true 65535 [99; 105; 100]
               (Some {| ws_topic := [119]; ws_msg := []; ws_qos := 1; ws_retain := true |})
               (Some [117]) (Some [0; 255]), []).
Proof.
  cbv zeta.
  repeat split; try (vm_compute; reflexivity); try (vm_compute; auto; fail);
    try (repeat constructor; unfold isbyte; vm_compute; reflexivity).
Qed.

(* denied requests: the reason is the one of the first failing check *)
Example c09_witness_denied :
  publish_deny [] (rep 10 0) 0 = Some DenyZero
  /\ subscribe_deny [] = Some DenySubscribeNone
  /\ unsubscribe_deny [] = Some DenyUnsubscribeNone
  /\ subscribe_deny [[97]; [255]; []] = Some DenyUTF8
  /\ unsubscribe_deny [[97]; []; [255]] = Some DenyZero
  /\ config_valid (mkConfig true [117; 0] (Some []) [] (Some []) false false false 0 false)
     = Some (CfgUserName DenyNull)
  /\ config_valid (mkConfig true [117] (Some []) [] (Some []) false false false 0 false)
     = Some (CfgWillTopic DenyZero)
  /\ config_valid (mkConfig true [117] (Some []) [] None false false false 0 false) = None.
Proof. vm_compute. repeat split; reflexivity. Qed.

(* the session model: the same client and world, once with a valid and once with an invalid
   topic.  The valid publish is persisted and written; the invalid one changes nothing. *)
Definition c09_cf : scfg :=
  mkScfg {| cfg_user := []; cfg_pass := None; cfg_will := None; cfg_keepalive := 0; cfg_clean := true |}
         false 16384 16384 4096 1000 60000.
Definition c09_client : client :=
  new_client c09_cf 0 <| k_wsem := WsConn 0 |> <| k_online := true |> <| k_rconn := Some 0 |>.
Definition c09_world : world :=
  mkWorld [] [false; false] (Some [(0, [99])]) [] [(100, WOk); (100, WOk)] [] [].

Example c09_witness_no_trace :
  op_deny (OpPubP 1 false [1] [97; 0]) = Some DenyNull
  /\ step c09_client (OpPubP 1 false [1] [97; 0]) c09_world = Some (c09_client, RetErr E_deny, c09_world)
  /\ (exists c' w', step c09_client (OpPubP 1 false [1] [97]) c09_world = Some (c', RetExch 1, w')
        /\ k_q1 c' = [1] /\ k_acc1 c' = 1 /\ length (w_log w') = 3%nat)
  /\ op_deny (OpSub 1 [[97]; []]) = Some DenyZero
  /\ (exists c', step c09_client (OpSub 1 [[97]; []]) c09_world = Some (c', RetErr E_deny, c09_world)
        /\ k_txs c' = [] /\ k_txn c' = 0).
Proof.
  split; [vm_compute; reflexivity|].
  split; [vm_compute; reflexivity|].
  split; [eexists; eexists; split; [vm_compute; reflexivity|vm_compute; auto]|].
  split; [vm_compute; reflexivity|].
  eexists; split; [vm_compute; reflexivity|vm_compute; auto].
Qed.

(* the checker rejects what violates the property: a denial that wrote, a denial that consumed
   the identifier, a NUL that was let through, a PUBLISH whose length byte lost its
   continuation bit *)
Example c09_witness_checker_rejects :
  c09_ok (DenyCase (RqPublishP 1 false [1] [] 0) 5 2 0 (RqPublishP 1 false [1] [97] 0) 0
            (emit (RqPublishP 1 false [1] [97] 0))) = false
  /\ c09_ok (DenyCase (RqPublishP 1 false [1] [] 0) 5 0 0 (RqPublishP 1 false [1] [97] 0) 0
               (emit (RqPublishP 1 false [1] [97] 1))) = false
  /\ c09_ok (StrCase false [97; 0] 0) = false
  /\ c09_ok (ReqCase (RqPublish false (rep 200 7) [97]) 0
               (48 :: 75 :: 1 :: 0 :: 1 :: 97 :: rep 200 7) 0) = false.
Proof. vm_compute. repeat split; reflexivity. Qed.
