(* C02 — Restart resumes exactly the unacknowledged set, at any stop point, repeatedly.
   Property theorems only.  The statements are those of MQ.AdoptProofs (printed by Check). *)
From MQ Require Import Session Outbound OutboundInv OutboundRefine SessionTheorems AdoptProofs.

(* AdoptSession on the Persistence of ANY state satisfying the invariant (every reachable state:
   c01/c17 theorems; every stop point between two Persistence operations is such a state because
   each abstract transition performs at most one Save or Delete together with its counter update —
   see c02_any_stop_point below) returns a client, no warning, nothing deleted, the same windows
   with the same identifiers, each transfer at its stage (PUBLISH or PUBREL), the storage sequence
   continued, and the invariant again. *)
Theorem c02_adopt_exact : ltac:(let t := type of adopt_exact in exact t).
Proof. exact adopt_exact. Qed.
Check c02_adopt_exact.
Print Assumptions c02_adopt_exact.

(* The same whenever AdoptSession returns a client at all, under any failure script. *)
Theorem c02_adopt_some : ltac:(let t := type of adopt_some in exact t).
Proof. exact adopt_some. Qed.
Print Assumptions c02_adopt_some.

(* Repeatedly: adoption keeps the invariant and its side conditions, store and windows unchanged,
   so any number of stop/adopt cycles with arbitrary activity in between compose. *)
Theorem c02_repeat : ltac:(let t := type of adopts_inv in exact t).
Proof. exact adopts_inv. Qed.
Check c02_repeat.
Print Assumptions c02_repeat.

(* Every intermediate state of an API call is a state of the abstract system: a process stop
   between two Persistence operations leaves a store that satisfies the invariant (osteps are
   invariant-preserving one by one). *)
Theorem c02_any_stop_point : forall st st', OInv' st -> ostep st st' -> o_rseq st' < M64 -> OInv' st'.
Proof. exact oinv_step. Qed.
Print Assumptions c02_any_stop_point.

(* The order in which List reports the keys does not matter. *)
Theorem c02_order_independent : ltac:(let t := type of adopt_order_independent in exact t).
Proof. exact adopt_order_independent. Qed.
Print Assumptions c02_order_independent.

(* The counter reconstruction of the pinned tree forgot a full window of PUBRELs (F22, repaired). *)
Theorem c02_pinned_full_window_refuted : ltac:(let t := type of adopt_recvd_pinned_refuted in exact t).
Proof. exact adopt_recvd_pinned_refuted. Qed.
Print Assumptions c02_pinned_full_window_refuted.

(* Non-vacuity: a state with all three groups populated and a marker satisfies the hypotheses. *)
Example c02_nonvacuous : ltac:(let t := type of adopt_exact_nonvacuous in exact t).
Proof. exact adopt_exact_nonvacuous. Qed.
