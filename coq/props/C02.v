(* C02 — Restart resumes exactly the unacknowledged set, at any stop point, repeatedly.
   Property theorems only.  The statements are those of MQ.AdoptProofs (printed by Check). *)
From MQ Require Import Session Outbound OutboundInv OutboundRefine SessionTheorems AdoptProofs.

(* AdoptSession on the Persistence of ANY state satisfying the invariant (every reachable state:
   c01/c17 theorems; every stop point between two Persistence operations is such a state because
   each abstract transition performs at most one Save or Delete together with its counter update —
   see c02_any_stop_point below) returns a client, no warning, nothing deleted, the same windows
   with the same identifiers, each transfer at its stage (PUBLISH or PUBREL), the storage sequence
   continued, and the invariant again. *)
Theorem c02_adopt_exact : ltac:(let t := type of adopt_exact in exact t).
Proof. exact adopt_exact. Qed.
Check c02_adopt_exact.
Print Assumptions c02_adopt_exact.

(* The same whenever AdoptSession returns a client at all, under any failure script. *)
Theorem c02_adopt_some : ltac:(let t := type of adopt_some in exact t).
Proof. exact adopt_some. Qed.
Print Assumptions c02_adopt_some.

(* Repeatedly: adoption keeps the invariant and its side conditions, store and windows unchanged,
   so any number of stop/adopt cycles with arbitrary activity in between compose. *)
Theorem c02_repeat : ltac:(let t := type of adopts_inv in exact t).
Proof. exact adopts_inv. Qed.
Check c02_repeat.
Print Assumptions c02_repeat.

(* Every intermediate state of an API call is a state of the abstract system: a process stop
   between two Persistence operations leaves a store that satisfies the invariant (osteps are
   invariant-preserving one by one). *)
Theorem c02_any_stop_point : forall st st', OInv' st -> ostep st st' -> o_rseq st' < M64 -> OInv' st'.
Proof. exact oinv_step. Qed.
Print Assumptions c02_any_stop_point.

(* The order in which List reports the keys does not matter. *)
Theorem c02_order_independent : ltac:(let t := type of adopt_order_independent in exact t).
Proof. exact adopt_order_independent. Qed.
Print Assumptions c02_order_independent.

(* The counter reconstruction of the pinned tree forgot a full window of PUBRELs (F22, repaired). *)
Theorem c02_pinned_full_window_refuted : ltac:(let t := type of adopt_recvd_pinned_refuted in exact t).
Proof. exact adopt_recvd_pinned_refuted. Qed.
Print Assumptions c02_pinned_full_window_refuted.

(* Non-vacuity: a state with all three groups populated and a marker satisfies the hypotheses. *)
Example c02_nonvacuous : ltac:(let t := type of adopt_exact_nonvacuous in exact t).
Proof. exact adopt_exact_nonvacuous. Qed.

(* ---- mixed histories: API calls interleaved with process stop + AdoptSession ---- *)
(* Additions for coq/props/C02.v (append; needs MixedHistories in the Require line):
   From MQ Require Import Session Outbound OutboundInv OutboundRefine SessionTheorems AdoptProofs MixedHistories. *)
From MQ Require Import Session Outbound OutboundInv OutboundRefine SessionTheorems AdoptProofs MixedHistories.

(* The two side conditions of c02_adopt_exact are invariants of the abstract system: every
   step keeps them (the second one given ascending Persistence keys, which OInv' contains). *)
Theorem c02_known_keys_step : forall st st', ostep st st' -> known_keys st -> known_keys st'.
Proof. exact known_keys_step. Qed.
Print Assumptions c02_known_keys_step.

Theorem c02_markers_genuine_step : forall st st',
  ostep st st' -> sorted_keys (o_store st) -> markers_genuine st -> markers_genuine st'.
Proof. exact markers_genuine_step. Qed.
Print Assumptions c02_markers_genuine_step.

(* ... and ascending keys cannot be dropped from the second one. *)
Theorem c02_markers_genuine_needs_sorted :
  exists st st', ostep st st' /\ markers_genuine st /\ ~ markers_genuine st'.
Proof. exact markers_genuine_step_needs_sorted. Qed.
Print Assumptions c02_markers_genuine_needs_sorted.

(* A failed AdoptSession (Persistence failure, limits below the pending windows) on the
   Persistence of a Good state deletes nothing. *)
Theorem c02_failed_adopt_deletes_nothing : forall st m',
  Good st -> purge (o_store st) m' -> m' = o_store st.
Proof. exact good_purge_id. Qed.
Print Assumptions c02_failed_adopt_deletes_nothing.

(* ONE API call of any kind -- AdoptSession after a process stop included, under every
   environment script -- keeps Good = OInv' /\ known_keys /\ markers_genuine. *)
Theorem c02_every_call_keeps_good : forall s o tp s' r log,
  exec s o tp = Some (s', r, log) -> op_level_ok o -> Good (ost_of s) ->
  o_rseq (ost_of s') < M64 -> Good (ost_of s').
Proof. exact exec_good. Qed.
Print Assumptions c02_every_call_keeps_good.

(* AdoptSession itself needs no bound on the storage counter; the store is unchanged whether
   it returns a client or not. *)
Theorem c02_adopt_keeps_good : forall s m1 m2 tp s' r log,
  exec s (OpAdopt m1 m2) tp = Some (s', r, log) -> Good (ost_of s) ->
  Good (ost_of s') /\ sy_m s' = sy_m s /\ o_rseq (ost_of s') <= o_rseq (ost_of s).
Proof. exact exec_adopt_good. Qed.
Print Assumptions c02_adopt_keeps_good.

(* Mixed histories: API calls interleaved with process stop + AdoptSession, any number of
   times, from InitSession on, under every environment script.  The storage counter must stay
   below 2^64 in every state along the run (an adoption restarts it at the largest storage
   number found, so the final state alone says nothing about the earlier ones). *)
Theorem c02_reachable_good_mixed : forall cf cid tp0 s0 h,
  cfg_ok cf -> init_sys cf cid tp0 = Some s0 ->
  Forall (fun p => op_level_ok (fst p)) h ->
  rseq_bounded s0 h ->
  Good (ost_of (run s0 h)).
Proof. exact reachable_good_mixed. Qed.
Print Assumptions c02_reachable_good_mixed.

(* ... and in every state between two calls (every stop point between calls). *)
Theorem c02_reachable_good_mixed_all : forall cf cid tp0 s0 h,
  cfg_ok cf -> init_sys cf cid tp0 = Some s0 ->
  Forall (fun p => op_level_ok (fst p)) h ->
  rseq_bounded s0 h ->
  Forall (fun x => Good (ost_of x)) (s0 :: run_states s0 h).
Proof. exact reachable_good_mixed_all. Qed.
Print Assumptions c02_reachable_good_mixed_all.

(* c02_adopt_exact at every state reached by a mixed history: the only conditions left are
   no Persistence failure during the adoption and limits not below the pending windows. *)
Theorem c02_adopt_exact_reachable : ltac:(let t := type of adopt_exact_reachable in exact t).
Proof. exact adopt_exact_reachable. Qed.
Check c02_adopt_exact_reachable.
Print Assumptions c02_adopt_exact_reachable.

(* The same as a call of the closed system; the state after the adoption is again reachable by
   a mixed history, so the statement applies to it: at any stop point, repeatedly. *)
Theorem c02_adopt_exec_reachable : forall s m1 m2 tp s' r log,
  reachable_mixed s ->
  Forall (fun b => b = false) (tp_stf tp) ->
  let st := ost_of s in let st' := ost_of s' in
  o_acc1 st - o_acked st <= norm_max m1 -> o_acc2 st - o_compl st <= norm_max m2 ->
  exec s (OpAdopt m1 m2) tp = Some (s', r, log) ->
  r = RetAdopt 0 E_nil /\ sy_m s' = sy_m s
  /\ o_max1 st' = norm_max m1 /\ o_max2 st' = norm_max m2
  /\ o_acc1 st' - o_acked st' = o_acc1 st - o_acked st
  /\ o_acc2 st' - o_compl st' = o_acc2 st - o_compl st
  /\ o_recvd st' - o_compl st' = o_recvd st - o_compl st
  /\ (o_acked st < o_acc1 st -> o_acked st' = o_acked st mod 16384)
  /\ (o_compl st < o_acc2 st -> o_compl st' = o_compl st mod 16384)
  /\ o_sub1 st' = o_acc1 st' /\ o_sub2 st' = o_acc2 st'
  /\ len (o_q1 st') = o_acc1 st - o_acked st /\ len (o_q2 st') = o_acc2 st - o_compl st
  /\ o_term st' = false /\ o_closed st' = false
  /\ o_rseq st' <= o_rseq st
  /\ reachable_mixed s'.
Proof. exact adopt_exec_reachable. Qed.
Print Assumptions c02_adopt_exec_reachable.

(* Non-vacuity: publish, stop + adopt, publish, stop + adopt, publish: every hypothesis of
   c02_reachable_good_mixed holds, both adoptions return a client without warning, and the
   three accepted publications are pending at the end. *)
Example c02_mixed_nonvacuous : ltac:(let t := type of mixed_nonvacuous in exact t).
Proof. exact mixed_nonvacuous. Qed.
Check c02_mixed_nonvacuous.

(* ------------------------------------------------------------------ *)
