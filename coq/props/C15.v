(* C15 — Stored records round-trip exactly; single-byte damage is always detected.
   This file holds the property theorems only; proofs live in MQ.RecordProofs. *)
From MQ Require Import Bytes Record RecordProofs C15Check.

(* Every value round-trips exactly, for every packet and every 64-bit sequence number. *)
Theorem c15_decode_encode :
  forall (p : list N) (s : N), s < M64 -> decode_value (encode_value p s) = DecOk p s.
Proof. exact decode_encode. Qed.
Print Assumptions c15_decode_encode.

(* The documented layout: packet, 8-byte little-endian sequence number,
   4-byte big-endian FNV-1a over both. *)
Theorem c15_layout :
  forall (p : list N) (s : N),
    encode_value p s = (p ++ le64 s) ++ be32 (fold_left fnv_step (p ++ le64 s) fnv_offset)
    /\ length (encode_value p s) = (length p + 12)%nat
    /\ (bytes p -> bytes (encode_value p s)).
Proof. intros p s. split; [reflexivity|split; [apply encode_length|apply encode_bytes]]. Qed.
Print Assumptions c15_layout.

(* Any single differing byte, at any position, with any of the 255 other values:
   the value is reported as corrupt. *)
Theorem c15_single_byte_damage_detected :
  forall (p : list N) (s : N) (i : nat) (b' : N),
    bytes p -> isbyte b' -> (i < length (encode_value p s))%nat ->
    nth i (encode_value p s) 0 <> b' ->
    decode_value (upd i b' (encode_value p s)) = DecCorrupt.
Proof. exact single_byte_damage. Qed.
Print Assumptions c15_single_byte_damage_detected.

(* Anything shorter than 12 bytes is refused. *)
Theorem c15_short_rejected :
  forall v : list N, (length v < 12)%nat -> decode_value v = DecTruncated.
Proof. exact short_rejected. Qed.
Print Assumptions c15_short_rejected.

(* Non-vacuity: a concrete record with a 2^32 sequence number and a damaged byte. *)
Example c15_witness :
  decode_value (encode_value [48; 3; 0; 1; 97] 4294967296) = DecOk [48; 3; 0; 1; 97] 4294967296
  /\ decode_value (upd 2 7 (encode_value [48; 3; 0; 1; 97] 4294967296)) = DecCorrupt.
Proof. vm_compute. split; reflexivity. Qed.

(* The trace checker accepts everything the model produces. *)
Theorem c15_checker_sound_enc :
  forall p s, c15_ok (EncCase p s (encode_value p s)) = true.
Proof.
  intros p s. unfold c15_ok, encode_value, list_eqb.
  destruct (list_eq_dec _ _ _); [reflexivity|contradiction].
Qed.
Print Assumptions c15_checker_sound_enc.
