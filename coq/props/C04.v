(* C04 — Exactly-once reception: delivered once per cycle, handshake always answered.
   Property theorems only (statements: MQ.InboundProofs, printed by Check); for ALL client
   states and ALL environment scripts. *)
From MQ Require Import Session InboundProofs.

(* While the marker of an identifier is in the Persistence, a PUBLISH with that identifier is never
   returned to the application (whatever the value, whatever fails); without failures it is answered
   as a duplicate; with no marker it is returned. *)
Theorem c04_once_per_cycle : ltac:(let t := type of on_publish_once_per_cycle in exact t).
Proof. exact on_publish_once_per_cycle. Qed.
Check c04_once_per_cycle.
Print Assumptions c04_once_per_cycle.

(* A duplicate is answered with PUBREC again at once (the F3 repair); if the write fails the PUBREC is
   kept for the next call. *)
Theorem c04_dupe_gets_pubrec : ltac:(let t := type of dupe_gets_pubrec in exact t).
Proof. exact dupe_gets_pubrec. Qed.
Print Assumptions c04_dupe_gets_pubrec.
Theorem c04_dupe_gets_pubrec_big : ltac:(let t := type of dupe_gets_pubrec_big in exact t).
Proof. exact dupe_gets_pubrec_big. Qed.
Print Assumptions c04_dupe_gets_pubrec_big.

(* Every PUBREL is answered: marker deleted, then PUBCOMP written completely or kept for the retry. *)
Theorem c04_pubrel_gets_pubcomp : ltac:(let t := type of on_pubrel_answers in exact t).
Proof. exact on_pubrel_answers. Qed.
Check c04_pubrel_gets_pubcomp.
Print Assumptions c04_pubrel_gets_pubcomp.

(* The marker is saved before the PUBREC goes out: ownership first. *)
Theorem c04_marker_before_pubrec : ltac:(let t := type of flush_acks_first in exact t).
Proof. exact flush_acks_first. Qed.
Print Assumptions c04_marker_before_pubrec.

Example c04_nonvacuous : ltac:(let t := type of inbound_example in exact t).
Proof. exact inbound_example. Qed.
