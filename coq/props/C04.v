(* C04 — Exactly-once reception: delivered once per cycle, handshake always answered.
   Property theorems only (statements: MQ.InboundProofs, printed by Check); for ALL client
   states and ALL environment scripts. *)
From MQ Require Import Session InboundProofs SaveBeforeWrite.

(* While the marker of an identifier is in the Persistence, a PUBLISH with that identifier is never
   returned to the application (whatever the value, whatever fails); without failures it is answered
   as a duplicate; with no marker it is returned. *)
Theorem c04_once_per_cycle : ltac:(let t := type of on_publish_once_per_cycle in exact t).
Proof. exact on_publish_once_per_cycle. Qed.
Check c04_once_per_cycle.
Print Assumptions c04_once_per_cycle.

(* A duplicate is answered with PUBREC again at once (the F3 repair); if the write fails the PUBREC is
   kept for the next call. *)
Theorem c04_dupe_gets_pubrec : ltac:(let t := type of dupe_gets_pubrec in exact t).
Proof. exact dupe_gets_pubrec. Qed.
Print Assumptions c04_dupe_gets_pubrec.
Theorem c04_dupe_gets_pubrec_big : ltac:(let t := type of dupe_gets_pubrec_big in exact t).
Proof. exact dupe_gets_pubrec_big. Qed.
Print Assumptions c04_dupe_gets_pubrec_big.

(* Every PUBREL is answered: marker deleted, then PUBCOMP written completely or kept for the retry. *)
Theorem c04_pubrel_gets_pubcomp : ltac:(let t := type of on_pubrel_answers in exact t).
Proof. exact on_pubrel_answers. Qed.
Check c04_pubrel_gets_pubcomp.
Print Assumptions c04_pubrel_gets_pubcomp.

(* The marker is saved before the PUBREC goes out: ownership first. *)
Theorem c04_marker_before_pubrec : ltac:(let t := type of flush_acks_first in exact t).
Proof. exact flush_acks_first. Qed.
Print Assumptions c04_marker_before_pubrec.

Example c04_nonvacuous : ltac:(let t := type of inbound_example in exact t).
Proof. exact inbound_example. Qed.

(* ---- the closed loop for reception: client + conforming sending broker + one FIFO connection ---- *)
(* Additions for coq/props/C04.v — broker side (closed loop: conforming SENDING broker +
   connection + client's exactly-once reception, theories/InboundWorld.v).
   Needs, next to the existing imports of props/C04.v:
     From Coq Require Import ZArith List.
     From MQ Require Import InboundWorld.
   (standalone here so that it can be compiled on its own:
     cd /verif/coq && coqc -Q theories MQ -Q gen MQG -Q props MQP -Q /verif/work/prover-inbound-world SIW \
          /verif/work/prover-inbound-world/C04_additions.v) *)
From Coq Require Import ZArith List.
From MQ Require Import Session InboundProofs InboundWorld.
Import ListNotations.
Local Open Scope N_scope.

(* ---- the step shapes of the world's client: facts of Session.v they are read off from ---- *)
(* Already in props/C04.v and props/C07.v: c04_once_per_cycle (I_deliver / I_dupe guard),
   c07_own_ack + c07_no_ack_while_held (I_deliver: pendingAck := PUBREC id, nothing written),
   c04_dupe_gets_pubrec(_big) (I_dupe / I_dupe_fail), c04_marker_before_pubrec =
   c07_ack_first_on_next_call (I_flush / I_flush_fail / I_save_fail),
   c04_pubrel_gets_pubcomp (I_pubrel / I_pubrel_fail).  Three more: *)

(* The flush saves a marker for a pending PUBREC and for nothing else - in particular not for a
   PUBCOMP kept after a failed write (what the seeded change M3-C04b alters); the key is the
   identifier with bit 16. *)
Theorem c04_tie_marker_only_for_pubrec : forall id,
  is_pubrec_packet (packet_pubrec id) = true /\ is_pubrec_packet (packet_pubcomp id) = false /\
  is_pubrec_packet (packet_puback id) = false /\
  (id < 65536 -> flush_key (packet_pubrec id) = N.lor id remote_flag).
Proof.
  intros id. split; [apply is_pubrec_pubrec|]. split; [apply is_pubrec_pubcomp|].
  split; [apply is_pubrec_puback|apply flush_key_pubrec].
Qed.
Print Assumptions c04_tie_marker_only_for_pubrec.

(* toOffline and connect keep pendingAck (I_break, I_reconnect, and every *_fail step). *)
Theorem c04_tie_pendingack_survives_offline : forall c w c' w',
  to_offline c w = Some (c', w') -> log_ext w w' /\ k_pack c' = k_pack c.
Proof. exact to_offline_sat. Qed.
Print Assumptions c04_tie_pendingack_survives_offline.
Theorem c04_tie_pendingack_survives_connect : forall c w p w',
  connect c w = Some (p, w') -> log_ext w w' /\ k_pack (fst p) = k_pack c.
Proof. exact connect_sat. Qed.
Print Assumptions c04_tie_pendingack_survives_connect.

(* A process started by AdoptSession has an empty pendingAck (I_restart). *)
Theorem c04_tie_new_process_no_pendingack : forall cf z1 z2 w p w',
  op_adopt cf z1 z2 w = Some (p, w') -> log_ext w w' /\ fresh_pack p.
Proof. exact op_adopt_sat. Qed.
Print Assumptions c04_tie_new_process_no_pendingack.

(* ---- the closed loop ---- *)

Theorem c04_world_inv : forall w, ireach w -> IInv w.
Proof. exact inbound_inv. Qed.
Print Assumptions c04_world_inv.

(* (a) exactly once per delivery cycle, for every interleaving of connection loss, reconnect and
   client restart: message x is returned at most once, plus once for every process stop that
   fell between its return and the marker Save of the next ReadSlices call *)
Theorem c04_world_once_per_cycle : forall w x, ireach w ->
  (cnt (i_deliv w) x <= 1 + cnt (i_lost w) x)%nat.
Proof. exact once_per_cycle. Qed.
Print Assumptions c04_world_once_per_cycle.

Theorem c04_world_once_unless_window : forall w x, ireach w -> ~ In x (i_lost w) ->
  (cnt (i_deliv w) x <= 1)%nat.
Proof. exact once_unless_window. Qed.
Print Assumptions c04_world_once_unless_window.

Theorem c04_world_no_window_nodup : forall w, ireach w -> i_lost w = [] -> NoDup (i_deliv w).
Proof. exact no_window_nodup. Qed.
Print Assumptions c04_world_no_window_nodup.

Theorem c04_world_lost_only_by_restart : forall w l w', istep w l w' -> i_lost w' <> i_lost w ->
  l = LRestart /\ exists id x, i_owed w = Some (URec id x) /\ ~ In id (i_marks w) /\
                               i_lost w' = x :: i_lost w.
Proof. exact lost_only_by_restart. Qed.
Print Assumptions c04_world_lost_only_by_restart.

Theorem c04_world_lost_was_delivered : forall w x, ireach w -> In x (i_lost w) -> In x (i_deliv w).
Proof. exact lost_was_delivered. Qed.
Print Assumptions c04_world_lost_was_delivered.

(* (b) identifier reuse: a marker exists only while the broker holds the identifier *)
Theorem c04_world_marker_means_in_flight : forall w id, ireach w -> In id (i_marks w) ->
  exists e, cur id (i_out w) = Some e /\ e_id e = id /\ In (e_x e) (i_deliv w).
Proof. exact marker_means_in_flight. Qed.
Print Assumptions c04_world_marker_means_in_flight.

Theorem c04_world_new_cycle_no_marker : forall w id, ireach w ->
  cur id (i_out w) = None -> ~ In id (i_marks w).
Proof. exact new_cycle_no_marker. Qed.
Print Assumptions c04_world_new_cycle_no_marker.

Theorem c04_world_new_step_no_marker : forall w w', ireach w -> istep w LNew w' ->
  exists id, i_out w' = i_out w ++ [mkE id (i_next w) BRec] /\ ~ In id (i_marks w) /\
             i_marks w' = i_marks w.
Proof. exact new_step_no_marker. Qed.
Print Assumptions c04_world_new_step_no_marker.

Theorem c04_world_fresh_never_dupe : forall w id x q, ireach w -> i_b2c w = DPub id x :: q ->
  ~ In x (i_deliv w) -> ~ In id (i_marks w).
Proof. exact fresh_never_dupe. Qed.
Print Assumptions c04_world_fresh_never_dupe.

Theorem c04_world_retransmission_is_dupe : forall w id x q, ireach w -> i_b2c w = DPub id x :: q ->
  i_owed w = None -> In x (i_deliv w) -> ~ In x (i_lost w) -> In id (i_marks w).
Proof. exact retransmission_is_dupe. Qed.
Print Assumptions c04_world_retransmission_is_dupe.

(* the broker's view of the client's answers *)
Theorem c04_world_broker_knows_pubrec : forall w w', ireach w -> ~ istep w LBrokerRecUnknown w'.
Proof. exact broker_knows_pubrec. Qed.
Print Assumptions c04_world_broker_knows_pubrec.

Theorem c04_world_pubrec_is_current : forall w id x q, ireach w -> i_c2b w = URec id x :: q ->
  exists e, cur id (i_out w) = Some e /\ e_x e = x.
Proof. exact pubrec_is_current. Qed.
Print Assumptions c04_world_pubrec_is_current.

Theorem c04_world_stale_pubcomp_harmless : forall w id x q e, ireach w -> i_c2b w = UComp id x :: q ->
  cur id (i_out w) = Some e -> e_ph e = BComp -> e_x e = x.
Proof. exact stale_pubcomp_harmless. Qed.
Print Assumptions c04_world_stale_pubcomp_harmless.

(* (c) bounded progress: when the faults stop every handshake completes *)
Theorem c04_world_good_step_measure : forall w l w', IInv w -> istep w l w' ->
  is_progress l = true -> imu w' < imu w.
Proof. exact good_step_measure. Qed.
Print Assumptions c04_world_good_step_measure.

Theorem c04_world_new_step_measure : forall w w', istep w LNew w' -> imu w' = imu w + 5.
Proof. exact new_step_measure. Qed.
Print Assumptions c04_world_new_step_measure.

Theorem c04_world_progress_enabled : forall w, imu w <> 0 ->
  exists l w', is_progress l = true /\ istep w l w'.
Proof. exact progress_enabled. Qed.
Print Assumptions c04_world_progress_enabled.

Theorem c04_world_quiescent_complete : forall w, ireach w -> quiescent w -> InboundWorld.complete w.
Proof. exact quiescent_complete. Qed.
Print Assumptions c04_world_quiescent_complete.

Theorem c04_world_complete_exactly_once : forall w x, InboundWorld.complete w -> ~ In x (i_lost w) ->
  cnt (i_deliv w) x = if x <? i_next w then 1%nat else 0%nat.
Proof. exact complete_exactly_once. Qed.
Print Assumptions c04_world_complete_exactly_once.

Theorem c04_world_good_run_bound : forall w p a w', ireach w -> frun w p a w' ->
  imu w' + N.of_nat p <= imu w + 5 * N.of_nat a.
Proof. exact good_run_bound. Qed.
Print Assumptions c04_world_good_run_bound.

Theorem c04_world_good_run_complete : forall w p a w', ireach w -> frun w p a w' ->
  quiescent w' -> InboundWorld.complete w'.
Proof. exact good_run_complete. Qed.
Print Assumptions c04_world_good_run_complete.

Theorem c04_world_good_run_exists : forall w, ireach w ->
  exists p w', frun w p 0 w' /\ InboundWorld.complete w' /\ N.of_nat p <= imu w /\ i_lost w' = i_lost w.
Proof. exact good_run_exists. Qed.
Print Assumptions c04_world_good_run_exists.

(* concrete traces (non-vacuity of the world, and its boundary) *)
Theorem c04_world_exec_sound : forall w a w', iexec w a = Some w' -> exists l, istep w l w'.
Proof. exact iexec_sound. Qed.
Print Assumptions c04_world_exec_sound.

Example c04_world_retransmission_once : ltac:(let t := type of retransmission_once in exact t).
Proof. exact retransmission_once. Qed.
Print Assumptions c04_world_retransmission_once.
Example c04_world_identifier_reuse_returned : ltac:(let t := type of identifier_reuse_returned in exact t).
Proof. exact identifier_reuse_returned. Qed.
Print Assumptions c04_world_identifier_reuse_returned.
Example c04_world_window_second_delivery : ltac:(let t := type of window_second_delivery in exact t).
Proof. exact window_second_delivery. Qed.
Print Assumptions c04_world_window_second_delivery.
Example c04_world_restart_after_flush_once : ltac:(let t := type of restart_after_flush_once in exact t).
Proof. exact restart_after_flush_once. Qed.
Print Assumptions c04_world_restart_after_flush_once.
Example c04_world_m3c04b_loses_message : ltac:(let t := type of m3c04b_loses_message in exact t).
Proof. exact m3c04b_loses_message. Qed.
Print Assumptions c04_world_m3c04b_loses_message.
Example c04_world_clean_session_restart_loses_message :
  ltac:(let t := type of clean_session_restart_loses_message in exact t).
Proof. exact clean_session_restart_loses_message. Qed.
Print Assumptions c04_world_clean_session_restart_loses_message.

(* ---- projection of the executable session model onto the slim receiver of InboundWorld ---- *)
(* Additions for coq/props/C04.v — the tie between the executable session model and the slim
   receiver of the closed world (theories/InboundTie.v).
   Needs, next to the existing imports of props/C04.v:
     From Coq Require Import ZArith List.
     From MQ Require Import OutboundInv InboundTie.
   (standalone here so that it can be compiled on its own:
     cd /verif/coq && coqc -Q theories MQ -Q gen MQG -Q props MQP -Q /verif/work/prover-inbound-tie SIT \
          /verif/work/prover-inbound-tie/C04_additions.v) *)
From Coq Require Import ZArith List.
From MQ Require Import Session InboundProofs InboundWorld OutboundInv InboundTie.
Import ListNotations.
Local Open Scope N_scope.

(* ---- the projection theorem: one API step of Session.v is a run of the slim receiver ---- *)
Theorem c04_tie_step_islim : forall c o w c' r w' m m',
  step c o w = Some ((c', r), w') -> w_store w = Some m -> w_store w' = Some m' ->
  sorted_keys m -> mdec m -> bytes (k_rbuf c) -> tape_ok (t_rd w) ->
  islim_steps (islim c m) (islim c' m').
Proof. exact step_islim. Qed.
Print Assumptions c04_tie_step_islim.

(* ... and the side conditions are invariants; the Persistence stays in map mode *)
Theorem c04_tie_step_islim_ok : forall c o w c' r w' m,
  step c o w = Some ((c', r), w') -> tie_ok c w m ->
  exists m', tie_ok c' w' m' /\ islim_steps (islim c m) (islim c' m').
Proof. exact step_islim_ok. Qed.
Print Assumptions c04_tie_step_islim_ok.

Theorem c04_tie_run_islim : forall c w os c' w', srun c w os c' w' -> forall m, tie_ok c w m ->
  exists m', tie_ok c' w' m' /\ islim_steps (islim c m) (islim c' m').
Proof. exact run_islim. Qed.
Print Assumptions c04_tie_run_islim.

Theorem c04_tie_new_client : forall cf rseq w, w_store w = Some [] -> tape_ok (t_rd w) ->
  tie_ok (new_client cf rseq) w [] /\ islim (new_client cf rseq) [] = ([], None).
Proof. intros cf rseq w H1 H2. split; [apply tie_ok_new; assumption|apply islim_new]. Qed.
Print Assumptions c04_tie_new_client.

(* ---- the pieces (every client state, every genuine-store world, every tape) ---- *)
(* (i) on_publish: I_deliver / I_dupe(_fail) / I_break *)
Theorem c04_tie_on_publish : forall c head body w m c' r w',
  w_store w = Some m -> bytes body -> k_pack c = [] ->
  on_publish c head body w = Some ((c', r), w') ->
  w_store w' = Some m /\ t_wr w' = t_wr w /\ pubq c head body m (t_rd w) (c', r) m (t_rd w').
Proof. exact on_publish_islim. Qed.
Print Assumptions c04_tie_on_publish.

(* (ii) the flush at the start of ReadSlices: I_flush / I_flush_fail / I_save_fail *)
Theorem c04_tie_flush_is_read_slices : ltac:(let t := type of read_slices_body_flush in exact t).
Proof. exact read_slices_body_flush. Qed.
Theorem c04_tie_flush : forall c w m p w',
  w_store w = Some m -> sorted_keys m -> flush_ack c w = Some (p, w') ->
  exists m', w_store w' = Some m' /\ flq c m (t_rd w) p m' (t_rd w').
Proof. exact flush_ack_islim. Qed.
Print Assumptions c04_tie_flush.

(* (iii) on_pubrel: I_pubrel / I_pubrel_fail / I_break *)
Theorem c04_tie_on_pubrel : forall c body w m p w',
  w_store w = Some m -> sorted_keys m -> bytes body -> k_pack c = [] ->
  on_pubrel c body w = Some (p, w') ->
  exists m', w_store w' = Some m' /\ relq c body m (t_rd w) p m' (t_rd w').
Proof. exact on_pubrel_islim. Qed.
Print Assumptions c04_tie_on_pubrel.

(* (iv) everything else is a stutter *)
Theorem c04_tie_dispatch : forall c head body w m p w',
  w_store w = Some m -> sorted_keys m -> bytes body -> k_pack c = [] ->
  dispatch c head body w = Some (p, w') ->
  exists m', w_store w' = Some m' /\ dq c m (t_rd w) p m' (t_rd w').
Proof. exact dispatch_islim. Qed.
Print Assumptions c04_tie_dispatch.
Theorem c04_tie_on_puback : ltac:(let t := type of on_puback_islim in exact t).
Proof. exact on_puback_islim. Qed.
Theorem c04_tie_on_pubcomp : ltac:(let t := type of on_pubcomp_islim in exact t).
Proof. exact on_pubcomp_islim. Qed.
Theorem c04_tie_on_pubrec : ltac:(let t := type of on_pubrec_islim in exact t).
Proof. exact on_pubrec_islim. Qed.
Theorem c04_tie_ctl_stutter : ltac:(let t := type of ctlq_stutter in exact t).
Proof. exact ctlq_stutter. Qed.
Theorem c04_tie_pubrec_stutter : ltac:(let t := type of recq_stutter in exact t).
Proof. exact recq_stutter. Qed.
Print Assumptions c04_tie_on_puback.
Print Assumptions c04_tie_on_pubcomp.
Print Assumptions c04_tie_on_pubrec.
Print Assumptions c04_tie_ctl_stutter.
Print Assumptions c04_tie_pubrec_stutter.

Theorem c04_tie_to_offline : forall c w c' w' m,
  to_offline c w = Some (c', w') -> w_store w = Some m -> w_store w' = Some m /\ islim c' m = islim c m.
Proof. exact to_offline_islim. Qed.
Print Assumptions c04_tie_to_offline.
Theorem c04_tie_connect : forall c w p w' m,
  connect c w = Some (p, w') -> w_store w = Some m -> w_store w' = Some m /\ islim (fst p) m = islim c m.
Proof. exact connect_islim. Qed.
Print Assumptions c04_tie_connect.
Theorem c04_tie_other_ops : ltac:(let t := type of other_ops_islim in exact t).
Proof. exact other_ops_islim. Qed.
Print Assumptions c04_tie_other_ops.
(* AdoptSession: I_restart *)
Theorem c04_tie_adopt : ltac:(let t := type of op_adopt_islim in exact t).
Proof. exact op_adopt_islim. Qed.
Print Assumptions c04_tie_adopt.

(* ---- cstep_in is the client part of InboundWorld.istep ---- *)
Theorem c04_tie_istep_is_cstep : forall w l w', istep w l w' ->
  proj w' = proj w \/ exists k, ilab_of k = l /\ cstep_in k (proj w) (proj w').
Proof. exact istep_client_proj. Qed.
Print Assumptions c04_tie_istep_is_cstep.
Theorem c04_tie_cstep_is_istep : forall k s s' w,
  cstep_in k s s' -> sl_eq (proj w) s -> input_ok k w ->
  exists w', istep w (ilab_of k) w' /\ sl_eq (proj w') s'.
Proof. exact cstep_in_istep. Qed.
Print Assumptions c04_tie_cstep_is_istep.
Theorem c04_tie_marker_list_irrelevant : forall w1 w2 l w1', weq w1 w2 -> istep w1 l w1' ->
  exists w2', istep w2 l w2' /\ weq w1' w2'.
Proof. exact istep_weq. Qed.
Print Assumptions c04_tie_marker_list_irrelevant.

(* ---- non-vacuity: concrete runs of Session.step and their projections ---- *)
Example c04_tie_example : ltac:(let t := type of tie_example in exact t).
Proof. exact tie_example. Qed.
Example c04_tie_example_ok : tie_ok ex_client tie_world [].
Proof. exact tie_example_ok. Qed.
Example c04_tie_example_fail : ltac:(let t := type of tie_example_fail in exact t).
Proof. exact tie_example_fail. Qed.
Print Assumptions c04_tie_example.

(* the acknowledgement flush with a PUBREC pending: a write happens only after the reception marker was saved successfully (first request of the step) *)
Theorem c04_flush_pubrec_marker_recorded : ltac:(let t := type of flush_pubrec_marker_recorded in exact t).
Proof. exact flush_pubrec_marker_recorded. Qed.
Check c04_flush_pubrec_marker_recorded.
Print Assumptions c04_flush_pubrec_marker_recorded.

(* ... when the marker Save is refused nothing is written and the PUBREC stays owed *)
Theorem c04_flush_pubrec_save_refused : ltac:(let t := type of flush_pubrec_save_refused in exact t).
Proof. exact flush_pubrec_save_refused. Qed.
Check c04_flush_pubrec_save_refused.
Print Assumptions c04_flush_pubrec_save_refused.

(* the same for a whole ReadSlices call on a live connection: only reads of a left-over big message precede the marker Save *)
Theorem c04_read_flush_pubrec_marker_recorded : ltac:(let t := type of read_slices_flush_pubrec_marker_recorded in exact t).
Proof. exact read_slices_flush_pubrec_marker_recorded. Qed.
Check c04_read_flush_pubrec_marker_recorded.
Print Assumptions c04_read_flush_pubrec_marker_recorded.

(* without the live connection the statement is false as worded (the reconnect writes CONNECT before the marker Save): a concrete run *)
Theorem c04_read_reconnect_writes_before_marker : ltac:(let t := type of read_reconnect_writes_before_marker in exact t).
Proof. exact read_reconnect_writes_before_marker. Qed.
Check c04_read_reconnect_writes_before_marker.
Print Assumptions c04_read_reconnect_writes_before_marker.

(* the handler of PUBREL: PUBCOMP is written only after the marker was deleted successfully *)
Theorem c04_pubrel_marker_deleted_first : ltac:(let t := type of on_pubrel_marker_deleted_first in exact t).
Proof. exact on_pubrel_marker_deleted_first. Qed.
Check c04_pubrel_marker_deleted_first.
Print Assumptions c04_pubrel_marker_deleted_first.

(* ... when the Delete is refused nothing is written *)
Theorem c04_pubrel_delete_refused : ltac:(let t := type of on_pubrel_delete_refused in exact t).
Proof. exact on_pubrel_delete_refused. Qed.
Check c04_pubrel_delete_refused.
Print Assumptions c04_pubrel_delete_refused.
