(* C10 — The read routine never wedges: failed connections are left and redialed (sequential part; the interleaving part is props/C12.v + SyncProofs).
   Property theorems only; the statements are those of the named lemmas (printed by Check),
   each for ALL client states and ALL environment scripts unless it says otherwise. *)
From MQ Require Import Session Outbound OutboundRefine ConnectProofs ClassProofs.

(* every error while reading or handling a packet makes ReadSlices close the connection and go offline before it returns *)
Theorem c10_error_leaves_connection : ltac:(let t := type of read_loop_handler_error_resets in exact t).
Proof. exact read_loop_handler_error_resets. Qed.
Check c10_error_leaves_connection.
Print Assumptions c10_error_leaves_connection.

(* the same on the big-message path *)
Theorem c10_big_error_leaves_connection : ltac:(let t := type of read_loop_big_error_resets in exact t).
Proof. exact read_loop_big_error_resets. Qed.
Check c10_big_error_leaves_connection.
Print Assumptions c10_big_error_leaves_connection.

(* with no connection and the client not closed, ReadSlices starts with a connect: Load of the identifier, then Dial *)
Theorem c10_redial : ltac:(let t := type of read_slices_redials in exact t).
Proof. exact read_slices_redials. Qed.
Check c10_redial.
Print Assumptions c10_redial.

(* a reset is followed by a redial on the next call *)
Theorem c10_reset_then_redial : ltac:(let t := type of reset_then_redial in exact t).
Proof. exact reset_then_redial. Qed.
Check c10_reset_then_redial.
Print Assumptions c10_reset_then_redial.

(* a failed connect attempt releases every request waiting for it (ErrDown) *)
Theorem c10_pending_released : ltac:(let t := type of connect_failure_releases in exact t).
Proof. exact connect_failure_releases. Qed.
Check c10_pending_released.
Print Assumptions c10_pending_released.

(* a connect attempt ends Online with the write semaphore holding the new connection, or Down with the connection closed *)
Theorem c10_connect_shape : ltac:(let t := type of connect_log_shape in exact t).
Proof. exact connect_log_shape. Qed.
Check c10_connect_shape.
Print Assumptions c10_connect_shape.

(* the read routine's own writes (writeNoWait) return at once when no connection is installed (F4 repair): ErrDown, nothing written *)
Theorem c10_own_writes_do_not_wait : ltac:(let t := type of not_submitted_nothing_written in exact t).
Proof. exact not_submitted_nothing_written. Qed.
Check c10_own_writes_do_not_wait.
Print Assumptions c10_own_writes_do_not_wait.


(* Interleavings (L3 monitor, faithful traces): the write-token holder never waits for another token and
   always progresses; the wait-for graph is acyclic: the read routine cannot wait on itself. *)
From MQ Require Import Sync SyncProofs.
Theorem c10_wait_for_acyclic : ltac:(let t := type of wait_for_acyclic in exact t).
Proof. exact wait_for_acyclic. Qed.
Print Assumptions c10_wait_for_acyclic.
Theorem c10_write_holder_waits_for_nothing : ltac:(let t := type of write_holder_waits_for_nothing in exact t).
Proof. exact write_holder_waits_for_nothing. Qed.
Print Assumptions c10_write_holder_waits_for_nothing.

(* ---- bounded progress of the skeleton: the read routine is never blocked by itself ---- *)
(* C10 additions: PROGRESS of the read routine in the L3 monitor (coq/theories/SyncProgress.v).  To be appended to coq/props/C10.v.  Environment assumptions: see the top of SyncProgress.v. *)
From MQ Require Import Sync SyncProofs SyncProgress.

(* from every reachable state the read routine is back at the top of ReadSlices (connect, toOffline, its own write, termCallbacks finished) within 42 enabled events, none of them a new API call *)
Theorem c10_read_routine_returns : ltac:(let t := type of read_routine_returns in exact t).
Proof. exact read_routine_returns. Qed.
Check c10_read_routine_returns.
Print Assumptions c10_read_routine_returns.

(* game form, all outcomes of the designated goroutine, 42 rounds *)
Theorem c10_read_routine_must_return : ltac:(let t := type of read_routine_must_return in exact t).
Proof. exact read_routine_must_return. Qed.
Check c10_read_routine_must_return.
Print Assumptions c10_read_routine_must_return.

(* a blocked read routine waits for ANOTHER goroutine, and some other goroutine has an enabled event that decreases the potential: it never waits on something only it can provide *)
Theorem c10_read_routine_never_self_blocked : ltac:(let t := type of read_routine_never_self_blocked in exact t).
Proof. exact read_routine_never_self_blocked. Qed.
Check c10_read_routine_never_self_blocked.
Print Assumptions c10_read_routine_never_self_blocked.

(* what any blocked goroutine waits for *)
Theorem c10_blocked_waits_for : ltac:(let t := type of blocked_waits_for in exact t).
Proof. exact blocked_waits_for. Qed.
Check c10_blocked_waits_for.
Print Assumptions c10_blocked_waits_for.

(* a persisted publish (submitPersisted) returns within 45 enabled events *)
Theorem c10_persist_returns : ltac:(let t := type of persist_returns in exact t).
Proof. exact persist_returns. Qed.
Check c10_persist_returns.
Print Assumptions c10_persist_returns.

(* a Publish-like request returns or sits at the designed connPending wait within 43 enabled events without its quit *)
Theorem c10_request_settles : ltac:(let t := type of request_settles in exact t).
Proof. exact request_settles. Qed.
Check c10_request_settles.
Print Assumptions c10_request_settles.

(* every semaphore the read routine may wait for is available again within 39 enabled events *)
Theorem c10_tokens_released : ltac:(let t := type of tokens_released in exact t).
Proof. exact tokens_released. Qed.
Check c10_tokens_released.
Print Assumptions c10_tokens_released.

(* every event of a token holder brings the release nearer (all outcomes) *)
Theorem c10_holder_step : ltac:(let t := type of holder_step in exact t).
Proof. exact holder_step. Qed.
Check c10_holder_step.
Print Assumptions c10_holder_step.

