(* C10 — The read routine never wedges: failed connections are left and redialed (sequential part; the interleaving part is props/C12.v + SyncProofs).
   Property theorems only; the statements are those of the named lemmas (printed by Check),
   each for ALL client states and ALL environment scripts unless it says otherwise. *)
From MQ Require Import Session Outbound OutboundRefine ConnectProofs ClassProofs.

(* every error while reading or handling a packet makes ReadSlices close the connection and go offline before it returns *)
Theorem c10_error_leaves_connection : ltac:(let t := type of read_loop_handler_error_resets in exact t).
Proof. exact read_loop_handler_error_resets. Qed.
Check c10_error_leaves_connection.
Print Assumptions c10_error_leaves_connection.

(* the same on the big-message path *)
Theorem c10_big_error_leaves_connection : ltac:(let t := type of read_loop_big_error_resets in exact t).
Proof. exact read_loop_big_error_resets. Qed.
Check c10_big_error_leaves_connection.
Print Assumptions c10_big_error_leaves_connection.

(* with no connection and the client not closed, ReadSlices starts with a connect: Load of the identifier, then Dial *)
Theorem c10_redial : ltac:(let t := type of read_slices_redials in exact t).
Proof. exact read_slices_redials. Qed.
Check c10_redial.
Print Assumptions c10_redial.

(* a reset is followed by a redial on the next call *)
Theorem c10_reset_then_redial : ltac:(let t := type of reset_then_redial in exact t).
Proof. exact reset_then_redial. Qed.
Check c10_reset_then_redial.
Print Assumptions c10_reset_then_redial.

(* a failed connect attempt releases every request waiting for it (ErrDown) *)
Theorem c10_pending_released : ltac:(let t := type of connect_failure_releases in exact t).
Proof. exact connect_failure_releases. Qed.
Check c10_pending_released.
Print Assumptions c10_pending_released.

(* a connect attempt ends Online with the write semaphore holding the new connection, or Down with the connection closed *)
Theorem c10_connect_shape : ltac:(let t := type of connect_log_shape in exact t).
Proof. exact connect_log_shape. Qed.
Check c10_connect_shape.
Print Assumptions c10_connect_shape.

(* the read routine's own writes (writeNoWait) return at once when no connection is installed (F4 repair): ErrDown, nothing written *)
Theorem c10_own_writes_do_not_wait : ltac:(let t := type of not_submitted_nothing_written in exact t).
Proof. exact not_submitted_nothing_written. Qed.
Check c10_own_writes_do_not_wait.
Print Assumptions c10_own_writes_do_not_wait.


(* Interleavings (L3 monitor, faithful traces): the write-token holder never waits for another token and
   always progresses; the wait-for graph is acyclic: the read routine cannot wait on itself. *)
From MQ Require Import Sync SyncProofs.
Theorem c10_wait_for_acyclic : ltac:(let t := type of wait_for_acyclic in exact t).
Proof. exact wait_for_acyclic. Qed.
Print Assumptions c10_wait_for_acyclic.
Theorem c10_write_holder_waits_for_nothing : ltac:(let t := type of write_holder_waits_for_nothing in exact t).
Proof. exact write_holder_waits_for_nothing. Qed.
Print Assumptions c10_write_holder_waits_for_nothing.

(* ---- bounded progress of the skeleton: the read routine is never blocked by itself ---- *)
(* C10 additions: PROGRESS of the read routine in the L3 monitor (coq/theories/SyncProgress.v).  To be appended to coq/props/C10.v.  Environment assumptions: see the top of SyncProgress.v. *)
From MQ Require Import Sync SyncProofs SyncProgress.

(* from every reachable state the read routine is back at the top of ReadSlices (connect, toOffline, its own write, termCallbacks finished) within 42 enabled events, none of them a new API call *)
Theorem c10_read_routine_returns : ltac:(let t := type of read_routine_returns in exact t).
Proof. exact read_routine_returns. Qed.
Check c10_read_routine_returns.
Print Assumptions c10_read_routine_returns.

(* game form, all outcomes of the designated goroutine, 42 rounds *)
Theorem c10_read_routine_must_return : ltac:(let t := type of read_routine_must_return in exact t).
Proof. exact read_routine_must_return. Qed.
Check c10_read_routine_must_return.
Print Assumptions c10_read_routine_must_return.

(* a blocked read routine waits for ANOTHER goroutine, and some other goroutine has an enabled event that decreases the potential: it never waits on something only it can provide *)
Theorem c10_read_routine_never_self_blocked : ltac:(let t := type of read_routine_never_self_blocked in exact t).
Proof. exact read_routine_never_self_blocked. Qed.
Check c10_read_routine_never_self_blocked.
Print Assumptions c10_read_routine_never_self_blocked.

(* what any blocked goroutine waits for *)
Theorem c10_blocked_waits_for : ltac:(let t := type of blocked_waits_for in exact t).
Proof. exact blocked_waits_for. Qed.
Check c10_blocked_waits_for.
Print Assumptions c10_blocked_waits_for.

(* a persisted publish (submitPersisted) returns within 45 enabled events *)
Theorem c10_persist_returns : ltac:(let t := type of persist_returns in exact t).
Proof. exact persist_returns. Qed.
Check c10_persist_returns.
Print Assumptions c10_persist_returns.

(* a Publish-like request returns or sits at the designed connPending wait within 43 enabled events without its quit *)
Theorem c10_request_settles : ltac:(let t := type of request_settles in exact t).
Proof. exact request_settles. Qed.
Check c10_request_settles.
Print Assumptions c10_request_settles.

(* every semaphore the read routine may wait for is available again within 39 enabled events *)
Theorem c10_tokens_released : ltac:(let t := type of tokens_released in exact t).
Proof. exact tokens_released. Qed.
Check c10_tokens_released.
Print Assumptions c10_tokens_released.

(* every event of a token holder brings the release nearer (all outcomes) *)
Theorem c10_holder_step : ltac:(let t := type of holder_step in exact t).
Proof. exact holder_step. Qed.
Check c10_holder_step.
Print Assumptions c10_holder_step.


(* ---- ReadBackoff: nil exactly for the closed class, bounds, ramp-up ---- *)
(* C10 — additions for props/C10.v: the last sentence, "ReadBackoff yields a channel that
   closes within the configured bounds for every non-fatal error"
   (coq/theories/BackoffBounds.v).  To be appended to coq/props/C10.v; needs
     From MQ Require Import BackoffBounds.
   RetWait kind ms: kind 0 the released channel, 1 the nil channel, 2 a timer of ms > 0
   milliseconds.  e: the class bit-vector of the error ReadSlices returned last;
   model_errs (ConnectProofs): every error value the model produces. *)
From MQ Require Import Session ConnectProofs BackoffBounds.

(* the switch of ReadBackoff, class by class, in the order of client.go: nil error or BigMessage pending -> released; ErrClosed -> nil; readConn set (Persistence error) -> 1000 ms; refusal -> ReconnectWaitMax; else min(max(reconnectWait, Min), Max), and reconnectWait := twice that *)
Theorem c10_backoff_cases : ltac:(let t := type of backoff_cases in exact t).
Proof. exact backoff_cases. Qed.
Check c10_backoff_cases.
Print Assumptions c10_backoff_cases.

(* the nil channel is returned iff the error is non-nil, no BigMessage is pending and errors.Is(err, ErrClosed) *)
Theorem c10_backoff_nil_iff : ltac:(let t := type of backoff_nil_iff in exact t).
Proof. exact backoff_nil_iff. Qed.
Check c10_backoff_nil_iff.
Print Assumptions c10_backoff_nil_iff.

(* among the error values of the model exactly E_closed Is ErrClosed *)
Theorem c10_closed_class_unique : ltac:(let t := type of closed_class_unique in exact t).
Proof. exact closed_class_unique. Qed.
Print Assumptions c10_closed_class_unique.

(* hence: for the errors the model produces, nil iff ErrClosed (fatal) *)
Theorem c10_backoff_nil_iff_closed : ltac:(let t := type of backoff_nil_iff_closed in exact t).
Proof. exact backoff_nil_iff_closed. Qed.
Check c10_backoff_nil_iff_closed.
Print Assumptions c10_backoff_nil_iff_closed.

(* documented special case: with a BigMessage pending there is no backoff whatever the error *)
Theorem c10_backoff_big_pending : ltac:(let t := type of backoff_big_pending in exact t).
Proof. exact backoff_big_pending. Qed.
Print Assumptions c10_backoff_big_pending.

(* always a channel answer; a timer is never zero *)
Theorem c10_backoff_shape : ltac:(let t := type of backoff_shape in exact t).
Proof. exact backoff_shape. Qed.
Print Assumptions c10_backoff_shape.

(* every answer other than the nil channel closes within max(1000 ms, ReconnectWaitMax), for every client state and every error bit-vector *)
Theorem c10_backoff_upper : ltac:(let t := type of backoff_upper in exact t).
Proof. exact backoff_upper. Qed.
Check c10_backoff_upper.
Print Assumptions c10_backoff_upper.

(* offline, non-fatal, ANY configuration values: min(Min, Max) <= wait <= Max *)
Theorem c10_backoff_reconnect_bounds_raw : ltac:(let t := type of backoff_reconnect_bounds_raw in exact t).
Proof. exact backoff_reconnect_bounds_raw. Qed.
Print Assumptions c10_backoff_reconnect_bounds_raw.

(* offline, non-fatal, Min <= Max (newClient's normalisation): ReconnectWaitMin <= wait <= ReconnectWaitMax; a refusal waits exactly the maximum *)
Theorem c10_backoff_reconnect_bounds : ltac:(let t := type of backoff_reconnect_bounds in exact t).
Proof. exact backoff_reconnect_bounds. Qed.
Check c10_backoff_reconnect_bounds.
Print Assumptions c10_backoff_reconnect_bounds.

(* the error came from the Persistence (connection still installed): exactly one second *)
Theorem c10_backoff_store_second : ltac:(let t := type of backoff_store_second in exact t).
Proof. exact backoff_store_second. Qed.
Print Assumptions c10_backoff_store_second.

(* the sentence of the property, over the error values of the model: every non-nil error other than E_closed gets a channel that closes, within the bounds of its case *)
Theorem c10_backoff_every_nonfatal : ltac:(let t := type of backoff_every_nonfatal in exact t).
Proof. exact backoff_every_nonfatal. Qed.
Check c10_backoff_every_nonfatal.
Print Assumptions c10_backoff_every_nonfatal.

(* ramp-up: of two consecutive ramp-up answers the second waits min(max(2 * first, Min), Max) >= the first ... *)
Theorem c10_backoff_ramp : ltac:(let t := type of backoff_ramp in exact t).
Proof. exact backoff_ramp. Qed.
Check c10_backoff_ramp.
Print Assumptions c10_backoff_ramp.

(* ... = min(2 * first, Max) with Min <= Max: exponential up to the maximum *)
Theorem c10_backoff_ramp_doubles : ltac:(let t := type of backoff_ramp_doubles in exact t).
Proof. exact backoff_ramp_doubles. Qed.
Print Assumptions c10_backoff_ramp_doubles.

(* answers of the other classes leave the ramp-up alone *)
Theorem c10_backoff_other_keeps_rwait : ltac:(let t := type of backoff_other_keeps_rwait in exact t).
Proof. exact backoff_other_keeps_rwait. Qed.
Print Assumptions c10_backoff_other_keeps_rwait.

(* a successful connect resets reconnectWait, a failed one keeps it (every world, every tape) *)
Theorem c10_connect_rwait : ltac:(let t := type of connect_rwait in exact t).
Proof. exact connect_rwait. Qed.
Check c10_connect_rwait.
Print Assumptions c10_connect_rwait.

(* consecutive failed connects: ReadSlices of an offline client returns the connect error and keeps reconnectWait *)
Theorem c10_offline_read_slices_rwait : ltac:(let t := type of offline_read_slices_rwait in exact t).
Proof. exact offline_read_slices_rwait. Qed.
Print Assumptions c10_offline_read_slices_rwait.

(* after a success the ramp-up starts from ReconnectWaitMin again *)
Theorem c10_backoff_after_success : ltac:(let t := type of backoff_after_success in exact t).
Proof. exact backoff_after_success. Qed.
Print Assumptions c10_backoff_after_success.

(* ReadBackoff performs no I/O (the world, log included, is unchanged) ... *)
Theorem c10_backoff_no_io : ltac:(let t := type of backoff_no_io in exact t).
Proof. exact backoff_no_io. Qed.
Check c10_backoff_no_io.
Print Assumptions c10_backoff_no_io.

(* ... and changes nothing of the client but reconnectWait *)
Theorem c10_backoff_client_frame : ltac:(let t := type of backoff_client_frame in exact t).
Proof. exact backoff_client_frame. Qed.
Print Assumptions c10_backoff_client_frame.

(* non-vacuity, Min 1 s, Max 5 s: dial error 1 s, EOF 2 s, refusal 5 s (ramp-up untouched), dial error 4 s, 5 s; ErrClosed nil; Persistence error 1 s; BigMessage pending released *)
Example c10_backoff_example : ltac:(let t := type of backoff_example in exact t).
Proof. exact backoff_example. Qed.
Print Assumptions c10_backoff_example.

(* ---- "the failure is noticed": a stalled connection is left by a deadline expiry ----
   c10_ok demands of every recorded history that, with a PauseTimeout, each conn.Read inside
   the CONNACK or inside a packet carries a read deadline (HistChecks.reads_armed); this is
   the same statement about the model of the read routine, for any reader state and any
   connection script (they are also C13's, where a hostile broker stalls on purpose). *)
From Coq Require Import List.
From MQ Require Import Reader ReaderProofs ArmedReads.

(* peekPacket: apart from the idle wait for the first byte of a packet, every conn.Read of the
   call -- each remaining-length byte, the payload, retries after an expiry with progress -- is
   armed. *)
Theorem c10_peek_packet_armed : forall s r s', peek_packet true s = (r, s') ->
  rcap s' = rcap s /\
  exists first rest,
    rlog s' = rest ++ first ++ rlog s /\ Forall armed rest /\
    (first = [] \/ (rbuf s = [] /\ rerr s = None /\ first = [(rarmed s, rcap s)])) /\
    ((forall e p, r <> PkErr e p) -> r <> PkBrokerTerm -> rarmed s' = false) /\
    (rarmed s' = false \/ (rarmed s' = rarmed s /\ rest = [])).
Proof. exact peek_packet_armed. Qed.
Print Assumptions c10_peek_packet_armed.

Theorem c10_peek_packet_buffered : forall s r s',
  peek_packet true s = (r, s') -> rbuf s <> [] -> armed_ext s s'.
Proof. exact peek_packet_buffered_armed. Qed.
Print Assumptions c10_peek_packet_buffered.

Theorem c10_discard_armed : forall s n r s',
  client_discard true s n = (r, s') -> armed_ext s s' /\ rarmed s' = false.
Proof. exact client_discard_armed. Qed.
Print Assumptions c10_discard_armed.

Theorem c10_read_all_armed : forall s size r s',
  read_all true s size = (r, s') -> armed_ext s s' /\ rarmed s' = false.
Proof. exact read_all_armed. Qed.
Print Assumptions c10_read_all_armed.
