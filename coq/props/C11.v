(* C11 — Every request completes and gets its own response (sequential part).
   Property theorems only; the statements are those of the named lemmas (printed by Check),
   each for ALL client states and ALL environment scripts unless it says otherwise. *)
From MQ Require Import Session Outbound OutboundRefine ConnectProofs ClassProofs.

(* a waiting request completes with nil, SubscribeError, ErrBreak, ErrDown, ErrClosed, ErrCanceled or ErrAbandoned only *)
Theorem c11_completion_classes : ltac:(let t := type of completion_classes in exact t).
Proof. exact completion_classes. Qed.
Check c11_completion_classes.
Print Assumptions c11_completion_classes.

(* quit: ErrCanceled before submission, ErrAbandoned after, and the slot is released *)
Theorem c11_quit : ltac:(let t := type of op_quit_classes in exact t).
Proof. exact op_quit_classes. Qed.
Check c11_quit.
Print Assumptions c11_quit.

(* without a quit only the other five *)
Theorem c11_canceled_only_by_quit : ltac:(let t := type of canceled_only_by_quit in exact t).
Proof. exact canceled_only_by_quit. Qed.
Check c11_canceled_only_by_quit.
Print Assumptions c11_canceled_only_by_quit.

(* Subscribe/Unsubscribe either fail at once (nothing written for the not-submitted classes) or wait for their own packet identifier *)
Theorem c11_subscribe_outcomes : ltac:(let t := type of op_subscribe_classes in exact t).
Proof. exact op_subscribe_classes. Qed.
Check c11_subscribe_outcomes.
Print Assumptions c11_subscribe_outcomes.

(* Ping: one slot; ErrMax when taken *)
Theorem c11_ping_outcomes : ltac:(let t := type of op_ping_classes in exact t).
Proof. exact op_ping_classes. Qed.
Check c11_ping_outcomes.
Print Assumptions c11_ping_outcomes.

(* a SUBACK with the wrong number of codes fails that request with ErrBreak and resets the connection *)
Theorem c11_suback_count_mismatch : ltac:(let t := type of on_suback_count_mismatch in exact t).
Proof. exact on_suback_count_mismatch. Qed.
Check c11_suback_count_mismatch.
Print Assumptions c11_suback_count_mismatch.

(* going offline releases the ping slot and every pending transaction with ErrBreak (went_offline) *)
Theorem c11_offline_releases : ltac:(let t := type of read_loop_handler_error_resets in exact t).
Proof. exact read_loop_handler_error_resets. Qed.
Check c11_offline_releases.
Print Assumptions c11_offline_releases.

