(* C11 — Every request completes and gets its own response (sequential part).
   Property theorems only; the statements are those of the named lemmas (printed by Check),
   each for ALL client states and ALL environment scripts unless it says otherwise. *)
From MQ Require Import Session Outbound OutboundRefine ConnectProofs ClassProofs.

(* a waiting request completes with nil, SubscribeError, ErrBreak, ErrDown, ErrClosed, ErrCanceled or ErrAbandoned only *)
Theorem c11_completion_classes : ltac:(let t := type of completion_classes in exact t).
Proof. exact completion_classes. Qed.
Check c11_completion_classes.
Print Assumptions c11_completion_classes.

(* quit: ErrCanceled before submission, ErrAbandoned after, and the slot is released *)
Theorem c11_quit : ltac:(let t := type of op_quit_classes in exact t).
Proof. exact op_quit_classes. Qed.
Check c11_quit.
Print Assumptions c11_quit.

(* without a quit only the other five *)
Theorem c11_canceled_only_by_quit : ltac:(let t := type of canceled_only_by_quit in exact t).
Proof. exact canceled_only_by_quit. Qed.
Check c11_canceled_only_by_quit.
Print Assumptions c11_canceled_only_by_quit.

(* Subscribe/Unsubscribe either fail at once (nothing written for the not-submitted classes) or wait for their own packet identifier *)
Theorem c11_subscribe_outcomes : ltac:(let t := type of op_subscribe_classes in exact t).
Proof. exact op_subscribe_classes. Qed.
Check c11_subscribe_outcomes.
Print Assumptions c11_subscribe_outcomes.

(* Ping: one slot; ErrMax when taken *)
Theorem c11_ping_outcomes : ltac:(let t := type of op_ping_classes in exact t).
Proof. exact op_ping_classes. Qed.
Check c11_ping_outcomes.
Print Assumptions c11_ping_outcomes.

(* a SUBACK with the wrong number of codes fails that request with ErrBreak and resets the connection *)
Theorem c11_suback_count_mismatch : ltac:(let t := type of on_suback_count_mismatch in exact t).
Proof. exact on_suback_count_mismatch. Qed.
Check c11_suback_count_mismatch.
Print Assumptions c11_suback_count_mismatch.

(* going offline releases the ping slot and every pending transaction with ErrBreak (went_offline) *)
Theorem c11_offline_releases : ltac:(let t := type of read_loop_handler_error_resets in exact t).
Proof. exact read_loop_handler_error_resets. Qed.
Check c11_offline_releases.
Print Assumptions c11_offline_releases.


(* ---- correlation and completion in a closed world: client + broker + one FIFO connection ---- *)
(* Additions for coq/props/C11.v -- correlation and completion of Subscribe / Unsubscribe /
   Ping in a closed world (callers + client + FIFO connection + conforming or hostile broker,
   theories/ReqWorld.v).  Needs, next to the existing imports of props/C11.v:
     From Coq Require Import ZArith List.
     From RecordUpdate Require Import RecordUpdate.
     From MQ Require Import InboundProofs TxIds ReqWorld.
   (standalone here so that it can be compiled on its own:
     coqc -Q theories MQ -Q gen MQG -Q props MQP /verif/work/prover-req-world/C11_additions.v) *)
From Coq Require Import ZArith List.
From RecordUpdate Require Import RecordUpdate.
From MQ Require Import Session InboundProofs TxIds ReqWorld.
Import ListNotations.
Local Open Scope N_scope.

(* ---- the tie: the slim client's functions are Session.v's, seen through rslim ---- *)

(* on_suback on a body of at least two bytes = sl_suback on (packet id, return codes) *)
Theorem c11_tie_on_suback : forall c body, 2 <= len body ->
  (rslim (fst (on_suback c body)), snd (on_suback c body)) = sl_suback (rslim c) (u16 body) (skipn 2 body).
Proof. exact rslim_on_suback. Qed.
Print Assumptions c11_tie_on_suback.

Theorem c11_tie_on_unsuback : forall c body, len body = 2 ->
  (rslim (fst (on_unsuback c body)), snd (on_unsuback c body)) = sl_unsuback (rslim c) (u16 body).
Proof. exact rslim_on_unsuback. Qed.
Print Assumptions c11_tie_on_unsuback.

Theorem c11_tie_on_pingresp : forall c,
  (rslim (fst (on_pingresp c [])), snd (on_pingresp c [])) = sl_pingresp (rslim c).
Proof. exact rslim_on_pingresp. Qed.
Print Assumptions c11_tie_on_pingresp.

(* toOffline / termCallbacks release: break_pending *)
Theorem c11_tie_break_pending : forall c, rslim (break_pending c) = q_break (rslim c).
Proof. exact rslim_break_pending. Qed.
Print Assumptions c11_tie_break_pending.

Theorem c11_tie_term_callbacks : forall c, rslim (term_callbacks c) = q_break (rslim c).
Proof. exact rslim_term_callbacks. Qed.
Print Assumptions c11_tie_term_callbacks.

Theorem c11_tie_to_offline : forall c w c' w',
  to_offline c w = Some (c', w') -> rslim c' = sl_offline (rslim c).
Proof. exact rslim_to_offline. Qed.
Print Assumptions c11_tie_to_offline.

Theorem c11_tie_release_locked : forall c e, rslim (release_locked c e) = q_release_locked (rslim c) e.
Proof. exact rslim_release_locked. Qed.
Print Assumptions c11_tie_release_locked.

(* Subscribe / Unsubscribe / Ping / quit / Close / Disconnect / connect, every client, every world *)
Theorem c11_tie_op_subscribe : forall c sub level fs,
  sat (op_subscribe c sub level fs)
      (fun p => exists wr, (rslim (fst p), snd p) = sl_subscribe (rslim c) sub fs wr).
Proof. exact rslim_op_subscribe. Qed.
Print Assumptions c11_tie_op_subscribe.

Theorem c11_tie_op_ping : forall c,
  sat (op_ping c) (fun p => exists wr, (rslim (fst p), snd p) = sl_ping (rslim c) wr).
Proof. exact rslim_op_ping. Qed.
Print Assumptions c11_tie_op_ping.

Theorem c11_tie_op_quit : forall c rid, sat (op_quit c rid) (fun p => rslim (fst p) = sl_quit (rslim c) rid).
Proof. exact rslim_op_quit. Qed.
Print Assumptions c11_tie_op_quit.

Theorem c11_tie_op_close : forall c, sat (op_close c) (fun p => rslim (fst p) = sl_close (rslim c)).
Proof. exact rslim_op_close. Qed.
Print Assumptions c11_tie_op_close.

Theorem c11_tie_op_disconnect : forall c, sat (op_disconnect c) (fun p => rslim (fst p) = sl_close (rslim c)).
Proof. exact rslim_op_disconnect. Qed.
Print Assumptions c11_tie_op_disconnect.

Theorem c11_tie_connect : forall c, sat (connect c) (connect_post c).
Proof. exact rslim_connect. Qed.
Print Assumptions c11_tie_connect.

(* ---- the invariant ---- *)

Theorem c11_world_invariant : forall h w, rreach h w -> RInv w.
Proof. exact rworld_inv. Qed.
Print Assumptions c11_world_invariant.

Theorem c11_world_invariant_conforming : forall w, rreach false w -> CInv w.
Proof. exact conforming_inv. Qed.
Print Assumptions c11_world_invariant_conforming.

(* ---- (a) correlation ---- *)

(* any broker: on SUBACK pid codes nobody returns, or exactly the holder of pid returns, with
   the failed filters of ITS OWN Subscribe call (ErrBreak + reset on a count mismatch); the
   identifier is free afterwards *)
Theorem c11_suback_correlation : forall h w pid codes, rreach h w ->
  q_done (fst (sl_suback (r_cl w) pid codes)) = q_done (r_cl w)
  \/ exists rid fs n,
       In (pid, rid, Some fs) (q_txs (r_cl w)) /\ In (rid, PkSub pid) (q_parked (r_cl w)) /\
       In (rid, CallTx (Some fs) n) (r_calls w) /\ pid = cand sub_space n /\
       (forall rid' k', In (pid, rid', k') (q_txs (r_cl w)) -> rid' = rid) /\
       ~ In pid (qpids (fst (sl_suback (r_cl w) pid codes))) /\
       ~ In rid (prids (fst (sl_suback (r_cl w) pid codes))) /\
       ((length fs = length codes /\ snd (sl_suback (r_cl w) pid codes) = HOk /\
         q_done (fst (sl_suback (r_cl w) pid codes))
         = (rid, ans_err (failed_filters fs codes), failed_filters fs codes) :: q_done (r_cl w))
        \/ (length fs <> length codes /\ snd (sl_suback (r_cl w) pid codes) = HErr E_proto /\
            q_done (fst (sl_suback (r_cl w) pid codes)) = (rid, E_break, []) :: q_done (r_cl w))).
Proof. exact suback_correlation. Qed.
Print Assumptions c11_suback_correlation.

Theorem c11_unsuback_correlation : forall h w pid, rreach h w ->
  q_done (fst (sl_unsuback (r_cl w) pid)) = q_done (r_cl w)
  \/ exists rid n,
       In (pid, rid, None) (q_txs (r_cl w)) /\ In (rid, PkUnsub pid) (q_parked (r_cl w)) /\
       In (rid, CallTx None n) (r_calls w) /\ pid = cand unsub_space n /\
       (forall rid' k', In (pid, rid', k') (q_txs (r_cl w)) -> rid' = rid) /\
       ~ In pid (qpids (fst (sl_unsuback (r_cl w) pid))) /\
       ~ In rid (prids (fst (sl_unsuback (r_cl w) pid))) /\
       snd (sl_unsuback (r_cl w) pid) = HOk /\
       q_done (fst (sl_unsuback (r_cl w) pid)) = (rid, E_nil, []) :: q_done (r_cl w).
Proof. exact unsuback_correlation. Qed.
Print Assumptions c11_unsuback_correlation.

(* no response completes two requests *)
Theorem c11_one_return_per_packet : forall h w d, rreach h w ->
  exists new, q_done (fst (sl_dispatch (r_cl w) d)) = new ++ q_done (r_cl w) /\ (length new <= 1)%nat.
Proof. exact one_return_per_packet. Qed.
Print Assumptions c11_one_return_per_packet.

(* any broker: a genuine answer makes another request return only if its own had returned before *)
Theorem c11_answer_own_or_late : forall h w d rest u, rreach h w ->
  r_b2c w = d :: rest -> dorg d = Some u ->
  forall x, In x (q_done (fst (sl_dispatch (r_cl w) d))) -> ~ In x (q_done (r_cl w)) ->
    rid3 x = utag u \/ In (utag u) (drids (r_cl w)).
Proof. exact answer_own_or_late. Qed.
Print Assumptions c11_answer_own_or_late.

(* ... and only after the identifier counter went round its 13 bits *)
Theorem c11_reuse_needs_wrap : forall h w rid0 pid k0 rid1 k1, rreach h w ->
  In (UReq rid0 pid k0) (inflight w) -> In (pid, rid1, k1) (q_txs (r_cl w)) -> rid1 <> rid0 ->
  exists n0 n1, In (rid0, CallTx k0 n0) (r_calls w) /\ In (rid1, CallTx k1 n1) (r_calls w) /\
    n0 < q_txn (r_cl w) /\ n1 < q_txn (r_cl w) /\ (n0 + 8192 <= n1 \/ n1 + 8192 <= n0).
Proof. exact reuse_needs_wrap. Qed.
Print Assumptions c11_reuse_needs_wrap.

(* conforming broker, nobody abandoned by quit so far: exact correlation, no protocol error *)
Theorem c11_conforming_exact : forall w d rest, rreach false w -> no_abandon (r_cl w) -> r_b2c w = d :: rest ->
  exists u, dorg d = Some u /\ live (r_cl w) u /\ snd (sl_dispatch (r_cl w) d) = HOk /\
    exists e f, q_done (fst (sl_dispatch (r_cl w) d)) = (utag u, e, f) :: q_done (r_cl w).
Proof. exact conforming_exact. Qed.
Print Assumptions c11_conforming_exact.

Theorem c11_conforming_suback : forall w pid codes u rest, rreach false w -> no_abandon (r_cl w) ->
  r_b2c w = DSuback pid codes (Some u) :: rest ->
  exists rid fs n, u = UReq rid pid (Some fs) /\ In (rid, CallTx (Some fs) n) (r_calls w) /\
    length fs = length codes /\ snd (sl_suback (r_cl w) pid codes) = HOk /\
    q_done (fst (sl_suback (r_cl w) pid codes))
    = (rid, ans_err (failed_filters fs codes), failed_filters fs codes) :: q_done (r_cl w).
Proof. exact conforming_suback. Qed.
Print Assumptions c11_conforming_suback.

Theorem c11_conforming_inflight_live : forall w, rreach false w -> no_abandon (r_cl w) ->
  (forall d, In d (r_b2c w) -> dorg d <> None) /\ forall u, In u (inflight w) -> live (r_cl w) u.
Proof. exact conforming_inflight_live. Qed.
Print Assumptions c11_conforming_inflight_live.

(* hostile broker: the client cannot tell a forgery or duplicate from the genuine answer *)
Theorem c11_client_cannot_distinguish : forall q d d',
  match d, d' with
  | DSuback p c _, DSuback p' c' _ => p = p' /\ c = c'
  | DUnsuback p _, DUnsuback p' _ => p = p'
  | DPong _, DPong _ => True
  | _, _ => False
  end -> sl_dispatch q d = sl_dispatch q d'.
Proof. exact client_cannot_distinguish. Qed.
Print Assumptions c11_client_cannot_distinguish.

(* the plain reading of "no response is handed to another caller" is false of the model:
   conforming broker, FIFO connection, one quit, identifier reuse after 8192 assignments *)
Theorem c11_response_handed_to_another_caller :
  exists w d rest u x,
    rreach false w /\ r_rd w = true /\ r_b2c w = d :: rest /\ dorg d = Some u /\
    In x (q_done (fst (sl_dispatch (r_cl w) d))) /\ ~ In x (q_done (r_cl w)) /\
    rid3 x <> utag u /\ In (utag u, E_abandoned, []) (q_done (r_cl w)).
Proof. exact response_handed_to_another_caller. Qed.
Print Assumptions c11_response_handed_to_another_caller.

(* ---- (b) at most once, documented outcomes ---- *)

Theorem c11_returns_at_most_once : forall h w, rreach h w ->
  NoDup (drids (r_cl w)) /\
  (forall rid, In rid (prids (r_cl w)) -> ~ In rid (drids (r_cl w))) /\
  (forall rid, rid < q_nextr (r_cl w) -> In rid (prids (r_cl w)) \/ In rid (drids (r_cl w))) /\
  (forall x, In x (q_done (r_cl w)) -> outcome_ok (r_calls w) x).
Proof. exact returns_at_most_once. Qed.
Print Assumptions c11_returns_at_most_once.

Theorem c11_outcome_unique : forall h w rid e f e' f', rreach h w ->
  In (rid, e, f) (q_done (r_cl w)) -> In (rid, e', f') (q_done (r_cl w)) -> e = e' /\ f = f'.
Proof. exact outcome_unique. Qed.
Print Assumptions c11_outcome_unique.

Theorem c11_log_append_only : forall w a w', RInv w -> rexec w a = Some w' ->
  exists new, q_done (r_cl w') = new ++ q_done (r_cl w).
Proof. exact log_append_only. Qed.
Print Assumptions c11_log_append_only.

(* ---- (c) no request waits for ever under a good suffix ---- *)

Theorem c11_good_step_measure : forall w a w', RInv w -> rexec w a = Some w' -> r_good w a = true ->
  (rmu w' < rmu w)%nat.
Proof. exact good_step_measure. Qed.
Print Assumptions c11_good_step_measure.

Theorem c11_good_run_bound : forall w n w', RInv w -> grun w n w' -> (n + rmu w' <= rmu w)%nat.
Proof. exact good_run_bound. Qed.
Print Assumptions c11_good_run_bound.

Theorem c11_waiting_has_progress : forall w, RInv w -> ~ settled (r_cl w) ->
  exists a w', rexec w a = Some w' /\ r_good w a = true /\
    match a with BAnswer _ _ | ADeliver | AOffline | ATerm => True | _ => False end.
Proof. exact waiting_has_progress. Qed.
Print Assumptions c11_waiting_has_progress.

Theorem c11_good_run_exists : forall w, RInv w ->
  exists n w', grun w n w' /\ (n <= rmu w)%nat /\ settled (r_cl w').
Proof. exact good_run_exists. Qed.
Print Assumptions c11_good_run_exists.

Theorem c11_answer_run_exists : forall m w, RInv w -> r_alive w = true ->
  (2 * length (r_c2b w) + length (r_b2c w) = m)%nat ->
  exists n w', grun w n w' /\ (n <= m)%nat /\ settled (r_cl w').
Proof. exact answer_run_exists. Qed.
Print Assumptions c11_answer_run_exists.

Theorem c11_drained_settled : forall w, RInv w ->
  r_rd w = false \/ (r_alive w = true /\ r_c2b w = [] /\ r_b2c w = []) -> settled (r_cl w).
Proof. exact drained_settled. Qed.
Print Assumptions c11_drained_settled.

Theorem c11_offline_settles : forall w, RInv w -> r_rd w = true -> q_ws (r_cl w) <> RClosed ->
  exists w', rexec w AOffline = Some w' /\ settled (r_cl w') /\
    forall rid k, In (rid, k) (q_parked (r_cl w)) -> is_wait k = true ->
      In (rid, E_break, []) (q_done (r_cl w')).
Proof. exact offline_settles. Qed.
Print Assumptions c11_offline_settles.

Theorem c11_close_completes_all : forall w keep, RInv w -> q_closed (r_cl w) = false ->
  exists w1 w2, rexec w (AClose keep) = Some w1 /\ rexec w1 ATerm = Some w2 /\
    q_parked (r_cl w2) = [] /\
    forall rid k, In (rid, k) (q_parked (r_cl w)) ->
      (is_lock k = true -> In (rid, E_closed, []) (q_done (r_cl w2))) /\
      (is_wait k = true -> In (rid, E_break, []) (q_done (r_cl w2))).
Proof. exact close_completes_all. Qed.
Print Assumptions c11_close_completes_all.

(* ---- (d) Ping (sequential slot; F7 is a concurrency defect outside this model) ---- *)

Theorem c11_ping_holds_slot : forall h w rid, rreach h w ->
  In (rid, PkPing) (q_parked (r_cl w)) -> q_ping (r_cl w) = Some rid.
Proof. exact ping_holds_slot. Qed.
Print Assumptions c11_ping_holds_slot.

Theorem c11_ping_one_waiter : forall h w r1 r2, rreach h w ->
  In (r1, PkPing) (q_parked (r_cl w)) -> In (r2, PkPing) (q_parked (r_cl w)) -> r1 = r2.
Proof. exact ping_one_waiter. Qed.
Print Assumptions c11_ping_one_waiter.

Theorem c11_pingresp_completes : forall h w rid, rreach h w -> In (rid, PkPing) (q_parked (r_cl w)) ->
  sl_pingresp (r_cl w) = (q_complete (r_cl w <| q_ping := None |>) rid E_nil [], HOk).
Proof. exact pingresp_completes. Qed.
Print Assumptions c11_pingresp_completes.

Theorem c11_pingresp_ignored : forall q, q_ping q = None -> sl_pingresp q = (q, HOk).
Proof. exact pingresp_ignored. Qed.
Print Assumptions c11_pingresp_ignored.

(* ---- non-vacuity: concrete runs (vm_compute) ---- *)
Check reverse_order_answers.
Check break_completes_all.
Check pid_reuse_after_completion.
Check late_answer_after_quit_hits_new_holder.
Check forged_suback.
Check count_mismatch_resets.
Check pong_after_abandoned_ping.
