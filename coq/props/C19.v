(* C19 -- FileSystem store: Save and Delete are atomic per key across process stops.
   This file holds the property theorems only; the model is MQ.FS, proofs are in
   MQ.FSProofs and MQ.C19CheckProofs.

   Reading guide.  [run d p] is the directory after the system calls p; [stop_prefix p l]
   says p is what the process got done of l when it stopped: any number of whole calls,
   possibly followed by a data write cut after any number of bytes.  Every theorem about
   stop points quantifies over ALL such p (the proofs go by induction over the prefix).
   [save_calls k bufs f leak] are the calls of fileSystem.Save for key k and value
   [concat bufs] under fault f (any placement: creat, any buffer with any partial count,
   fsync, close, rename; leak = the cleanup unlink fails as well).

   Limits, on purpose:
   * directories hold only names the store creates ([store_dir]: "%05x" key files and
     ".spool" leftovers).  With foreign names List can report a key Load cannot return
     (c19_foreign_name_listed_not_loadable below: a file "0ABCD" is reported as key 0xabcd
     because ParseUint accepts upper case, while Load opens "0abcd");
   * "stop" means the process issues no further system call; power loss is outside.  The
     flushed bit in the model only records that an fsync covered the content;
   * two Saves of ONE key at the same time share one spool file name; nothing is claimed
     for that (the interleaving theorems are for different keys);
   * the tie to the kernel is by observation (strace), see harness/c19.go. *)
From MQ Require Import Bytes FS FSProofs FSDiscipline C19Check C19CheckProofs.

(* ---- Save: every stop point, every fault ---- *)

(* Load(k) gives the complete previous value (or nothing if there was none) or the complete
   new value: never a prefix, a mixture or an empty value. *)
Theorem c19_save_atomic :
  forall d k bufs f leak p,
    store_dir d ->
    stop_prefix p (save_calls k bufs f leak) ->
    load k (run d p) = load k d \/ load k (run d p) = Some (concat bufs).
Proof. intros d k bufs f leak p _. apply save_atomic_lemma. Qed.
Print Assumptions c19_save_atomic.

(* A Save that returns an error leaves the file of the key exactly as it was -- at its end
   and at every stop point on the way. *)
Theorem c19_failed_save_keeps_old :
  forall d k bufs f leak p,
    store_dir d ->
    save_ok k bufs f leak = false ->
    stop_prefix p (save_calls k bufs f leak) ->
    lookup (key_name k) (run d p) = lookup (key_name k) d /\ load k (run d p) = load k d.
Proof. intros d k bufs f leak p _. apply failed_save_keeps_old_both. Qed.
Print Assumptions c19_failed_save_keeps_old.

(* A Save that returns nil: the calls are  a ++ fsync(spool) :: b ++ [rename(spool, key)]
   with no write in b; at the rename the spool file holds the complete value and an fsync
   covers all of it; the run ends with exactly that under the key. *)
Theorem c19_flush_before_visible :
  forall k bufs f leak,
    save_ok k bufs f leak = true ->
    exists a b,
      save_calls k bufs f leak
        = a ++ Fsync (spool_name k) :: b ++ [Rename (spool_name k) (key_name k)] /\
      forallb (fun c => negb (is_write c)) b = true /\
      (forall d, lookup (spool_name k) (run d (a ++ Fsync (spool_name k) :: b))
                 = Some (mkfile (concat bufs) true)) /\
      (forall d, lookup (key_name k) (run d (save_calls k bufs f leak))
                 = Some (mkfile (concat bufs) true)).
Proof. exact flush_before_visible_lemma. Qed.
Print Assumptions c19_flush_before_visible.

(* ... and at no stop point is anything but the old file or the complete, flushed new value
   visible under the key. *)
Theorem c19_visible_only_when_flushed :
  forall d k bufs f leak p,
    stop_prefix p (save_calls k bufs f leak) ->
    lookup (key_name k) (run d p) = lookup (key_name k) d \/
    (save_ok k bufs f leak = true /\
     lookup (key_name k) (run d p) = Some (mkfile (concat bufs) true)).
Proof. exact save_stop_entry. Qed.
Print Assumptions c19_visible_only_when_flushed.

(* ---- Delete ---- *)

Theorem c19_delete_atomic :
  forall d k p,
    store_dir d ->
    stop_prefix p (delete_calls k) ->
    load k (run d p) = load k d \/ load k (run d p) = None.
Proof. intros d k p _. apply delete_stop_lemma. Qed.
Print Assumptions c19_delete_atomic.

(* ---- List ---- *)

(* At every stop point of a Save or Delete (o ranges over both, with every fault), every
   key List reports can be loaded. *)
Theorem c19_list_subset_loadable :
  forall d o p k',
    store_dir d ->
    stop_prefix p (op_calls o) ->
    In k' (list_keys (run d p)) -> exists v, load k' (run d p) = Some v.
Proof. exact op_list_subset_loadable. Qed.
Print Assumptions c19_list_subset_loadable.

(* In a store directory List reports exactly the loadable keys below 2^17. *)
Theorem c19_listed_iff_loadable :
  forall d k, store_dir d ->
    (In k (list_keys d) <-> k < key_limit /\ exists v, load k d = Some v).
Proof. exact listed_iff_loadable. Qed.
Print Assumptions c19_listed_iff_loadable.

(* ---- frame, interleavings ---- *)

(* An operation on key k -- whole or stopped anywhere -- changes no file of another key,
   so neither Load nor membership in List of any other key. *)
Theorem c19_frame :
  forall d o p k',
    store_dir d ->
    stop_prefix p (op_calls o) -> k' <> op_key o ->
    lookup (key_name k') (run d p) = lookup (key_name k') d /\
    lookup (spool_name k') (run d p) = lookup (spool_name k') d /\
    load k' (run d p) = load k' d /\
    (In k' (list_keys (run d p)) <-> In k' (list_keys d)).
Proof. exact op_frame. Qed.
Print Assumptions c19_frame.

(* The system calls of two operations on different keys commute in every interleaving:
   whatever merge m of the two call lists the scheduler produces, the directory is the one
   of running the operations one after the other, in either order. *)
Theorem c19_interleavings_commute :
  forall d o1 o2 m,
    op_key o1 <> op_key o2 ->
    merge (op_calls o1) (op_calls o2) m ->
    dir_equiv (run d m) (run (run d (op_calls o1)) (op_calls o2)) /\
    dir_equiv (run d m) (run (run d (op_calls o2)) (op_calls o1)).
Proof. exact op_interleavings_commute. Qed.
Print Assumptions c19_interleavings_commute.

(* Concurrently: stop anywhere in any interleaving of two operations on different keys;
   each key is in its complete previous or its complete new state. *)
Theorem c19_concurrent_atomic :
  forall d o1 o2 m p,
    op_key o1 <> op_key o2 ->
    merge (op_calls o1) (op_calls o2) m -> stop_prefix p m ->
    (load (op_key o1) (run d p) = load (op_key o1) d \/ load (op_key o1) (run d p) = op_new o1) /\
    (load (op_key o2) (run d p) = load (op_key o2) d \/ load (op_key o2) (run d p) = op_new o2).
Proof. intros d o1 o2 m p. apply concurrent_atomic. Qed.
Print Assumptions c19_concurrent_atomic.

(* ---- names ---- *)

(* "%05x" and "%05x.spool" never collide, for any keys; ParseUint(name, 16, 17) reads back
   what "%05x" printed. *)
Theorem c19_names :
  (forall k k', key_name k = key_name k' -> k = k') /\
  (forall k k', spool_name k = spool_name k' -> k = k') /\
  (forall k k', key_name k <> spool_name k') /\
  (forall k, k < key_limit -> parse_key (key_name k) = Some k) /\
  (forall k, parse_key (spool_name k) = None).
Proof. exact names_lemma. Qed.
Print Assumptions c19_names.

(* a Save that returned nil is reported by List and returned by Load *)
Theorem c19_saved_is_listed :
  forall d k bufs f leak,
    k < key_limit -> save_ok k bufs f leak = true ->
    In k (list_keys (run d (save_calls k bufs f leak))) /\
    load k (run d (save_calls k bufs f leak)) = Some (concat bufs).
Proof. exact saved_is_listed. Qed.
Print Assumptions c19_saved_is_listed.

(* ---- non-vacuity ---- *)

(* A store directory with key 0x1000a (old value), another key and a spool leftover; Save
   of key 0x1000a in three buffers (the middle one empty) stopped 2 bytes into the third:
   the old value; stopped before the rename: the old value; complete: the new one; the
   write of the third buffer refused after 1 byte (Save fails): the old value, spool gone. *)
Example c19_witness :
  let d := [ (key_name 65546, mkfile [1; 2; 3] true); (key_name 3, mkfile [9] true);
             (spool_name 7, mkfile [5; 5] false) ] in
  let bufs := [[10; 11]; []; [12; 13; 14]] in
  let l := save_calls 65546 bufs NoFault false in
  let lf := save_calls 65546 bufs (WriteFails 2 1) false in
  stop_prefix (cut_bytes 4 l) l
  /\ load 65546 (run d (cut_bytes 4 l)) = Some [1; 2; 3]
  /\ lookup (spool_name 65546) (run d (cut_bytes 4 l)) = Some (mkfile [10; 11; 12; 13] false)
  /\ load 65546 (run d (cut_calls 6 l)) = Some [1; 2; 3]
  /\ load 65546 (run d l) = Some [10; 11; 12; 13; 14]
  /\ save_ok 65546 bufs (WriteFails 2 1) false = false
  /\ load 65546 (run d lf) = Some [1; 2; 3]
  /\ lookup (spool_name 65546) (run d lf) = None
  /\ list_keys (run d l) = [65546; 3].
Proof. cbv zeta. split; [apply stop_prefix_cut_bytes|]. vm_compute. repeat split. Qed.

(* Two operations on different keys: Save of key 1 and Delete of key 2, their calls
   interleaved, stopped one byte into the data write; the directory is a store directory. *)
Example c19_witness_interleaving :
  let d := [ (key_name 1, mkfile [7] true); (key_name 2, mkfile [8; 8] true) ] in
  let o1 := OpSave 1 [[4; 5]] NoFault false in
  let o2 := OpDelete 2 in
  let sp := spool_name 1 in
  let m := [Creat sp; Write sp [4; 5]; Unlink (key_name 2); Fsync sp; Close sp; Rename sp (key_name 1)] in
  let p := [Creat sp; Write sp [4]] in
  store_dir d /\ op_key o1 <> op_key o2 /\ merge (op_calls o1) (op_calls o2) m /\ stop_prefix p m
  /\ load 1 (run d p) = Some [7] /\ load 2 (run d p) = Some [8; 8]
  /\ load 1 (run d m) = Some [4; 5] /\ load 2 (run d m) = None.
Proof.
  cbv zeta. split; [|split; [|split; [|split]]].
  - intros n f [H|[H|[]]]; inversion H; subst; eexists; left; reflexivity.
  - cbn [op_key]. discriminate.
  - vm_compute. repeat constructor.
  - constructor. apply (sp_write (spool_name 1) [4; 5] 1).
  - vm_compute. repeat split.
Qed.

(* Why the theorems about List are for store-created names: a foreign file named "0ABCD"
   is reported as key 0xabcd, which Load (opening "0abcd") does not find. *)
Example c19_foreign_name_listed_not_loadable :
  let d := [ ([48; 65; 66; 67; 68], mkfile [1] true) ] in
  list_keys d = [43981] /\ load 43981 d = None.
Proof. vm_compute. split; reflexivity. Qed.

(* ---- the case checker ---- *)

(* The checker accepts what the model produces: the fresh-process view after a Save or
   Delete stopped at any point p, from any store directory. *)
Theorem c19_checker_sound_view :
  forall o pre p,
    store_odir pre -> stop_prefix p (op_calls o) ->
    view_ok (op_key o) pre (op_new o)
            (oload_of (load (op_key o) (run (dir_of pre) p)))
            (model_listed (run (dir_of pre) p)) = true.
Proof. exact view_ok_sound. Qed.
Print Assumptions c19_checker_sound_view.

Theorem c19_checker_sound_save_kill :
  forall k bufs pre st,
    store_odir pre ->
    let d' := run (dir_of pre) (stop_calls st (save_calls k bufs NoFault false)) in
    c19_ok (SaveKill k bufs pre st (oload_of (load k d')) (model_listed d')) = true /\
    c19_agree (SaveKill k bufs pre st (oload_of (load k d')) (model_listed d')) = true.
Proof. exact save_kill_ok_sound. Qed.
Print Assumptions c19_checker_sound_save_kill.

(* The closed forms behind the BigKill cases (values too large for a literal): killed at
   the entry of call i+1 of a Save without faults the new value is visible iff all
   [length bufs + 4] calls are through; stopped by a file size limit below the size of the
   value nothing is visible. *)
Theorem c19_big_closed_form :
  (forall d k bufs leak i,
     load k (run d (cut_calls i (save_calls k bufs NoFault leak)))
     = if Nat.leb i (length bufs + 3) then load k d else Some (concat bufs)) /\
  (forall d k bufs leak lim,
     (lim < length (concat bufs))%nat ->
     load k (run d (cut_bytes lim (save_calls k bufs NoFault leak))) = load k d).
Proof. split; [exact save_cut_calls_closed | exact save_cut_bytes_closed]. Qed.
Print Assumptions c19_big_closed_form.

(* ---- the class of disciplined traces: the theorem behind the tie ----
   The theorems above are about ONE executable model of Save (save_calls: one write per
   buffer, fsync, close, rename, cleanup).  The ones below are about every system-call trace
   the scanner [disciplined] accepts -- any split of the record into writes, anything on other
   names before, between and after -- so that a Save which talks to the kernel differently
   but keeps the discipline (nothing under the key name except by a rename of a spool file
   that holds the complete record, all of it covered by an fsync) is still covered by a
   theorem, and the correspondence run (c19_agree: exact calls, or else the recorded calls
   are disciplined and explain what was found) still ties it. *)

(* Stopped anywhere in a disciplined trace, also inside a data write: under the key name is
   the old entry or the complete new record, flushed. *)
Theorem c19_disciplined_atomic :
  forall kn sp new l d p,
    disciplined kn sp new dst0 l = true -> stop_prefix p l ->
    lookup kn (run d p) = lookup kn d \/ lookup kn (run d p) = Some (mkfile new true).
Proof. exact disciplined_atomic. Qed.
Print Assumptions c19_disciplined_atomic.

(* Without the rename the key entry is never touched (a Save that fails keeps the old value). *)
Theorem c19_disciplined_no_rename_keeps_old :
  forall kn sp new l d p,
    disciplined kn sp new dst0 l = true -> renamed_in kn sp l = false -> stop_prefix p l ->
    lookup kn (run d p) = lookup kn d.
Proof. intros kn sp new l d p D R. exact (no_rename_keeps_gen kn sp new l dst0 d D R p). Qed.
Print Assumptions c19_disciplined_no_rename_keeps_old.

(* Members: creat, the record in ANY split, fsync, close, rename, then any calls on other
   names (a directory fsync, say). *)
Theorem c19_chunked_save_atomic :
  forall kn sp new, kn <> sp ->
  forall chunks tail d p,
    concat chunks = new -> off_names kn sp tail ->
    stop_prefix p (chunked_save kn sp chunks tail) ->
    lookup kn (run d p) = lookup kn d \/ lookup kn (run d p) = Some (mkfile new true).
Proof. exact chunked_save_atomic. Qed.
Print Assumptions c19_chunked_save_atomic.

(* The executable model is a member. *)
Theorem c19_model_is_disciplined :
  forall k bufs leak,
    disciplined (key_name k) (spool_name k) (concat bufs) dst0 (save_calls k bufs NoFault leak) = true.
Proof. exact save_calls_disciplined. Qed.
Print Assumptions c19_model_is_disciplined.

(* What the generalised agreement of the correspondence run accepts is atomic: when the calls
   strace recorded for a Save pass the scanner, then stopped at any call boundary or inside a
   data write, from any directory, Load gives the old value or the complete new one ... *)
Theorem c19_tie_class_atomic :
  forall k bufs dry st d,
    dry_disciplined k bufs dry = true ->
    let d' := run d (stop_calls st (rebuild (concat bufs) 0 dry)) in
    load k d' = load k d \/ load k d' = Some (concat bufs).
Proof. exact dry_disciplined_atomic. Qed.
Print Assumptions c19_tie_class_atomic.

(* ... and a Save it accepts with an error result left the key entry alone at every stop point. *)
Theorem c19_tie_class_failed_keeps_old :
  forall k bufs pre calls post p d,
    save_seq_gen k bufs pre calls false post = true ->
    stop_prefix p (rebuild (concat bufs) 0 calls) ->
    lookup (key_name k) (run d p) = lookup (key_name k) d.
Proof. exact save_seq_gen_failed_keeps_old. Qed.
Print Assumptions c19_tie_class_failed_keeps_old.

(* Non-vacuity: one write of the whole record and a directory fsync afterwards is accepted;
   a rename before the fsync is not. *)
Example c19_single_write_dirsync_disciplined :
  disciplined (key_name 7) (spool_name 7) [1; 2; 3] dst0
    [Creat (spool_name 7); Write (spool_name 7) [1; 2; 3]; Fsync (spool_name 7);
     Close (spool_name 7); Rename (spool_name 7) (key_name 7); Fsync [46]] = true
  /\ disciplined (key_name 7) (spool_name 7) [1; 2; 3] dst0
    [Creat (spool_name 7); Write (spool_name 7) [1; 2; 3];
     Rename (spool_name 7) (key_name 7); Fsync (spool_name 7)] = false.
Proof. split; vm_compute; reflexivity. Qed.
