package main

// C19: the FileSystem store under strace.
//
// The harness binary re-executes itself as a helper child (runner "C19-helper", one
// Save/Delete/observe on a directory named in the environment) under
//   strace -f -o LOG -e trace=openat,write,fsync,close,renameat,renameat2,unlinkat,getdents64,read
// optionally with  -e inject=SYSCALL:error=E:when=K  (fault) or
//                  -e inject=SYSCALL:signal=SIGKILL:when=K  (process stop at the entry of a call),
// K counted in a dry run over the calls of the same thread. The case terms carry what
// strace and a fresh observer process saw; nothing in here decides what is right.

import (
	"bytes"
	"crypto/sha256"
	"encoding/hex"
	"encoding/json"
	"errors"
	"fmt"
	"net"
	"os"
	"os/exec"
	"path/filepath"
	"regexp"
	"runtime"
	"sort"
	"strconv"
	"strings"
	"sync"
	"syscall"
	"time"
	"unsafe"

	"github.com/pascaldekloe/mqtt"
)

func init() {
	runners["C19"] = runC19
	runners["C19-helper"] = runC19Helper
	if os.Getenv("C19_OP") != "" {
		// all store system calls of the helper come from the main thread
		runtime.LockOSThread()
	}
}

const c19Trace = "trace=openat,write,fsync,close,renameat,renameat2,unlinkat,getdents64,read"

// ---------------------------------------------------------------- helper child

// "seed:len,len,..." -> the buffers handed to Save (same generator in parent and child)
func c19Bufs(spec string) net.Buffers {
	parts := strings.SplitN(spec, ":", 2)
	seed, _ := strconv.ParseUint(parts[0], 10, 64)
	r := newRng(seed)
	var bufs net.Buffers
	if len(parts) < 2 || parts[1] == "" {
		return bufs
	}
	for _, s := range strings.Split(parts[1], ",") {
		n, _ := strconv.Atoi(s)
		bufs = append(bufs, r.bytes(n))
	}
	return bufs
}

func c19BufSpec(seed uint64, lens []int) string {
	s := make([]string, len(lens))
	for i, n := range lens {
		s[i] = strconv.Itoa(n)
	}
	return fmt.Sprintf("%d:%s", seed, strings.Join(s, ","))
}

// SIGXFSZ back to SIG_DFL. The Go runtime installs a handler that drops the signal, so a
// file size limit normally shows as EFBIG; with the default action the kernel stops the
// process inside the data write.
func c19SigDflXFSZ() error {
	if runtime.GOARCH != "amd64" && runtime.GOARCH != "arm64" {
		return errors.New("rt_sigaction layout not known for " + runtime.GOARCH)
	}
	var sa struct {
		handler, flags, restorer uintptr
		mask                     uint64
	}
	_, _, e := syscall.RawSyscall6(syscall.SYS_RT_SIGACTION, uintptr(syscall.SIGXFSZ),
		uintptr(unsafe.Pointer(&sa)), 0, 8, 0, 0)
	if e != 0 {
		return e
	}
	return nil
}

func c19LoadJSON(v []byte, err error, big bool) map[string]any {
	switch {
	case err != nil:
		return map[string]any{"class": "error"}
	case v == nil:
		return map[string]any{"class": "absent"}
	case big:
		sum := sha256.Sum256(v)
		return map[string]any{"class": "value", "len": len(v), "sha": hex.EncodeToString(sum[:])}
	}
	return map[string]any{"class": "value", "hex": hex.EncodeToString(v)}
}

func runC19Helper(tier string, seed uint64, out string) error {
	dir := os.Getenv("C19_DIR")
	key64, _ := strconv.ParseUint(os.Getenv("C19_KEY"), 10, 64)
	key := uint(key64)
	p := mqtt.FileSystem(dir)
	res := map[string]any{}
	switch os.Getenv("C19_OP") {
	case "save":
		bufs := c19Bufs(os.Getenv("C19_BUFS"))
		if os.Getenv("C19_XFSZ") == "default" {
			if err := c19SigDflXFSZ(); err != nil {
				return err
			}
		}
		if s := os.Getenv("C19_FSIZE"); s != "" {
			n, _ := strconv.ParseUint(s, 10, 64)
			if err := syscall.Setrlimit(syscall.RLIMIT_FSIZE, &syscall.Rlimit{Cur: n, Max: n}); err != nil {
				return err
			}
		}
		err := p.Save(key, bufs)
		res["ok"] = err == nil
	case "delete":
		err := p.Delete(key)
		res["ok"] = err == nil
	case "observe":
		big := os.Getenv("C19_BIG") != ""
		v, err := p.Load(key)
		res["load"] = c19LoadJSON(v, err, big)
		keys, err := p.List()
		res["list_ok"] = err == nil
		var listed []map[string]any
		for _, k := range keys {
			v, err := p.Load(k)
			m := c19LoadJSON(v, err, big)
			m["key"] = uint64(k)
			listed = append(listed, m)
		}
		res["listed"] = listed
	default:
		return errors.New("C19-helper: C19_OP not set")
	}
	b, _ := json.Marshal(res)
	_, err := os.Stdout.Write(append(b, '\n'))
	return err
}

// ---------------------------------------------------------------- strace log

// one traced call (complete, or cut by the kill: ret == "?")
type c19Line struct {
	pid  string
	name string
	args string
	ret  string
}

var c19LineRe = regexp.MustCompile(`^(\d+)\s+(.*)$`)
var c19CallRe = regexp.MustCompile(`^(\w+)\((.*)\)\s+= (.+)$`)
var c19StrRe = regexp.MustCompile(`"((?:[^"\\]|\\.)*)"`)

func c19ParseLog(path string) (lines []c19Line, killed bool, err error) {
	raw, err := os.ReadFile(path)
	if err != nil {
		return nil, false, err
	}
	pending := map[string]string{}
	for _, l := range strings.Split(string(raw), "\n") {
		m := c19LineRe.FindStringSubmatch(l)
		if m == nil {
			continue
		}
		pid, rest := m[1], m[2]
		switch {
		case strings.HasPrefix(rest, "+++"):
			if strings.Contains(rest, "killed by") {
				killed = true
			}
			continue
		case strings.HasPrefix(rest, "---"):
			continue
		case strings.HasPrefix(rest, "<... "):
			i := strings.Index(rest, "resumed>")
			if i < 0 {
				continue
			}
			rest = pending[pid] + rest[i+len("resumed>"):]
			delete(pending, pid)
		case strings.HasSuffix(rest, "<unfinished ...>"):
			pending[pid] = strings.TrimSuffix(rest, "<unfinished ...>")
			continue
		}
		// name(args)<padding> = ret; the last ")<spaces>= " closes the arguments
		cm := c19CallRe.FindStringSubmatch(rest)
		if cm == nil {
			continue
		}
		lines = append(lines, c19Line{pid: pid, name: cm[1], args: cm[2], ret: strings.TrimSpace(cm[3])})
	}
	// a call that never came back (killed inside or at its entry)
	for pid, p := range pending {
		if i := strings.Index(p, "("); i > 0 {
			lines = append(lines, c19Line{pid: pid, name: p[:i], args: p[i+1:], ret: "?"})
		}
	}
	return lines, killed, nil
}

func (l c19Line) retInt() (int64, bool) {
	f := strings.Fields(l.ret)
	if len(f) == 0 {
		return 0, false
	}
	n, err := strconv.ParseInt(f[0], 0, 64)
	return n, err == nil
}

// a projected call on the store directory
type c19Call struct {
	term    string // Coq ocall
	sys     string // system call name as traced
	pid     string
	lineIdx int  // index in the parsed log
	done    bool // returned (ret != "?")
}

// c19Project keeps the calls that touch the store directory (paths below it, and
// descriptors opened from such paths) and maps them to the model's vocabulary.
func c19Project(lines []c19Line, dir string) []c19Call {
	if !strings.HasSuffix(dir, "/") {
		dir += "/"
	}
	fds := map[string]string{} // descriptor -> name
	var calls []c19Call
	under := func(p string) (string, bool) {
		if strings.HasPrefix(p, dir) && len(p) > len(dir) && !strings.Contains(p[len(dir):], "/") {
			return p[len(dir):], true
		}
		if p == dir || p+"/" == dir {
			return "", true
		}
		return "", false
	}
	okStr := func(l c19Line) string {
		n, isnum := l.retInt()
		return coqBool(isnum && n >= 0)
	}
	add := func(i int, l c19Line, term string) {
		calls = append(calls, c19Call{term: term, sys: l.name, pid: l.pid, lineIdx: i, done: l.ret != "?"})
	}
	for i, l := range lines {
		switch l.name {
		case "openat":
			ps := c19StrRe.FindStringSubmatch(l.args)
			if ps == nil {
				continue
			}
			name, ok := under(ps[1])
			if !ok {
				continue
			}
			flags := ""
			if f := strings.Split(l.args, ", "); len(f) >= 3 {
				flags = f[2]
			}
			fd, isnum := l.retInt()
			if isnum && fd >= 0 {
				fds[strconv.FormatInt(fd, 10)] = name
			}
			// create-or-truncate for writing, whatever the other flags and the permission bits are
			fl := map[string]bool{}
			for _, f := range strings.Split(flags, "|") {
				fl[f] = true
			}
			if fl["O_CREAT"] && fl["O_TRUNC"] && (fl["O_RDWR"] || fl["O_WRONLY"]) && name != "" {
				add(i, l, fmt.Sprintf("OCreat %s %s", coqString(name), okStr(l)))
			} else {
				add(i, l, fmt.Sprintf("OOther %s", coqString(name)))
			}
		case "write", "fsync", "close", "read", "getdents64":
			fd := l.args
			if j := strings.Index(fd, ","); j >= 0 {
				fd = fd[:j]
			}
			name, ok := fds[fd]
			if !ok {
				continue
			}
			switch l.name {
			case "write":
				cnt := l.args[strings.LastIndex(l.args, ", ")+2:]
				n, isnum := l.retInt()
				if isnum && n >= 0 {
					cnt = strconv.FormatInt(n, 10)
				}
				add(i, l, fmt.Sprintf("OWrite %s %s %s", coqString(name), cnt, okStr(l)))
			case "fsync":
				add(i, l, fmt.Sprintf("OFsync %s %s", coqString(name), okStr(l)))
			case "close":
				add(i, l, fmt.Sprintf("OClose %s %s", coqString(name), okStr(l)))
				if l.ret != "?" {
					delete(fds, fd)
				}
			default:
				add(i, l, fmt.Sprintf("OOther %s", coqString(name)))
			}
		case "renameat", "renameat2":
			ps := c19StrRe.FindAllStringSubmatch(l.args, -1)
			if len(ps) < 2 {
				continue
			}
			a, oka := under(ps[0][1])
			b, okb := under(ps[1][1])
			if !oka && !okb {
				continue
			}
			if !oka || !okb || (l.name == "renameat2" && !strings.HasSuffix(l.args, ", 0")) {
				add(i, l, fmt.Sprintf("OOther %s", coqString(a+b)))
				continue
			}
			add(i, l, fmt.Sprintf("ORename %s %s %s", coqString(a), coqString(b), okStr(l)))
		case "unlinkat":
			ps := c19StrRe.FindStringSubmatch(l.args)
			if ps == nil {
				continue
			}
			name, ok := under(ps[1])
			if !ok {
				continue
			}
			switch {
			case strings.HasSuffix(l.args, ", 0"):
				add(i, l, fmt.Sprintf("OUnlink %s %s", coqString(name), okStr(l)))
			case strings.HasSuffix(l.args, ", AT_REMOVEDIR"):
				add(i, l, fmt.Sprintf("ORmdir %s %s", coqString(name), okStr(l)))
			default:
				add(i, l, fmt.Sprintf("OOther %s", coqString(name)))
			}
		}
	}
	return calls
}

// ordinal of line idx among the calls of the same thread with the same name
func c19When(lines []c19Line, idx int) int {
	k := 0
	for i := 0; i <= idx; i++ {
		if lines[i].pid == lines[idx].pid && lines[i].name == lines[idx].name {
			k++
		}
	}
	return k
}

// ---------------------------------------------------------------- running the child

type c19Env struct {
	exe   string
	base  string // scratch root below the -out directory
	mu    sync.Mutex
	runs  int
	total time.Duration
	miss  int
}

type c19Run struct {
	stdout  []byte
	lines   []c19Line
	killed  bool
	signal  syscall.Signal // when the child was run without strace
	elapsed time.Duration
}

func (e *c19Env) childEnv(kv map[string]string) []string {
	env := []string{"PATH=" + os.Getenv("PATH"), "GOMAXPROCS=1", "GODEBUG=asyncpreemptoff=1", "HOME=" + e.base}
	keys := make([]string, 0, len(kv))
	for k := range kv {
		keys = append(keys, k)
	}
	sort.Strings(keys)
	for _, k := range keys {
		env = append(env, k+"="+kv[k])
	}
	return env
}

// traced run of the helper; inject: strace -e inject= expressions
func (e *c19Env) strace(logPath string, inject []string, kv map[string]string) (*c19Run, error) {
	args := []string{"-f", "-o", logPath, "-e", c19Trace}
	for _, in := range inject {
		args = append(args, "-e", "inject="+in)
	}
	args = append(args, "--", e.exe, "-prop", "C19-helper", "-out", "unused")
	cmd := exec.Command("strace", args...)
	cmd.Env = e.childEnv(kv)
	var so, se bytes.Buffer
	cmd.Stdout, cmd.Stderr = &so, &se
	t := time.Now()
	runErr := cmd.Run()
	el := time.Since(t)
	e.mu.Lock()
	e.runs++
	e.total += el
	e.mu.Unlock()
	lines, killed, err := c19ParseLog(logPath)
	if err != nil {
		return nil, fmt.Errorf("strace %v: %v; %v; %s", inject, runErr, err, se.String())
	}
	if len(lines) == 0 {
		return nil, fmt.Errorf("strace %v: empty log; %v; %s", inject, runErr, se.String())
	}
	return &c19Run{stdout: so.Bytes(), lines: lines, killed: killed, elapsed: el}, nil
}

// plain run of the helper (observer, or a run ended by the file size limit)
func (e *c19Env) plain(kv map[string]string) (*c19Run, error) {
	cmd := exec.Command(e.exe, "-prop", "C19-helper", "-out", "unused")
	cmd.Env = e.childEnv(kv)
	var so, se bytes.Buffer
	cmd.Stdout, cmd.Stderr = &so, &se
	err := cmd.Run()
	r := &c19Run{stdout: so.Bytes()}
	if err != nil {
		var ee *exec.ExitError
		if errors.As(err, &ee) {
			if ws, ok := ee.Sys().(syscall.WaitStatus); ok && ws.Signaled() {
				r.signal = ws.Signal()
				r.killed = true
				return r, nil
			}
		}
		return nil, fmt.Errorf("helper %v: %v; %s", kv, err, se.String())
	}
	return r, nil
}

// ---------------------------------------------------------------- directories

type c19File struct {
	name string
	data []byte
}

// the initial content of a store directory: key files are written by the real Save,
// spool leftovers and foreign names directly
type c19Pre struct {
	keys   map[uint][]byte
	others []c19File
}

func (p c19Pre) make(dir string) error {
	if err := os.MkdirAll(dir, 0o755); err != nil {
		return err
	}
	fs := mqtt.FileSystem(dir)
	ks := make([]int, 0, len(p.keys))
	for k := range p.keys {
		ks = append(ks, int(k))
	}
	sort.Ints(ks)
	for _, k := range ks {
		if err := fs.Save(uint(k), net.Buffers{append([]byte(nil), p.keys[uint(k)]...)}); err != nil {
			return err
		}
	}
	for _, f := range p.others {
		if err := os.WriteFile(filepath.Join(dir, f.name), f.data, 0o644); err != nil {
			return err
		}
	}
	return nil
}

func c19ReadDir(dir string) ([]c19File, error) {
	ents, err := os.ReadDir(dir)
	if err != nil {
		return nil, err
	}
	var fs []c19File
	for _, e := range ents {
		b, err := os.ReadFile(filepath.Join(dir, e.Name()))
		if err != nil {
			return nil, err
		}
		fs = append(fs, c19File{e.Name(), b})
	}
	sort.Slice(fs, func(i, j int) bool { return fs[i].name < fs[j].name })
	return fs, nil
}

// byte string literal; long ones in pieces of 1024 bytes (see C19Check.bcat)
func c19Bytes(b []byte) string {
	if len(b) <= 1024 {
		return coqBytes(b)
	}
	var items []string
	for i := 0; i < len(b); i += 1024 {
		items = append(items, coqBytes(b[i:min(i+1024, len(b))]))
	}
	return "(bcat " + coqList(items) + ")"
}

func c19Odir(fs []c19File) string {
	items := make([]string, len(fs))
	for i, f := range fs {
		items[i] = fmt.Sprintf("(%s, %s)", coqString(f.name), c19Bytes(f.data))
	}
	return coqList(items)
}

func c19CoqBufs(bufs net.Buffers) string {
	items := make([]string, len(bufs))
	for i, b := range bufs {
		items[i] = c19Bytes(b)
	}
	return coqList(items)
}

// ---------------------------------------------------------------- observer

type c19Obs struct {
	Load struct {
		Class, Hex, Sha string
		Len             int
	}
	ListOK bool `json:"list_ok"`
	Listed []struct {
		Key             uint64
		Class, Hex, Sha string
		Len             int
	}
}

func (e *c19Env) observe(dir string, key uint, big bool) (*c19Obs, error) {
	kv := map[string]string{"C19_OP": "observe", "C19_DIR": dir, "C19_KEY": strconv.FormatUint(uint64(key), 10)}
	if big {
		kv["C19_BIG"] = "1"
	}
	r, err := e.plain(kv)
	if err != nil {
		return nil, err
	}
	var o c19Obs
	if err := json.Unmarshal(bytes.TrimSpace(r.stdout), &o); err != nil {
		return nil, fmt.Errorf("observer output %q: %v", r.stdout, err)
	}
	if !o.ListOK {
		return nil, errors.New("observer: List failed")
	}
	sort.Slice(o.Listed, func(i, j int) bool { return o.Listed[i].Key < o.Listed[j].Key })
	return &o, nil
}

func c19Oload(class, hx string) string {
	switch class {
	case "absent":
		return "LAbsent"
	case "value":
		b, _ := hex.DecodeString(hx)
		return "(LValue " + c19Bytes(b) + ")"
	}
	return "LErr"
}

func (o *c19Obs) terms() (ld, listed string) {
	items := make([]string, len(o.Listed))
	for i, l := range o.Listed {
		items[i] = fmt.Sprintf("(%d, %s)", l.Key, c19Oload(l.Class, l.Hex))
	}
	return c19Oload(o.Load.Class, o.Load.Hex), coqList(items)
}

// ---------------------------------------------------------------- jobs

type c19Case struct {
	term    string
	desc    map[string]any
	kind    string
	nontriv bool
}

type c19Job func(dir string) ([]c19Case, error)

type c19Scenario struct {
	name string
	key  uint
	pre  c19Pre
	seed uint64
	lens []int
}

func (s c19Scenario) kv(dir string) map[string]string {
	return map[string]string{"C19_OP": "save", "C19_DIR": dir + "/",
		"C19_KEY": strconv.FormatUint(uint64(s.key), 10), "C19_BUFS": c19BufSpec(s.seed, s.lens)}
}

func (s c19Scenario) bufs() net.Buffers { return c19Bufs(c19BufSpec(s.seed, s.lens)) }

func (s c19Scenario) total() int {
	n := 0
	for _, l := range s.lens {
		n += l
	}
	return n
}

func (s c19Scenario) desc(kind string) map[string]any {
	_, over := s.pre.keys[s.key]
	return map[string]any{"kind": kind, "scenario": s.name, "key": s.key, "buffer_lengths": s.lens,
		"value_seed": s.seed, "overwrite": over, "other_keys": len(s.pre.keys), "other_files": len(s.pre.others)}
}

func c19DoneCalls(calls []c19Call) int {
	n := 0
	for _, c := range calls {
		if c.done {
			n++
		}
	}
	return n
}

func c19Terms(calls []c19Call, onlyDone bool) string {
	var items []string
	for _, c := range calls {
		if c.done || !onlyDone {
			items = append(items, c.term)
		}
	}
	return coqList(items)
}

// index of the stdout line that follows the operation (the kill point "after the last call")
func c19StdoutLine(lines []c19Line) int {
	for i := len(lines) - 1; i >= 0; i-- {
		if lines[i].name == "write" && strings.HasPrefix(lines[i].args, "1, ") {
			return i
		}
	}
	return -1
}

// kill sweep over a Save or a Delete: one job per stop point
func (e *c19Env) killJobs(s c19Scenario, del bool, big bool) ([]c19Job, error) {
	// dry run: the calls of the operation
	dry := filepath.Join(e.base, "dry-"+s.name)
	if err := s.pre.make(dry); err != nil {
		return nil, err
	}
	kv := s.kv(dry)
	if del {
		kv["C19_OP"] = "delete"
	}
	r, err := e.strace(filepath.Join(e.base, "dry-"+s.name+".log"), nil, kv)
	if err != nil {
		return nil, err
	}
	calls := c19Project(r.lines, dry)
	dryTerms := c19Terms(calls, false) // the calls of the whole operation, for the class-level agreement
	type point struct {
		sys  string
		when int
	}
	var pts []point
	for _, c := range calls {
		pts = append(pts, point{c.sys, c19When(r.lines, c.lineIdx)})
	}
	if i := c19StdoutLine(r.lines); i >= 0 {
		pts = append(pts, point{"write", c19When(r.lines, i)})
	}
	var jobs []c19Job
	for i, pt := range pts {
		i, pt := i, pt
		jobs = append(jobs, func(dir string) ([]c19Case, error) {
			if err := s.pre.make(dir); err != nil {
				return nil, err
			}
			pre, err := c19ReadDir(dir)
			if err != nil {
				return nil, err
			}
			kv := s.kv(dir)
			if del {
				kv["C19_OP"] = "delete"
			}
			inj := fmt.Sprintf("%s:signal=SIGKILL:when=%d", pt.sys, pt.when)
			r, err := e.strace(dir+".log", []string{inj}, kv)
			if err != nil {
				return nil, err
			}
			done := c19DoneCalls(c19Project(r.lines, dir))
			if !r.killed || done != i {
				e.mu.Lock()
				e.miss++
				e.mu.Unlock()
			}
			d := s.desc("kill")
			d["inject"] = inj
			d["store_calls_completed"] = done
			d["killed"] = r.killed
			return e.afterStop(s, del, big, dir, pre, fmt.Sprintf("(AtCall %d)", done), d, dryTerms)
		})
	}
	return jobs, nil
}

// the fresh-process view after a stop, as a case
func (e *c19Env) afterStop(s c19Scenario, del, big bool, dir string, pre []c19File, stop string, d map[string]any, dry string) ([]c19Case, error) {
	o, err := e.observe(dir+"/", s.key, big)
	if err != nil {
		return nil, err
	}
	d["observed_load"] = o.Load.Class
	if big {
		old, hasOld := s.pre.keys[s.key]
		var nw []byte
		for _, b := range s.bufs() {
			nw = append(nw, b...)
		}
		sha := func(b []byte) string { x := sha256.Sum256(b); return hex.EncodeToString(x[:]) }
		obs := "BOther"
		switch {
		case o.Load.Class == "absent":
			obs = "BAbsent"
		case o.Load.Class == "value" && o.Load.Len == len(nw) && o.Load.Sha == sha(nw):
			obs = "BNew"
		case o.Load.Class == "value" && hasOld && o.Load.Len == len(old) && o.Load.Sha == sha(old):
			obs = "BOld"
		}
		loadable := true
		for _, l := range o.Listed {
			loadable = loadable && l.Class == "value"
		}
		d["observed"] = obs
		term := fmt.Sprintf("BigKill %d %s %d %d %s %s %s", s.key, coqBool(hasOld), len(s.lens), len(nw), stop, obs, coqBool(loadable))
		if dry != "" {
			term = fmt.Sprintf("BigKillG %d %s %d %d %s %s %s %s", s.key, coqBool(hasOld), len(s.lens), len(nw), dry, stop, obs, coqBool(loadable))
		}
		return []c19Case{{term, d, "big-kill", true}}, nil
	}
	ld, listed := o.terms()
	if del {
		return []c19Case{{fmt.Sprintf("DelKill %d %s %s %s %s", s.key, c19Odir(pre), stop, ld, listed), d, "delete-kill", true}}, nil
	}
	if dry != "" {
		return []c19Case{{fmt.Sprintf("SaveKillG %d %s %s %s %s %s %s", s.key, c19CoqBufs(s.bufs()), c19Odir(pre), dry, stop, ld, listed), d, "save-kill", true}}, nil
	}
	return []c19Case{{fmt.Sprintf("SaveKill %d %s %s %s %s %s", s.key, c19CoqBufs(s.bufs()), c19Odir(pre), stop, ld, listed), d, "save-kill", true}}, nil
}

// a stop inside the data: RLIMIT_FSIZE with SIGXFSZ at its default action
func (e *c19Env) fsizeKillJob(s c19Scenario, lim int, big, traced bool) c19Job {
	return func(dir string) ([]c19Case, error) {
		if err := s.pre.make(dir); err != nil {
			return nil, err
		}
		pre, err := c19ReadDir(dir)
		if err != nil {
			return nil, err
		}
		kv := s.kv(dir)
		kv["C19_FSIZE"] = strconv.Itoa(lim)
		kv["C19_XFSZ"] = "default"
		d := s.desc("fsize-kill")
		d["limit"] = lim
		if traced {
			r, err := e.strace(dir+".log", nil, kv)
			if err != nil {
				return nil, err
			}
			d["killed"] = r.killed
			d["store_calls_seen"] = c19Terms(c19Project(r.lines, dir), false)
			if !r.killed {
				return nil, fmt.Errorf("file size limit %d did not stop the helper (%s)", lim, s.name)
			}
		} else {
			r, err := e.plain(kv)
			if err != nil {
				return nil, err
			}
			if r.signal != syscall.SIGXFSZ {
				return nil, fmt.Errorf("file size limit %d: helper ended with %v, not SIGXFSZ (%s)", lim, r.signal, s.name)
			}
			d["signal"] = "SIGXFSZ"
		}
		return e.afterStop(s, false, big, dir, pre, fmt.Sprintf("(AtBytes %d)", lim), d, "")
	}
}

type c19Inject struct {
	name  string // Coq injection term
	sys   string // system call to fail ("" for none)
	errno string
	nth   int  // which of the store's calls with that name (0-based)
	leak  bool // the cleanup unlink fails as well
	fsize int  // RLIMIT_FSIZE with SIGXFSZ ignored (Go default); -1: none
}

// syscall-sequence correspondence of one Save under an injected fault
func (e *c19Env) saveSeqJob(s c19Scenario, in c19Inject, dryCalls []c19Call, dryLines []c19Line) c19Job {
	return func(dir string) ([]c19Case, error) {
		if err := s.pre.make(dir); err != nil {
			return nil, err
		}
		pre, err := c19ReadDir(dir)
		if err != nil {
			return nil, err
		}
		kv := s.kv(dir)
		var inject []string
		if in.sys != "" {
			n := 0
			for _, c := range dryCalls {
				if strings.HasPrefix(c.sys, in.sys) {
					if n == in.nth {
						inject = append(inject, fmt.Sprintf("%s:error=%s:when=%d", c.sys, in.errno, c19When(dryLines, c.lineIdx)))
					}
					n++
				}
			}
		}
		if in.leak {
			// the first unlinkat of the main thread; the dry run has none
			inject = append(inject, "unlinkat:error=EPERM:when=1")
		}
		if in.fsize >= 0 {
			kv["C19_FSIZE"] = strconv.Itoa(in.fsize)
		}
		r, err := e.strace(dir+".log", inject, kv)
		if err != nil {
			return nil, err
		}
		var res struct{ Ok bool }
		if err := json.Unmarshal(bytes.TrimSpace(r.stdout), &res); err != nil {
			return nil, fmt.Errorf("helper output %q: %v", r.stdout, err)
		}
		post, err := c19ReadDir(dir)
		if err != nil {
			return nil, err
		}
		calls := c19Project(r.lines, dir)
		d := s.desc("save-sequence")
		d["inject"] = inject
		d["fsize_limit"] = in.fsize
		d["fault"] = in.name
		d["save_returned_nil"] = res.Ok
		d["calls"] = c19Terms(calls, false)
		term := fmt.Sprintf("SaveSeq %d %s %s %s %s %s %s %s", s.key, c19CoqBufs(s.bufs()), in.name, coqBool(in.leak),
			c19Odir(pre), c19Terms(calls, false), coqBool(res.Ok), c19Odir(post))
		return []c19Case{{term, d, "save-sequence", true}}, nil
	}
}

func (e *c19Env) delSeqJob(s c19Scenario, fails bool) c19Job {
	return func(dir string) ([]c19Case, error) {
		if err := s.pre.make(dir); err != nil {
			return nil, err
		}
		pre, err := c19ReadDir(dir)
		if err != nil {
			return nil, err
		}
		kv := s.kv(dir)
		kv["C19_OP"] = "delete"
		var inject []string
		if fails {
			inject = []string{"unlinkat:error=EPERM:when=1"}
		}
		r, err := e.strace(dir+".log", inject, kv)
		if err != nil {
			return nil, err
		}
		var res struct{ Ok bool }
		if err := json.Unmarshal(bytes.TrimSpace(r.stdout), &res); err != nil {
			return nil, fmt.Errorf("helper output %q: %v", r.stdout, err)
		}
		post, err := c19ReadDir(dir)
		if err != nil {
			return nil, err
		}
		calls := c19Project(r.lines, dir)
		d := s.desc("delete-sequence")
		d["inject"] = inject
		d["delete_returned_nil"] = res.Ok
		d["calls"] = c19Terms(calls, false)
		term := fmt.Sprintf("DelSeq %d %s %s %s %s %s", s.key, coqBool(fails), c19Odir(pre), c19Terms(calls, false),
			coqBool(res.Ok), c19Odir(post))
		return []c19Case{{term, d, "delete-sequence", true}}, nil
	}
}

func (e *c19Env) listJob(names []string, r *rng) c19Job {
	var files []c19File
	for _, n := range names {
		files = append(files, c19File{n, r.bytes(1 + r.intn(20))})
	}
	return func(dir string) ([]c19Case, error) {
		if err := (c19Pre{others: files}).make(dir); err != nil {
			return nil, err
		}
		pre, err := c19ReadDir(dir)
		if err != nil {
			return nil, err
		}
		o, err := e.observe(dir+"/", 0, false)
		if err != nil {
			return nil, err
		}
		_, listed := o.terms()
		d := map[string]any{"kind": "list", "names": names, "listed": len(o.Listed)}
		return []c19Case{{fmt.Sprintf("ListCase %s %s", c19Odir(pre), listed), d, "list", true}}, nil
	}
}

// (iii) goroutines on the real code, no strace: every goroutine owns one key and also
// works on keys shared by all; only the owned keys are reported (frame).
func c19Concurrent(dir string, seed uint64, workers, steps int) ([]c19Case, error) {
	if err := os.MkdirAll(dir, 0o755); err != nil {
		return nil, err
	}
	fs := mqtt.FileSystem(dir)
	shared := []uint{0x1f000, 0x1f001, 7}
	out := make([][]string, workers)
	errs := make([]error, workers)
	var wg sync.WaitGroup
	for w := 0; w < workers; w++ {
		wg.Add(1)
		go func(w int) {
			defer wg.Done()
			r := newRng(seed*1000 + uint64(w))
			own := uint(0x100 + w)
			for i := 0; i < steps; i++ {
				// something on a shared key (results are not part of the case)
				sk := shared[r.intn(len(shared))]
				switch r.intn(4) {
				case 0:
					fs.Save(sk, net.Buffers{r.bytes(1 + r.intn(2000))})
				case 1:
					fs.Load(sk)
				case 2:
					fs.Delete(sk)
				case 3:
					fs.List()
				}
				switch r.intn(5) {
				case 0, 1:
					nb := 1 + r.intn(3)
					bufs := make(net.Buffers, nb)
					for j := range bufs {
						bufs[j] = r.bytes(r.intn(300))
					}
					term := c19CoqBufs(bufs) // before WriteTo consumes the slice
					err := fs.Save(own, bufs)
					out[w] = append(out[w], fmt.Sprintf("CSave %s %s", term, coqBool(err == nil)))
				case 2:
					err := fs.Delete(own)
					out[w] = append(out[w], fmt.Sprintf("CDelete %s", coqBool(err == nil)))
				case 3:
					v, err := fs.Load(own)
					t := "LErr"
					if err == nil && v == nil {
						t = "LAbsent"
					} else if err == nil {
						t = "(LValue " + c19Bytes(v) + ")"
					}
					out[w] = append(out[w], "CLoad "+t)
				case 4:
					keys, err := fs.List()
					if err != nil {
						errs[w] = err
						return
					}
					present := false
					for _, k := range keys {
						present = present || k == own
					}
					out[w] = append(out[w], "CListed "+coqBool(present))
				}
			}
		}(w)
	}
	wg.Wait()
	var cases []c19Case
	for w := 0; w < workers; w++ {
		if errs[w] != nil {
			return nil, errs[w]
		}
		d := map[string]any{"kind": "concurrent", "goroutines": workers, "owned_key": 0x100 + w, "operations": len(out[w]),
			"shared_keys": shared, "seed": seed}
		cases = append(cases, c19Case{fmt.Sprintf("ConcCase %d %s", 0x100+w, coqList(out[w])), d, "concurrent", true})
	}
	return cases, nil
}

// ---------------------------------------------------------------- driver

func runC19(tier string, seed uint64, out string) error {
	exe, err := os.Executable()
	if err != nil {
		return err
	}
	if err := os.MkdirAll(out, 0o755); err != nil {
		return err
	}
	base, err := os.MkdirTemp(out, "c19tmp-")
	if err != nil {
		return err
	}
	defer os.RemoveAll(base)
	e := &c19Env{exe: exe, base: base}
	r := newRng(seed)
	thorough := tier == "thorough"
	t0 := time.Now()

	// directory contents next to the key under test: another key, a key above 2^16, spool
	// leftovers of an earlier stop (of another key and of the key itself)
	other := func() map[uint][]byte {
		return map[uint][]byte{3: r.bytes(12 + r.intn(30)), 0x1abcd: r.bytes(40)}
	}
	left := []c19File{{"00007.spool", r.bytes(9)}}
	var scen []c19Scenario
	// values up to a few KiB travel as literals; larger ones by reference (BigKill)
	sizes := [][]int{{12}, {2, 0, 12}, {5, 83, 12}, {4, 4096, 12}, {7, 700, 12}}
	if thorough {
		sizes = append(sizes, []int{1, 11}, []int{3, 1000, 12}, []int{7, 6000, 12}, []int{0, 13, 0}, []int{2500, 2500, 12})
	}
	for i, lens := range sizes {
		key := uint(0x10 + i)
		if i%2 == 1 {
			key |= 0x10000
		}
		first := c19Scenario{name: fmt.Sprintf("first-%d", i), key: key, seed: r.u64() % 1e9, lens: lens,
			pre: c19Pre{keys: other(), others: left}}
		over := first
		over.name = fmt.Sprintf("over-%d", i)
		over.seed = r.u64() % 1e9
		over.pre = c19Pre{keys: other(), others: append([]c19File{{fmt.Sprintf("%05x.spool", key), r.bytes(30)}}, left...)}
		oldLen := 12 + r.intn(2*first.total())
		over.pre.keys[key] = r.bytes(oldLen)
		scen = append(scen, first, over)
	}

	var jobs []c19Job
	// (ii) kill sweep over every call of Save, and stops inside the data
	for _, s := range scen {
		js, err := e.killJobs(s, false, false)
		if err != nil {
			return err
		}
		jobs = append(jobs, js...)
		tot := s.total()
		lims := map[int]bool{0: true, 1: true, tot - 1: true, tot - 12: true, s.lens[0]: true, tot / 2: true}
		// every byte count for short values
		every := 16
		if thorough {
			every = 128
			for i := 0; i < 6; i++ {
				lims[r.intn(tot)] = true
			}
		}
		if tot <= every {
			for l := 0; l < tot; l++ {
				lims[l] = true
			}
		}
		var ls []int
		for l := range lims {
			if l >= 0 && l < tot {
				ls = append(ls, l)
			}
		}
		sort.Ints(ls)
		for i, l := range ls {
			jobs = append(jobs, e.fsizeKillJob(s, l, false, i%3 == 0))
		}
	}
	// Delete: key present / absent
	delScen := []c19Scenario{
		{name: "del-present", key: 0x10022, pre: c19Pre{keys: map[uint][]byte{0x10022: r.bytes(50), 3: r.bytes(20)}, others: left}},
		{name: "del-absent", key: 0x23, pre: c19Pre{keys: map[uint][]byte{3: r.bytes(20)}, others: left}},
		{name: "del-spool-left", key: 0x24, pre: c19Pre{keys: map[uint][]byte{0x24: r.bytes(12)}, others: []c19File{{"00024.spool", r.bytes(5)}}}},
	}
	for _, s := range delScen {
		js, err := e.killJobs(s, true, false)
		if err != nil {
			return err
		}
		jobs = append(jobs, js...)
		jobs = append(jobs, e.delSeqJob(s, false), e.delSeqJob(s, true))
	}
	// (i) sequence correspondence with and without faults
	seqScen := []c19Scenario{scen[4], scen[5], scen[2]}
	if thorough {
		seqScen = scen
	}
	for _, s := range seqScen {
		dry := filepath.Join(base, "seqdry-"+s.name)
		if err := s.pre.make(dry); err != nil {
			return err
		}
		dr, err := e.strace(dry+".log", nil, s.kv(dry))
		if err != nil {
			return err
		}
		dc := c19Project(dr.lines, dry)
		injs := []c19Inject{
			{name: "INone", fsize: -1},
			{name: "ICreat", sys: "openat", errno: "EACCES", fsize: -1},
			{name: "IFsync", sys: "fsync", errno: "EIO", fsize: -1},
			{name: "IFsync", sys: "fsync", errno: "EIO", leak: true, fsize: -1},
			{name: "IClose", sys: "close", errno: "EIO", fsize: -1},
			{name: "IRename", sys: "renameat", errno: "EACCES", fsize: -1},
			{name: "IRename", sys: "renameat", errno: "EACCES", leak: true, fsize: -1},
		}
		for i := range s.lens {
			injs = append(injs, c19Inject{name: fmt.Sprintf("(IWrite %d)", i), sys: "write", errno: "ENOSPC", nth: i, leak: i == 1, fsize: -1})
		}
		tot := s.total()
		for _, l := range []int{0, 1, s.lens[0], s.lens[0] + 1, tot / 2, tot - 12, tot - 1, tot} {
			if l >= 0 {
				injs = append(injs, c19Inject{name: fmt.Sprintf("(IFsize %d)", l), fsize: l})
			}
		}
		for _, in := range injs {
			jobs = append(jobs, e.saveSeqJob(s, in, dc, dr.lines))
		}
	}
	// List on arbitrary names
	jobs = append(jobs,
		e.listJob([]string{"0000a", "0ABCD", "ABCDE", "1ffff", "1FFFF", "20000", "0000a.spool", "zzzzz", "0x001", "+0001", "-0001",
			"0_001", "00 01", "abc", "000001", "fffff", "00000", "0000g", "1ffff.spool"}, r),
		e.listJob([]string{"00000", "00001", "10000", "1ffff", "00001.spool", "1ffff.spool"}, r),
		e.listJob(nil, r))
	// large values
	bigSizes := [][]int{{7, 20000, 12}, {9, 300000, 12}}
	if thorough {
		bigSizes = append(bigSizes, []int{5, 1 << 20, 12}, []int{9, 4 << 20, 12}, []int{1 << 20, 1 << 20, 1 << 20})
	}
	{
		for i, lens := range bigSizes {
			s := c19Scenario{name: fmt.Sprintf("big-first-%d", i), key: uint(0x40 + i), seed: r.u64() % 1e9, lens: lens, pre: c19Pre{}}
			o := s
			o.name = fmt.Sprintf("big-over-%d", i)
			o.seed = r.u64() % 1e9
			o.pre = c19Pre{keys: map[uint][]byte{o.key: r.bytes(lens[1] / 2)}}
			for _, s := range []c19Scenario{s, o} {
				js, err := e.killJobs(s, false, true)
				if err != nil {
					return err
				}
				jobs = append(jobs, js...)
				tot := s.total()
				for _, l := range []int{0, 1, 4096, tot / 2, tot/2 + 1, tot - 12, tot - 1, r.intn(tot)} {
					jobs = append(jobs, e.fsizeKillJob(s, l, true, false))
				}
			}
		}
	}

	// run the jobs on all cores; the order of the cases is the order of the jobs
	results := make([][]c19Case, len(jobs))
	jerrs := make([]error, len(jobs))
	var wg sync.WaitGroup
	next := make(chan int)
	for w := 0; w < runtime.NumCPU(); w++ {
		wg.Add(1)
		go func() {
			defer wg.Done()
			for i := range next {
				dir := filepath.Join(base, fmt.Sprintf("j%04d", i))
				results[i], jerrs[i] = jobs[i](dir)
				os.RemoveAll(dir)
				os.Remove(dir + ".log")
			}
		}()
	}
	for i := range jobs {
		next <- i
	}
	close(next)
	wg.Wait()
	for _, err := range jerrs {
		if err != nil {
			return err
		}
	}
	straceWall := time.Since(t0)

	cs := newCaseSet("C19", "C19Check", "c19case", "c19_run")
	for _, rs := range results {
		for _, c := range rs {
			cs.add(c.term, c.desc, c.kind, c.nontriv)
		}
	}
	// (iii) concurrent smoke run
	rounds, workers, steps := 2, 8, 60
	if thorough {
		rounds, workers, steps = 6, 16, 200
	}
	for i := 0; i < rounds; i++ {
		cc, err := c19Concurrent(filepath.Join(base, fmt.Sprintf("conc%d", i))+"/", seed*100+uint64(i), workers, steps)
		if err != nil {
			return err
		}
		for _, c := range cc {
			cs.add(c.term, c.desc, c.kind, c.nontriv)
		}
	}
	cs.extra["strace_runs"] = e.runs
	cs.extra["strace_ms_per_run_mean"] = float64(e.total.Milliseconds()) / float64(max(e.runs, 1))
	cs.extra["strace_phase_wall_s"] = straceWall.Seconds()
	cs.extra["kill_points_not_hit_as_planned"] = e.miss
	cs.extra["strace_flags"] = "-f -o LOG -e " + c19Trace + " [-e inject=SYSCALL:signal=SIGKILL:when=K | -e inject=SYSCALL:error=E:when=K]"
	cs.extra["helper_env"] = "GOMAXPROCS=1 GODEBUG=asyncpreemptoff=1; runtime.LockOSThread in init; RLIMIT_FSIZE set by the helper on itself"
	shard := 8
	if thorough {
		shard = 12
	}
	return cs.write(out, shard)
}
