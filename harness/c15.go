package main

import (
	"bytes"
	"fmt"
	"net"

	"github.com/pascaldekloe/mqtt"
)

func init() { runners["C15"] = runC15 }

func obsDec(b []byte) string {
	p, seq, err := mqtt.VerifDecodeValue(b)
	if err != nil {
		return "ObsErr"
	}
	return fmt.Sprintf("(ObsOk %s %d)", coqBytes(p), seq)
}

func implEncode(p []byte, seq uint64, split int) []byte {
	// the client hands over one or two buffers (header, payload)
	var bufs net.Buffers
	if split > 0 && split < len(p) {
		bufs = net.Buffers{append([]byte(nil), p[:split]...), append([]byte(nil), p[split:]...)}
	} else {
		bufs = net.Buffers{append([]byte(nil), p...)}
	}
	out := mqtt.VerifEncodeValue(bufs, seq)
	var all []byte
	for _, b := range out {
		all = append(all, b...)
	}
	return all
}

func runC15(tier string, seed uint64, out string) error {
	r := newRng(seed)
	cs := newCaseSet("C15", "C15Check", "c15case", "c15_run")
	seqs := []uint64{0, 1, 255, 256, 1 << 32, 1<<32 - 1, 1<<64 - 1, 1 << 63}
	sizes := []int{0, 1, 2, 3, 4, 5, 11, 12, 13, 31, 64, 127, 128, 200}
	nrandom, ndam, sweepMax := 40, 12, 24
	if tier == "thorough" {
		sizes = append(sizes, 1000, 4096, 70000)
		nrandom, ndam, sweepMax = 400, 40, 64
	}
	type rec struct {
		p   []byte
		seq uint64
	}
	var recs []rec
	for _, n := range sizes {
		recs = append(recs, rec{r.bytes(n), seqs[r.intn(len(seqs))]})
	}
	for _, s := range seqs {
		recs = append(recs, rec{r.bytes(r.intn(40)), s})
	}
	for i := 0; i < nrandom; i++ {
		recs = append(recs, rec{r.bytes(r.intn(300)), r.u64()})
	}
	goSweep, goSweepBad := 0, 0
	multi, multiUndetected := 0, 0
	for _, rc := range recs {
		enc := implEncode(rc.p, rc.seq, r.intn(len(rc.p)+1))
		d := map[string]any{"kind": "enc", "packet_len": len(rc.p), "seq": rc.seq}
		cs.add(fmt.Sprintf("EncCase %s %d %s", coqBytes(rc.p), rc.seq, coqBytes(enc)), d, "enc", len(rc.p) > 0)
		cs.add(fmt.Sprintf("RtCase %s %d %s", coqBytes(rc.p), rc.seq, obsDec(enc)),
			map[string]any{"kind": "roundtrip", "packet_len": len(rc.p), "seq": rc.seq}, "roundtrip", true)
		// sampled single-byte damage, judged by the Coq checker
		nd := ndam
		if len(rc.p) > 5000 {
			nd = 3 // every case carries the whole record as a literal: keep the big ones few
		}
		for k := 0; k < nd; k++ {
			i := r.intn(len(enc))
			b := byte(r.u64())
			if b == enc[i] {
				b++
			}
			dam := append([]byte(nil), enc...)
			dam[i] = b
			cs.add(fmt.Sprintf("DamCase %s %d %s %d %s", coqBytes(rc.p), rc.seq, coqNat(i), b, obsDec(dam)),
				map[string]any{"kind": "damage", "packet_len": len(rc.p), "seq": rc.seq, "index": i, "byte": b}, "damage", true)
		}
		// every truncation length (sampled for long records)
		for n := 0; n < len(enc); n++ {
			rate := 16
			if len(enc) > 5000 {
				// a 70 kB literal per case (and gigabytes of coqc memory per shard of them): the
				// ends and a few places in between
				if n > 2 && n < len(enc)-2 && n != 14 && n != len(enc)-14 && !r.chance(1, 20000) {
					continue
				}
			}
			if len(enc) > 40 && n > 14 && n < len(enc)-14 && !r.chance(1, rate) {
				continue
			}
			cs.add(fmt.Sprintf("TruncCase %s %d %s %s", coqBytes(rc.p), rc.seq, coqNat(n), obsDec(enc[:n])),
				map[string]any{"kind": "truncate", "packet_len": len(rc.p), "seq": rc.seq, "n": n}, "truncate", true)
		}
		// Go-side exhaustive sweep: every position x every other byte value.
		// A survivor is handed to the Coq checker as a DamCase (which then fails c15_ok).
		if len(rc.p) <= sweepMax {
			for i := range enc {
				for v := 0; v < 256; v++ {
					if byte(v) == enc[i] {
						continue
					}
					dam := append([]byte(nil), enc...)
					dam[i] = byte(v)
					goSweep++
					if _, _, err := mqtt.VerifDecodeValue(dam); err == nil {
						goSweepBad++
						cs.add(fmt.Sprintf("DamCase %s %d %s %d %s", coqBytes(rc.p), rc.seq, coqNat(i), v, obsDec(dam)),
							map[string]any{"kind": "damage-sweep-survivor", "index": i, "byte": v}, "damage", true)
					}
				}
			}
		}
		// multi-byte damage is measured, not claimed
		for k := 0; k < 200; k++ {
			dam := append([]byte(nil), enc...)
			n := 2 + r.intn(3)
			for j := 0; j < n; j++ {
				dam[r.intn(len(dam))] ^= byte(1 + r.intn(255))
			}
			if bytes.Equal(dam, enc) {
				continue
			}
			multi++
			if _, _, err := mqtt.VerifDecodeValue(dam); err == nil {
				multiUndetected++
			}
		}
	}
	// arbitrary byte strings through decodeValue
	for i := 0; i < 60; i++ {
		v := r.bytes(r.intn(30))
		cs.add(fmt.Sprintf("DecCase %s %s", coqBytes(v), obsDec(v)),
			map[string]any{"kind": "decode-arbitrary", "len": len(v)}, "decode-arbitrary", len(v) > 0)
	}
	cs.extra["go_side_single_byte_sweep_values"] = goSweep
	cs.extra["go_side_single_byte_sweep_undetected"] = goSweepBad
	cs.extra["multi_byte_damage_tried"] = multi
	cs.extra["multi_byte_damage_undetected_measured_not_claimed"] = multiUndetected
	return cs.write(out, 250)
}
