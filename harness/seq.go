package main

// Sequential histories (M-seq): one API call at a time against the real client,
// inside a synctest bubble so that blocked requests are detected exactly.
// The scenario (a scripted broker and fault injection) only generates answers;
// what is recorded and judged is what the client did.

import (
	"bytes"
	"encoding/binary"
	"errors"
	"fmt"
	"io"
	"net"
	"os"
	"path/filepath"
	"sort"
	"strings"
	"sync/atomic"
	"testing"
	"testing/synctest"
	"time"

	"github.com/pascaldekloe/mqtt"
)

var theT *testing.T // set by TestHarness

// Real-time watchdog state: a call that spins without ever blocking cannot be
// detected in virtual time.
var (
	progress   atomic.Int64
	curHist    atomic.Pointer[hist]
	curOptsVal atomic.Pointer[seqOpts]
)

// errPanic stands for a panic inside the client, caught by the harness.
var errPanic = errors.New("harness: the client panicked")

// errHung stands for an API call that did not return within one virtual hour with
// everything else quiescent: the caller is wedged.
var errHung = errors.New("harness: the call did not return")

func safelyNow(f func() error) (err error) {
	defer func() {
		if r := recover(); r != nil {
			fmt.Fprintf(os.Stderr, "client panic: %v\n", r)
			err = errPanic
		}
	}()
	return f()
}

// safely runs an API call with a watchdog (virtual time) and panic capture.
func safely(f func() error) error {
	done := make(chan error, 1)
	go func() { done <- safelyNow(f) }()
	select {
	case err := <-done:
		return err
	case <-time.After(time.Hour):
		return errHung
	}
}

// error class bit-vector, mirrors Session.v
func classOf(err error) uint64 {
	if err == nil {
		return 0
	}
	var c uint64 = 1
	is := func(t error, bit uint64) {
		if errors.Is(err, t) {
			c |= bit
		}
	}
	is(mqtt.ErrClosed, 2)
	is(mqtt.ErrDown, 4)
	is(mqtt.ErrMax, 8)
	is(mqtt.ErrCanceled, 16)
	is(mqtt.ErrAbandoned, 32)
	is(mqtt.ErrSubmit, 64)
	is(mqtt.ErrBreak, 128)
	if mqtt.IsDeny(err) {
		c |= 256
	}
	if mqtt.IsEnd(err) {
		c |= 512
	}
	if mqtt.IsConnectionRefused(err) {
		c |= 1024
	}
	var se mqtt.SubscribeError
	if errors.As(err, &se) {
		c |= 2048
	}
	var big *mqtt.BigMessage
	if errors.As(err, &big) {
		c |= 4096
	}
	var ne net.Error
	if errors.As(err, &ne) && ne.Timeout() {
		c |= 8192
	}
	is(mqtt.VerifProtoReset(), 16384)
	is(io.EOF, 32768)
	is(errSimStore, 65536)
	if errors.Is(err, net.ErrClosed) || errors.Is(err, io.ErrClosedPipe) {
		c |= 131072
	}
	is(errSimDial, 262144)
	is(errSimHard, 524288)
	is(io.ErrUnexpectedEOF, 1048576)
	is(errPanic, 2097152)
	is(errHung, 4194304)
	_ = os.ErrDeadlineExceeded
	return c
}

// ---------------------------------------------------------------------------
// scripted broker

type brokerConn struct {
	parsed  int       // bytes of conn.written already parsed
	queue   []readAns // answers ready for delivery
	gotConn bool
	silent  bool // the broker stopped sending in the middle of a packet
}

type scenario struct {
	r              *rng
	opts           seqOpts
	awaitRel       map[uint16]bool // broker side: QoS2 from client awaiting PUBREL
	inflight2      []uint16        // broker->client QoS2 ids awaiting PUBREC / sent PUBREL
	nextInID       uint16
	forceDialFail  bool
	sessionPresent bool
	conns          map[*simConn]*brokerConn
	budgetIn       int // broker-initiated publishes left
	hostile        bool
	inCount        int
	sent2          map[uint16][]byte
	dropComp       bool       // the broker withholds every PUBCOMP
	seen1, seen2   int        // client publishes seen per level (next identifier in line = space | count)
	recd2          int        // PUBRECs the broker has sent
	wscript        []writeAns // when non-empty: the fate of the next writes
	noFaults       bool       // suspend random faults (scripted parts of a history)
	sscript        []bool     // scripted outcomes of the next Persistence operations
	silentAfter    bool       // after the last injected chunk the broker goes silent (no EOF)
	inject         [][]byte   // broker packets to deliver next, before anything else
	connacks       [][]byte   // scripted answers to the next CONNECTs, before any random choice
	peerCloses     bool       // the next scripted wClosed is the peer closing its end: our end stays open, reads see EOF
}

type seqOpts struct {
	bufSize     int
	pause       bool
	max1, max2  int
	clean       bool
	faultRate   int // per mille for connection faults
	storeFaults int // per mille
	lossRate    int // per mille for withheld acks
	hostile     bool
	steps       int
	bigMsgs     bool
	adoptRate   int
	damageRate  int  // percent of restarts preceded by tampering with the Persistence
	wrapStart   bool // position the sequences near the 14-bit wrap
	fsStore     bool // the Persistence is the library's FileSystem store in a scratch directory
}

func (sc *scenario) bc(c *simConn) *brokerConn {
	b := sc.conns[c]
	if b == nil {
		b = &brokerConn{}
		sc.conns[c] = b
	}
	return b
}

func remlen(b []byte) (size, n int, ok bool) {
	for i := 0; i < 4 && i < len(b); i++ {
		size |= int(b[i]&0x7f) << (7 * i)
		if b[i]&0x80 == 0 {
			return size, i + 1, true
		}
	}
	return 0, 0, false
}

func ack4(head byte, id uint16) []byte { return []byte{head, 2, byte(id >> 8), byte(id)} }

// onWrite decides the fate of one conn.Write and lets the broker react to
// complete packets.
func (sc *scenario) onWrite(c *simConn, p []byte) writeAns {
	a := writeAns{kind: wOk, n: len(p)}
	if len(sc.wscript) != 0 {
		a = sc.wscript[0]
		sc.wscript = sc.wscript[1:]
		if a.n > len(p) {
			a.n = len(p)
		}
		if a.kind == wTimeout && !c.armedW {
			a.kind = wHard
		}
		if a.kind == wClosed && sc.peerCloses {
			sc.peerCloses = false
			c.peerGone = true // the closed-connection error of a pipe whose other end was closed
		}
	} else if !sc.noFaults && sc.r.intn(1000) < sc.opts.faultRate {
		// a failing Write accepts less than everything
		switch sc.r.intn(3) {
		case 0:
			if c.armedW {
				a = writeAns{kind: wTimeout, n: sc.r.intn(len(p))}
			}
		case 1:
			a = writeAns{kind: wHard, n: sc.r.intn(len(p))}
		case 2:
			a = writeAns{kind: wClosed, n: sc.r.intn(len(p))}
		}
	}
	// the broker sees what was accepted
	all := append(append([]byte(nil), c.written...), p[:a.n]...)
	sc.react(c, all)
	return a
}

func (sc *scenario) lost() bool { return sc.r.intn(1000) < sc.opts.lossRate }

func (sc *scenario) react(c *simConn, all []byte) {
	b := sc.bc(c)
	defer func() {
		// the broker does not understand what the client wrote: ignore the rest
		if recover() != nil {
			b.parsed = len(all)
		}
	}()
	for {
		rest := all[b.parsed:]
		if len(rest) < 2 {
			return
		}
		size, n, ok := remlen(rest[1:])
		if !ok || len(rest) < 1+n+size {
			return
		}
		pkt := rest[:1+n+size]
		body := pkt[1+n:]
		b.parsed += len(pkt)
		switch pkt[0] >> 4 {
		case 1: // CONNECT
			b.gotConn = true
			code := byte(0)
			sp := byte(0)
			if sc.sessionPresent && body[7]&2 == 0 {
				sp = 1
			}
			if len(sc.connacks) != 0 {
				p := sc.connacks[0]
				sc.connacks = sc.connacks[1:]
				if len(p) == 4 && p[3] == 0 {
					sc.sessionPresent = true
				}
				b.queue = append(b.queue, readAns{kind: rData, data: p})
				continue
			}
			switch k := sc.r.intn(1000); {
			case k < sc.opts.faultRate:
				code = byte(1 + sc.r.intn(5))
				sp = 0
			case k < 2*sc.opts.faultRate:
				b.queue = append(b.queue, readAns{kind: rEOF})
				continue
			case k < 3*sc.opts.faultRate && sc.opts.hostile:
				b.queue = append(b.queue, readAns{kind: rData, data: []byte{0x20, 2, 2, 0}})
				continue
			}
			if code == 0 {
				sc.sessionPresent = true
			}
			b.queue = append(b.queue, readAns{kind: rData, data: []byte{0x20, 2, sp, code}})
		case 3: // PUBLISH
			qos := pkt[0] >> 1 & 3
			if qos == 0 {
				continue
			}
			tl := int(binary.BigEndian.Uint16(body))
			id := binary.BigEndian.Uint16(body[2+tl:])
			if n := int(id&0x3fff) + 1; qos == 1 && n > sc.seen1 {
				sc.seen1 = n
			} else if qos == 2 && n > sc.seen2 {
				sc.seen2 = n
			}
			if sc.lost() {
				continue
			}
			if qos == 1 {
				b.queue = append(b.queue, readAns{kind: rData, data: ack4(0x40, id)})
			} else {
				sc.awaitRel[id] = true
				sc.recd2++
				b.queue = append(b.queue, readAns{kind: rData, data: ack4(0x50, id)})
			}
		case 6: // PUBREL
			id := binary.BigEndian.Uint16(body)
			delete(sc.awaitRel, id)
			if sc.lost() || sc.dropComp {
				continue
			}
			b.queue = append(b.queue, readAns{kind: rData, data: ack4(0x70, id)})
		case 5: // PUBREC for a broker publish
			id := binary.BigEndian.Uint16(body)
			if sc.lost() {
				continue
			}
			b.queue = append(b.queue, readAns{kind: rData, data: ack4(0x62, id)})
		case 8: // SUBSCRIBE
			id := binary.BigEndian.Uint16(body)
			var codes []byte
			for i := 2; i < len(body); {
				l := int(binary.BigEndian.Uint16(body[i:]))
				i += 2 + l
				lvl := body[i]
				i++
				if sc.r.chance(1, 5) {
					codes = append(codes, 0x80)
				} else {
					codes = append(codes, byte(sc.r.intn(int(lvl)+1)))
				}
			}
			if sc.lost() {
				continue
			}
			if sc.opts.hostile && sc.r.chance(1, 8) {
				// the wrong kind of response with the right identifier
				b.queue = append(b.queue, readAns{kind: rData, data: ack4(0xb0, id)})
				continue
			}
			if sc.opts.hostile && sc.r.chance(1, 6) {
				codes = append(codes, 0) // count mismatch
			}
			pk := append([]byte{0x90, byte(2 + len(codes)), byte(id >> 8), byte(id)}, codes...)
			b.queue = append(b.queue, readAns{kind: rData, data: pk})
			if sc.r.chance(1, 12) {
				b.queue = append(b.queue, readAns{kind: rData, data: pk}) // duplicate response
			}
		case 10: // UNSUBSCRIBE
			id := binary.BigEndian.Uint16(body)
			if sc.lost() {
				continue
			}
			if sc.opts.hostile && sc.r.chance(1, 8) {
				b.queue = append(b.queue, readAns{kind: rData, data: []byte{0x90, 3, byte(id >> 8), byte(id), 0}})
				continue
			}
			b.queue = append(b.queue, readAns{kind: rData, data: ack4(0xb0, id)})
		case 12: // PINGREQ
			if sc.lost() {
				continue
			}
			b.queue = append(b.queue, readAns{kind: rData, data: []byte{0xd0, 0}})
		}
	}
}

func (sc *scenario) inboundPublish() []byte {
	qos := sc.r.intn(3)
	if len(sc.inflight2) > 0 && sc.r.chance(1, 4) {
		// retransmission of an exactly-once message: same content, DUP flag
		id := sc.inflight2[sc.r.intn(len(sc.inflight2))]
		pkt := append([]byte(nil), sc.sent2[id]...)
		pkt[0] |= 8
		return pkt
	}
	// topic and payload identify the message within the history
	sc.inCount++
	topic := []byte(fmt.Sprintf("in/%d", sc.inCount))
	n := sc.r.intn(12)
	if sc.opts.bigMsgs && sc.r.chance(1, 4) {
		n = sc.opts.bufSize - 6 + sc.r.intn(sc.opts.bufSize)
	}
	payload := sc.r.bytes(n)
	head := byte(0x30 | qos<<1)
	if sc.r.chance(1, 8) {
		head |= 1
	}
	var id uint16
	body := append([]byte{byte(len(topic) >> 8), byte(len(topic))}, topic...)
	if qos > 0 {
		sc.nextInID++
		if sc.nextInID == 0 {
			sc.nextInID = 1
		}
		id = sc.nextInID
		body = append(body, byte(id>>8), byte(id))
	}
	body = append(body, payload...)
	pkt := []byte{head}
	l := len(body)
	for ; l > 0x7f; l >>= 7 {
		pkt = append(pkt, byte(l|0x80))
	}
	pkt = append(pkt, byte(l))
	pkt = append(pkt, body...)
	if qos == 2 {
		sc.inflight2 = append(sc.inflight2, id)
		if len(sc.inflight2) > 4 {
			sc.inflight2 = sc.inflight2[1:]
		}
		if sc.sent2 == nil {
			sc.sent2 = map[uint16][]byte{}
		}
		sc.sent2[id] = append([]byte(nil), pkt...)
	}
	return pkt
}

func (sc *scenario) hostilePacket() []byte {
	// acknowledgements carrying exactly the identifier that is next in line, for transfers
	// that do not exist (yet): the boundary of the in-order guards
	switch sc.r.intn(19) {
	case 16:
		// PUBREL (legal for any identifier: the client answers PUBCOMP) carrying the identifier of
		// one of the CLIENT's own pending transfers: the two key spaces must stay apart
		return ack4(0x62, 0x8000|uint16((sc.seen1-1)&0x3fff))
	case 17:
		return ack4(0x62, 0xc000|uint16((sc.seen2-1)&0x3fff))
	case 18:
		return ack4(0x62, 0xc000|uint16(sc.recd2&0x3fff))
	case 10:
		return ack4(0x40, 0x8000|uint16(sc.seen1&0x3fff))
	case 11:
		return ack4(0x50, 0xc000|uint16(sc.seen2&0x3fff))
	case 12:
		return ack4(0x70, 0xc000|uint16(sc.seen2&0x3fff))
	case 13:
		return ack4(0x50, 0xc000|uint16(sc.recd2&0x3fff)) // PUBREC for the next one not yet confirmed
	case 14:
		return ack4(0x70, 0xc000|uint16(sc.recd2&0x3fff)) // PUBCOMP before PUBREL
	case 15:
		return ack4(0x40, 0x8000|uint16((sc.seen1+1)&0x3fff))
	}
	switch sc.r.intn(12) {
	case 10, 11:
		// a packet that is not a PUBLISH but announces (and delivers) more than the read buffer
		// holds; its body looks like the head of a PUBLISH
		n := sc.opts.bufSize + 20 + sc.r.intn(40)
		if sc.opts.bufSize <= 0 || sc.opts.bufSize > 4096 {
			n = 300
		}
		body := append([]byte{0, 5, 'f', 'o', 'r', 'g', 'e', 0x12, 0x34}, sc.r.bytes(n-9)...)
		head := []byte{0x40, 0x62, 0x90, 0xb0, 0xd0}[sc.r.intn(5)]
		return append(append([]byte{head}, c06Varint(n)...), body...)
	case 0:
		return []byte{0x00, 0} // reserved type
	case 1:
		return []byte{0x20, 2, 0, 0} // second CONNACK
	case 2:
		return []byte{0x40, 2, 0, 0} // PUBACK id zero
	case 3:
		return ack4(0x40, 0x8000|uint16(sc.r.intn(0x4000))) // unsolicited / out of order
	case 4:
		return ack4(0x50, 0xc000|uint16(sc.r.intn(0x4000)))
	case 5:
		return ack4(0x70, 0xc000|uint16(sc.r.intn(4)))
	case 6:
		return []byte{0x36, 3, 0, 1, 'x'} // QoS 3
	case 7:
		return []byte{0x30, 0x80, 0x80, 0x80, 0x80, 0x01} // five byte length
	case 8:
		return []byte{0x90, 3, 0x60, 0, 3} // illegal SUBACK code
	default:
		return []byte{0x82, 0} // SUBSCRIBE from broker
	}
}

// onRead serves the next read of the connection.
func (sc *scenario) onRead(c *simConn, armed bool, want int) readAns {
	b := sc.bc(c)
	if b.silent {
		// nothing comes any more: a read with a deadline waits for it (virtual time), one
		// without sees the connection end
		if !armed {
			return readAns{kind: rEOF}
		}
		d := time.Until(c.deadlineR)
		c.mu.Unlock()
		if d > 0 {
			time.Sleep(d)
		}
		c.mu.Lock()
		if c.closed {
			return readAns{kind: rClosed}
		}
		return readAns{kind: rTimeout}
	}
	if len(sc.inject) != 0 && b.gotConn && len(b.queue) == 0 {
		p := sc.inject[0]
		sc.inject = sc.inject[1:]
		if len(sc.inject) == 0 && sc.silentAfter {
			sc.silentAfter = false
			b.silent = true // what was injected last is all the broker ever sends
		}
		return readAns{kind: rData, data: p}
	}
	if len(b.queue) != 0 {
		a := b.queue[0]
		b.queue = b.queue[1:]
		// occasionally cut a data chunk, with or without a deadline expiry in between
		if a.kind == rData && len(a.data) > 1 && !sc.noFaults && sc.r.chance(1, 6) {
			k := 1 + sc.r.intn(len(a.data)-1)
			rest := readAns{kind: rData, data: a.data[k:]}
			a = readAns{kind: rData, data: a.data[:k]}
			if sc.r.chance(1, 3) {
				b.queue = append([]readAns{{kind: rTimeout}, rest}, b.queue...)
			} else {
				b.queue = append([]readAns{rest}, b.queue...)
			}
		}
		if a.kind == rTimeout && !armed {
			// the deadline is not set here: drop the expiry
			return sc.onRead(c, armed, want)
		}
		return a
	}
	if !b.gotConn {
		return readAns{kind: rEOF}
	}
	// nothing queued: the broker speaks up or the connection ends
	switch k := sc.r.intn(1000); {
	case sc.opts.hostile && k < 20:
		// a packet that stops in the middle, then silence
		p := sc.inboundPublish()
		if len(p) > 3 {
			b.silent = true
			return readAns{kind: rData, data: p[:2+sc.r.intn(len(p)-2)]}
		}
		return readAns{kind: rData, data: p}
	case sc.opts.hostile && k < 150:
		return readAns{kind: rData, data: sc.hostilePacket()}
	case sc.budgetIn > 0 && k < 700:
		sc.budgetIn--
		return readAns{kind: rData, data: sc.inboundPublish()}
	case k < 800:
		return readAns{kind: rEOF}
	case k < 900:
		return readAns{kind: rHard}
	default:
		if armed {
			return readAns{kind: rTimeout}
		}
		return readAns{kind: rEOF}
	}
}

// ---------------------------------------------------------------------------
// history runner

type parkedReq struct {
	rid    int
	quit   chan struct{}
	result chan error
	locked bool
}

type hist struct {
	sc      *scenario
	log     *evlog
	store   *simStore
	dialer  *simDialer
	cfg     mqtt.Config
	client  *mqtt.Client
	old     []*mqtt.Client
	nextR   int
	nextX   int
	parked  map[int]*parkedReq
	exch    map[int]<-chan error
	steps   []string
	bigMsg  *mqtt.BigMessage
	stats   map[string]int
	closed  bool
	nontriv bool
	// a write failed outside the read routine: the write semaphore is pending while
	// Online is still released; lockWrite spins until ReadSlices notices
	writeFailed  bool
	sawDial      bool
	wasClosed    bool
	broken       bool // a call hung or panicked: stop using this client
	pendingOp    string
	rewrote      map[uint][]byte // Persistence content after an environment rewrite, reported with the next step
	cid, cfgTerm string
	initEvs      []event
	label        string
}

func (h *hist) online() bool {
	select {
	case <-h.client.Online():
		return true
	default:
		return false
	}
}

func (h *hist) settle() {
	for i := 0; i < 3; i++ {
		time.Sleep(30 * time.Millisecond)
		synctest.Wait()
	}
}

func coqErrDone(rid int, err error) string {
	var fs []string
	var se mqtt.SubscribeError
	if errors.As(err, &se) {
		for _, f := range se {
			fs = append(fs, coqString(f))
		}
	}
	return fmt.Sprintf("(%d, %d, %s)", rid, classOf(err), coqList(fs))
}

// observe collects completions and exchange events after a step.
func (h *hist) observe() (done, xev string) {
	var rids []int
	for rid := range h.parked {
		rids = append(rids, rid)
	}
	sort.Ints(rids)
	var ds []string
	for _, rid := range rids {
		p := h.parked[rid]
		select {
		case err := <-p.result:
			ds = append(ds, coqErrDone(rid, err))
			delete(h.parked, rid)
			h.stats[fmt.Sprintf("completion:%d", classOf(err))]++
		default:
		}
	}
	var xs []int
	for x := range h.exch {
		xs = append(xs, x)
	}
	sort.Ints(xs)
	var es []string
	for _, x := range xs {
	drain:
		for {
			select {
			case err, ok := <-h.exch[x]:
				if !ok {
					es = append(es, fmt.Sprintf("(%d, None)", x))
					delete(h.exch, x)
					break drain
				}
				es = append(es, fmt.Sprintf("(%d, Some %d)", x, classOf(err)))
			default:
				break drain
			}
		}
	}
	return coqList(ds), coqList(es)
}

func (h *hist) record(op string, ret string) {
	progress.Add(1)
	h.pendingOp = ""
	if strings.Contains(ret, fmt.Sprint(classOf(errHung))) || strings.Contains(ret, fmt.Sprint(classOf(errPanic))) {
		h.closed = true
		h.broken = true
	}
	h.settle()
	evs := h.log.take()
	done, xev := h.observe()
	st := "None"
	if h.rewrote != nil {
		st = "(Some " + coqStore(h.rewrote) + ")"
		h.rewrote = nil
	}
	h.steps = append(h.steps, fmt.Sprintf("mkStep (%s) %s (%s) %s %s %s %s",
		op, coqEvents(evs), ret, done, xev, coqBool(h.online()), st))
	for _, e := range evs {
		if e.Ans != 0 && (e.Kind != "read" || e.Ans != rData) {
			h.nontriv = true
		}
		if e.Kind == "write" && e.Ans != wOk {
			h.writeFailed = true
		}
		if e.Kind == "dial" {
			h.sawDial = true
		}
	}
}

// blocking-capable request in its own goroutine
func (h *hist) spawn(op string, f func(quit <-chan struct{}) error) {
	if h.broken {
		return
	}
	h.pendingOp = op
	rid := h.nextR
	h.nextR++
	p := &parkedReq{rid: rid, quit: make(chan struct{}), result: make(chan error, 1), locked: !h.online() || h.writeFailed}
	go func() { p.result <- safelyNow(func() error { return f(p.quit) }) }()
	h.settle()
	select {
	case err := <-p.result:
		h.stats["ret:"+fmt.Sprint(classOf(err))]++
		h.record(op, fmt.Sprintf("RetErr %d", classOf(err)))
	default:
		h.parked[rid] = p
		h.stats["parked"]++
		h.record(op, "RetParked")
	}
}

func (h *hist) lockParked() bool {
	for _, p := range h.parked {
		if p.locked {
			return true
		}
	}
	return false
}

func coqFilters(fs []string) string {
	items := make([]string, len(fs))
	for i, f := range fs {
		items[i] = coqString(f)
	}
	return coqList(items)
}

func (h *hist) doRead() {
	if h.broken {
		return
	}
	// requests blocked in lockWrite would race with the read routine after a
	// successful connect: let this connect attempt fail instead
	h.sc.forceDialFail = h.lockParked()
	h.bigMsg = nil
	h.pendingOp = "OpRead"
	h.sawDial = false
	var msg, topic []byte
	err := safely(func() (e error) { msg, topic, e = h.client.ReadSlices(); return })
	h.sc.forceDialFail = false
	var big *mqtt.BigMessage
	switch {
	case err == nil:
		h.stats["read:msg"]++
		h.record("OpRead", fmt.Sprintf("RetMsg %s %s", coqBytes(topic), coqBytes(msg)))
	case errors.As(err, &big):
		h.bigMsg = big
		h.stats["read:big"]++
		h.record("OpRead", fmt.Sprintf("RetBig %s %d", coqString(big.Topic), big.Size))
	default:
		h.stats[fmt.Sprintf("read:err:%d", classOf(err))]++
		h.record("OpRead", fmt.Sprintf("RetErr %d", classOf(err)))
		if h.sc.r.chance(1, 2) {
			h.readBackoff(err)
		}
	}
	// a failed write of another request leaves the write semaphore pending with Online still
	// released until ReadSlices goes offline; a ReadSlices that returned earlier (Persistence
	// error in the acknowledgement flush) has not done that yet, and a request issued now would
	// spin in lockWrite for as long as this sequential history does not call ReadSlices again
	if !h.online() || h.sawDial || h.closed {
		h.writeFailed = false
	}
}

// readBackoff measures what ReadBackoff hands out, in virtual time.
func (h *hist) readBackoff(err error) {
	if h.broken {
		return
	}
	ch := h.client.ReadBackoff(err)
	op := fmt.Sprintf("OpReadBackoff %d", classOf(err))
	switch {
	case ch == nil:
		h.stats["backoff:nil"]++
		h.record(op, "RetWait 1 0")
	default:
		select {
		case <-ch:
			h.stats["backoff:none"]++
			h.record(op, "RetWait 0 0")
			return
		default:
		}
		t0 := time.Now()
		<-ch
		h.stats["backoff:timer"]++
		if ms := time.Since(t0).Milliseconds(); ms == 0 {
			h.record(op, "RetWait 0 0") // not distinguishable from the released channel
		} else {
			h.record(op, fmt.Sprintf("RetWait 2 %d", ms))
		}
	}
}

func (h *hist) adopt() {
	if h.broken {
		return
	}
	max1, max2 := h.sc.opts.max1, h.sc.opts.max2
	cfg := h.cfg
	cfg.AtLeastOnceMax, cfg.ExactlyOnceMax = max1, max2
	var c *mqtt.Client
	var warn []error
	fatal := safely(func() (e error) { c, warn, e = mqtt.AdoptSession(h.store, &cfg); return })
	if fatal == nil {
		h.old = append(h.old, h.client)
		h.client = c
		h.nextR, h.nextX = 0, 1
		h.parked = map[int]*parkedReq{}
		h.exch = map[int]<-chan error{}
		h.bigMsg = nil
		h.closed = false
		h.wasClosed = false
	}
	h.stats["adopt"]++
	if len(warn) != 0 {
		h.stats["adopt:warn"]++
	}
	h.nontriv = true
	h.record(fmt.Sprintf("OpAdopt %s %s", coqZ(max1), coqZ(max2)), fmt.Sprintf("RetAdopt %d %d", len(warn), classOf(fatal)))
}

// coqStore renders Persistence content with ascending keys.
func coqStore(m map[uint][]byte) string {
	keys := make([]int, 0, len(m))
	for k := range m {
		keys = append(keys, int(k))
	}
	sort.Ints(keys)
	items := make([]string, len(keys))
	for i, k := range keys {
		items[i] = fmt.Sprintf("(%d, %s)", k, coqBytes(m[uint(k)]))
	}
	return coqList(items)
}

// rewrite lets the environment change the Persistence content behind the client's back.
func (h *hist) rewrite(f func(m map[uint][]byte)) {
	h.store.mu.Lock()
	f(h.store.m)
	h.store.mu.Unlock()
	h.store.syncFS()
	h.rewrote = h.store.snapshot()
	h.nontriv = true
	if h.store.fsDir != "" {
		// leftovers of interrupted saves, for the keys the client is likely to write next
		keys := []uint{0x8000, 0xc000}
		for k := range h.rewrote {
			if k >= 0x8000 && k < 0x10000 {
				space := k & 0xc000
				keys = append(keys, space|(k+1)&0x3fff, space|(k+2)&0x3fff, k)
			} else if k >= 0x10000 {
				keys = append(keys, k)
			}
		}
		spoolLeftovers(h.store.fsDir, keys)
		h.stats["spool-leftovers"]++
	}
}

// spoolLeftovers plants what a process stopped inside FileSystem's Save leaves behind: a
// <key>.spool file (here longer than any record of the histories). The store has to ignore
// these files in List and Load and to replace them on the next Save of the key.
func spoolLeftovers(dir string, keys []uint) {
	junk := bytes.Repeat([]byte("leftover of an interrupted save "), 40)
	for _, k := range keys {
		os.WriteFile(filepath.Join(dir, fmt.Sprintf("%05x.spool", k)), junk, 0o644)
	}
	// entries that have nothing to do with the store (C16 "unrelated entries"), among them names
	// as long as a key's but not hexadecimal, and hexadecimal ones beyond the key space
	for _, n := range []string{".lock", "notes", "zzzzz", "fffff", "README", ".DS_Store", "x"} {
		os.WriteFile(filepath.Join(dir, n), []byte("not a record"), 0o644)
	}
}

// randomDamage alters, truncates or removes up to three records, or adds stray ones.
func (h *hist) randomDamage(r *rng) {
	h.rewrite(func(m map[uint][]byte) {
		var keys []int
		for k := range m {
			if k != 0 || r.chance(1, 6) {
				keys = append(keys, int(k))
			}
		}
		sort.Ints(keys)
		n := 1 + r.intn(3)
		for i := 0; i < n && len(keys) > 0; i++ {
			k := uint(keys[r.intn(len(keys))])
			v := append([]byte(nil), m[k]...)
			switch r.intn(4) {
			case 0:
				if len(v) > 0 {
					v[r.intn(len(v))] ^= byte(1 + r.intn(255))
					m[k] = v
				}
			case 1:
				m[k] = v[:r.intn(len(v)+1)]
			case 2:
				delete(m, k)
			default:
				m[uint(r.intn(0x20000))] = r.bytes(r.intn(20))
			}
		}
	})
	h.stats["damage"]++
}

func coqZ(n int) string {
	if n < 0 {
		return fmt.Sprintf("(%d)%%Z", n)
	}
	return fmt.Sprintf("%d%%Z", n)
}

func coqCfg(o seqOpts, cfg *mqtt.Config) string {
	norm := func(n int) int {
		if n < 0 || n > 0x3fff {
			return 0x4000
		}
		return n
	}
	return coqCfgMax(o, cfg, norm(o.max1), norm(o.max2))
}

// coqCfgMax renders the configuration with the publish limits as given: after InitSession
// these are the limits the client itself applied (Client.Config is the applied setting).
func coqCfgMax(o seqOpts, cfg *mqtt.Config, max1, max2 int) string {
	pass := "None"
	if cfg.Password != nil {
		pass = "(Some " + coqBytes(cfg.Password) + ")"
	}
	will := "None"
	if cfg.Will.Message != nil {
		will = fmt.Sprintf("(Some {| will_topic := %s; will_msg := %s; will_retain := %s; will_alo := %s; will_eo := %s |})",
			coqString(cfg.Will.Topic), coqBytes(cfg.Will.Message), coqBool(cfg.Will.Retain), coqBool(cfg.Will.AtLeastOnce), coqBool(cfg.Will.ExactlyOnce))
	}
	// newClient's normalisation of the reconnect window
	wmin, wmax := cfg.ReconnectWaitMin, cfg.ReconnectWaitMax
	if wmin == 0 {
		wmin = time.Second
	}
	if wmin < 0 {
		wmin = 0
	}
	if wmax < wmin {
		wmax = wmin
	}
	return fmt.Sprintf("(mkScfg {| cfg_user := %s; cfg_pass := %s; cfg_will := %s; cfg_keepalive := %d; cfg_clean := %s |} %s %d %d %d %d %d)",
		coqString(cfg.UserName), pass, will, cfg.KeepAlive, coqBool(cfg.CleanSession), coqBool(o.pause), max1, max2, o.bufSize,
		wmin.Milliseconds(), wmax.Milliseconds())
}

// newHist sets up the environment and runs InitSession.
func newHist(r *rng, o seqOpts, stats map[string]int) (h *hist, initTerm string, ok bool) {
	log := &evlog{}
	sc := &scenario{r: r, opts: o, awaitRel: map[uint16]bool{}, conns: map[*simConn]*brokerConn{}, budgetIn: o.steps}
	h = &hist{sc: sc, log: log, store: newSimStore(log), parked: map[int]*parkedReq{}, exch: map[int]<-chan error{}, nextX: 1, stats: stats}
	if o.fsStore {
		base := os.Getenv("VERIF_ROOT")
		if base != "" {
			base += "/work"
		}
		if dir, err := os.MkdirTemp(base, "fs-store-"); err == nil {
			h.store.useFileSystem(dir)
			stats["store:filesystem"]++
			if r.chance(1, 2) {
				spoolLeftovers(dir, []uint{0, 0x8000, 0x8001, 0xc000, 0xc001, 0x10001, 0x10002, 0x10007})
				stats["spool-leftovers"]++
			}
		}
	}
	curHist.Store(h)
	h.dialer = &simDialer{log: log, onDial: func(id int) (*simConn, bool) {
		if sc.forceDialFail || (!sc.noFaults && r.intn(1000) < o.faultRate) {
			return nil, false
		}
		return &simConn{onRead: sc.onRead, onWrite: sc.onWrite}, true
	}}
	h.store.onOp = func(kind string, key uint) bool {
		if len(sc.sscript) != 0 { // scripted outcomes of the next Persistence operations (true = fail)
			f := sc.sscript[0]
			sc.sscript = sc.sscript[1:]
			return f
		}
		return !sc.noFaults && r.intn(1000) < sc.opts.storeFaults
	}
	h.cfg = mqtt.Config{Dialer: h.dialer.dial, AtLeastOnceMax: o.max1, ExactlyOnceMax: o.max2, CleanSession: o.clean, KeepAlive: uint16(r.intn(3) * 30)}
	if o.pause {
		h.cfg.PauseTimeout = time.Second
	}
	h.cfg.ReconnectWaitMin = []time.Duration{0, 50 * time.Millisecond, -1}[r.intn(3)]
	h.cfg.ReconnectWaitMax = []time.Duration{0, 200 * time.Millisecond, 5 * time.Second}[r.intn(3)]
	if r.chance(1, 3) {
		h.cfg.UserName = "u"
		if r.chance(1, 2) {
			h.cfg.Password = [][]byte{[]byte("pw"), {}}[r.intn(2)] // also the empty, non-nil password
		}
	}
	if r.chance(1, 3) {
		h.cfg.Will.Topic = "will"
		h.cfg.Will.Message = [][]byte{[]byte("gone"), {}, []byte("x")}[r.intn(3)] // also the empty, non-nil message
		h.cfg.Will.Retain = r.chance(1, 3)
		switch r.intn(3) {
		case 0:
			h.cfg.Will.AtLeastOnce = true
		case 1:
			h.cfg.Will.ExactlyOnce = true
		}
	}
	h.cid = fmt.Sprintf("c%d", r.intn(100))
	h.cfgTerm = coqCfg(o, &h.cfg)
	faults := h.store.onOp
	h.store.onOp = nil
	cfg := h.cfg
	client, err := mqtt.InitSession(h.cid, h.store, &cfg)
	h.store.onOp = faults
	h.initEvs = log.take()
	if err != nil {
		return h, fmt.Sprintf("Hist %s %s %s %d []", h.cfgTerm, coqString(h.cid), coqEvents(h.initEvs), classOf(err)), false
	}
	h.client = client
	// the limits as the client applied them (C17: never beyond the identifier space)
	h.cfgTerm = coqCfgMax(o, &h.cfg, client.AtLeastOnceMax, client.ExactlyOnceMax)
	return h, "", true
}

// finish leaves no goroutine behind and renders the history.
func (h *hist) finish(o seqOpts) (term string, nontrivial bool, desc map[string]any) {
	// close every client and let ReadSlices see it
	h.store.onOp = nil
	h.sc.noFaults = true
	for _, c := range append(h.old, h.client) {
		// with watchdogs: a client wedged by the history must not wedge the clean-up too
		if safely(func() error { c.Close(); return nil }) == errHung {
			continue
		}
		for j := 0; j < 4; j++ {
			err := safely(func() error { _, _, err := c.ReadSlices(); return err })
			if errors.Is(err, mqtt.ErrClosed) || err == errHung {
				break
			}
		}
	}
	for _, p := range h.parked {
		select {
		case <-p.quit:
		default:
			close(p.quit)
		}
	}
	h.settle()
	h.log.take()
	if h.store.fsDir != "" {
		os.RemoveAll(h.store.fsDir)
	}

	term = fmt.Sprintf("Hist %s %s %s 0 [\n    %s]", h.cfgTerm, coqString(h.cid), coqEvents(h.initEvs), strings.Join(h.steps, ";\n    "))
	desc = map[string]any{"kind": "history", "steps": len(h.steps), "bufsize": o.bufSize, "pause": o.pause,
		"max": []int{o.max1, o.max2}, "fault_per_mille": o.faultRate, "store_fault_per_mille": o.storeFaults,
		"loss_per_mille": o.lossRate, "hostile": o.hostile}
	if h.label != "" {
		desc["scenario"] = h.label
	}
	return term, h.nontriv, desc
}

// runScripted plays a hand-written scenario.
func runScripted(r *rng, o seqOpts, stats map[string]int, script func(h *hist)) (term string, nontrivial bool, desc map[string]any) {
	restore := mqtt.VerifSetReadBufSize(o.bufSize)
	defer restore()
	h, t, ok := newHist(r, o, stats)
	if !ok {
		return t, false, nil
	}
	script(h)
	return h.finish(o)
}

// runHistory plays one seeded random history and returns the Coq term.
func runHistory(r *rng, o seqOpts, stats map[string]int) (term string, nontrivial bool, desc map[string]any) {
	restore := mqtt.VerifSetReadBufSize(o.bufSize)
	defer restore()
	h, t, ok := newHist(r, o, stats)
	if !ok {
		return t, false, nil
	}
	h.randomOps(r, o)
	if r.chance(1, 2) {
		h.goodSuffix()
	}
	return h.finish(o)
}

// goodSuffix ends the history with a benign environment: after the marker (a quit for a
// request number that does not exist: a no-op) dials succeed, nothing fails, the broker
// acknowledges everything and sends nothing of its own, and ReadSlices is called six more
// times. The checkers then demand that every accepted transfer completed and that every
// waiting request returned (HistChecks.settled_exchanges / settled_requests).
func (h *hist) goodSuffix() {
	if h.closed || h.broken || h.wasClosed {
		return
	}
	sc := h.sc
	sc.noFaults = true
	sc.opts.faultRate, sc.opts.lossRate, sc.opts.storeFaults = 0, 0, 0
	sc.opts.hostile = false
	sc.dropComp = false
	sc.budgetIn = 0
	sc.inject, sc.wscript, sc.connacks = nil, nil, nil
	h.store.onOp = nil
	h.stats["good-suffix"]++
	h.record("OpQuit 1000000", "RetErr 0")
	for i := 0; i < 6 && !h.broken && !h.closed; i++ {
		h.doRead()
	}
}

func (h *hist) publish(retain bool, msg []byte, topic string) {
	op := fmt.Sprintf("OpPublish %s %s %s", coqBool(retain), coqBytes(msg), coqString(topic))
	h.spawn(op, func(q <-chan struct{}) error {
		if retain {
			return h.client.PublishRetained(q, msg, topic)
		}
		return h.client.Publish(q, msg, topic)
	})
}

func (h *hist) pubP(level int, retain bool, msg []byte, topic string) {
	if h.broken {
		return
	}
	var ch <-chan error
	h.pendingOp = fmt.Sprintf("OpPubP %d %s %s %s", level, coqBool(retain), coqBytes(msg), coqString(topic))
	err := safely(func() (err error) {
		switch {
		case level == 1 && !retain:
			ch, err = h.client.PublishAtLeastOnce(msg, topic)
		case level == 1:
			ch, err = h.client.PublishAtLeastOnceRetained(msg, topic)
		case !retain:
			ch, err = h.client.PublishExactlyOnce(msg, topic)
		default:
			ch, err = h.client.PublishExactlyOnceRetained(msg, topic)
		}
		return
	})
	op := fmt.Sprintf("OpPubP %d %s %s %s", level, coqBool(retain), coqBytes(msg), coqString(topic))
	if err != nil {
		h.stats[fmt.Sprintf("pubp:err:%d", classOf(err))]++
		h.record(op, fmt.Sprintf("RetErr %d", classOf(err)))
	} else {
		x := h.nextX
		h.nextX++
		h.exch[x] = ch
		h.stats["pubp:ok"]++
		h.record(op, fmt.Sprintf("RetExch %d", x))
	}
}

func (h *hist) subscribe(level int, fs []string) {
	op := fmt.Sprintf("OpSub %d %s", level, coqFilters(fs))
	h.spawn(op, func(q <-chan struct{}) error {
		switch level {
		case 0:
			return h.client.SubscribeLimitAtMostOnce(q, fs...)
		case 1:
			return h.client.SubscribeLimitAtLeastOnce(q, fs...)
		}
		return h.client.Subscribe(q, fs...)
	})
}

func (h *hist) unsubscribe(fs []string) {
	op := fmt.Sprintf("OpUnsub %s", coqFilters(fs))
	h.spawn(op, func(q <-chan struct{}) error { return h.client.Unsubscribe(q, fs...) })
}

func (h *hist) ping() {
	h.spawn("OpPing", func(q <-chan struct{}) error { return h.client.Ping(q) })
}

func (h *hist) quit(rid int) {
	if h.broken {
		return
	}
	if p := h.parked[rid]; p != nil { // (a scripted scenario may quit a request that returned at once: a no-op)
		select {
		case <-p.quit: // quit before and still waiting
		default:
			close(p.quit)
		}
		for j := 0; j < 100; j++ {
			h.settle()
			if len(p.result) != 0 {
				break
			}
		}
	}
	h.stats["quit"]++
	h.record(fmt.Sprintf("OpQuit %d", rid), "RetErr 0")
}

func (h *hist) readAll() {
	if h.broken {
		return
	}
	var b []byte
	big := h.bigMsg
	err := safely(func() (e error) { b, e = big.ReadAll(); return })
	h.bigMsg = nil
	if err != nil {
		h.record("OpReadAll", fmt.Sprintf("RetErr %d", classOf(err)))
	} else {
		h.record("OpReadAll", "RetBytes "+coqBytes(b))
	}
}

func (h *hist) close() {
	if h.broken {
		return
	}
	h.pendingOp = "OpClose"
	err := safely(h.client.Close)
	h.stats["close"]++
	h.wasClosed = true
	h.record("OpClose", fmt.Sprintf("RetErr %d", classOf(err)))
}

func (h *hist) disconnect() {
	if h.broken {
		return
	}
	h.pendingOp = "OpDisconnect"
	err := safely(func() error { return h.client.Disconnect(make(chan struct{})) })
	h.stats["disconnect"]++
	h.wasClosed = true
	h.record("OpDisconnect", fmt.Sprintf("RetErr %d", classOf(err)))
}

func (h *hist) randomOps(r *rng, o seqOpts) {
	topics := []string{"a", "b/c", "t"}
	for i := 0; i < o.steps && !h.closed; i++ {
		k := r.intn(100)
		if h.writeFailed && (k >= 34 && k < 44 || k >= 70 && k < 84) && r.chance(1, 2) {
			// mostly let ReadSlices notice the failed write first; otherwise the request polls in
			// lockWrite (the hook lets virtual time pass, so it counts as waiting) until it does
			k = 0
		}
		if !h.online() && !h.wasClosed && (k >= 34 && k < 44 || k >= 70 && k < 84) && r.chance(3, 4) {
			k = 0 // mostly connect first
		}
		switch {
		case k < 34:
			h.doRead()
		case k < 44:
			msg, topic, retain := r.bytes(r.intn(6)), topics[r.intn(3)], r.chance(1, 4)
			if r.chance(1, 20) {
				topic = "" // denied
			}
			h.publish(retain, msg, topic)
		case k < 70:
			level, retain := 1+r.intn(2), r.chance(1, 4)
			msg, topic := r.bytes(r.intn(8)), topics[r.intn(3)]
			if r.chance(1, 25) {
				topic = "\xff" // denied
			}
			h.pubP(level, retain, msg, topic)
		case k < 76:
			n := 1 + r.intn(3)
			if r.chance(1, 15) {
				n = 0
			}
			fs := make([]string, n)
			for j := range fs {
				fs[j] = topics[r.intn(3)] + fmt.Sprint(r.intn(3))
			}
			h.subscribe(r.intn(3), fs)
		case k < 80:
			h.unsubscribe([]string{topics[r.intn(3)]})
		case k < 84:
			h.ping()
		case k < 88:
			// close the quit channel of a parked request
			var rids []int
			for rid := range h.parked {
				rids = append(rids, rid)
			}
			if len(rids) == 0 {
				continue
			}
			sort.Ints(rids)
			h.quit(rids[r.intn(len(rids))])
		case k < 88+o.adoptRate:
			if o.damageRate > 0 && r.intn(100) < o.damageRate {
				h.randomDamage(r)
			}
			h.adopt()
		case k < 97:
			if h.bigMsg != nil && r.chance(2, 3) {
				h.readAll()
				continue
			}
			h.doRead()
		case k < 99:
			h.close()
			// stay on a little to see ErrClosed everywhere
			h.doRead()
			h.doRead()
			h.closed = r.chance(3, 4)
		default:
			h.disconnect()
			h.doRead()
			h.closed = r.chance(3, 4)
		}
	}
}

// emergencyTerm renders the current history with the call that never returned.
func emergencyTerm(h *hist) (string, map[string]any) {
	steps := append([]string(nil), h.steps...)
	op := h.pendingOp
	if op == "" {
		op = "OpRead"
	}
	evs := h.log.take()
	steps = append(steps, fmt.Sprintf("mkStep (%s) %s (RetErr %d) [] [] false None", op, coqEvents(evs), classOf(errHung)))
	term := fmt.Sprintf("Hist %s %s %s 0 [\n    %s]", h.cfgTerm, coqString(h.cid), coqEvents(h.initEvs), strings.Join(steps, ";\n    "))
	return term, map[string]any{"kind": "history", "steps": len(steps), "scenario": h.label,
		"hung": "the call " + op + " did not return and did not block either (busy loop); the harness stopped"}
}

// histGen produces case i of a run from its own PRNG.
type histGen func(i int, r *rng, stats map[string]int) (term string, nontrivial bool, desc map[string]any)

func randomGen(mk func(r *rng, i int) seqOpts) histGen {
	return func(i int, r *rng, stats map[string]int) (string, bool, map[string]any) {
		return runHistory(r, mk(r, i), stats)
	}
}

// bubble runs f in a synctest bubble. When f returns while goroutines of the client under test
// are still blocked for good (a wedged call the watchdogs already recorded), synctest panics
// with a deadlock report in this goroutine: the case is complete by then, the wedged
// goroutines are left behind and the run goes on.
func bubble(f func()) {
	defer func() {
		if r := recover(); r != nil {
			bubbleDeadlocks.Add(1)
		}
	}()
	synctest.Test(theT, func(t *testing.T) { f() })
}

var bubbleDeadlocks atomic.Int64

// runGen generates n histories, each inside its own synctest bubble.
func runGen(prop, module, runFn string, seed uint64, n int, gen histGen, out string, shard int) error {
	cs := newCaseSet(prop, module, "histcase", runFn)
	stats := map[string]int{}
	r := newRng(seed)
	// real-time watchdog, outside the bubbles
	stop := make(chan struct{})
	defer close(stop)
	go func() {
		last, idle := progress.Load(), 0
		for {
			select {
			case <-stop:
				return
			case <-time.After(time.Second):
			}
			if now := progress.Load(); now != last {
				last, idle = now, 0
				continue
			}
			idle++
			if idle < 20 {
				continue
			}
			if h := curHist.Load(); h != nil {
				term, desc := emergencyTerm(h)
				desc["index"] = len(cs.terms)
				cs.add(term, desc, "history", true)
			}
			for k, v := range stats {
				cs.dist[k] = v
			}
			cs.extra["harness_stopped"] = "a client call was spinning for 20 s of real time; remaining cases not generated"
			cs.write(out, shard)
			os.Exit(0)
		}
	}()
	for i := 0; i < n; i++ {
		progress.Add(1)
		hr := newRng(r.u64())
		var term string
		var nontriv bool
		var desc map[string]any
		bubble(func() { term, nontriv, desc = gen(i, hr, stats) })
		if term == "" {
			// the bubble ended in a deadlock report before the history was rendered: keep what was recorded
			if h := curHist.Load(); h != nil {
				term, desc = emergencyTerm(h)
				nontriv = true
			}
		}
		if term == "" {
			continue
		}
		if desc == nil {
			desc = map[string]any{"kind": "init-failed"}
		}
		desc["index"] = i
		cs.add(term, desc, "history", nontriv)
	}
	for k, v := range stats {
		cs.dist[k] = v
	}
	return cs.write(out, shard)
}

func runHistories(prop, module, caseType, runFn string, seed uint64, n int, mk func(r *rng, i int) seqOpts, out string, shard int) error {
	return runGen(prop, module, runFn, seed, n, randomGen(mk), out, shard)
}
