package main

// C14ERR: the error classifiers (nonNilIsAny, IsDeny, IsEnd, IsConnectionRefused,
// Client.Backoff, Client.ReadBackoff) on randomly wrapped and joined error
// values built from the package's real sentinel values.  Model: MQ.ErrTree,
// checker: MQ.ErrTreeCheck.

import (
	"context"
	"errors"
	"fmt"
	"io"
	"net"
	"os"
	"reflect"
	"strings"
	"syscall"
	"time"

	"github.com/pascaldekloe/mqtt"
)

func init() { runners["C14ERR"] = runC14ERR }

// ---- custom wrapper types ----

// errWrapOne has Unwrap() error, which may return nil.
type errWrapOne struct{ inner error }

func (e *errWrapOne) Error() string { return "wrapOne" }
func (e *errWrapOne) Unwrap() error { return e.inner }

// errWrapMany has Unwrap() []error, which may contain nils and may be empty.
type errWrapMany struct{ inner []error }

func (e *errWrapMany) Error() string   { return "wrapMany" }
func (e *errWrapMany) Unwrap() []error { return e.inner }

// ---- error trees ----

const (
	ekSentinel = iota
	ekWrap1
	ekWrapN
	ekConnRet
	ekSubErr
	ekOpaque
)

type enode struct {
	kind   int
	id     uint64   // sentinel id, connect return code, or opaque id
	kids   []*enode // Wrap1: exactly one entry (nil = Unwrap returns nil); WrapN: entries may be nil
	val    error    // the real value
	recipe string   // how val was built
}

func (n *enode) coq() string {
	opt := func(k *enode) string {
		if k == nil {
			return "None"
		}
		return "Some (" + k.coq() + ")"
	}
	switch n.kind {
	case ekSentinel:
		return fmt.Sprintf("Sentinel %d", n.id)
	case ekWrap1:
		return "Wrap1 (" + opt(n.kids[0]) + ")"
	case ekWrapN:
		items := make([]string, len(n.kids))
		for i, k := range n.kids {
			items[i] = opt(k)
		}
		return "WrapN " + coqList(items)
	case ekConnRet:
		return fmt.Sprintf("ConnRet %d", n.id)
	case ekSubErr:
		return "SubErr"
	default:
		return fmt.Sprintf("Opaque %d", n.id)
	}
}

func (n *enode) count() int {
	c := 1
	for _, k := range n.kids {
		if k != nil {
			c += k.count()
		} else {
			c++
		}
	}
	return c
}

// sameErr is identity of error values without panicking on uncomparable types.
func sameErr(a, b error) bool {
	if a == nil || b == nil {
		return a == nil && b == nil
	}
	ta, tb := reflect.TypeOf(a), reflect.TypeOf(b)
	if ta != tb {
		return false
	}
	if ta.Comparable() {
		return a == b
	}
	va, vb := reflect.ValueOf(a), reflect.ValueOf(b)
	if va.Kind() == reflect.Slice {
		return va.Len() == vb.Len() && va.Pointer() == vb.Pointer()
	}
	return false
}

// intact reports whether every node still unwraps to exactly what it was built with.
func (n *enode) intact() bool {
	switch n.kind {
	case ekWrap1:
		u, ok := n.val.(interface{ Unwrap() error })
		if !ok {
			return false
		}
		var want error
		if n.kids[0] != nil {
			want = n.kids[0].val
		}
		if !sameErr(u.Unwrap(), want) {
			return false
		}
	case ekWrapN:
		u, ok := n.val.(interface{ Unwrap() []error })
		if !ok {
			return false
		}
		got := u.Unwrap()
		if len(got) != len(n.kids) {
			return false
		}
		for i, k := range n.kids {
			var want error
			if k != nil {
				want = k.val
			}
			if !sameErr(got[i], want) {
				return false
			}
		}
	}
	for _, k := range n.kids {
		if k != nil && !k.intact() {
			return false
		}
	}
	return true
}

// errWorld holds the real sentinel values and a client to call Backoff on.
type errWorld struct {
	sentinels []error  // real values
	ids       []uint64 // model identifiers, same order
	opaques   []error
	connRets  []error
	connCodes []uint64
	client    *mqtt.Client
	big       *mqtt.Client // ReadSlices returned a *BigMessage, not consumed
	cleanup   []func()
}

var errNoDial = errors.New("harness: no dial")

func newErrWorld() (*errWorld, error) {
	w := &errWorld{}
	cfg := &mqtt.Config{
		Dialer:           func(context.Context) (net.Conn, error) { return nil, errNoDial },
		ReconnectWaitMin: time.Hour, ReconnectWaitMax: time.Hour,
	}
	c, err := mqtt.VolatileSession("errtree", cfg)
	if err != nil {
		return nil, err
	}
	w.client = c

	// The unexported sentinels, each from the code path that returns it —
	// not from the classifier tables.
	leaf := func(name string, e error) (error, error) {
		if e == nil {
			return nil, fmt.Errorf("%s: got nil", name)
		}
		for errors.Unwrap(e) != nil {
			e = errors.Unwrap(e)
		}
		if _, multi := e.(interface{ Unwrap() []error }); multi {
			return nil, fmt.Errorf("%s: not a sentinel chain", name)
		}
		return e, nil
	}
	huge := strings.Repeat("a", 65535)
	many := make([]string, 4100)
	for i := range many {
		many[i] = huge
	}
	type src struct {
		name string
		id   uint64
		err  error
	}
	srcs := []src{
		{"ErrClosed", 1, mqtt.ErrClosed}, {"ErrDown", 2, mqtt.ErrDown}, {"ErrMax", 3, mqtt.ErrMax},
		{"ErrCanceled", 4, mqtt.ErrCanceled}, {"ErrAbandoned", 5, mqtt.ErrAbandoned},
		{"ErrSubmit", 6, mqtt.ErrSubmit}, {"ErrBreak", 7, mqtt.ErrBreak},
		{"errPacketMax", 10, c.Unsubscribe(nil, many...)},
		{"errStringMax", 11, mqtt.VerifStringCheck(huge + "a")},
		{"errUTF8", 12, mqtt.VerifStringCheck("\xff")},
		{"errNull", 13, mqtt.VerifStringCheck("a\x00")},
		{"errZero", 14, mqtt.VerifTopicCheck("")},
		{"errSubscribeNone", 15, c.Subscribe(nil)},
		{"errUnsubscribeNone", 16, c.Unsubscribe(nil)},
		{"errProtoReset", 20, mqtt.VerifProtoReset()},
	}
	for _, s := range srcs {
		e, err := leaf(s.name, s.err)
		if err != nil {
			return nil, err
		}
		for j, o := range w.sentinels {
			if o == e {
				return nil, fmt.Errorf("%s is the same value as id %d", s.name, w.ids[j])
			}
		}
		w.sentinels = append(w.sentinels, e)
		w.ids = append(w.ids, s.id)
	}

	w.opaques = []error{io.EOF, io.ErrUnexpectedEOF, os.ErrDeadlineExceeded, net.ErrClosed,
		io.ErrClosedPipe, syscall.ECONNRESET, context.DeadlineExceeded, errors.New("harness: fresh"),
		syscall.EPIPE, os.ErrNotExist}
	// connectReturn values through the exported constants (accepted = ErrProtocolLevel - 1)
	w.connRets = []error{mqtt.ErrProtocolLevel - 1, mqtt.ErrProtocolLevel, mqtt.ErrClientID,
		mqtt.ErrUnavailable, mqtt.ErrAuthBad, mqtt.ErrAuth, mqtt.ErrAuth + 7}
	w.connCodes = []uint64{0, 1, 2, 3, 4, 5, 12}

	if err := w.makeBigPending(); err != nil {
		return nil, err
	}
	return w, nil
}

// makeBigPending drives a second client until ReadSlices returns a *BigMessage.
func (w *errWorld) makeBigPending() error {
	restore := mqtt.VerifSetReadBufSize(256)
	defer restore()
	cliEnd, brokerEnd := net.Pipe()
	w.cleanup = append(w.cleanup, func() { cliEnd.Close(); brokerEnd.Close() })
	dials := 0
	cfg := &mqtt.Config{
		Dialer: func(context.Context) (net.Conn, error) {
			dials++
			if dials > 1 {
				return nil, errNoDial
			}
			return cliEnd, nil
		},
		ReconnectWaitMin: time.Hour, ReconnectWaitMax: time.Hour,
	}
	c, err := mqtt.VolatileSession("errtree-big", cfg)
	if err != nil {
		return err
	}
	go func() {
		buf := make([]byte, 512)
		if _, err := brokerEnd.Read(buf); err != nil { // CONNECT
			return
		}
		brokerEnd.Write([]byte{0x20, 2, 0, 0}) // CONNACK
		// PUBLISH, QoS 0, topic "t", 1000 byte payload: remaining length 1003
		p := []byte{0x30, 0xeb, 0x07, 0, 1, 't'}
		p = append(p, make([]byte, 1000)...)
		brokerEnd.Write(p) // blocks on the unread payload; ends on Close
	}()
	got := make(chan error, 1)
	go func() {
		for i := 0; i < 4; i++ {
			_, _, err := c.ReadSlices()
			var bm *mqtt.BigMessage
			if errors.As(err, &bm) {
				got <- nil
				return
			}
			if err != nil {
				got <- fmt.Errorf("big message set-up: %w", err)
				return
			}
		}
		got <- errors.New("big message set-up: no *BigMessage after 4 reads")
	}()
	select {
	case err := <-got:
		if err != nil {
			return err
		}
	case <-time.After(10 * time.Second):
		return errors.New("big message set-up: timeout")
	}
	w.big = c
	return nil
}

func (w *errWorld) close() {
	for _, f := range w.cleanup {
		f()
	}
}

func (w *errWorld) idOf(e error) uint64 {
	for i, s := range w.sentinels {
		if s == e {
			return w.ids[i]
		}
	}
	return 99 // not a known sentinel
}

// gen builds a random tree.  budget bounds the number of nodes.
func (w *errWorld) gen(r *rng, depth int, budget *int) *enode {
	*budget--
	if depth <= 0 || *budget <= 0 || r.chance(1, 6) {
		return w.genLeaf(r)
	}
	if r.chance(1, 2) {
		// single wrap
		how := r.intn(7)
		var kid *enode
		if how >= 5 && r.chance(1, 3) {
			kid = nil // Unwrap() returns nil
		} else {
			kid = w.gen(r, depth-1, budget)
		}
		n := &enode{kind: ekWrap1, kids: []*enode{kid}}
		var inner error
		if kid != nil {
			inner = kid.val
		}
		switch {
		case how == 0:
			n.val, n.recipe = fmt.Errorf("%w; x", inner), "fmt(%w; x)"
		case how == 1:
			n.val, n.recipe = fmt.Errorf("context: %w", inner), "fmt(context: %w)"
		case how == 2:
			n.val, n.recipe = &net.OpError{Op: "write", Net: "tcp", Err: inner}, "net.OpError"
		case how == 3:
			n.val, n.recipe = &os.PathError{Op: "open", Path: "/x", Err: inner}, "os.PathError"
		case how == 4:
			n.val, n.recipe = os.NewSyscallError("write", inner), "os.SyscallError"
		case how == 5:
			n.val, n.recipe = &errWrapOne{inner}, "wrapOne"
		default:
			// *net.OpError with a nil Err unwraps to nil as well
			if kid == nil {
				n.val, n.recipe = &net.OpError{Op: "read", Net: "tcp"}, "net.OpError(nil)"
			} else {
				n.val, n.recipe = &errWrapOne{inner}, "wrapOne"
			}
		}
		return n
	}
	// multi wrap
	how := r.intn(4)
	var nk int
	switch how {
	case 0: // errors.Join
		nk = 1 + r.intn(4)
	case 1: // fmt.Errorf with two %w
		nk = 2
	case 2: // fmt.Errorf with three %w
		nk = 3
	default: // custom, 0..4 entries, nils allowed
		nk = r.intn(5)
	}
	n := &enode{kind: ekWrapN, kids: make([]*enode, nk)}
	vals := make([]error, nk)
	for i := range n.kids {
		switch {
		case how == 3 && r.chance(1, 4):
			// nil entry
		case i > 0 && n.kids[i-1] != nil && r.chance(1, 16):
			n.kids[i] = n.kids[i-1] // the same value twice (a DAG; the model sees two copies)
			vals[i] = n.kids[i].val
		default:
			n.kids[i] = w.gen(r, depth-1, budget)
			vals[i] = n.kids[i].val
		}
	}
	switch how {
	case 0:
		n.val, n.recipe = errors.Join(vals...), "errors.Join"
	case 1:
		n.val, n.recipe = fmt.Errorf("%w and %w", vals[0], vals[1]), "fmt(%w and %w)"
	case 2:
		n.val, n.recipe = fmt.Errorf("%w, %w; %w", vals[0], vals[1], vals[2]), "fmt(%w, %w; %w)"
	default:
		n.val, n.recipe = &errWrapMany{vals}, "wrapMany"
	}
	return n
}

func (w *errWorld) genLeaf(r *rng) *enode {
	switch x := r.intn(16); {
	case x < 9:
		i := r.intn(len(w.sentinels))
		return &enode{kind: ekSentinel, id: w.ids[i], val: w.sentinels[i]}
	case x < 11:
		i := r.intn(len(w.connRets))
		return &enode{kind: ekConnRet, id: w.connCodes[i], val: w.connRets[i]}
	case x < 12:
		return &enode{kind: ekSubErr, val: mqtt.SubscribeError{"x"}}
	default:
		i := r.intn(len(w.opaques))
		return &enode{kind: ekOpaque, id: uint64(i + 1), val: w.opaques[i]}
	}
}

func (n *enode) describe() string {
	switch n.kind {
	case ekWrap1, ekWrapN:
		parts := make([]string, len(n.kids))
		for i, k := range n.kids {
			if k == nil {
				parts[i] = "nil"
			} else {
				parts[i] = k.describe()
			}
		}
		return n.recipe + "[" + strings.Join(parts, ", ") + "]"
	case ekSentinel:
		return fmt.Sprintf("S%d", n.id)
	case ekConnRet:
		return fmt.Sprintf("connectReturn(%d)", n.id)
	case ekSubErr:
		return "SubscribeError"
	default:
		return fmt.Sprintf("%T", n.val)
	}
}

// helpers for the hand-made trees
func (w *errWorld) sent(id uint64) *enode {
	for i, x := range w.ids {
		if x == id {
			return &enode{kind: ekSentinel, id: id, val: w.sentinels[i]}
		}
	}
	panic("unknown sentinel id")
}
func (w *errWorld) opq(i int) *enode {
	return &enode{kind: ekOpaque, id: uint64(i + 1), val: w.opaques[i]}
}
func joinOf(kids ...*enode) *enode {
	vals := make([]error, len(kids))
	for i, k := range kids {
		vals[i] = k.val
	}
	return &enode{kind: ekWrapN, kids: kids, val: errors.Join(vals...), recipe: "errors.Join"}
}
func fmtOf(k *enode) *enode {
	return &enode{kind: ekWrap1, kids: []*enode{k}, val: fmt.Errorf("%w; x", k.val), recipe: "fmt(%w; x)"}
}
func subErrNode() *enode { return &enode{kind: ekSubErr, val: mqtt.SubscribeError{"x", "y"}} }

// observe calls the five classifiers in a fixed order on one value.
func observe(c *mqtt.Client, err error) string {
	d := mqtt.IsDeny(err)
	n := mqtt.IsEnd(err)
	rf := mqtt.IsConnectionRefused(err)
	var k string
	switch ch := c.Backoff(err); {
	case ch == nil:
		k = "BNil"
	case ch == c.Online():
		k = "BOnline"
	default:
		k = "BSharedTimer"
	}
	return fmt.Sprintf("(Obs %s %s %s %s %s)", coqBool(d), coqBool(n), coqBool(rf), k, readClass(c, err))
}

func readClass(c *mqtt.Client, err error) string {
	ch := c.ReadBackoff(err)
	if ch == nil {
		return "RNil"
	}
	select {
	case <-ch:
		return "RClosedChan"
	default:
		return "RTimer" // ReconnectWaitMin = ReconnectWaitMax = 1 h
	}
}

func runC14ERR(tier string, seed uint64, out string) error {
	r := newRng(seed)
	w, err := newErrWorld()
	if err != nil {
		return err
	}
	defer w.close()
	cs := newCaseSet("C14ERR", "ErrTreeCheck", "errcase", "err_run")

	nClass, nAny, nBig := 1700, 1100, 60
	if tier == "thorough" {
		nClass, nAny, nBig = 17000, 11000, 600
	}

	// the classifier tables as seen through the hooks
	{
		var d, n []string
		for _, e := range mqtt.VerifDenyErrs() {
			d = append(d, coqN(w.idOf(e)))
		}
		for _, e := range mqtt.VerifEndErrs() {
			n = append(n, coqN(w.idOf(e)))
		}
		cs.add(fmt.Sprintf("TableCase %s %s", coqList(d), coqList(n)),
			map[string]any{"kind": "table", "deny": d, "end": n}, "table", true)
	}
	// nil error
	cs.add("NilCase "+observe(w.client, nil), map[string]any{"kind": "nil"}, "nil", true)

	obsHist := map[string]int{}
	nodeSum, nodeMax := 0, 0
	classCase := func(t *enode, kind string) {
		first := observe(w.client, t.val)
		again := observe(w.client, t.val)
		mutated := !t.intact()
		obsHist[first]++
		nodeSum += t.count()
		nodeMax = max(nodeMax, t.count())
		cs.add(fmt.Sprintf("ClassCase (%s) %s %s %s", t.coq(), first, again, coqBool(mutated)),
			map[string]any{"kind": kind, "tree": t.describe(), "nodes": t.count()}, kind, t.count() > 1)
	}

	// hand-made shapes: the ones the package builds, the mixed ErrMax+SubscribeError
	// value, and shapes on which a stack that aliases the Unwrap() slice goes wrong
	fixed := []func() *enode{
		func() *enode { return joinOf(joinOf(w.opq(0), w.opq(1)), w.sent(1)) },
		func() *enode { return joinOf(joinOf(w.opq(0), w.opq(1)), fmtOf(w.sent(3))) },
		func() *enode { return joinOf(joinOf(w.opq(0), w.opq(1)), subErrNode()) },
		func() *enode { return joinOf(joinOf(w.opq(0), w.opq(1)), w.sent(12)) },
		func() *enode { return joinOf(joinOf(w.opq(0)), w.sent(5)) },
		func() *enode { return joinOf(w.sent(3), subErrNode()) },
		func() *enode { return joinOf(subErrNode(), w.sent(3)) },
		func() *enode { return fmtOf(joinOf(w.sent(6), w.opq(5))) },
		func() *enode { return fmtOf(fmtOf(joinOf(w.sent(6), joinOf(w.opq(4), w.opq(8))))) },
		func() *enode { return joinOf(w.sent(12), w.sent(4)) },
		func() *enode { return fmtOf(w.sent(20)) },
		func() *enode {
			t := w.sent(5)
			for i := 0; i < 200; i++ {
				t = fmtOf(t)
			}
			return t
		},
		func() *enode {
			kids := make([]*enode, 100)
			for i := range kids {
				kids[i] = joinOf(w.opq(i % 10))
			}
			kids[0] = w.sent(1)
			return joinOf(kids...)
		},
	}
	for _, f := range fixed {
		classCase(f(), "class-fixed")
	}
	for _, s := range w.sentinels { // every sentinel bare and wrapped once
		i := w.idOf(s)
		classCase(w.sent(i), "class-fixed")
		classCase(fmtOf(w.sent(i)), "class-fixed")
	}
	for i := range w.connRets {
		classCase(&enode{kind: ekConnRet, id: w.connCodes[i], val: w.connRets[i]}, "class-fixed")
	}

	for i := 0; i < nClass; i++ {
		budget := 6 + r.intn(50)
		t := w.gen(r, 2+r.intn(5), &budget)
		classCase(t, "class")
	}

	for i := 0; i < nAny; i++ {
		budget := 6 + r.intn(50)
		var t *enode
		if i < len(fixed) {
			t = fixed[i]()
		} else {
			t = w.gen(r, 2+r.intn(5), &budget)
		}
		var targets []error
		var ids []string
		for j, n := 0, r.intn(6); j < n; j++ {
			k := r.intn(len(w.sentinels))
			targets = append(targets, w.sentinels[k])
			ids = append(ids, coqN(w.ids[k]))
		}
		first := mqtt.VerifNonNilIsAny(t.val, targets)
		again := mqtt.VerifNonNilIsAny(t.val, targets)
		mutated := !t.intact()
		cs.add(fmt.Sprintf("AnyCase (%s) %s %s %s %s", t.coq(), coqList(ids), coqBool(first), coqBool(again), coqBool(mutated)),
			map[string]any{"kind": "any", "tree": t.describe(), "targets": ids}, "any", t.count() > 1)
	}

	// ReadBackoff with a pending big message
	cs.add("BigCase None "+readClass(w.big, nil), map[string]any{"kind": "big", "tree": "nil"}, "big", true)
	for i := 0; i < nBig; i++ {
		var t *enode
		if i < 8 {
			t = fmtOf(w.sent(uint64(1 + i%7)))
		} else {
			budget := 2 + r.intn(12)
			t = w.gen(r, 1+r.intn(4), &budget)
		}
		cs.add(fmt.Sprintf("BigCase (Some (%s)) %s", t.coq(), readClass(w.big, t.val)),
			map[string]any{"kind": "big", "tree": t.describe()}, "big", true)
	}

	cs.extra["sentinel_ids"] = w.ids
	cs.extra["class_case_observation_histogram"] = obsHist
	cs.extra["class_case_nodes_total"] = nodeSum
	cs.extra["class_case_nodes_max"] = nodeMax
	cs.extra["note"] = "every ClassCase/AnyCase calls the classifiers twice on ONE value and then checks the value's structure"
	return cs.write(out, 200)
}
