package main

// M-sched: concurrent runs of the real client (read routine, publishers, persisted
// publishers, Close/Disconnect callers) inside a synctest bubble, with every
// synchronisation event recorded through the verif hooks. The recorded event sequence
// must be accepted by the L3 monitor (coq/theories/Sync.v); API-level observations are
// judged by sync_ok.

import (
	"bytes"
	"context"
	"errors"
	"fmt"
	"net"
	"os"
	"runtime"
	"strconv"
	"strings"
	"sync"
	"sync/atomic"
	"time"

	"github.com/pascaldekloe/mqtt"
)

func init() {
	// the same runs, judged by the property's own rule (SyncCheck.v)
	runners["SYNC"] = func(tier string, seed uint64, out string) error {
		return runSync("SYNC", "sync_run", false, tier, seed, out)
	}
	runners["SYNC08"] = func(tier string, seed uint64, out string) error {
		return runSync("SYNC08", "sync_run_c08", false, tier, seed, out)
	}
	runners["SYNC10"] = func(tier string, seed uint64, out string) error {
		return runSync("SYNC10", "sync_run_c10", false, tier, seed, out)
	}
	runners["SYNCF7"] = func(tier string, seed uint64, out string) error {
		return runSync("SYNCF7", "sync_run_c11", true, tier, seed, out)
	}
}

func gid() int {
	var buf [64]byte
	n := runtime.Stack(buf[:], false)
	f := bytes.Fields(buf[:n])
	id, _ := strconv.Atoi(string(f[1]))
	return id
}

type syncEvent struct {
	g    int
	site string
	args []int
}

type syncRec struct {
	mu     sync.Mutex
	events []syncEvent
}

// evCount counts every hook call of the process: waitQuiet uses it to let the goroutines of
// the previous client finish before a new record starts (their late events would otherwise
// land in the next record and the monitor would rightly reject that).
var evCount atomic.Int64

func waitQuiet() {
	for i := 0; i < 100; i++ { // at most a second
		c0 := evCount.Load()
		time.Sleep(10 * time.Millisecond)
		if evCount.Load() == c0 {
			return
		}
	}
}

func (r *syncRec) hook(site string, args ...int) {
	evCount.Add(1)
	g := gid()
	r.mu.Lock()
	r.events = append(r.events, syncEvent{g, site, append([]int(nil), args...)})
	r.mu.Unlock()
	spinBreak(site, g)
}

// A request in lockWrite polls without blocking while the write semaphore says "connect
// pending" and Online is still released, that is from a failed write of another goroutine
// until the read routine goes offline. Inside a synctest bubble such a poll loop freezes the
// virtual clock, and with it everything that would end the phase (timers of the harness, a
// slow Close). The hook at the poll's wake-up lets a millisecond of virtual time pass after
// every twenty polls at the same instant: the goroutine then counts as blocked, like the model's
// parked request, and the run goes on.
var spin struct {
	mu   sync.Mutex
	last map[int]time.Time
	n    map[int]int
}

func spinBreak(site string, g int) {
	if site != "wake" {
		return
	}
	if g == 0 {
		g = gid()
	}
	now := time.Now()
	spin.mu.Lock()
	if spin.last == nil {
		spin.last, spin.n = map[int]time.Time{}, map[int]int{}
	}
	if spin.last[g].Equal(now) {
		spin.n[g]++
	} else {
		spin.last[g], spin.n[g] = now, 0
	}
	pause := spin.n[g] >= 20
	if pause {
		spin.n[g] = 0
	}
	if len(spin.last) > 4096 {
		spin.last, spin.n = map[int]time.Time{}, map[int]int{}
	}
	spin.mu.Unlock()
	if pause {
		time.Sleep(time.Millisecond)
	}
}

func defaultHook(site string, args ...int) { evCount.Add(1); spinBreak(site, 0) }

func init() { mqtt.VerifEvent = defaultHook }

// The hooks before the two context checks (connect, submitPersisted) read the context once
// more than the code does: "ctx false" may be recorded although the check itself, a moment
// later, saw the cancellation and took the early return. The early return is recognisable by
// the goroutine's next event (the semaphore is handed back without any I/O): the recorded
// reading is then corrected to the one the code acted on.
func normalizeCtx(evs []syncEvent) []syncEvent {
	out := append([]syncEvent(nil), evs...)
	// a corrected reading is also moved to where the code made it: directly before the
	// goroutine's next event (the cancellation lies between the hook's read and the code's)
	move := func(i, j int) {
		e := out[i]
		copy(out[i:j-1], out[i+1:j])
		out[j-1] = e
	}
	for i := 0; i < len(out); i++ {
		e := out[i]
		if e.site == "dc.dial" && len(e.args) == 2 && e.args[0] == 0 && e.args[1] == 0 {
			// same for the hook after a failed dial: the code reads the context after the hook did;
			// the context.Canceled return hands the connection semaphore back without touching
			// the write semaphore
			for j := i + 1; j < len(out); j++ {
				if out[j].g != e.g {
					continue
				}
				if out[j].site == "csSend" {
					out[i].args = []int{0, 1}
					move(i, j)
					i-- // the event that moved into position i has not been looked at
				}
				break
			}
			continue
		}
		if e.site != "ctx" || len(e.args) == 0 || e.args[0] != 0 {
			continue
		}
		for j := i + 1; j < len(out); j++ {
			if out[j].g != e.g {
				continue
			}
			if out[j].site == "seqSend" || out[j].site == "csSend" {
				out[i].args = []int{1}
				move(i, j)
				i--
			}
			break
		}
	}
	return out
}

func wvName(k int) string { return [...]string{"WvPend", "WvDown", "WvConn"}[k] }
func lvl(a int) string    { return coqBool(a != 0) }

func coqSyncEvent(e syncEvent) (string, bool) {
	a := func(i int) int {
		if i < len(e.args) {
			return e.args[i]
		}
		return 0
	}
	switch e.site {
	case "rs.enter":
		return "ESpawn KRead", true
	case "w.enter":
		return "ESpawn KWrite", true
	case "sp.enter":
		return "ESpawn (KPersist " + lvl(a(0)) + ")", true
	case "cl.enter":
		return "ESpawn KClose", true
	case "di.enter":
		return "ESpawn KDisc", true
	case "cancel":
		return "ECancel", true
	case "cl.csRecv", "di.csRecv", "cn.csRecv":
		return fmt.Sprintf("ERecvC %s %s", coqBool(a(0) != 0), coqBool(a(1) != 0)), true
	case "csSend":
		return "ESendC " + coqBool(a(0) != 0), true
	case "closeC":
		return "ECloseC", true
	case "closeW":
		return "ECloseW", true
	case "wsRecv", "cl.wsRecv", "di.wsRecv", "to.wsRecv":
		return fmt.Sprintf("ERecvW %s %s", coqBool(a(0) != 0), wvName(a(1))), true
	case "wsRecvAny":
		return "ERecvWAny", true
	case "wsSend":
		return "ESendW " + wvName(a(0)), true
	case "seqRecv":
		return fmt.Sprintf("ERecvS %s %s", lvl(a(0)), coqBool(a(1) != 0)), true
	case "seqRecvAny":
		return "ERecvSAny " + lvl(a(0)), true
	case "seqSend":
		return "ESendS " + lvl(a(0)), true
	case "closeS":
		return "ECloseS " + lvl(a(0)), true
	case "closeQ":
		return "ECloseQ " + lvl(a(0)), true
	case "ctx":
		return "ECtx " + coqBool(a(0) != 0), true
	case "quit":
		return "EQuit", true
	case "default":
		return "EDefault", true
	case "wake":
		return "EWake", true
	case "io":
		return "EIO " + coqBool(a(0) != 0), true
	case "dc.dial":
		switch {
		case a(0) != 0:
			return "EIO true", true
		case a(1) != 0:
			return "ECtx true", true
		}
		return "EIO false", true
	case "dc.abort.start":
		return "EStart KAbort", true
	case "abortSend":
		return "ESendA", true
	case "abortClose":
		return "ECloseA", true
	case "doneRecv":
		return "ERecvDone", true
	case "doneClose":
		return "ECloseDone", true
	case "abortRecv":
		return "ERecvA " + coqBool(a(0) != 0), true
	case "offline":
		return "EOffline", true
	case "tc.start":
		return "ETerm", true
	case "tc.t.start":
		return "EStart (KTerm " + lvl(a(0)) + ")", true
	case "ret":
		return "ERet", true
	}
	return "", false
}

type apiObs struct {
	g          int
	kind       int
	cls        uint64
	afterClose bool
}

func runSyncCase(r *rng, stats map[string]int) (string, map[string]any, bool) {
	restore := mqtt.VerifSetReadBufSize(256)
	defer restore()
	waitQuiet()
	rec := &syncRec{}
	mqtt.VerifEvent = rec.hook
	defer func() { mqtt.VerifEvent = defaultHook }()

	o := seqOpts{bufSize: 256, pause: r.chance(2, 3), max1: 4, max2: 4, faultRate: pick(r, 0, 40, 120), lossRate: pick(r, 0, 200), steps: 40, hostile: syncHostile}
	log := &evlog{}
	sc := &scenario{r: r, opts: o, awaitRel: map[uint16]bool{}, conns: map[*simConn]*brokerConn{}, budgetIn: 6}
	var scMu sync.Mutex
	slowClose := r.chance(1, 2)
	store := newSimStore(log)
	dialer := &simDialer{log: log}
	dialer.onDial = func(id int) (*simConn, bool) {
		scMu.Lock()
		d := time.Duration(r.intn(20)) * time.Millisecond
		scMu.Unlock()
		time.Sleep(d)
		scMu.Lock()
		defer scMu.Unlock()
		if r.intn(1000) < o.faultRate {
			return nil, false
		}
		c := &simConn{closedCh: make(chan struct{})}
		if slowClose {
			// a Close that takes a moment (linger): writes of other goroutines still succeed meanwhile
			c.closeDelay = func() time.Duration {
				scMu.Lock()
				defer scMu.Unlock()
				return time.Duration(r.intn(12)) * time.Millisecond
			}
		}
		c.onRead = func(c *simConn, armed bool, want int) readAns {
			// the connection mutex is held by simConn.Read: let other goroutines run
			for i := 0; ; i++ {
				scMu.Lock()
				b := sc.bc(c)
				if len(b.queue) != 0 || !b.gotConn || i > 40 {
					a := sc.onRead(c, armed, want)
					scMu.Unlock()
					return a
				}
				scMu.Unlock()
				c.mu.Unlock()
				select {
				case <-c.closedCh:
				case <-time.After(10 * time.Millisecond):
				}
				c.mu.Lock()
				if c.closed {
					return readAns{kind: rClosed}
				}
			}
		}
		c.onWrite = func(c *simConn, p []byte) writeAns {
			scMu.Lock()
			d := time.Duration(r.intn(15)) * time.Millisecond
			scMu.Unlock()
			c.mu.Unlock()
			select {
			case <-c.closedCh:
			case <-time.After(d):
			}
			c.mu.Lock()
			if c.closed {
				return writeAns{kind: wClosed, n: 0}
			}
			scMu.Lock()
			defer scMu.Unlock()
			return sc.onWrite(c, p)
		}
		return c, true
	}
	cfg := mqtt.Config{Dialer: func(ctx context.Context) (net.Conn, error) { return dialer.dial(ctx) }, AtLeastOnceMax: 4, ExactlyOnceMax: 4}
	if o.pause {
		cfg.PauseTimeout = time.Second
	}
	client, err := mqtt.InitSession("sync", store, &cfg)
	if err != nil {
		return "", nil, false
	}

	var (
		mu          sync.Mutex
		calls       []apiObs
		closeDone   bool
		wg          sync.WaitGroup
		closedSeen  int
		nPublishers = 1 + r.intn(3)
		nPersist    = 1 + r.intn(2)
		nClosers    = 1 + r.intn(2)
		nRequesters = r.intn(3)
		issued      = map[string]bool{}
	)
	// calls that have not returned yet, per goroutine: when the run does not end, these are the
	// calls that hang (reported with their own kind)
	inflight := map[int]int{}
	enter := func(kind int) {
		mu.Lock()
		inflight[gid()] = kind
		mu.Unlock()
	}
	note := func(kind int, err error, started bool) {
		mu.Lock()
		delete(inflight, gid())
		calls = append(calls, apiObs{gid(), kind, classOf(err), started})
		mu.Unlock()
	}
	isClosed := func() bool { mu.Lock(); defer mu.Unlock(); return closeDone }

	// the read routine
	wg.Add(1)
	go func() {
		defer wg.Done()
		for i := 0; i < 400; i++ {
			after := isClosed()
			enter(0)
			_, _, err := client.ReadSlices()
			var big *mqtt.BigMessage
			if errors.As(err, &big) {
				err = nil
			}
			note(0, err, after)
			if errors.Is(err, mqtt.ErrClosed) {
				closedSeen++
				if closedSeen >= 2 {
					return
				}
			}
			if err != nil {
				time.Sleep(time.Duration(5+r.intn(30)) * time.Millisecond)
			}
		}
	}()
	seeds := make([]uint64, 16)
	for i := range seeds {
		seeds[i] = r.u64()
	}
	for w := 0; w < nPublishers; w++ {
		wr := newRng(seeds[w])
		wg.Add(1)
		go func() {
			defer wg.Done()
			for i := 0; i < 3+wr.intn(4); i++ {
				time.Sleep(time.Duration(wr.intn(60)) * time.Millisecond)
				after := isClosed()
				quit := make(chan struct{})
				tm := time.AfterFunc(300*time.Millisecond, func() { close(quit) })
				// topic and payload identify the call: what goes on the wire must be one of these
				topic := fmt.Sprintf("p%d/%s", w, strings.Repeat("x", 3*w+i%4))
				payload := append([]byte{byte(w), byte(i)}, wr.bytes(wr.intn(6))...)
				mu.Lock()
				issued[topic+"\x00"+string(payload)] = true
				mu.Unlock()
				enter(1)
				note(1, client.Publish(quit, payload, topic), after)
				if !tm.Stop() {
					<-quit
				}
			}
		}()
	}
	for w := 0; w < nPersist; w++ {
		wr := newRng(seeds[4+w])
		wg.Add(1)
		go func() {
			defer wg.Done()
			for i := 0; i < 2+wr.intn(4); i++ {
				time.Sleep(time.Duration(wr.intn(60)) * time.Millisecond)
				after := isClosed()
				var err error
				enter(2)
				if wr.chance(1, 2) {
					_, err = client.PublishAtLeastOnce(wr.bytes(wr.intn(5)), "t")
				} else {
					_, err = client.PublishExactlyOnce(wr.bytes(wr.intn(5)), "t")
				}
				note(2, err, after)
			}
		}()
	}
	// Subscribe, Unsubscribe and Ping, most of them without a quit channel: they return with the
	// response, with ErrBreak when the connection is lost, or with ErrClosed
	for w := 0; w < nRequesters; w++ {
		wr := newRng(seeds[12+w])
		wg.Add(1)
		go func() {
			defer wg.Done()
			for i := 0; i < 2+wr.intn(3); i++ {
				time.Sleep(time.Duration(wr.intn(80)) * time.Millisecond)
				after := isClosed()
				var quit chan struct{}
				var tm *time.Timer
				if wr.chance(1, 3) {
					quit = make(chan struct{})
					q := quit
					tm = time.AfterFunc(300*time.Millisecond, func() { close(q) })
				}
				switch wr.intn(3) {
				case 0:
					enter(5)
					note(5, client.Ping(quit), after)
				case 1:
					enter(6)
					note(6, client.Subscribe(quit, "a/b", "c"), after)
				default:
					enter(7)
					note(7, client.Unsubscribe(quit, "a/b"), after)
				}
				if tm != nil && !tm.Stop() {
					<-quit
				}
			}
		}()
	}
	for k := 0; k < nClosers; k++ {
		kr := newRng(seeds[8+k])
		wg.Add(1)
		go func() {
			defer wg.Done()
			time.Sleep(time.Duration(kr.intn(400)) * time.Millisecond)
			after := isClosed()
			if kr.chance(2, 3) {
				enter(3)
				note(3, client.Close(), after)
			} else {
				quit := make(chan struct{})
				if kr.chance(1, 3) {
					close(quit)
				}
				enter(4)
				note(4, client.Disconnect(quit), after)
			}
			mu.Lock()
			closeDone = true
			mu.Unlock()
			if kr.chance(1, 2) {
				enter(3)
				note(3, client.Close(), true)
			}
		}()
	}
	done := make(chan struct{})
	go func() { wg.Wait(); close(done) }()
	hung := false
	select {
	case <-done:
	case <-time.After(time.Hour):
		hung = true
		client.Close()
	}
	if hung {
		mu.Lock()
		if len(inflight) == 0 {
			calls = append(calls, apiObs{0, 3, classOf(errHung), false}) // stuck outside an API call
		}
		for g, kind := range inflight {
			calls = append(calls, apiObs{g, kind, classOf(errHung), false})
			stats[fmt.Sprintf("hung:kind%d", kind)]++
		}
		mu.Unlock()
		stats["hung"]++
	}

	// C08 under concurrency: every connection carries whole packets, and every QoS 0 PUBLISH on
	// the wire is one that some Publish call asked for, unmodified (observation kind 8)
	wireBad := 0
	for _, c := range dialer.conns {
		c.mu.Lock()
		b := append([]byte(nil), c.written...)
		c.mu.Unlock()
		for len(b) >= 2 {
			size, n, ok := remlen(b[1:])
			if !ok {
				wireBad++
				break
			}
			if len(b) < 1+n+size {
				break // an incomplete last packet: the connection was given up
			}
			pkt := b[:1+n+size]
			b = b[1+n+size:]
			if pkt[0]>>4 == 3 && pkt[0]&6 == 0 {
				body := pkt[1+n:]
				if len(body) < 2 || len(body) < 2+int(body[0])<<8+int(body[1]) {
					wireBad++
					continue
				}
				tl := int(body[0])<<8 + int(body[1])
				if !issued[string(body[2:2+tl])+"\x00"+string(body[2+tl:])] {
					wireBad++
				}
			}
		}
	}
	mu.Lock()
	calls = append(calls, apiObs{0, 8, uint64(wireBad), false})
	mu.Unlock()
	if wireBad != 0 {
		stats["wire:bad"]++
	}

	// render
	rec.mu.Lock()
	evs := normalizeCtx(rec.events)
	rec.mu.Unlock()
	items := make([]string, 0, len(evs))
	for _, e := range evs {
		t, ok := coqSyncEvent(e)
		if !ok {
			continue
		}
		items = append(items, fmt.Sprintf("mkObs %d (%s)", e.g, t))
		stats["ev:"+e.site]++
	}
	cs := make([]string, len(calls))
	for i, c := range calls {
		cs[i] = fmt.Sprintf("mkApi %d %d %d %s", c.g, c.kind, c.cls, coqBool(c.afterClose))
		stats[fmt.Sprintf("api:%d:%d", c.kind, c.cls)]++
	}
	term := "SyncCase [" + strings.Join(items, ";\n    ") + "]\n   [" + strings.Join(cs, "; ") + "]"
	desc := map[string]any{"kind": "sync-run", "events": len(items), "api_calls": len(calls), "publishers": nPublishers,
		"persisters": nPersist, "closers": nClosers, "requesters": nRequesters, "slow_close": slowClose, "fault_per_mille": o.faultRate}
	return term, desc, true
}

// runF7 reproduces the recorded finding F7 with the hooks as yield points: Ping A's write
// fails and A is parked before it releases the ping slot; the read routine goes offline
// (which empties the slot) and reconnects; Ping B installs its slot and sends PINGREQ; A
// resumes and takes B's slot; the PINGRESP finds the slot empty and B waits for ever.
func runF7(stats map[string]int) (string, map[string]any) {
	waitQuiet()
	rec := &syncRec{}
	var aGid int
	parkA := make(chan struct{})
	aParked := make(chan struct{})
	var once sync.Once
	mqtt.VerifEvent = func(site string, args ...int) {
		rec.hook(site, args...)
		if site == "ping.werr" && gid() == aGid {
			once.Do(func() {
				close(aParked)
				<-parkA
			})
		}
	}
	defer func() { mqtt.VerifEvent = defaultHook }()
	log := &evlog{}
	store := newSimStore(log)
	failWrite := false
	pingresp := make(chan struct{})
	dialer := &simDialer{log: log}
	dialer.onDial = func(id int) (*simConn, bool) {
		c := &simConn{closedCh: make(chan struct{})}
		sentAck := false
		c.onRead = func(c *simConn, armed bool, want int) readAns {
			if !sentAck {
				sentAck = true
				return readAns{kind: rData, data: []byte{0x20, 2, 0, 0}}
			}
			c.mu.Unlock()
			defer c.mu.Lock()
			if id == 0 {
				<-c.closedCh
				return readAns{kind: rClosed}
			}
			select {
			case <-pingresp:
				pingresp = make(chan struct{}) // once
				return readAns{kind: rData, data: []byte{0xd0, 0}}
			case <-c.closedCh:
				return readAns{kind: rClosed}
			}
		}
		c.onWrite = func(c *simConn, p []byte) writeAns {
			if failWrite && len(p) == 2 && p[0] == 0xc0 {
				failWrite = false
				return writeAns{kind: wHard, n: 1}
			}
			return writeAns{kind: wOk, n: len(p)}
		}
		return c, true
	}
	cfg := mqtt.Config{Dialer: dialer.dial, PauseTimeout: time.Second}
	client, err := mqtt.InitSession("f7", store, &cfg)
	if err != nil {
		panic(err)
	}
	var mu sync.Mutex
	var calls []apiObs
	note := func(kind int, err error) {
		mu.Lock()
		calls = append(calls, apiObs{gid(), kind, classOf(err), false})
		mu.Unlock()
	}
	stop := make(chan struct{})
	go func() { // read routine
		for {
			select {
			case <-stop:
				return
			default:
			}
			_, _, err := client.ReadSlices()
			if errors.Is(err, mqtt.ErrClosed) {
				return
			}
		}
	}()
	<-client.Online()
	failWrite = true
	aDone := make(chan struct{})
	go func() { aGid = gid(); note(5, client.Ping(nil)); close(aDone) }()
	<-aParked // A's write failed (connection closed by A); A parked before it releases the slot
	// the read routine notices, goes offline (empties the slot) and reconnects
	for {
		time.Sleep(50 * time.Millisecond)
		if dialer.nconn >= 2 {
			select {
			case <-client.Online():
			default:
				continue
			}
			break
		}
	}
	bDone := make(chan error, 1)
	go func() { bDone <- client.Ping(nil) }()
	time.Sleep(100 * time.Millisecond) // B installed its slot and wrote PINGREQ
	close(parkA)                       // A resumes: takes the slot that is B's now
	<-aDone
	close(pingresp) // the broker answers B
	var bErr error
	select {
	case bErr = <-bDone:
	case <-time.After(2 * time.Second): // real time: this scenario runs outside a bubble, the wedged goroutine is left behind
		bErr = errHung
		stats["f7:hung"]++
	}
	mu.Lock()
	calls = append(calls, apiObs{0, 5, classOf(bErr), false})
	mu.Unlock()
	close(stop)
	client.Close()
	time.Sleep(100 * time.Millisecond)
	items := []string{}
	rec.mu.Lock()
	for _, e := range rec.events {
		if t, ok := coqSyncEvent(e); ok {
			items = append(items, fmt.Sprintf("mkObs %d (%s)", e.g, t))
		}
	}
	rec.mu.Unlock()
	cs := make([]string, len(calls))
	for i, c := range calls {
		cs[i] = fmt.Sprintf("mkApi %d %d %d %s", c.g, c.kind, c.cls, coqBool(c.afterClose))
	}
	term := "SyncCase [" + strings.Join(items, ";\n    ") + "]\n   [" + strings.Join(cs, "; ") + "]"
	return term, map[string]any{"kind": "sync-run", "scenario": "F7: Ping slot taken by another Ping's release path", "events": len(items)}
}

// runF6 schedules Close into a handshake that waits for its CONNACK (the F6 schedule), in
// real time outside a bubble: on a tree with the defect ReadSlices and Close never return.
func runF6(stats map[string]int) (string, map[string]any) {
	waitQuiet()
	rec := &syncRec{}
	mqtt.VerifEvent = rec.hook
	defer func() { mqtt.VerifEvent = defaultHook }()
	log := &evlog{}
	store := newSimStore(log)
	inHandshake := make(chan struct{})
	var once sync.Once
	dialer := &simDialer{log: log}
	dialer.onDial = func(id int) (*simConn, bool) {
		c := &simConn{closedCh: make(chan struct{})}
		c.onRead = func(c *simConn, armed bool, want int) readAns {
			once.Do(func() { close(inHandshake) })
			c.mu.Unlock()
			<-c.closedCh // the CONNACK never comes
			c.mu.Lock()
			return readAns{kind: rClosed}
		}
		c.onWrite = func(c *simConn, p []byte) writeAns { return writeAns{kind: wOk, n: len(p)} }
		return c, true
	}
	cfg := mqtt.Config{Dialer: dialer.dial, PauseTimeout: time.Minute}
	client, err := mqtt.InitSession("f6", store, &cfg)
	if err != nil {
		panic(err)
	}
	var mu sync.Mutex
	var calls []apiObs
	note := func(g, kind int, err error, after bool) {
		mu.Lock()
		calls = append(calls, apiObs{g, kind, classOf(err), after})
		mu.Unlock()
	}
	call := func(kind int, after bool, f func() error) {
		done := make(chan error, 1)
		var g int
		go func() { g = gid(); done <- safelyNow(f) }()
		select {
		case err := <-done:
			note(g, kind, err, after)
		case <-time.After(2 * time.Second):
			note(g, kind, errHung, after)
			stats["f6:hung"]++
		}
	}
	// one goroutine makes all ReadSlices calls (the client's contract)
	type rres struct {
		g   int
		err error
	}
	rch := make(chan rres, 4)
	goAgain := make(chan struct{})
	go func() {
		g := gid()
		rch <- rres{g, safelyNow(func() error { _, _, err := client.ReadSlices(); return err })}
		<-goAgain
		rch <- rres{g, safelyNow(func() error { _, _, err := client.ReadSlices(); return err })}
	}()
	<-inHandshake
	call(3, false, client.Close)
	waitR := func(after bool) bool {
		select {
		case r := <-rch:
			note(r.g, 0, r.err, after)
			return true
		case <-time.After(2 * time.Second):
			note(0, 0, errHung, after)
			stats["f6:hung"]++
			return false
		}
	}
	if waitR(false) {
		close(goAgain)
		waitR(true)
	}
	call(2, true, func() error { _, err := client.PublishAtLeastOnce(nil, "t"); return err })
	items := []string{}
	rec.mu.Lock()
	for _, e := range rec.events {
		if t, ok := coqSyncEvent(e); ok {
			items = append(items, fmt.Sprintf("mkObs %d (%s)", e.g, t))
		}
	}
	rec.mu.Unlock()
	cs := make([]string, len(calls))
	for i, c := range calls {
		cs[i] = fmt.Sprintf("mkApi %d %d %d %s", c.g, c.kind, c.cls, coqBool(c.afterClose))
	}
	term := "SyncCase [" + strings.Join(items, ";\n    ") + "]\n   [" + strings.Join(cs, "; ") + "]"
	return term, map[string]any{"kind": "sync-run", "scenario": "F6: Close while the handshake waits for CONNACK", "events": len(items)}
}

// runF20 schedules the F20 window with the hooks as yield points: Close is parked right after
// it canceled the context; the first dial honours the cancellation, so ReadSlices returns
// ErrClosed and termCallbacks closes the sequence semaphores; ReadSlices is called again and
// wins connSem; the second dial ignores the context and hands out a connection with a ready
// CONNACK; the abort goroutine is held back until the handshake is through. Without the context
// check after connSem is taken, connect goes on to a send on a closed sequence semaphore.
func runF20(stats map[string]int) (string, map[string]any) {
	var best string
	var bestDesc map[string]any
	for try := 0; try < 6; try++ {
		waitQuiet()
		rec := &syncRec{}
		var kGid, rGid int
		parkK, kParked := make(chan struct{}), make(chan struct{})
		parkA := make(chan struct{})
		var onceK, onceA, onceD sync.Once
		mqtt.VerifEvent = func(site string, args ...int) {
			rec.hook(site, args...)
			g := gid()
			switch {
			case site == "cl.canceled" && g == kGid:
				onceK.Do(func() { close(kParked); <-parkK })
			case site == "dc.abort.start":
				if dialsSeen(rec) >= 2 {
					onceA.Do(func() { <-parkA })
				}
			case site == "doneClose" && g == rGid:
				if dialsSeen(rec) >= 2 {
					onceD.Do(func() { close(parkA) })
				}
			}
		}
		log := &evlog{}
		store := newSimStore(log)
		dialer := &simDialer{log: log}
		dialing := make(chan struct{})
		var ctxOf = make(chan context.Context, 2)
		dialer.onDial = func(id int) (*simConn, bool) {
			if id == 0 && len(dialer.conns) == 0 && dialsSeen(rec) == 0 {
				// first dial: wait for the cancellation, then fail (honours the context)
				close(dialing)
				ctx := <-ctxOf
				<-ctx.Done()
				return nil, false
			}
			sent := false
			c := &simConn{closedCh: make(chan struct{})}
			c.onRead = func(c *simConn, armed bool, want int) readAns {
				if !sent {
					sent = true
					return readAns{kind: rData, data: []byte{0x20, 2, 0, 0}}
				}
				c.mu.Unlock()
				<-c.closedCh
				c.mu.Lock()
				return readAns{kind: rClosed}
			}
			c.onWrite = func(c *simConn, p []byte) writeAns { return writeAns{kind: wOk, n: len(p)} }
			return c, true
		}
		cfg := mqtt.Config{Dialer: func(ctx context.Context) (net.Conn, error) {
			select {
			case ctxOf <- ctx:
			default:
			}
			return dialer.dial(ctx)
		}, PauseTimeout: 0}
		client, err := mqtt.InitSession("f20", store, &cfg)
		if err != nil {
			panic(err)
		}
		var mu sync.Mutex
		var calls []apiObs
		note := func(g, kind int, err error, after bool) {
			mu.Lock()
			calls = append(calls, apiObs{g, kind, classOf(err), after})
			mu.Unlock()
		}
		type rres struct{ err error }
		rch := make(chan rres, 4)
		goAgain := make(chan struct{})
		go func() {
			rGid = gid()
			rch <- rres{safelyNow(func() error { _, _, err := client.ReadSlices(); return err })}
			<-goAgain
			rch <- rres{safelyNow(func() error { _, _, err := client.ReadSlices(); return err })}
		}()
		<-dialing
		kdone := make(chan error, 1)
		go func() { kGid = gid(); kdone <- safelyNow(client.Close) }()
		<-kParked
		waitR := func() (error, bool) {
			select {
			case r := <-rch:
				return r.err, true
			case <-time.After(2 * time.Second):
				return errHung, false
			}
		}
		e1, ok := waitR()
		note(rGid, 0, e1, false)
		panicked := false
		if ok {
			close(goAgain)
			e2, _ := waitR()
			// Close has canceled but not returned: this call is not "after close" for sync_ok's ErrClosed rule,
			// a panic or a hang is a failure in any case
			note(rGid, 0, e2, false)
			panicked = errors.Is(e2, errPanic)
		}
		close(parkK)
		select {
		case err := <-kdone:
			note(kGid, 3, err, false)
		case <-time.After(2 * time.Second):
			note(kGid, 3, errHung, false)
		}
		select {
		case <-parkA:
		default:
			close(parkA)
		}
		mqtt.VerifEvent = defaultHook
		items := []string{}
		rec.mu.Lock()
		for _, e := range rec.events {
			if t, ok := coqSyncEvent(e); ok {
				items = append(items, fmt.Sprintf("mkObs %d (%s)", e.g, t))
			}
		}
		rec.mu.Unlock()
		cs := make([]string, len(calls))
		for i, c := range calls {
			cs[i] = fmt.Sprintf("mkApi %d %d %d %s", c.g, c.kind, c.cls, coqBool(c.afterClose))
		}
		best = "SyncCase [" + strings.Join(items, ";\n    ") + "]\n   [" + strings.Join(cs, "; ") + "]"
		bestDesc = map[string]any{"kind": "sync-run", "scenario": "F20: ReadSlices re-enters connect while Close is between cancel and connSem", "events": len(items), "try": try}
		if panicked {
			stats["f20:panic"]++
			break
		}
	}
	return best, bestDesc
}

func dialsSeen(rec *syncRec) int {
	rec.mu.Lock()
	defer rec.mu.Unlock()
	n := 0
	for _, e := range rec.events {
		if e.site == "dc.dial" {
			n++
		}
	}
	return n
}

func runSync(name, runFn string, withF7 bool, tier string, seed uint64, out string) error {
	if name == "SYNC08" {
		// one P: a buffer returned to the sync.Pool by one goroutine is what the next one gets
		defer runtime.GOMAXPROCS(runtime.GOMAXPROCS(1))
	}
	n := 80
	if tier == "thorough" {
		n = 1500
	}
	cs := newCaseSet(name, "SyncCheck", "synccase", runFn)
	stats := map[string]int{}
	r := newRng(seed)
	{
		term, desc := runF6(stats)
		desc["index"] = -2
		cs.add(term, desc, "sync-run", true)
		term, desc = runF20(stats)
		desc["index"] = -3
		cs.add(term, desc, "sync-run", true)
		term, desc = runStalledWrite(stats)
		desc["index"] = -4
		cs.add(term, desc, "sync-run", true)
		term, desc = runLateRequest(stats)
		desc["index"] = -5
		cs.add(term, desc, "sync-run", true)
		term, desc = runCloseDuringResend(stats, false)
		desc["index"] = -6
		cs.add(term, desc, "sync-run", true)
		term, desc = runCloseDuringResend(stats, true)
		desc["index"] = -7
		cs.add(term, desc, "sync-run", true)
		term, desc = runPingAfterClose(stats)
		desc["index"] = -8
		cs.add(term, desc, "sync-run", true)
		term, desc = runSlowSaveDuringConnect(stats)
		desc["index"] = -9
		cs.add(term, desc, "sync-run", true)
		term, desc = runCloseDuringDial(stats, false)
		desc["index"] = -10
		cs.add(term, desc, "sync-run", true)
		term, desc = runCloseDuringDial(stats, true)
		desc["index"] = -11
		cs.add(term, desc, "sync-run", true)
		term, desc = runFailedNoWaitWrite(stats, 1)
		desc["index"] = -12
		cs.add(term, desc, "sync-run", true)
		term, desc = runFailedNoWaitWrite(stats, 2)
		desc["index"] = -13
		cs.add(term, desc, "sync-run", true)
	}
	if withF7 {
		var term string
		var desc map[string]any
		term, desc = runF7(stats)
		desc["index"] = -1
		cs.add(term, desc, "sync-run", true)
	}
	// the scheduled scenarios are on disk before the random runs start: a bubble that deadlocks
	// takes the process down
	if err := cs.write(out, 5); err != nil {
		return err
	}
	only, repeat := -1, 1 // debugging aid: VERIF_SYNC_ONLY=<index>[x<repeats>] runs one of the random runs
	if v := os.Getenv("VERIF_SYNC_ONLY"); v != "" {
		fmt.Sscanf(v, "%dx%d", &only, &repeat)
	}
	for i := 0; i < n; i++ {
		seed := r.u64()
		if only >= 0 && i != only {
			continue
		}
		hr := newRng(seed)
		var term string
		var desc map[string]any
		var ok bool
		for k := 0; k < repeat; k++ {
			hr = newRng(seed)
			bubble(func() { term, desc, ok = runSyncCase(hr, stats) })
			if only >= 0 {
				fmt.Fprintf(os.Stderr, "run %d: hung=%d ping=%d sub=%d unsub=%d read=%d pub=%d pubp=%d close=%d disc=%d\n", k, stats["hung"], stats["hung:kind5"], stats["hung:kind6"], stats["hung:kind7"], stats["hung:kind0"], stats["hung:kind1"], stats["hung:kind2"], stats["hung:kind3"], stats["hung:kind4"])
			}
		}
		if !ok {
			continue
		}
		desc["index"] = i
		cs.add(term, desc, "sync-run", true)
	}
	for k, v := range stats {
		cs.dist[k] = v
	}
	return cs.write(out, 5)
}

// runCloseDuringDial (C12 "return promptly from every client state ... dialing"): ReadSlices is
// inside a Dialer that honours its context (as net.Dialer does) and would otherwise take as long
// as it likes; PauseTimeout is set, so the dial context is a derived one. Close, respectively
// Disconnect, has to come back at once: its cancellation must reach the Dialer.
func runCloseDuringDial(stats map[string]int, disconnect bool) (string, map[string]any) {
	waitQuiet()
	rec := &syncRec{}
	mqtt.VerifEvent = rec.hook
	defer func() { mqtt.VerifEvent = defaultHook }()
	store := newSimStore(&evlog{})
	inDial := make(chan struct{})
	dialOver := make(chan struct{})
	var once, once2 sync.Once
	cfg := mqtt.Config{PauseTimeout: 6 * time.Second, Dialer: func(ctx context.Context) (net.Conn, error) {
		once.Do(func() { close(inDial) })
		<-ctx.Done()
		once2.Do(func() { close(dialOver) })
		return nil, ctx.Err()
	}}
	client, err := mqtt.InitSession("cdd", store, &cfg)
	if err != nil {
		panic(err)
	}
	s := &schedCalls{}
	// one goroutine makes all ReadSlices calls (the client's contract)
	type rres struct {
		g   int
		err error
	}
	rch := make(chan rres, 2)
	goAgain := make(chan struct{})
	go func() {
		g := gid()
		rch <- rres{g, safelyNow(func() error { _, _, err := client.ReadSlices(); return err })}
		<-goAgain
		rch <- rres{g, safelyNow(func() error { _, _, err := client.ReadSlices(); return err })}
	}()
	waitRead := func(limit time.Duration, after bool) bool {
		select {
		case r := <-rch:
			s.note(r.g, 0, r.err, after)
			return true
		case <-time.After(limit):
			s.note(0, 0, errHung, after)
			return false
		}
	}
	label := "Close while ReadSlices is inside a context-honouring Dialer (PauseTimeout set)"
	if disconnect {
		label = "Disconnect while ReadSlices is inside a context-honouring Dialer (PauseTimeout set)"
	}
	if !waitCh(inDial, 2*time.Second) {
		waitRead(2*time.Second, false)
		return renderSched(rec, s, label+" [dial not reached]")
	}
	var waitEnd func(time.Duration) bool
	if disconnect {
		waitEnd = s.start(4, func() error { return client.Disconnect(nil) })
	} else {
		waitEnd = s.start(3, client.Close)
	}
	prompt := waitEnd(2 * time.Second)
	if waitRead(2*time.Second, false) && prompt {
		close(goAgain)
		waitRead(2*time.Second, true)
	} else {
		stats["close-during-dial:hung"]++
		waitCh(dialOver, 8*time.Second) // let the stragglers finish before the next scenario records
		time.Sleep(50 * time.Millisecond)
	}
	return renderSched(rec, s, label)
}

// schedCalls collects API observations of the gated scenarios below.
type schedCalls struct {
	mu    sync.Mutex
	calls []apiObs
}

func (s *schedCalls) note(g, kind int, err error, after bool) {
	s.mu.Lock()
	s.calls = append(s.calls, apiObs{g, kind, classOf(err), after})
	s.mu.Unlock()
}

// start runs f in its own goroutine; wait reports its result, or a hung call after the limit.
func (s *schedCalls) start(kind int, f func() error) (wait func(limit time.Duration) bool) {
	done := make(chan error, 1)
	gch := make(chan int, 1)
	go func() { gch <- gid(); done <- safelyNow(f) }()
	g := <-gch
	return func(limit time.Duration) bool {
		select {
		case err := <-done:
			s.note(g, kind, err, false)
			return true
		case <-time.After(limit):
			s.note(g, kind, errHung, false)
			return false
		}
	}
}

func renderSched(rec *syncRec, s *schedCalls, label string) (string, map[string]any) {
	items := []string{}
	rec.mu.Lock()
	for _, e := range normalizeCtx(rec.events) {
		if t, ok := coqSyncEvent(e); ok {
			items = append(items, fmt.Sprintf("mkObs %d (%s)", e.g, t))
		}
	}
	rec.mu.Unlock()
	s.mu.Lock()
	cs := make([]string, len(s.calls))
	for i, c := range s.calls {
		cs[i] = fmt.Sprintf("mkApi %d %d %d %s", c.g, c.kind, c.cls, coqBool(c.afterClose))
	}
	s.mu.Unlock()
	term := "SyncCase [" + strings.Join(items, ";\n    ") + "]\n   [" + strings.Join(cs, "; ") + "]"
	return term, map[string]any{"kind": "sync-run", "scenario": label, "events": len(items)}
}

func waitCh(ch <-chan struct{}, limit time.Duration) bool {
	select {
	case <-ch:
		return true
	case <-time.After(limit):
		return false
	}
}

// runStalledWrite (C10): no PauseTimeout; the broker stops reading, so a Publish of another
// goroutine sits in conn.Write with the write semaphore; then the read routine meets a read
// error. It has to close the connection (which releases the writer), return, and redial on
// the next call. Real time, outside a bubble; gates instead of sleeps.
func runStalledWrite(stats map[string]int) (string, map[string]any) {
	waitQuiet()
	rec := &syncRec{}
	mqtt.VerifEvent = rec.hook
	defer func() { mqtt.VerifEvent = defaultHook }()
	log := &evlog{}
	store := newSimStore(log)
	stalled := make(chan struct{})
	var onceS sync.Once
	dialer := &simDialer{log: log}
	dialer.onDial = func(id int) (*simConn, bool) {
		c := &simConn{closedCh: make(chan struct{})}
		sent := false
		c.onRead = func(c *simConn, armed bool, want int) readAns {
			if !sent {
				sent = true
				return readAns{kind: rData, data: []byte{0x20, 2, 0, 0}}
			}
			c.mu.Unlock()
			defer c.mu.Lock()
			if id == 0 {
				select {
				case <-stalled:
					return readAns{kind: rHard}
				case <-c.closedCh:
					return readAns{kind: rClosed}
				}
			}
			<-c.closedCh
			return readAns{kind: rClosed}
		}
		c.onWrite = func(c *simConn, p []byte) writeAns {
			if id == 0 && p[0]>>4 == 3 {
				// the broker does not read any more: this write ends with the connection
				onceS.Do(func() { close(stalled) })
				c.mu.Unlock()
				<-c.closedCh
				c.mu.Lock()
				return writeAns{kind: wClosed, n: 0}
			}
			return writeAns{kind: wOk, n: len(p)}
		}
		return c, true
	}
	cfg := mqtt.Config{Dialer: dialer.dial}
	client, err := mqtt.InitSession("stall", store, &cfg)
	if err != nil {
		panic(err)
	}
	s := &schedCalls{}
	const limit = 5 * time.Second
	read := func() error { _, _, err := client.ReadSlices(); return err }
	// one goroutine makes all ReadSlices calls
	rres := make(chan error, 4)
	next := make(chan struct{}, 4)
	rg := make(chan int, 1)
	readerExited := make(chan struct{})
	go func() {
		defer close(readerExited)
		rg <- gid()
		for range next {
			rres <- safelyNow(read)
		}
		drainClosed(client) // the last events of this client belong to this scenario's record
	}()
	g := <-rg
	waitR := func() bool {
		select {
		case err := <-rres:
			s.note(g, 0, err, false)
			return true
		case <-time.After(limit):
			s.note(g, 0, errHung, false)
			stats["stall:hung"]++
			return false
		}
	}
	next <- struct{}{}
	ok := waitCh(client.Online(), limit)
	if ok {
		waitW := s.start(1, func() error { return client.Publish(nil, []byte("x"), "t") })
		ok = waitR() // the read error
		if !waitW(limit) {
			stats["stall:hung"]++
			ok = false
		}
		if ok {
			next <- struct{}{} // redial
			if !waitCh(client.Online(), limit) {
				s.note(g, 0, errHung, false) // no redial
				stats["stall:hung"]++
				ok = false
			}
		}
	}
	client.Close()
	if ok {
		waitR()
	}
	close(next)
	waitCh(readerExited, limit)
	return renderSched(rec, s, "stalled write of another goroutine when the read routine meets a read error")
}

// runLateRequest (C11): while the read routine leaves a lost connection (its Close of the
// connection takes a moment), a Publish that was in conn.Write completes and Subscribe,
// Unsubscribe and Ping, which waited for the write semaphore, are written successfully to the
// dying connection. All three have to return (ErrBreak): no response can come any more and the
// redial fails.
func runLateRequest(stats map[string]int) (string, map[string]any) {
	waitQuiet()
	rec := &syncRec{}
	mqtt.VerifEvent = rec.hook
	defer func() { mqtt.VerifEvent = defaultHook }()
	log := &evlog{}
	store := newSimStore(log)
	eofGate, w1Gate, closeGate := make(chan struct{}), make(chan struct{}), make(chan struct{})
	w1InWrite, inClose := make(chan struct{}), make(chan struct{})
	var onceW, onceC sync.Once
	var wmu sync.Mutex
	written := 0
	dialer := &simDialer{log: log}
	dialer.onDial = func(id int) (*simConn, bool) {
		if id != 0 || len(dialer.conns) != 0 {
			return nil, false
		}
		c := &simConn{closedCh: make(chan struct{})}
		c.closeDelay = func() time.Duration {
			onceC.Do(func() { close(inClose) })
			<-closeGate
			return 0
		}
		sent := false
		c.onRead = func(c *simConn, armed bool, want int) readAns {
			if !sent {
				sent = true
				return readAns{kind: rData, data: []byte{0x20, 2, 0, 0}}
			}
			c.mu.Unlock()
			defer c.mu.Lock()
			select {
			case <-eofGate:
				return readAns{kind: rEOF}
			case <-c.closedCh:
				return readAns{kind: rClosed}
			}
		}
		c.onWrite = func(c *simConn, p []byte) writeAns {
			if p[0]>>4 == 3 {
				first := false
				onceW.Do(func() { first = true })
				if first {
					close(w1InWrite)
					c.mu.Unlock()
					<-w1Gate
					c.mu.Lock()
				}
			} else if p[0]>>4 != 1 {
				wmu.Lock()
				written++
				wmu.Unlock()
			}
			return writeAns{kind: wOk, n: len(p)}
		}
		return c, true
	}
	cfg := mqtt.Config{Dialer: dialer.dial, PauseTimeout: time.Minute}
	client, err := mqtt.InitSession("late", store, &cfg)
	if err != nil {
		panic(err)
	}
	s := &schedCalls{}
	const limit = 5 * time.Second
	rres := make(chan error, 4)
	next := make(chan struct{}, 4)
	rg := make(chan int, 1)
	readerExited := make(chan struct{})
	go func() {
		defer close(readerExited)
		rg <- gid()
		for range next {
			rres <- safelyNow(func() error { _, _, err := client.ReadSlices(); return err })
		}
		drainClosed(client) // the last events of this client belong to this scenario's record
	}()
	g := <-rg
	waitR := func() bool {
		select {
		case err := <-rres:
			s.note(g, 0, err, false)
			return true
		case <-time.After(limit):
			s.note(g, 0, errHung, false)
			stats["late:hung"]++
			return false
		}
	}
	next <- struct{}{}
	if waitCh(client.Online(), limit) {
		waitW1 := s.start(1, func() error { return client.Publish(nil, []byte("x"), "t") })
		if waitCh(w1InWrite, limit) {
			close(eofGate)                    // the broker hangs up
			entered := waitCh(inClose, limit) // the read routine is closing the connection
			// the three requests start now: they register for their responses and queue up
			// for the write semaphore, which the Publish still holds
			waitS := s.start(6, func() error { return client.Subscribe(nil, "a/b", "c/d") })
			waitU := s.start(7, func() error { return client.Unsubscribe(nil, "e/f") })
			waitP := s.start(5, func() error { return client.Ping(nil) })
			time.Sleep(50 * time.Millisecond)
			close(w1Gate) // the Publish completes
			waitW1(limit)
			for i := 0; i < 200 && entered; i++ { // the three requests go out on the dying connection
				wmu.Lock()
				n := written
				wmu.Unlock()
				if n >= 3 {
					break
				}
				time.Sleep(10 * time.Millisecond)
			}
			close(closeGate)
			waitR() // the connection loss
			for _, w := range []func(time.Duration) bool{waitS, waitU, waitP} {
				if !w(limit) {
					stats["late:hung"]++
				}
			}
			next <- struct{}{} // the redial fails
			waitR()
		} else {
			close(eofGate)
			close(w1Gate)
			close(closeGate)
		}
	} else {
		close(closeGate)
	}
	client.Close()
	close(next)
	waitCh(readerExited, limit)
	return renderSched(rec, s, "requests written to the dying connection while the read routine goes offline")
}

// runCloseDuringResend (C12): a persisted publish is pending; the connection comes up and the
// resend of it stalls in conn.Write (the broker stopped reading, no PauseTimeout). Close has to
// return all the same (it takes connection control, which connect handed back before the
// resends, and closes the connection under the stalled write), and so has ReadSlices.
func runCloseDuringResend(stats map[string]int, disconnect bool) (string, map[string]any) {
	waitQuiet()
	rec := &syncRec{}
	mqtt.VerifEvent = rec.hook
	defer func() { mqtt.VerifEvent = defaultHook }()
	log := &evlog{}
	store := newSimStore(log)
	stalled := make(chan struct{})
	var onceS sync.Once
	dialer := &simDialer{log: log}
	dialer.onDial = func(id int) (*simConn, bool) {
		if id != 0 || len(dialer.conns) != 0 {
			return nil, false
		}
		c := &simConn{closedCh: make(chan struct{})}
		sent := false
		c.onRead = func(c *simConn, armed bool, want int) readAns {
			if !sent {
				sent = true
				return readAns{kind: rData, data: []byte{0x20, 2, 0, 0}}
			}
			c.mu.Unlock()
			<-c.closedCh
			c.mu.Lock()
			return readAns{kind: rClosed}
		}
		c.onWrite = func(c *simConn, p []byte) writeAns {
			if p[0]>>4 == 3 {
				onceS.Do(func() { close(stalled) })
				c.mu.Unlock()
				<-c.closedCh
				c.mu.Lock()
				return writeAns{kind: wClosed, n: 0}
			}
			return writeAns{kind: wOk, n: len(p)}
		}
		return c, true
	}
	cfg := mqtt.Config{Dialer: dialer.dial, AtLeastOnceMax: 4}
	client, err := mqtt.InitSession("cdr", store, &cfg)
	if err != nil {
		panic(err)
	}
	s := &schedCalls{}
	const limit = 5 * time.Second
	waitP := s.start(2, func() error { _, err := client.PublishAtLeastOnce([]byte("x"), "t"); return err })
	waitP(limit)
	rres := make(chan error, 4)
	next := make(chan struct{}, 4)
	rg := make(chan int, 1)
	readerExited := make(chan struct{})
	go func() {
		defer close(readerExited)
		rg <- gid()
		for range next {
			rres <- safelyNow(func() error { _, _, err := client.ReadSlices(); return err })
		}
		drainClosed(client) // the last events of this client belong to this scenario's record
	}()
	g := <-rg
	after := false
	waitR := func() bool {
		select {
		case err := <-rres:
			s.note(g, 0, err, after)
			return true
		case <-time.After(limit):
			s.note(g, 0, errHung, after)
			stats["cdr:hung"]++
			return false
		}
	}
	next <- struct{}{}
	if waitCh(stalled, limit) {
		var waitK func(time.Duration) bool
		if disconnect {
			quit := make(chan struct{})
			close(quit)
			waitK = s.start(4, func() error { return client.Disconnect(quit) })
		} else {
			waitK = s.start(3, client.Close)
		}
		if !waitK(limit) {
			stats["cdr:hung"]++
		}
		if waitR() { // the interrupted connect
			after = true
			next <- struct{}{}
			waitR() // ErrClosed
		}
	} else {
		client.Close()
	}
	close(next)
	waitCh(readerExited, limit)
	label := "Close while the resend of a pending publish is stalled in conn.Write"
	if disconnect {
		label = "Disconnect (closed quit) while the resend of a pending publish is stalled in conn.Write"
	}
	return renderSched(rec, s, label)
}

// runPingAfterClose (C12): after Close every call returns ErrClosed, also a Ping that finds the
// ping slot taken by another Ping which is on its way to the very same answer. Ping A is parked
// at the entry of its write (slot installed); Ping B runs meanwhile.
func runPingAfterClose(stats map[string]int) (string, map[string]any) {
	waitQuiet()
	rec := &syncRec{}
	var aGid int
	parkA, aParked := make(chan struct{}), make(chan struct{})
	var once sync.Once
	mqtt.VerifEvent = func(site string, args ...int) {
		rec.hook(site, args...)
		if site == "w.enter" && aGid != 0 && gid() == aGid {
			once.Do(func() { close(aParked); <-parkA })
		}
	}
	defer func() { mqtt.VerifEvent = defaultHook }()
	log := &evlog{}
	store := newSimStore(log)
	dialer := &simDialer{log: log}
	dialer.onDial = func(id int) (*simConn, bool) { return nil, false }
	cfg := mqtt.Config{Dialer: dialer.dial}
	client, err := mqtt.InitSession("pac", store, &cfg)
	if err != nil {
		panic(err)
	}
	s := &schedCalls{}
	const limit = 5 * time.Second
	s.start(3, client.Close)(limit)
	after := func(kind int, f func() error) func(time.Duration) bool {
		w := s.start(kind, f)
		return func(l time.Duration) bool {
			ok := w(l)
			s.mu.Lock()
			s.calls[len(s.calls)-1].afterClose = true
			s.mu.Unlock()
			return ok
		}
	}
	gch := make(chan int, 1)
	doneA := make(chan error, 1)
	go func() {
		g := gid()
		aGid = g
		gch <- g
		doneA <- safelyNow(func() error { return client.Ping(nil) })
	}()
	ga := <-gch
	if waitCh(aParked, limit) {
		after(5, func() error { return client.Ping(nil) })(limit)
	}
	close(parkA)
	select {
	case err := <-doneA:
		s.note(ga, 5, err, true)
	case <-time.After(limit):
		s.note(ga, 5, errHung, true)
	}
	return renderSched(rec, s, "two Pings after Close: the second finds the slot taken")
}

// runSlowSaveDuringConnect (C10): a persisted publish sits in Persistence.Save (it holds its
// sequence semaphore) while the read routine redials after a connection loss. The connect has to
// wait for the sequence semaphore without holding anything the publish needs: when the Save
// returns, the publish is enqueued (ErrDown on its exchange), connect resends it and the client is
// Online again.
func runSlowSaveDuringConnect(stats map[string]int) (string, map[string]any) {
	waitQuiet()
	rec := &syncRec{}
	mqtt.VerifEvent = rec.hook
	defer func() { mqtt.VerifEvent = defaultHook }()
	log := &evlog{}
	store := newSimStore(log)
	eofGate, saveGate, saveEntered := make(chan struct{}), make(chan struct{}), make(chan struct{})
	var gateOn atomic.Bool
	var onceE sync.Once
	store.before = func(kind string, key uint) {
		if kind == "save" && gateOn.Load() {
			onceE.Do(func() { close(saveEntered) })
			<-saveGate
		}
	}
	dialer := &simDialer{log: log}
	dialer.onDial = func(id int) (*simConn, bool) {
		c := &simConn{closedCh: make(chan struct{})}
		sent := false
		acks := make(chan []byte, 8)
		c.onRead = func(c *simConn, armed bool, want int) readAns {
			if !sent {
				sent = true
				return readAns{kind: rData, data: []byte{0x20, 2, 0, 0}}
			}
			c.mu.Unlock()
			defer c.mu.Lock()
			if id == 0 {
				select {
				case <-eofGate:
					return readAns{kind: rEOF}
				case <-c.closedCh:
					return readAns{kind: rClosed}
				}
			}
			select {
			case a := <-acks:
				return readAns{kind: rData, data: a}
			case <-c.closedCh:
				return readAns{kind: rClosed}
			}
		}
		c.onWrite = func(c *simConn, p []byte) writeAns {
			if p[0]>>4 == 3 && p[0]&6 == 2 && len(p) >= 4 { // QoS 1 PUBLISH in one buffer: topic "t"
				tl := int(p[2])<<8 | int(p[3])
				if len(p) >= 6+tl {
					select {
					case acks <- []byte{0x40, 2, p[4+tl], p[5+tl]}:
					default:
					}
				}
			}
			return writeAns{kind: wOk, n: len(p)}
		}
		return c, true
	}
	cfg := mqtt.Config{Dialer: dialer.dial, AtLeastOnceMax: 4, PauseTimeout: time.Minute}
	client, err := mqtt.InitSession("ssc", store, &cfg)
	if err != nil {
		panic(err)
	}
	s := &schedCalls{}
	const limit = 5 * time.Second
	rres := make(chan error, 4)
	next := make(chan struct{}, 4)
	rg := make(chan int, 1)
	readerExited := make(chan struct{})
	go func() {
		defer close(readerExited)
		rg <- gid()
		for range next {
			rres <- safelyNow(func() error { _, _, err := client.ReadSlices(); return err })
		}
		drainClosed(client) // the last events of this client belong to this scenario's record
	}()
	g := <-rg
	waitR := func() bool {
		select {
		case err := <-rres:
			s.note(g, 0, err, false)
			return true
		case <-time.After(limit):
			s.note(g, 0, errHung, false)
			stats["ssc:hung"]++
			return false
		}
	}
	next <- struct{}{}
	if waitCh(client.Online(), limit) {
		close(eofGate)
		if waitR() { // the connection loss
			gateOn.Store(true)
			waitP := s.start(2, func() error { _, err := client.PublishAtLeastOnce([]byte("x"), "t"); return err })
			if waitCh(saveEntered, limit) {
				next <- struct{}{}                 // redial while the Save is still running
				time.Sleep(150 * time.Millisecond) // let connect reach its semaphores
				close(saveGate)
				if !waitP(limit) {
					stats["ssc:hung"]++
				}
				if !waitCh(client.Online(), limit) {
					s.note(g, 0, errHung, false) // never Online again
					stats["ssc:hung"]++
				}
			} else {
				close(saveGate)
				waitP(limit)
			}
		}
	}
	gateOn.Store(false)
	select {
	case <-saveGate:
	default:
		close(saveGate)
	}
	done := make(chan struct{})
	go func() { client.Close(); close(done) }()
	waitCh(done, limit)
	close(next)
	waitCh(readerExited, limit)
	return renderSched(rec, s, "a persisted publish is inside Persistence.Save while the read routine redials")
}

// drainClosed lets the read routine of a closed client see the end (ErrClosed), so that
// termCallbacks and its goroutines have run before the next scenario starts recording.
func drainClosed(client *mqtt.Client) {
	for i := 0; i < 3; i++ {
		err := safelyNow(func() error { _, _, err := client.ReadSlices(); return err })
		if errors.Is(err, mqtt.ErrClosed) || err == errPanic {
			return
		}
	}
}

// runAckDuringWrite (C13): a hostile broker acknowledges the identifier that is next in line
// while the PUBLISH carrying it is still being written, and the write then fails. No call may
// panic (F27: the submitter sent its error on the exchange channel the PUBACK had closed).
func runAckDuringWrite(stats map[string]int, level int) (string, map[string]any) {
	waitQuiet()
	rec := &syncRec{}
	mqtt.VerifEvent = rec.hook
	defer func() { mqtt.VerifEvent = defaultHook }()
	log := &evlog{}
	store := newSimStore(log)
	inPub, failNow := make(chan struct{}), make(chan struct{})
	var onceP sync.Once
	acks := make(chan []byte, 4)
	dialer := &simDialer{log: log}
	dialer.onDial = func(id int) (*simConn, bool) {
		if id != 0 || len(dialer.conns) != 0 {
			return nil, false
		}
		c := &simConn{closedCh: make(chan struct{})}
		sent := false
		c.onRead = func(c *simConn, armed bool, want int) readAns {
			if !sent {
				sent = true
				return readAns{kind: rData, data: []byte{0x20, 2, 0, 0}}
			}
			c.mu.Unlock()
			defer c.mu.Lock()
			select {
			case a := <-acks:
				return readAns{kind: rData, data: a}
			case <-c.closedCh:
				return readAns{kind: rClosed}
			}
		}
		c.onWrite = func(c *simConn, p []byte) writeAns {
			if p[0]>>4 == 3 {
				first := false
				onceP.Do(func() { first = true })
				if first {
					close(inPub)
					c.mu.Unlock()
					<-failNow
					c.mu.Lock()
					return writeAns{kind: wHard, n: 0}
				}
			}
			return writeAns{kind: wOk, n: len(p)}
		}
		return c, true
	}
	cfg := mqtt.Config{Dialer: dialer.dial, AtLeastOnceMax: 4, ExactlyOnceMax: 4}
	client, err := mqtt.InitSession("adw", store, &cfg)
	if err != nil {
		panic(err)
	}
	s := &schedCalls{}
	const limit = 5 * time.Second
	rres := make(chan error, 8)
	stop := make(chan struct{})
	readerExited := make(chan struct{})
	rg := make(chan int, 1)
	go func() {
		defer close(readerExited)
		rg <- gid()
		for {
			err := safelyNow(func() error { _, _, err := client.ReadSlices(); return err })
			rres <- err
			if errors.Is(err, mqtt.ErrClosed) || err == errPanic {
				return
			}
			select {
			case <-stop:
			default:
			}
		}
	}()
	g := <-rg
	if waitCh(client.Online(), limit) {
		var waitP func(time.Duration) bool
		if level == 1 {
			waitP = s.start(2, func() error { _, err := client.PublishAtLeastOnce([]byte("x"), "t"); return err })
		} else {
			waitP = s.start(2, func() error { _, err := client.PublishExactlyOnce([]byte("x"), "t"); return err })
		}
		if waitCh(inPub, limit) {
			if level == 1 {
				acks <- []byte{0x40, 2, 0x80, 0x00} // PUBACK for the identifier next in line
			} else {
				acks <- []byte{0x50, 2, 0xc0, 0x00} // PUBREC
			}
			time.Sleep(100 * time.Millisecond) // the read routine applies it
		}
		close(failNow)
		if !waitP(limit) {
			stats["adw:hung"]++
		}
	} else {
		close(failNow)
	}
	done := make(chan struct{})
	go func() { client.Close(); close(done) }()
	waitCh(done, limit)
	close(stop)
	waitCh(readerExited, limit)
	for {
		select {
		case err := <-rres:
			s.note(g, 0, err, false)
			continue
		default:
		}
		break
	}
	return renderSched(rec, s, fmt.Sprintf("the broker acknowledges a QoS %d PUBLISH that is still being written; then the write fails", level))
}

// syncHostile makes the scripted broker of the concurrent runs violate the protocol now and then.
var syncHostile bool

func runSync13(tier string, seed uint64, out string) error {
	cs := newCaseSet("SYNC13", "SyncCheck", "synccase", "sync_run_c13")
	stats := map[string]int{}
	for i, level := range []int{1, 2} {
		term, desc := runAckDuringWrite(stats, level)
		desc["index"] = -1 - i
		cs.add(term, desc, "sync-run", true)
	}
	if err := cs.write(out, 5); err != nil {
		return err
	}
	// concurrent runs against a hostile scripted broker, on one P and on all of them
	n := 40
	if tier == "thorough" {
		n = 600
	}
	r := newRng(seed)
	syncHostile = true
	defer func() { syncHostile = false }()
	for i := 0; i < n; i++ {
		hr := newRng(r.u64())
		var term string
		var desc map[string]any
		var ok bool
		old := 0
		if i%2 == 0 {
			old = runtime.GOMAXPROCS(1)
		}
		bubble(func() { term, desc, ok = runSyncCase(hr, stats) })
		if old != 0 {
			runtime.GOMAXPROCS(old)
		}
		if !ok {
			continue
		}
		desc["index"] = i
		desc["hostile"] = true
		cs.add(term, desc, "sync-run", true)
	}
	for k, v := range stats {
		cs.dist[k] = v
	}
	return cs.write(out, 5)
}

func init() { runners["SYNC13"] = runSync13 }

// runCloseDuringSave (C14 "a persisted publish that returns an error was not enqueued"): Close
// lands while a persisted publish is inside Persistence.Save, that is after its context check
// and before its write attempt. Whatever the call returns then: when it is an error, the
// record must not stay behind (observation kind 9 = publish records left in the Persistence
// after such a call returned an error).
func runCloseDuringSave(stats map[string]int, level int) (string, map[string]any) {
	waitQuiet()
	rec := &syncRec{}
	mqtt.VerifEvent = rec.hook
	defer func() { mqtt.VerifEvent = defaultHook }()
	store := newSimStore(&evlog{})
	saveGate, saveEntered := make(chan struct{}), make(chan struct{})
	var once sync.Once
	store.before = func(kind string, key uint) {
		if kind == "save" && key >= 0x8000 {
			once.Do(func() {
				close(saveEntered)
				<-saveGate
			})
		}
	}
	dialer := &simDialer{log: store.log, onDial: func(id int) (*simConn, bool) { return nil, false }}
	cfg := mqtt.Config{Dialer: dialer.dial, PauseTimeout: time.Minute, AtLeastOnceMax: 4, ExactlyOnceMax: 4}
	client, err := mqtt.InitSession("cds", store, &cfg)
	if err != nil {
		panic(err)
	}
	s := &schedCalls{}
	const limit = 5 * time.Second
	label := fmt.Sprintf("Close while a persisted publish (level %d) is inside Persistence.Save", level)
	var pubErr error
	waitP := s.start(2, func() error {
		if level == 1 {
			_, pubErr = client.PublishAtLeastOnce([]byte("x"), "cds/t")
		} else {
			_, pubErr = client.PublishExactlyOnce([]byte("x"), "cds/t")
		}
		return pubErr
	})
	if !waitCh(saveEntered, limit) {
		close(saveGate)
		waitP(limit)
		return renderSched(rec, s, label+" [Save not reached]")
	}
	s.start(3, client.Close)(limit)
	close(saveGate)
	if waitP(limit) && pubErr != nil {
		left := 0
		for k := range store.snapshot() {
			if k >= 0x8000 && k < 0x10000 {
				left++
			}
		}
		s.mu.Lock()
		s.calls = append(s.calls, apiObs{0, 9, uint64(left), false})
		s.mu.Unlock()
	}
	// one goroutine reads until the client reports its end
	done := make(chan struct{})
	go func() {
		defer close(done)
		g := gid()
		for i := 0; i < 3; i++ {
			err := safelyNow(func() error { _, _, err := client.ReadSlices(); return err })
			s.note(g, 0, err, true)
			if errors.Is(err, mqtt.ErrClosed) {
				return
			}
		}
	}()
	if !waitCh(done, limit) {
		s.note(0, 0, errHung, true)
	}
	return renderSched(rec, s, label)
}

func runSync14(tier string, seed uint64, out string) error {
	cs := newCaseSet("SYNC14", "SyncCheck", "synccase", "sync_run_c14")
	stats := map[string]int{}
	reps := 1
	if tier == "thorough" {
		reps = 10
	}
	for rep := 0; rep < reps; rep++ {
		for i, level := range []int{1, 2} {
			term, desc := runCloseDuringSave(stats, level)
			desc["index"] = -1 - i
			cs.add(term, desc, "sync-run", true)
		}
	}
	for k, v := range stats {
		cs.dist[k] = v
	}
	return cs.write(out, 5)
}

func init() { runners["SYNC14"] = runSync14 }

// runFailedNoWaitWrite (C10 "every placement of a write failure by any other goroutine ...
// persisted publish", C01 "after every connection loss written again on the next connection"):
// the client is online and the broker is silent, so the read routine is parked in conn.Read
// without a deadline; a persisted publish then meets a write error that is not a close-type
// error. Nothing but the writer can wake the reader: the connection has to be closed. The
// read routine must come back, redial, and the publish must go out on the new connection
// (observation kind 12 = PUBLISH packets seen on the second connection).
func runFailedNoWaitWrite(stats map[string]int, level int) (string, map[string]any) {
	waitQuiet()
	rec := &syncRec{}
	mqtt.VerifEvent = rec.hook
	defer func() { mqtt.VerifEvent = defaultHook }()
	log := &evlog{}
	store := newSimStore(log)
	var resent atomic.Int64
	dialer := &simDialer{log: log}
	dialer.onDial = func(id int) (*simConn, bool) {
		c := &simConn{closedCh: make(chan struct{})}
		sent := false
		c.onRead = func(c *simConn, armed bool, want int) readAns {
			if !sent {
				sent = true
				return readAns{kind: rData, data: []byte{0x20, 2, 0, 0}}
			}
			c.mu.Unlock()
			<-c.closedCh // the broker says nothing
			c.mu.Lock()
			return readAns{kind: rClosed}
		}
		c.onWrite = func(c *simConn, p []byte) writeAns {
			if p[0]>>4 == 3 {
				if id == 0 {
					return writeAns{kind: wHard, n: 0} // e.g. EPIPE, ENOBUFS: not a close-type error
				}
				resent.Add(1)
			}
			return writeAns{kind: wOk, n: len(p)}
		}
		return c, true
	}
	cfg := mqtt.Config{Dialer: dialer.dial, AtLeastOnceMax: 4, ExactlyOnceMax: 4}
	client, err := mqtt.InitSession("fnw", store, &cfg)
	if err != nil {
		panic(err)
	}
	s := &schedCalls{}
	const limit = 3 * time.Second
	label := fmt.Sprintf("a persisted publish (level %d) meets a hard write error while the read routine is parked in a silent connection", level)
	rres := make(chan error, 4)
	next := make(chan struct{}, 4)
	rg := make(chan int, 1)
	readerExited := make(chan struct{})
	go func() {
		defer close(readerExited)
		rg <- gid()
		for range next {
			rres <- safelyNow(func() error { _, _, err := client.ReadSlices(); return err })
		}
		drainClosed(client)
	}()
	g := <-rg
	waitR := func() bool {
		select {
		case err := <-rres:
			s.note(g, 0, err, false)
			return true
		case <-time.After(limit):
			s.note(g, 0, errHung, false)
			stats["fnw:hung"]++
			return false
		}
	}
	next <- struct{}{}
	ok := waitCh(client.Online(), limit)
	if ok {
		waitP := s.start(2, func() error {
			var err error
			if level == 1 {
				_, err = client.PublishAtLeastOnce([]byte("x"), "fnw/t")
			} else {
				_, err = client.PublishExactlyOnce([]byte("x"), "fnw/t")
			}
			return err
		})
		waitP(limit)
		// the reader is woken by the closed connection, redials within the same ReadSlices call
		// (closed-connection errors are followed by a connect at once) and resends
		for i := 0; i < 300 && resent.Load() == 0; i++ {
			time.Sleep(10 * time.Millisecond)
		}
		if resent.Load() == 0 {
			stats["fnw:not-resent"]++
		}
		s.mu.Lock()
		s.calls = append(s.calls, apiObs{0, 12, uint64(resent.Load()), false})
		s.mu.Unlock()
	}
	client.Close()
	if ok {
		waitR()
	}
	close(next)
	waitCh(readerExited, limit)
	return renderSched(rec, s, label)
}

func runSync01(tier string, seed uint64, out string) error {
	cs := newCaseSet("SYNC01", "SyncCheck", "synccase", "sync_run_c01")
	stats := map[string]int{}
	reps := 1
	if tier == "thorough" {
		reps = 10
	}
	for rep := 0; rep < reps; rep++ {
		for i, level := range []int{1, 2} {
			term, desc := runFailedNoWaitWrite(stats, level)
			desc["index"] = -1 - i
			cs.add(term, desc, "sync-run", true)
		}
	}
	for k, v := range stats {
		cs.dist[k] = v
	}
	return cs.write(out, 5)
}

func init() { runners["SYNC01"] = runSync01 }
