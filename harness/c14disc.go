package main

import (
	"fmt"
	"strings"
	"time"

	"github.com/pascaldekloe/mqtt"
)

// C14DISC: Close and Disconnect from the states fresh / online / closed, against every scripted
// outcome of the DISCONNECT write and against a transport whose Close fails (as tls.Conn does when
// the close-notify cannot be written). Compared with TermCheck.term_model, judged by term_ok.
func init() {
	runners["C14DISC"] = func(tier string, seed uint64, out string) error { return runDISC("C14DISC", "term_run", tier, seed, out) }
	runners["C12DISC"] = func(tier string, seed uint64, out string) error { return runDISC("C12DISC", "term_run_c12", tier, seed, out) }
}

type wstep struct{ n, kind int }

func runDISC(name, runFn, tier string, seed uint64, out string) error {
	cs := newCaseSet(name, "TermCheck", "termcase", runFn)
	tapes := [][]wstep{
		{{2, wOk}},
		{{1, wTimeout}, {0, wTimeout}},
		{{1, wTimeout}, {1, wOk}},
		{{0, wTimeout}},
		{{0, wHard}},
		{{1, wHard}},
		{{2, wHard}}, // everything accepted, and an error all the same
		{{0, wClosed}},
		{{1, wTimeout}, {0, wHard}},
	}
	states := []string{"TFresh", "TOnline", "TClosed"}
	ops := []string{"TClose", "TDisc", "TDiscQuit"}
	reps := 1
	if tier == "thorough" {
		reps = 5
	}
	for rep := 0; rep < reps; rep++ {
		for _, st := range states {
			for _, op := range ops {
				for _, tape := range tapes {
					for _, cf := range []bool{false, true} {
						n := 1
						if op == "TDiscQuit" {
							n = 3 // the select between quit and the write token is a random choice
						}
						for k := 0; k < n; k++ {
							var term string
							bubble(func() { term = termCase(st, op, tape, cf) })
							if term == "" {
								term = fmt.Sprintf("TermCase %s %s %s %s 4194304 0 false 0 0", st, op, coqTape(tape), coqBool(cf))
							}
							cs.add(term, map[string]any{"state": st, "op": op, "tape": fmt.Sprint(tape), "close_fails": cf},
								st+"/"+op, st == "TOnline")
						}
					}
				}
			}
		}
	}
	return cs.write(out, 400)
}

func coqTape(tape []wstep) string {
	items := make([]string, len(tape))
	for i, s := range tape {
		items[i] = fmt.Sprintf("(%d, %s)", s.n, coqWRes(s.kind))
	}
	return "[" + strings.Join(items, "; ") + "]"
}

func termCase(st, op string, tape []wstep, cf bool) string {
	log := &evlog{}
	store := newSimStore(log)
	reads := [][]byte{{0x20, 2, 0, 0}, {0x30, 4, 0, 1, 't', 'x'}}
	script := append([]wstep(nil), tape...)
	var conn *simConn
	nwrite := 0
	dialer := &simDialer{log: log, onDial: func(id int) (*simConn, bool) {
		conn = &simConn{
			onRead: func(c *simConn, armed bool, want int) readAns {
				if len(reads) == 0 {
					return readAns{kind: rHard}
				}
				b := reads[0]
				reads = reads[1:]
				return readAns{kind: rData, data: b}
			},
			onWrite: func(c *simConn, p []byte) writeAns {
				nwrite++
				if nwrite == 1 || len(script) == 0 { // CONNECT
					return writeAns{kind: wOk}
				}
				s := script[0]
				script = script[1:]
				return writeAns{kind: s.kind, n: s.n}
			},
		}
		if cf {
			conn.closeErr = errSimHard
		}
		return conn, true
	}}
	cfg := mqtt.Config{Dialer: dialer.dial, PauseTimeout: time.Second}
	client, err := mqtt.InitSession("disc", store, &cfg)
	if err != nil {
		return ""
	}
	switch st {
	case "TOnline":
		if err := safely(func() error { _, _, err := client.ReadSlices(); return err }); err != nil {
			return ""
		}
	case "TClosed":
		client.Close()
	}
	before := 0
	if conn != nil {
		before = len(conn.written)
	}
	var cls uint64
	switch op {
	case "TClose":
		cls = classOf(safely(client.Close))
	case "TDisc":
		cls = classOf(safely(func() error { return client.Disconnect(make(chan struct{})) }))
	default:
		quit := make(chan struct{})
		close(quit)
		cls = classOf(safely(func() error { return client.Disconnect(quit) }))
	}
	wrote, closed := 0, false
	if conn != nil {
		wrote = len(conn.written) - before
		closed = conn.nclose != 0
	}
	ping := classOf(safely(func() error { return client.Ping(nil) }))
	rd := classOf(safely(func() error { _, _, err := client.ReadSlices(); return err }))
	time.Sleep(time.Second) // let goroutines of the client end inside the bubble
	return fmt.Sprintf("TermCase %s %s %s %s %d %d %s %d %d", st, op, coqTape(tape), coqBool(cf), cls, wrote, coqBool(closed), ping, rd)
}
