package main

import (
	"bufio"
	"encoding/hex"
	"encoding/json"
	"fmt"
	"os"
	"path/filepath"
	"strings"
)

// PRNG: splitmix64, so that cases are reproducible from the seed alone.
type rng struct{ s uint64 }

func newRng(seed uint64) *rng { return &rng{s: seed*0x9e3779b97f4a7c15 + 0x1234567} }
func (r *rng) u64() uint64 {
	r.s += 0x9e3779b97f4a7c15
	z := r.s
	z = (z ^ (z >> 30)) * 0xbf58476d1ce4e5b9
	z = (z ^ (z >> 27)) * 0x94d049bb133111eb
	return z ^ (z >> 31)
}
func (r *rng) intn(n int) int {
	if n <= 0 {
		return 0
	}
	return int(r.u64() % uint64(n))
}
func (r *rng) bytes(n int) []byte {
	b := make([]byte, n)
	for i := range b {
		b[i] = byte(r.u64())
	}
	return b
}
func (r *rng) chance(num, den int) bool { return r.intn(den) < num }

// Coq literals.
func coqBytes(b []byte) string {
	if len(b) == 0 {
		return "[]"
	}
	return fmt.Sprintf("(B %d 0x%s)", len(b), hex.EncodeToString(b))
}
func coqN(x uint64) string { return fmt.Sprintf("%d", x) }
func coqNat(x int) string  { return fmt.Sprintf("%d%%nat", x) }
func coqBool(b bool) string {
	if b {
		return "true"
	}
	return "false"
}
func coqList(items []string) string {
	return "[" + strings.Join(items, "; ") + "]"
}
func coqString(s string) string { return coqBytes([]byte(s)) }

// caseSet collects Coq case terms plus a JSON description per case and writes
// sharded .v files.
type caseSet struct {
	prop     string   // e.g. "C15"
	module   string   // Coq module with the checker, e.g. "C15Check"
	caseType string   // e.g. "c15case"
	runFn    string   // e.g. "c15_run"
	terms    []string // Coq terms
	descs    []any    // JSON descriptions (replay information)
	nontriv  map[string]bool
	dist     map[string]int
	extra    map[string]any
	preamble string // additional Coq definitions placed before the case list
}

func newCaseSet(prop, module, caseType, runFn string) *caseSet {
	return &caseSet{prop: prop, module: module, caseType: caseType, runFn: runFn,
		nontriv: map[string]bool{}, dist: map[string]int{}, extra: map[string]any{}}
}

// add registers one case. kind feeds the distribution; nontrivial says whether
// the case counts for distinct_nontrivial (deduplicated on the term).
func (cs *caseSet) add(term string, desc any, kind string, nontrivial bool) {
	cs.terms = append(cs.terms, term)
	cs.descs = append(cs.descs, desc)
	cs.dist[kind]++
	if nontrivial {
		cs.nontriv[term] = true
	}
}

func (cs *caseSet) write(dir string, shardSize int) error {
	if err := os.MkdirAll(dir, 0o755); err != nil {
		return err
	}
	nshards := 0
	for off := 0; off < len(cs.terms); off += shardSize {
		end := off + shardSize
		if end > len(cs.terms) {
			end = len(cs.terms)
		}
		name := filepath.Join(dir, fmt.Sprintf("cases_%s_%03d.v", cs.prop, nshards))
		f, err := os.Create(name)
		if err != nil {
			return err
		}
		w := bufio.NewWriter(f)
		fmt.Fprintf(w, "From MQ Require Import %s.\n", cs.module)
		fmt.Fprintf(w, "(* offset %d *)\n", off)
		if cs.preamble != "" {
			fmt.Fprintln(w, cs.preamble)
		}
		fmt.Fprintf(w, "Definition cases : list %s := [\n", cs.caseType)
		for i := off; i < end; i++ {
			sep := ";"
			if i == end-1 {
				sep = ""
			}
			fmt.Fprintf(w, "  %s%s\n", cs.terms[i], sep)
		}
		fmt.Fprintf(w, "].\nDefinition R := Eval vm_compute in %s cases.\nPrint R.\n", cs.runFn)
		if err := w.Flush(); err != nil {
			return err
		}
		f.Close()
		nshards++
	}
	sum := map[string]any{
		"property":            cs.prop,
		"cases":               len(cs.terms),
		"shards":              nshards,
		"shard_size":          shardSize,
		"distinct_nontrivial": len(cs.nontriv),
		"distribution":        cs.dist,
		"extra":               cs.extra,
		"descs":               cs.descs,
	}
	b, err := json.Marshal(sum)
	if err != nil {
		return err
	}
	return os.WriteFile(filepath.Join(dir, "summary_"+cs.prop+".json"), b, 0o644)
}
