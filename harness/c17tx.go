package main

import (
	"errors"
	"fmt"
	"strings"

	"github.com/pascaldekloe/mqtt"
)

// C17TX: the identifier assignment of Subscribe/Unsubscribe (unorderedTxs.startTx, hook
// VerifStartTx) on tables and counters the session histories cannot reach cheaply: the 13-bit
// counter wrapped onto identifiers that are still pending, full tables, both kinds.
func init() { runners["C17TX"] = runC17TX }

func runC17TX(tier string, seed uint64, out string) error {
	r := newRng(seed)
	cs := newCaseSet("C17TX", "TxCheck", "txcase", "tx_run")
	n := 600
	if tier == "thorough" {
		n = 6000
	}
	add := func(pending []uint16, ctr uint, sub bool, kind string) {
		id, next, err := mqtt.VerifStartTx(pending, ctr, sub)
		items := make([]string, len(pending))
		for i, p := range pending {
			items[i] = fmt.Sprint(p)
		}
		cs.add(fmt.Sprintf("TxCase [%s] %d %s %d %d %s", strings.Join(items, "; "), ctr, coqBool(sub), id, next, coqBool(errors.Is(err, mqtt.ErrMax))),
			map[string]any{"kind": kind, "pending": len(pending), "counter": ctr, "subscribe": sub}, kind, len(pending) > 0)
	}
	space := func(sub bool) uint16 {
		if sub {
			return 0x6000
		}
		return 0x4000
	}
	for i := 0; i < n; i++ {
		sub := r.chance(1, 2)
		ctr := uint(r.intn(3*8192 + 5))
		switch r.intn(6) {
		case 0: // empty or small random table
			var pending []uint16
			for k := r.intn(4); k > 0; k-- {
				pending = append(pending, space(r.chance(1, 2))|uint16(r.intn(8192)))
			}
			add(pending, ctr, sub, "random-small")
		case 1, 2: // the next candidates of the counter are taken (same kind): they have to be skipped
			var pending []uint16
			run := 1 + r.intn(6)
			for k := 0; k < run; k++ {
				if k == 2 && r.chance(1, 3) {
					continue // a hole inside the run
				}
				pending = append(pending, space(sub)|uint16((ctr+uint(k))&0x1fff))
			}
			add(pending, ctr, sub, "collision-run")
		case 3: // the candidates are taken by the OTHER kind only: no collision
			var pending []uint16
			for k := 0; k < 3; k++ {
				pending = append(pending, space(!sub)|uint16((ctr+uint(k))&0x1fff))
			}
			add(pending, ctr, sub, "other-kind")
		case 4: // around the limit of 512 pending requests
			m := 509 + r.intn(6)
			pending := make([]uint16, 0, m)
			base := uint(r.intn(8192))
			for k := 0; k < m; k++ {
				pending = append(pending, space(k%2 == 0)|uint16((base+uint(k))&0x1fff))
			}
			add(pending, ctr, sub, "near-limit")
		default: // counter right at the wrap with the first identifiers of the space pending
			pending := []uint16{space(sub), space(sub) | 1}
			add(pending, uint(8192*(1+r.intn(3))-r.intn(2)), sub, "wrap")
		}
	}
	return cs.write(out, 200)
}
