package main

// C09 — emitted packets decode to the request; invalid arguments are denied
// without trace. M-pure: single calls of the real code (built with -tags verif).
// String checks go through VerifStringCheck/VerifTopicCheck, Config checks
// through VerifConfigValid/InitSession, CONNECT through VerifNewCONNREQ and a
// real connect; everything else through the public API of a Client that is
// connected over a simConn which accepts every write. The read routine is
// driven from this goroutine: every ReadSlices call is given a script that
// ends in a QoS 0 PUBLISH (the marker), so it returns and nothing reads in the
// background.

import (
	"bytes"
	"errors"
	"fmt"
	"os"
	"runtime"
	"runtime/debug"
	"strconv"
	"strings"

	"github.com/pascaldekloe/mqtt"
)

func init() { runners["C09"] = runC09 }

// ---------------------------------------------------------------------------
// Coq terms

// c09Bytes renders a byte string as runs (repN) and literals of at most 1 KiB.
func c09Bytes(b []byte) string {
	if len(b) == 0 {
		return "[]"
	}
	var segs []string
	var lit []byte
	flush := func() {
		for len(lit) > 0 {
			n := len(lit)
			if n > 1024 {
				n = 1024
			}
			segs = append(segs, coqBytes(lit[:n]))
			lit = lit[n:]
		}
		lit = nil
	}
	for i := 0; i < len(b); {
		// longest stretch from i with a period of up to 8 bytes
		best, bestP := 0, 0
		for p := 1; p <= 8 && i+p <= len(b); p++ {
			j := i + p
			for j < len(b) && b[j] == b[j-p] {
				j++
			}
			if j-i > best {
				best, bestP = j-i, p
			}
		}
		switch {
		case best >= 64 && bestP == 1:
			flush()
			segs = append(segs, fmt.Sprintf("(repN %d %d)", best, b[i]))
			i += best
		case best >= 64:
			flush()
			segs = append(segs, fmt.Sprintf("(cycN %d %s)", best, coqBytes(b[i:i+bestP])))
			i += best
		default:
			lit = append(lit, b[i])
			i++
		}
	}
	flush()
	if len(segs) == 1 {
		return segs[0]
	}
	return "(bcat [" + strings.Join(segs, "; ") + "])"
}

func c09Str(s string) string { return c09Bytes([]byte(s)) }

func c09OptBytes(b []byte) string {
	if b == nil {
		return "None"
	}
	return "(Some " + c09Bytes(b) + ")"
}

func c09Filters(fs []string) string {
	// a long list of one and the same long filter is shared
	if len(fs) > 64 {
		same := true
		for _, f := range fs {
			if f != fs[0] {
				same = false
			}
		}
		if same {
			return fmt.Sprintf("(nrep %d %s)", len(fs), c09Str(fs[0]))
		}
	}
	items := make([]string, len(fs))
	for i, f := range fs {
		items[i] = c09Str(f)
	}
	return coqList(items)
}

func c09Config(c *mqtt.Config) string {
	return fmt.Sprintf("(mkConfig %s %s %s %s %s %s %s %s %d %s)",
		coqBool(c.Dialer != nil), c09Str(c.UserName), c09OptBytes(c.Password),
		c09Str(c.Will.Topic), c09OptBytes(c.Will.Message),
		coqBool(c.Will.Retain), coqBool(c.Will.AtLeastOnce), coqBool(c.Will.ExactlyOnce),
		c.KeepAlive, coqBool(c.CleanSession))
}

// c09ErrCode: 0 nil, 1+index of the matching denyErrs entry, 8 any other
// error, 9 when IsDeny disagrees with the table.
func c09ErrCode(err error) int {
	if err == nil {
		return 0
	}
	code := 8
	for i, e := range mqtt.VerifDenyErrs() {
		if errors.Is(err, e) {
			code = i + 1
			break
		}
	}
	if mqtt.IsDeny(err) != (code != 8) {
		return 9
	}
	return code
}

// ---------------------------------------------------------------------------
// a connected client under harness control

var c09Marker = []byte{0x30, 3, 0, 1, 'm'}

type c09Client struct {
	log    *evlog
	store  *simStore
	dialer *simDialer
	conn   *simConn
	client *mqtt.Client
	queue  [][]byte
	wrote  chan struct{}
	bad    error // script violation seen inside a callback

	txn   uint64    // startTx calls so far
	acc   [3]uint64 // persisted publishes accepted per level
	conn0 []byte    // the CONNECT packet as written
}

func (k *c09Client) onRead(c *simConn, armed bool, want int) readAns {
	if len(k.queue) == 0 {
		k.bad = errors.New("c09: read with an exhausted script")
		return readAns{kind: rEOF}
	}
	p := k.queue[0]
	k.queue = k.queue[1:]
	return readAns{kind: rData, data: p}
}

func (k *c09Client) onWrite(c *simConn, p []byte) writeAns {
	select {
	case k.wrote <- struct{}{}:
	default:
	}
	return writeAns{kind: wOk}
}

func (k *c09Client) wlen() int {
	if k.conn == nil {
		return 0
	}
	k.conn.mu.Lock()
	defer k.conn.mu.Unlock()
	return len(k.conn.written)
}

func (k *c09Client) since(n int) []byte {
	if k.conn == nil {
		return nil
	}
	k.conn.mu.Lock()
	defer k.conn.mu.Unlock()
	return append([]byte(nil), k.conn.written[n:]...)
}

// storeOps takes the event log and counts the Persistence operations in it.
func (k *c09Client) storeOps() (saves, all int) {
	for _, e := range k.log.take() {
		switch e.Kind {
		case "save":
			saves++
			all++
		case "list", "load", "delete":
			all++
		}
	}
	return
}

// pump lets the read routine consume the script plus a marker.
func (k *c09Client) pump(packets ...[]byte) error {
	k.queue = append(k.queue, packets...)
	k.queue = append(k.queue, c09Marker)
	_, topic, err := k.client.ReadSlices()
	if k.bad != nil {
		return k.bad
	}
	if err != nil {
		return fmt.Errorf("c09: ReadSlices: %w", err)
	}
	if string(topic) != "m" {
		return fmt.Errorf("c09: ReadSlices returned topic %q instead of the marker", topic)
	}
	return nil
}

// newC09Client runs InitSession on a fresh simStore and connects.
func newC09Client(cid string, cfg mqtt.Config) (*c09Client, error) {
	log := &evlog{}
	k := &c09Client{log: log, store: newSimStore(log), wrote: make(chan struct{}, 1)}
	k.dialer = &simDialer{log: log, onDial: func(id int) (*simConn, bool) {
		k.conn = &simConn{onRead: k.onRead, onWrite: k.onWrite}
		return k.conn, true
	}}
	cfg.Dialer = k.dialer.dial
	if cfg.AtLeastOnceMax == 0 {
		cfg.AtLeastOnceMax = -1 // the Client limit
	}
	if cfg.ExactlyOnceMax == 0 {
		cfg.ExactlyOnceMax = -1
	}
	var err error
	k.client, err = mqtt.InitSession(cid, k.store, &cfg)
	if err != nil {
		return nil, fmt.Errorf("c09: InitSession: %w", err)
	}
	if err := k.pump([]byte{0x20, 2, 0, 0}); err != nil {
		return nil, err
	}
	k.conn0 = k.since(0)
	k.log.take()
	return k, nil
}

func (k *c09Client) close() {
	k.client.Close()
	for i := 0; i < 3; i++ {
		if _, _, err := k.client.ReadSlices(); errors.Is(err, mqtt.ErrClosed) {
			break
		}
	}
}

// obs is what one API call did.
type c09Obs struct {
	code  int
	wire  []byte
	saves int
	ops   int
}

func (k *c09Client) observe(n0 int, err error, quitOK bool) c09Obs {
	o := c09Obs{wire: k.since(n0)}
	o.saves, o.ops = k.storeOps()
	switch {
	case err == nil:
	case quitOK && errors.Is(err, mqtt.ErrAbandoned):
	default:
		o.code = c09ErrCode(err)
	}
	return o
}

// request kinds: level 0..2 publish (retain), 3 subscribe (level in sub), 4 unsubscribe
type c09Req struct {
	kind   int // 0 publish, 1 persisted publish, 3 subscribe, 4 unsubscribe
	level  int
	retain bool
	msg    []byte
	topic  string
	fs     []string
}

func (k *c09Client) term(q c09Req) string {
	switch q.kind {
	case 0:
		return fmt.Sprintf("(RqPublish %s %s %s)", coqBool(q.retain), c09Bytes(q.msg), c09Str(q.topic))
	case 1:
		return fmt.Sprintf("(RqPublishP %d %s %s %s %d)", q.level, coqBool(q.retain), c09Bytes(q.msg), c09Str(q.topic), k.acc[q.level])
	case 3:
		return fmt.Sprintf("(RqSubscribe %d %s %d)", q.level, c09Filters(q.fs), k.txn)
	default:
		return fmt.Sprintf("(RqUnsubscribe %s %d)", c09Filters(q.fs), k.txn)
	}
}

// blocking runs a request that waits for a response: once its packet is on
// the connection the quit channel is closed.
func (k *c09Client) blocking(f func(quit <-chan struct{}) error) error {
	select {
	case <-k.wrote:
	default:
	}
	quit := make(chan struct{})
	res := make(chan error, 1)
	go func() { res <- f(quit) }()
	select {
	case err := <-res:
		return err
	case <-k.wrote:
	}
	close(quit)
	return <-res
}

// do performs the request; the counters advance when it was not refused.
func (k *c09Client) do(q c09Req) c09Obs {
	k.log.take()
	n0 := k.wlen()
	var err error
	quitOK := false
	switch q.kind {
	case 0:
		if q.retain {
			err = k.client.PublishRetained(nil, q.msg, q.topic)
		} else {
			err = k.client.Publish(nil, q.msg, q.topic)
		}
	case 1:
		switch {
		case q.level == 1 && !q.retain:
			_, err = k.client.PublishAtLeastOnce(q.msg, q.topic)
		case q.level == 1:
			_, err = k.client.PublishAtLeastOnceRetained(q.msg, q.topic)
		case !q.retain:
			_, err = k.client.PublishExactlyOnce(q.msg, q.topic)
		default:
			_, err = k.client.PublishExactlyOnceRetained(q.msg, q.topic)
		}
		if err == nil {
			k.acc[q.level]++
		}
	case 3:
		quitOK = true
		err = k.blocking(func(quit <-chan struct{}) error {
			switch q.level {
			case 0:
				return k.client.SubscribeLimitAtMostOnce(quit, q.fs...)
			case 1:
				return k.client.SubscribeLimitAtLeastOnce(quit, q.fs...)
			}
			return k.client.Subscribe(quit, q.fs...)
		})
		if !mqtt.IsDeny(err) {
			k.txn++
		}
	default:
		quitOK = true
		err = k.blocking(func(quit <-chan struct{}) error { return k.client.Unsubscribe(quit, q.fs...) })
		if !mqtt.IsDeny(err) {
			k.txn++
		}
	}
	return k.observe(n0, err, quitOK)
}

// ---------------------------------------------------------------------------

func c09MemAvailable() uint64 {
	b, err := os.ReadFile("/proc/meminfo")
	if err != nil {
		return 0
	}
	for _, line := range strings.Split(string(b), "\n") {
		if strings.HasPrefix(line, "MemAvailable:") {
			f := strings.Fields(line)
			if len(f) >= 2 {
				kb, _ := strconv.ParseUint(f[1], 10, 64)
				return kb << 10
			}
		}
	}
	return 0
}

var c09Bnd = []byte{0x00, 0x7F, 0x80, 0x8F, 0x90, 0x9F, 0xA0, 0xBF, 0xC0, 0xC1, 0xC2, 0xDF,
	0xE0, 0xE1, 0xEC, 0xED, 0xEE, 0xEF, 0xF0, 0xF1, 0xF3, 0xF4, 0xF5, 0xFF}

func c09Check(topic bool, s string) int {
	if topic {
		return c09ErrCode(mqtt.VerifTopicCheck(s))
	}
	return c09ErrCode(mqtt.VerifStringCheck(s))
}

// strBlock: the check on prefix ++ w for every word w over alpha of the given
// length, first letter slowest.
func c09StrBlock(cs *caseSet, topic bool, prefix, alpha []byte, depth int) {
	var res []byte
	buf := append([]byte(nil), prefix...)
	var rec func(d int)
	rec = func(d int) {
		if d == 0 {
			res = append(res, byte(c09Check(topic, string(buf))))
			return
		}
		for _, a := range alpha {
			buf = append(buf, a)
			rec(d - 1)
			buf = buf[:len(buf)-1]
		}
	}
	rec(depth)
	kind := fmt.Sprintf("strings-%dbyte-block", len(prefix)+depth)
	al := coqBytes(alpha)
	if len(alpha) == 256 {
		al = "allb" // 0..255 in order, as built by the caller
		for i, a := range alpha {
			if int(a) != i {
				al = coqBytes(alpha)
			}
		}
	}
	cs.add(fmt.Sprintf("StrBlock %s %s %s %s %s", coqBool(topic), c09Bytes(prefix), al, coqNat(depth), c09Bytes(res)),
		map[string]any{"kind": kind, "topicCheck": topic, "prefix": fmt.Sprintf("%x", prefix), "alphabet": len(alpha), "depth": depth, "strings": len(res)},
		kind, true)
}

func c09StrCase(cs *caseSet, kind string, s string) {
	for _, topic := range []bool{false, true} {
		d := map[string]any{"kind": kind, "topicCheck": topic, "len": len(s)}
		if len(s) <= 64 {
			d["hex"] = fmt.Sprintf("%x", s)
		}
		cs.add(fmt.Sprintf("StrCase %s %s %d", coqBool(topic), c09Str(s), c09Check(topic, s)), d, kind, true)
	}
}

func c09Rune(cp uint32) string {
	// RFC 3629 bit layout, also for surrogates and values above U+10FFFF
	switch {
	case cp < 0x80:
		return string([]byte{byte(cp)})
	case cp < 0x800:
		return string([]byte{0xC0 | byte(cp>>6), 0x80 | byte(cp&0x3F)})
	case cp < 0x10000:
		return string([]byte{0xE0 | byte(cp>>12), 0x80 | byte(cp>>6&0x3F), 0x80 | byte(cp&0x3F)})
	default:
		return string([]byte{0xF0 | byte(cp>>18), 0x80 | byte(cp>>12&0x3F), 0x80 | byte(cp>>6&0x3F), 0x80 | byte(cp&0x3F)})
	}
}

func c09Strings(cs *caseSet, r *rng, tier string) {
	all := make([]byte, 256)
	for i := range all {
		all[i] = byte(i)
	}
	for _, topic := range []bool{false, true} {
		// exhaustive: every 1-byte and every 2-byte string
		c09StrBlock(cs, topic, nil, all, 1)
		for b0 := 0; b0 < 256; b0++ {
			c09StrBlock(cs, topic, []byte{byte(b0)}, all, 1)
		}
		// structured: 3- and 4-byte strings over the boundary bytes
		for _, b0 := range c09Bnd {
			c09StrBlock(cs, topic, []byte{b0}, c09Bnd, 2)
			c09StrBlock(cs, topic, []byte{b0}, c09Bnd, 3)
		}
		if tier == "thorough" {
			// every third byte after the three-byte leads with special second-byte ranges
			for _, b0 := range []byte{0xE0, 0xE1, 0xED, 0xEE, 0xEF} {
				for b1 := 0; b1 < 256; b1++ {
					c09StrBlock(cs, topic, []byte{b0, byte(b1)}, all, 1)
				}
			}
			// every third and fourth byte after the four-byte leads
			for _, b0 := range []byte{0xF0, 0xF1, 0xF4} {
				for _, b1 := range c09Bnd {
					c09StrBlock(cs, topic, []byte{b0, b1}, all, 2)
				}
			}
		}
	}

	// boundary lengths, with the last character of every encoded width, with a
	// truncated character at the end, with NUL at the start, in the middle, at the end
	lens := []int{0, 1, 127, 128, 65535, 65536}
	if tier == "thorough" {
		lens = []int{0, 1, 2, 127, 128, 65534, 65535, 65536, 65537, 70000, 131072}
	}
	for _, n := range lens {
		c09StrCase(cs, "strings-length", strings.Repeat("a", n))
		for _, tail := range []string{"é", "€", "\U0001F600", "\xc3", "\xe2\x82", "\xf0\x9f\x98", "\x00", "\xff"} {
			if n >= len(tail) {
				c09StrCase(cs, "strings-length-tail", strings.Repeat("a", n-len(tail))+tail)
			}
		}
		if n >= 3 {
			c09StrCase(cs, "strings-nul-inside", "\x00"+strings.Repeat("a", n-1))
			c09StrCase(cs, "strings-nul-inside", strings.Repeat("a", n/2)+"\x00"+strings.Repeat("a", n-n/2-1))
			c09StrCase(cs, "strings-bad-inside", strings.Repeat("a", n/2)+"\x80"+strings.Repeat("a", n-n/2-1))
		}
	}
	// multi-byte content up to the limit: 21845 x 3 bytes = 65535
	c09StrCase(cs, "strings-length", strings.Repeat("€", 21845))
	c09StrCase(cs, "strings-length", strings.Repeat("€", 21845)+"a")
	c09StrCase(cs, "strings-length", "a"+strings.Repeat("é", 32767))
	c09StrCase(cs, "strings-length", strings.Repeat("é", 32768))
	// the order of the checks: size, then UTF-8, then NUL
	c09StrCase(cs, "strings-check-order", strings.Repeat("\xff", 65536))
	c09StrCase(cs, "strings-check-order", "\x00"+strings.Repeat("\xff", 65535))
	c09StrCase(cs, "strings-check-order", strings.Repeat("\x00", 65536))
	c09StrCase(cs, "strings-check-order", "\x00\xff")
	c09StrCase(cs, "strings-check-order", "\xff\x00")
	c09StrCase(cs, "strings-check-order", strings.Repeat("\x00", 65535))

	// every class of ill-formed UTF-8 around the code point boundaries
	cps := []uint32{0, 1, 0x7F, 0x80, 0x7FF, 0x800, 0xFFF, 0x1000, 0xCFFF, 0xD000, 0xD7FF, 0xD800, 0xDBFF, 0xDC00, 0xDFFF,
		0xE000, 0xFFFD, 0xFFFE, 0xFFFF, 0x10000, 0x3FFFF, 0x40000, 0xFFFFF, 0x100000, 0x10FFFF, 0x110000, 0x13FFFF, 0x140000, 0x1FFFFF}
	for _, cp := range cps {
		e := c09Rune(cp)
		c09StrCase(cs, "strings-codepoint", e)
		c09StrCase(cs, "strings-codepoint", "x"+e+"y")
		if len(e) > 1 {
			c09StrCase(cs, "strings-truncated", "x"+e[:len(e)-1])
			c09StrCase(cs, "strings-truncated", e[:len(e)-1]+"y")
		}
	}
	for _, over := range []string{"\xc0\x80", "\xc0\xaf", "\xc1\xbf", "\xe0\x80\x80", "\xe0\x80\xaf", "\xe0\x9f\xbf",
		"\xf0\x80\x80\x80", "\xf0\x80\x80\xaf", "\xf0\x8f\xbf\xbf", "\xf8\x88\x80\x80\x80", "\xfc\x84\x80\x80\x80\x80", "\xfe", "\xff", "\x80", "\xbf", "\x80\x80"} {
		c09StrCase(cs, "strings-overlong-or-stray", over)
		c09StrCase(cs, "strings-overlong-or-stray", "topic/"+over+"/x")
	}

	// random: valid code point sequences, and the same with one byte changed
	nrand := 150
	if tier == "thorough" {
		nrand = 3000
	}
	for i := 0; i < nrand; i++ {
		var sb strings.Builder
		for j, n := 0, r.intn(12); j <= n; j++ {
			var cp uint32
			switch r.intn(6) {
			case 0:
				cp = uint32(r.intn(0x80))
			case 1:
				cp = 0x80 + uint32(r.intn(0x780))
			case 2:
				cp = 0x800 + uint32(r.intn(0xF800))
			case 3:
				cp = 0x10000 + uint32(r.intn(0x100000))
			case 4:
				cp = cps[r.intn(len(cps))]
			default:
				cp = uint32('a' + r.intn(26))
			}
			sb.WriteString(c09Rune(cp))
		}
		s := sb.String()
		c09StrCase(cs, "strings-random", s)
		b := []byte(s)
		switch r.intn(3) {
		case 0:
			b[r.intn(len(b))] = c09Bnd[r.intn(len(c09Bnd))]
		case 1:
			i := r.intn(len(b))
			b = append(b[:i], b[i+1:]...)
		default:
			i := r.intn(len(b) + 1)
			b = append(b[:i], append([]byte{c09Bnd[r.intn(len(c09Bnd))]}, b[i:]...)...)
		}
		c09StrCase(cs, "strings-random-mutated", string(b))
	}
}

// ---------------------------------------------------------------------------

const c09ShipMax = 8192 // packets above this size are compared by header and length

func c09Desc(kind string, q c09Req, o c09Obs) map[string]any {
	d := map[string]any{"kind": kind, "code": o.code, "wire_len": len(o.wire), "saves": o.saves}
	switch q.kind {
	case 0, 1:
		d["level"], d["retain"], d["message_len"], d["topic_len"] = q.level, q.retain, len(q.msg), len(q.topic)
		if len(q.topic) <= 32 {
			d["topic_hex"] = fmt.Sprintf("%x", q.topic)
		}
	default:
		lens := make([]int, 0, 8)
		for i, f := range q.fs {
			if i < 8 {
				lens = append(lens, len(f))
			}
		}
		d["level"], d["filters"], d["filter_lens"] = q.level, len(q.fs), lens
	}
	return d
}

// big says whether the publish is compared by header and length only.
func (q c09Req) big() bool {
	return (q.kind == 0 || q.kind == 1) && len(q.msg)+len(q.topic) > c09ShipMax
}

// splitBig cuts what the connection received into the bytes before the message
// and says whether the rest is the message.
func c09SplitBig(wire, msg []byte) (head []byte, tail bool) {
	if len(wire) < len(msg) {
		return wire[:min(len(wire), 64)], false
	}
	return wire[:len(wire)-len(msg)], bytes.Equal(wire[len(wire)-len(msg):], msg)
}

// emitReq performs q and registers what happened as a ReqCase or, for large
// publishes, as a BigPubCase.
func c09EmitReq(cs *caseSet, k *c09Client, kind string, q c09Req) c09Obs {
	if q.big() {
		acc := k.acc[q.level%3]
		o := k.do(q)
		head, tail := c09SplitBig(o.wire, q.msg)
		lvl := 0
		if q.kind == 1 {
			lvl = q.level
		}
		d := c09Desc(kind, q, o)
		d["header_hex"] = fmt.Sprintf("%x", head[:min(len(head), 16)])
		cs.add(fmt.Sprintf("BigPubCase %d %s %d %s %d %d %s %d %s %d", lvl, coqBool(q.retain), len(q.msg), c09Str(q.topic), acc,
			o.code, c09Bytes(head), len(o.wire), coqBool(tail), o.saves), d, kind, true)
		return o
	}
	t := k.term(q)
	o := k.do(q)
	cs.add(fmt.Sprintf("ReqCase %s %d %s %d", t, o.code, c09Bytes(o.wire), o.saves), c09Desc(kind, q, o), kind, true)
	return o
}

func c09Pub(level int, retain bool, msg []byte, topic string) c09Req {
	if level == 0 {
		return c09Req{kind: 0, retain: retain, msg: msg, topic: topic}
	}
	return c09Req{kind: 1, level: level, retain: retain, msg: msg, topic: topic}
}

func c09Emitted(cs *caseSet, r *rng, tier string) error {
	k, err := newC09Client("c09", mqtt.Config{})
	if err != nil {
		return err
	}
	defer k.close()

	// payload pattern; every slice of it is a message
	pattern := make([]byte, 16843009+16)
	for i := range pattern {
		pattern[i] = byte(i*7 + i>>8)
	}

	// PUBLISH: remaining length across every width boundary
	// ... and 0x101, 0x10101, 0x1010101: every 7-bit group has its top bit clear, so a
	// lost continuation bit shows in each length byte
	remaining := []int{125, 126, 127, 128, 129, 257, 16381, 16382, 16383, 16384, 16385, 65793,
		2097149, 2097150, 2097151, 2097152, 2097153, 16843009}
	for level := 0; level < 3; level++ {
		for _, retain := range []bool{false, true} {
			topic := []string{"t/0", "é/1", "t/€"}[level]
			over := 2 + len(topic)
			if level > 0 {
				over += 2
			}
			for _, n := range []int{0, 1} {
				c09EmitReq(cs, k, "publish-small", c09Pub(level, retain, pattern[:n], topic))
			}
			for _, rl := range remaining {
				c09EmitReq(cs, k, "publish-width-boundary", c09Pub(level, retain, pattern[:rl-over], topic))
			}
			// topics of boundary lengths
			for _, tl := range []int{1, 127, 128, 65535} {
				c09EmitReq(cs, k, "publish-topic-length", c09Pub(level, retain, []byte("x"), strings.Repeat("a", tl)))
			}
		}
		// multi-byte topic content up to the limit
		c09EmitReq(cs, k, "publish-topic-length", c09Pub(level, level == 1, pattern[:3], strings.Repeat("€", 21845)))
		c09EmitReq(cs, k, "publish-topic-length", c09Pub(level, level != 1, nil, "a"+strings.Repeat("é", 32767)))
	}
	if tier == "thorough" {
		// three-byte widths in full through the Coq parser
		for level := 0; level < 3; level++ {
			for _, rl := range []int{16383, 16384} {
				q := c09Pub(level, false, pattern[:rl-9], "full")
				t := k.term(q)
				o := k.do(q)
				cs.add(fmt.Sprintf("ReqCase %s %d %s %d", t, o.code, c09Bytes(o.wire), o.saves), c09Desc("publish-width-boundary-full", q, o), "publish-width-boundary-full", true)
			}
		}
		for i := 0; i < 300; i++ {
			level := r.intn(3)
			topic := []string{"a", "a/b", "sensor/é/€", strings.Repeat("x", 127), strings.Repeat("y", 128)}[r.intn(5)]
			c09EmitReq(cs, k, "publish-random", c09Pub(level, r.chance(1, 2), r.bytes(r.intn(600)), topic))
		}
	}

	// SUBSCRIBE / UNSUBSCRIBE
	pool := []string{"a", "a/b", "+/x/#", "#", "$SYS/é/€", "/", strings.Repeat("f", 127), strings.Repeat("g", 128)}
	for level := 0; level < 3; level++ {
		for n := 1; n <= 5; n++ {
			fs := make([]string, n)
			for i := range fs {
				fs[i] = pool[(level+n+i*3)%len(pool)]
			}
			c09EmitReq(cs, k, "subscribe", c09Req{kind: 3, level: level, fs: fs})
		}
		// remaining length 127/128 and 16383/16384 with a single filter
		for _, rl := range []int{127, 128, 257, 16383, 16384} {
			if rl-5 > c09ShipMax && tier != "thorough" {
				continue
			}
			c09EmitReq(cs, k, "subscribe-width-boundary", c09Req{kind: 3, level: level, fs: []string{strings.Repeat("s", rl-5)}})
		}
		c09EmitReq(cs, k, "subscribe-width-boundary", c09Req{kind: 3, level: level, fs: []string{strings.Repeat("s", 65535), strings.Repeat("t", 65793-2-6-65535)}})
		c09EmitReq(cs, k, "subscribe-filter-length", c09Req{kind: 3, level: level, fs: []string{"a", strings.Repeat("h", 65535)}})
	}
	for n := 1; n <= 5; n++ {
		fs := make([]string, n)
		for i := range fs {
			fs[i] = pool[(n+i*5)%len(pool)]
		}
		c09EmitReq(cs, k, "unsubscribe", c09Req{kind: 4, fs: fs})
	}
	for _, rl := range []int{127, 128, 257, 16383, 16384} {
		if rl-4 > c09ShipMax && tier != "thorough" {
			continue
		}
		c09EmitReq(cs, k, "unsubscribe-width-boundary", c09Req{kind: 4, fs: []string{strings.Repeat("u", rl-4)}})
	}
	c09EmitReq(cs, k, "unsubscribe-width-boundary", c09Req{kind: 4, fs: []string{strings.Repeat("u", 65535), strings.Repeat("v", 65793-2-4-65535)}})
	c09EmitReq(cs, k, "unsubscribe-filter-length", c09Req{kind: 4, fs: []string{strings.Repeat("h", 65535), "b"}})
	if tier == "thorough" {
		// four-byte width: 32 filters
		for _, rl := range []int{2097151, 2097152} {
			fs := make([]string, 32)
			for i := range fs {
				fs[i] = strings.Repeat("f", 65535)
			}
			fs[31] = strings.Repeat("f", rl-2-32*3-31*65535)
			c09EmitReq(cs, k, "subscribe-width-boundary", c09Req{kind: 3, level: 2, fs: fs})
			fs[31] = strings.Repeat("f", rl-2-32*2-31*65535)
			c09EmitReq(cs, k, "unsubscribe-width-boundary", c09Req{kind: 4, fs: fs})
		}
	}

	// PINGREQ
	{
		k.log.take()
		n0 := k.wlen()
		err := k.blocking(func(quit <-chan struct{}) error { return k.client.Ping(quit) })
		o := k.observe(n0, err, true)
		cs.add(fmt.Sprintf("ReqCase RqPing %d %s 0", o.code, c09Bytes(o.wire)), map[string]any{"kind": "ping", "code": o.code, "wire_hex": fmt.Sprintf("%x", o.wire)}, "ping", true)
	}

	// acknowledgements
	ack := func(name string, id uint16, wire []byte) {
		cs.add(fmt.Sprintf("ReqCase (%s %d) 0 %s 0", name, id, c09Bytes(wire)), map[string]any{"kind": "ack", "packet": name, "id": id, "wire_hex": fmt.Sprintf("%x", wire)}, "ack-"+name, true)
	}
	ids := []uint16{1, 2, 255, 256, 257, 0x3fff, 0x4000, 0x5fff, 0x6000, 0x7fff, 0x8000, 0xbfff, 0xc000, 0xfffe, 0xffff}
	for _, id := range ids {
		// QoS 1 from the broker: PUBACK goes out with the next ReadSlices
		k.queue = append(k.queue, []byte{0x32, 7, 0, 2, 'i', 'n', byte(id >> 8), byte(id), 'p'})
		if _, _, err := k.client.ReadSlices(); err != nil || k.bad != nil {
			return fmt.Errorf("c09: inbound QoS 1: %v %v", err, k.bad)
		}
		n0 := k.wlen()
		if err := k.pump(); err != nil {
			return err
		}
		ack("RqPuback", id, k.since(n0))
		// QoS 2 from the broker: PUBREC with the next ReadSlices, PUBCOMP on PUBREL
		k.queue = append(k.queue, []byte{0x34, 7, 0, 2, 'i', 'n', byte(id >> 8), byte(id), 'q'})
		if _, _, err := k.client.ReadSlices(); err != nil || k.bad != nil {
			return fmt.Errorf("c09: inbound QoS 2: %v %v", err, k.bad)
		}
		n0 = k.wlen()
		if err := k.pump(); err != nil {
			return err
		}
		ack("RqPubrec", id, k.since(n0))
		n0 = k.wlen()
		if err := k.pump([]byte{0x62, 2, byte(id >> 8), byte(id)}); err != nil {
			return err
		}
		ack("RqPubcomp", id, k.since(n0))
	}
	k.log.take()
	return nil
}

// PUBREL: the client releases its own exactly-once publishes; the identifiers
// follow the sequence, so a fresh client walks them (thorough: over the wrap).
func c09Pubrel(cs *caseSet, tier string) error {
	k, err := newC09Client("rel", mqtt.Config{})
	if err != nil {
		return err
	}
	defer k.close()
	n := 4
	if tier == "thorough" {
		n = 16384 + 3
	}
	for i := 0; i < n; i++ {
		if _, err := k.client.PublishExactlyOnce([]byte("r"), "rel"); err != nil {
			return fmt.Errorf("c09: PublishExactlyOnce %d: %w", i, err)
		}
		id := uint16(0xc000 | i&0x3fff)
		n0 := k.wlen()
		if err := k.pump([]byte{0x50, 2, byte(id >> 8), byte(id)}); err != nil {
			return err
		}
		wire := k.since(n0)
		if err := k.pump([]byte{0x70, 2, byte(id >> 8), byte(id)}); err != nil {
			return err
		}
		k.log.take()
		if i < 4 || i&0xff == 0xff || i >= 16382 {
			cs.add(fmt.Sprintf("ReqCase (RqPubrel %d) 0 %s 0", id, c09Bytes(wire)), map[string]any{"kind": "ack", "packet": "RqPubrel", "id": id, "wire_hex": fmt.Sprintf("%x", wire)}, "ack-RqPubrel", true)
		}
	}
	return nil
}

// the pair at the packet maximum, per level
func c09Max(cs *caseSet, tier string) error {
	const need = 6 << 30
	if avail := c09MemAvailable(); avail < need {
		cs.extra["max_pair_skipped"] = fmt.Sprintf("MemAvailable %d < %d", avail, uint64(need))
		return nil
	}
	payload := make([]byte, 268435456)
	for i := 0; i < len(payload); i += 4093 {
		payload[i] = byte(i)
	}
	for level := 0; level < 3; level++ {
		for _, retain := range []bool{false, true} {
			if retain && tier != "thorough" {
				continue
			}
			k, err := newC09Client("max", mqtt.Config{})
			if err != nil {
				return err
			}
			topic := "max"
			over := 2 + len(topic)
			if level > 0 {
				over += 2
			}
			// one below, at, and one above the limit
			for _, rl := range []int{268435454, 268435455, 268435456} {
				if rl == 268435454 && tier != "thorough" {
					continue
				}
				c09EmitReq(cs, k, "publish-packet-max", c09Pub(level, retain, payload[:rl-over], topic))
				// drop what the doubles retained
				k.conn.mu.Lock()
				k.conn.written = nil
				k.conn.mu.Unlock()
				k.store.mu.Lock()
				k.store.m = map[uint][]byte{0: k.store.m[0]}
				k.store.mu.Unlock()
				k.log.take()
				runtime.GC()
			}
			k.close()
			debug.FreeOSMemory()
		}
	}
	return nil
}

// CONNECT
func c09Connect(cs *caseSet, r *rng, tier string) error {
	dial := (&simDialer{}).dial
	type will struct {
		on, retain, alo, eo bool
	}
	wills := []will{{}}
	for _, ret := range []bool{false, true} {
		for _, alo := range []bool{false, true} {
			for _, eo := range []bool{false, true} {
				wills = append(wills, will{true, ret, alo, eo})
			}
		}
	}
	type up struct {
		user string
		pass []byte
	}
	ups := []up{{"", nil}, {"user", nil}, {"user", []byte("pass")}, {"", []byte("pass")}, {"ü", []byte{}}, {"", []byte{}}}
	cids := []string{"", "c", strings.Repeat("i", 23), strings.Repeat("j", 24), strings.Repeat("k", 65535)}
	add := func(kind string, cfg *mqtt.Config, cid string, wire []byte) {
		d := map[string]any{"kind": kind, "will": cfg.Will.Message != nil, "will_retain": cfg.Will.Retain, "will_alo": cfg.Will.AtLeastOnce,
			"will_eo": cfg.Will.ExactlyOnce, "user_len": len(cfg.UserName), "password": cfg.Password != nil, "keep_alive": cfg.KeepAlive,
			"clean": cfg.CleanSession, "client_id_len": len(cid), "wire_len": len(wire)}
		cs.add(fmt.Sprintf("ReqCase (RqConnect %s %s) 0 %s 0", c09Config(cfg), c09Str(cid), c09Bytes(wire)), d, kind, true)
	}
	for _, w := range wills {
		for _, u := range ups {
			n := 0
			for _, ka := range []uint16{0, 1, 65535} {
				for _, clean := range []bool{false, true} {
					for ci, cid := range cids {
						// quick: keep-alive x clean session with the client identifier
						// cycling, and every identifier length once more
						n++
						if tier != "thorough" && !(ci == n/5%4 || (ka == 65535 && clean)) {
							continue
						}
						cfg := mqtt.Config{Dialer: dial, UserName: u.user, Password: u.pass, KeepAlive: ka, CleanSession: clean}
						if w.on {
							cfg.Will.Topic, cfg.Will.Message = "will/é", []byte("gone")
							cfg.Will.Retain, cfg.Will.AtLeastOnce, cfg.Will.ExactlyOnce = w.retain, w.alo, w.eo
						} else if u.user == "user" {
							// Will.Topic without a message is not transmitted
							cfg.Will.Topic = "unused"
							cfg.Will.Retain, cfg.Will.AtLeastOnce = true, true
						}
						if err := mqtt.VerifConfigValid(&cfg); err != nil {
							return fmt.Errorf("c09: valid Config refused: %w", err)
						}
						add("connect-newCONNREQ", &cfg, cid, mqtt.VerifNewCONNREQ(&cfg, []byte(cid)))
					}
				}
			}
		}
	}
	// field lengths at the limit
	long := func(n int, c byte) string { return strings.Repeat(string([]byte{c}), n) }
	for i := 0; i < 6; i++ {
		cfg := mqtt.Config{Dialer: dial, KeepAlive: 0x1234}
		cid := "c"
		switch i {
		case 0:
			cfg.UserName = long(65535, 'u')
		case 1:
			cfg.UserName, cfg.Password = "u", bytes.Repeat([]byte{0, 0xff}, 32768)[:65535]
		case 2:
			cfg.Will.Topic, cfg.Will.Message = long(65535, 't'), []byte{}
		case 3:
			cfg.Will.Topic, cfg.Will.Message, cfg.Will.ExactlyOnce = "t", bytes.Repeat([]byte{0x80}, 65535), true
		case 4:
			cfg.Will.Message, cfg.Will.Topic = []byte{}, "w"
		default:
			cfg.UserName, cfg.Password = long(65535, 'u'), bytes.Repeat([]byte{'p'}, 65535)
			cfg.Will.Topic, cfg.Will.Message = long(65535, 't'), bytes.Repeat([]byte{'m'}, 65535)
			cid = long(65535, 'c')
		}
		if err := mqtt.VerifConfigValid(&cfg); err != nil {
			return fmt.Errorf("c09: valid Config refused: %w", err)
		}
		add("connect-newCONNREQ-limits", &cfg, cid, mqtt.VerifNewCONNREQ(&cfg, []byte(cid)))
	}
	// through a real connect
	for i := 0; i < 12; i++ {
		cfg := mqtt.Config{KeepAlive: uint16(r.intn(3) * 32767), CleanSession: i%2 == 0}
		if i%3 != 0 {
			cfg.UserName = "user"
		}
		if i%4 >= 2 {
			cfg.Password = []byte("secret")
		}
		if i >= 4 {
			cfg.Will.Topic, cfg.Will.Message = "last/will", []byte("bye")
			cfg.Will.Retain, cfg.Will.AtLeastOnce, cfg.Will.ExactlyOnce = i%2 == 1, i%5 < 2, i >= 9
		}
		cid := cids[i%4]
		k, err := newC09Client(cid, cfg)
		if err != nil {
			return err
		}
		cfg.Dialer = dial
		add("connect-api", &cfg, cid, k.conn0)
		if i == 0 {
			// DISCONNECT
			n0 := k.wlen()
			err := k.client.Disconnect(nil)
			o := k.observe(n0, err, false)
			cs.add(fmt.Sprintf("ReqCase RqDisconnect %d %s 0", o.code, c09Bytes(o.wire)), map[string]any{"kind": "disconnect", "code": o.code, "wire_hex": fmt.Sprintf("%x", o.wire)}, "disconnect", true)
		}
		k.close()
	}
	return nil
}

// ---------------------------------------------------------------------------
// denials

func c09Denials(cs *caseSet, tier string, big []byte) error {
	invalid := []struct{ name, s string }{
		{"empty", ""},
		{"too-long", strings.Repeat("a", 65536)},
		{"too-long-and-ill-formed", strings.Repeat("\xff", 65537)},
		{"stray-byte", "a\xffb"},
		{"surrogate", "\xed\xa0\x80"},
		{"overlong", "\xc0\x80"},
		{"truncated", "a/\xe2\x82"},
		{"above-max", "\xf4\x90\x80\x80"},
		{"nul", "a\x00b"},
		{"nul-only", "\x00"},
	}
	cfg := mqtt.Config{AtLeastOnceMax: 1, ExactlyOnceMax: 1}
	repeat := 0 // the denied request is issued this many times before the recorded one
	run := func(kind string, q, probe c09Req) error {
		k, err := newC09Client("deny", cfg)
		if err != nil {
			return err
		}
		defer k.close()
		for i := 0; i < repeat; i++ {
			k.do(q) // a denial leaves no trace: not even a slot or an identifier stays taken
		}
		if q.big() {
			acc := k.acc[q.level%3]
			lvl := 0
			if q.kind == 1 {
				lvl = q.level
			}
			o := k.do(q)
			pt := k.term(probe)
			p := k.do(probe)
			d := c09Desc(kind, q, o)
			d["probe_code"], d["probe_wire_hex"] = p.code, fmt.Sprintf("%x", p.wire[:min(len(p.wire), 48)])
			cs.add(fmt.Sprintf("BigDenyCase %d %s %d %s %d %d %d %d %s %d %s", lvl, coqBool(q.retain), len(q.msg), c09Str(q.topic), acc,
				o.code, len(o.wire), o.ops, pt, p.code, c09Bytes(p.wire)), d, kind, true)
			return nil
		}
		qt := k.term(q)
		o := k.do(q)
		pt := k.term(probe)
		p := k.do(probe)
		d := c09Desc(kind, q, o)
		d["probe_code"], d["probe_wire_hex"] = p.code, fmt.Sprintf("%x", p.wire[:min(len(p.wire), 48)])
		cs.add(fmt.Sprintf("DenyCase %s %d %d %d %s %d %s", qt, o.code, len(o.wire), o.ops, pt, p.code, c09Bytes(p.wire)), d, kind, true)
		return nil
	}
	for level := 0; level < 3; level++ {
		for _, retain := range []bool{false, true} {
			probe := c09Pub(level, retain, []byte("ok"), "probe")
			for _, iv := range invalid {
				if err := run("deny-publish-"+iv.name, c09Pub(level, retain, []byte("m"), iv.s), probe); err != nil {
					return err
				}
			}
			if big != nil {
				over := 5
				if level > 0 {
					over = 7
				}
				if err := run("deny-publish-packet-max", c09Pub(level, retain, big[:268435456-over], "big"), probe); err != nil {
					return err
				}
				// also when the topic is at fault first
				if err := run("deny-publish-packet-max-and-topic", c09Pub(level, retain, big[:268435456], ""), probe); err != nil {
					return err
				}
			}
		}
	}
	for kind := 3; kind <= 4; kind++ {
		name := map[int]string{3: "subscribe", 4: "unsubscribe"}[kind]
		for level := 0; level < 3; level++ {
			if kind == 4 && level > 0 {
				continue
			}
			probe := c09Req{kind: kind, level: level, fs: []string{"probe/#"}}
			if err := run("deny-"+name+"-none", c09Req{kind: kind, level: level}, probe); err != nil {
				return err
			}
			for _, iv := range invalid {
				for _, fs := range [][]string{{iv.s}, {"a", iv.s}, {"a", "b/+", iv.s, "c"}, {iv.s, ""}, {iv.s, "\xff"}} {
					if err := run("deny-"+name+"-"+iv.name, c09Req{kind: kind, level: level, fs: fs}, probe); err != nil {
						return err
					}
				}
			}
		}
		{
			// more than 268435455 bytes of filters; and the same denial 520 times over (more often
			// than there are slots for pending requests), then the probe
			fs := make([]string, 4097)
			f := strings.Repeat("f", 65535)
			for i := range fs {
				fs[i] = f
			}
			// (one oversized denial is enough to see a leak: the probe's packet identifier moves)
			var reps []int // the case term carries the 268 MB of filters: thorough tier only
			if tier == "thorough" {
				reps = []int{0}
			}
			for _, rep := range reps {
				repeat = rep
				err := run(fmt.Sprintf("deny-%s-packet-max-x%d", name, rep+1), c09Req{kind: kind, level: 1, fs: fs}, c09Req{kind: kind, level: 1, fs: []string{"probe/#"}})
				repeat = 0
				if err != nil {
					return err
				}
			}
			repeat = 520
			err := run(fmt.Sprintf("deny-%s-empty-filter-x521", name), c09Req{kind: kind, level: 1, fs: []string{"a", ""}}, c09Req{kind: kind, level: 1, fs: []string{"probe/#"}})
			repeat = 0
			if err != nil {
				return err
			}
		}
	}
	return nil
}

// Config.valid and InitSession
func c09Configs(cs *caseSet, r *rng, tier string) error {
	dial := (&simDialer{}).dial
	users := []string{"", "u", strings.Repeat("u", 65535), strings.Repeat("u", 65536), "\xff", "u\x00", "\xed\xa0\x80"}
	passes := [][]byte{nil, {}, []byte("p"), bytes.Repeat([]byte{0xff}, 65535), bytes.Repeat([]byte{0}, 65536)}
	wmsgs := [][]byte{nil, {}, []byte("m"), bytes.Repeat([]byte{0x80}, 65535), bytes.Repeat([]byte{'m'}, 65536)}
	wtopics := []string{"", "t", strings.Repeat("t", 65535), strings.Repeat("t", 65536), "\xff", "t\x00", "\xc0\x80"}
	mk := func(d, u, p, m, t int) mqtt.Config {
		var cfg mqtt.Config
		if d != 0 {
			cfg.Dialer = dial
		}
		cfg.UserName, cfg.Password, cfg.Will.Message, cfg.Will.Topic = users[u], passes[p], wmsgs[m], wtopics[t]
		return cfg
	}
	n := 0
	for d := 0; d < 2; d++ {
		for u := range users {
			for p := range passes {
				for m := range wmsgs {
					for t := range wtopics {
						// quick: every combination of up to two deviations from the plain
						// Config, and a sample of the rest
						dev := 0
						for _, x := range []bool{d == 0, u > 1, p > 2, m > 2, t > 1} {
							if x {
								dev++
							}
						}
						if tier != "thorough" && dev > 2 && !r.chance(1, 12) {
							continue
						}
						cfg := mk(d, u, p, m, t)
						code := c09ErrCode(mqtt.VerifConfigValid(&cfg))
						cs.add(fmt.Sprintf("ConfigCase %s %d", c09Config(&cfg), code),
							map[string]any{"kind": "config-valid", "dialer": d != 0, "user": u, "password": p, "will_message": m, "will_topic": t, "code": code},
							"config-valid", true)
						n++
					}
				}
			}
		}
	}
	// InitSession: the client identifier first, then the Config; nothing reaches the Persistence
	cids := []string{"", "c", strings.Repeat("c", 23), strings.Repeat("c", 24), strings.Repeat("c", 65535), strings.Repeat("c", 65536), "\xff", "c\x00", "\xf4\x90\x80\x80"}
	cfgs := []mqtt.Config{mk(1, 0, 0, 0, 0), mk(0, 0, 0, 0, 0), mk(1, 4, 0, 0, 0), mk(1, 3, 0, 0, 0), mk(1, 1, 4, 0, 0), mk(1, 1, 2, 4, 1),
		mk(1, 1, 2, 2, 0), mk(1, 1, 2, 0, 5), mk(1, 1, 2, 2, 4), mk(1, 2, 3, 3, 2), mk(0, 5, 4, 4, 3)}
	for _, cid := range cids {
		for ci := range cfgs {
			cfg := cfgs[ci]
			log := &evlog{}
			store := newSimStore(log)
			client, err := mqtt.InitSession(cid, store, &cfg)
			ops := len(log.take())
			code := c09ErrCode(err)
			cs.add(fmt.Sprintf("InitCase %s %s %d %d", c09Str(cid), c09Config(&cfg), code, ops),
				map[string]any{"kind": "init-session", "client_id_len": len(cid), "config": ci, "code": code, "persistence_ops": ops}, "init-session", true)
			if client != nil {
				client.Close()
			}
		}
	}
	return nil
}

func runC09(tier string, seed uint64, out string) error {
	if n := len(mqtt.VerifDenyErrs()); n != 7 {
		return fmt.Errorf("c09: denyErrs has %d entries, the result codes assume 7", n)
	}
	r := newRng(seed)
	cs := newCaseSet("C09", "C09Check", "c09case", "c09_run")
	c09Strings(cs, r, tier)
	if err := c09Emitted(cs, r, tier); err != nil {
		return err
	}
	if err := c09Pubrel(cs, tier); err != nil {
		return err
	}
	if err := c09Connect(cs, r, tier); err != nil {
		return err
	}
	if err := c09Configs(cs, r, tier); err != nil {
		return err
	}
	var big []byte
	if avail := c09MemAvailable(); avail >= 6<<30 {
		big = make([]byte, 268435456)
	} else {
		cs.extra["deny_packet_max_skipped"] = fmt.Sprintf("MemAvailable %d", avail)
	}
	if err := c09Denials(cs, tier, big); err != nil {
		return err
	}
	big = nil
	runtime.GC()
	if err := c09Max(cs, tier); err != nil {
		return err
	}
	cs.extra["strings_checked"] = c09Counted(cs)
	// spread the expensive cases (64 KiB strings, 4-byte blocks) over the shards
	sh := newRng(seed ^ 0xc09)
	for i := len(cs.terms) - 1; i > 0; i-- {
		j := sh.intn(i + 1)
		cs.terms[i], cs.terms[j] = cs.terms[j], cs.terms[i]
		cs.descs[i], cs.descs[j] = cs.descs[j], cs.descs[i]
	}
	return cs.write(out, 100)
}

// number of strings behind the string cases
func c09Counted(cs *caseSet) int {
	n := 0
	for _, d := range cs.descs {
		m, ok := d.(map[string]any)
		if !ok {
			continue
		}
		if s, ok := m["strings"].(int); ok {
			n += s
		} else if k, _ := m["kind"].(string); strings.HasPrefix(k, "strings-") {
			n++
		}
	}
	return n
}
