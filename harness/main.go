// Command harness drives the real pascaldekloe/mqtt code (built from /repo with
// -tags verif) and records what it does as Coq case files for the model.
// It is built as a test binary (go test -c) because testing/synctest needs a
// *testing.T; see harness_test.go.
package main

import (
	"flag"
	"fmt"
	"os"
)

type runner func(tier string, seed uint64, out string) error

var runners = map[string]runner{}

func realMain(args []string) int {
	fs := flag.NewFlagSet("harness", flag.ContinueOnError)
	prop := fs.String("prop", "", "property id, e.g. C15")
	tier := fs.String("tier", "quick", "quick|thorough")
	seed := fs.Uint64("seed", 1, "PRNG seed")
	out := fs.String("out", "", "output directory")
	if err := fs.Parse(args); err != nil {
		return 2
	}
	r, ok := runners[*prop]
	if !ok || *out == "" {
		fmt.Fprintf(os.Stderr, "usage: harness -prop Cxx -tier quick|thorough -seed N -out DIR\n")
		return 2
	}
	if err := r(*tier, *seed, *out); err != nil {
		fmt.Fprintf(os.Stderr, "harness %s: %v\n", *prop, err)
		return 3
	}
	return 0
}

func main() { os.Exit(realMain(os.Args[1:])) }
