// Command harness drives the real pascaldekloe/mqtt code (built from /repo with
// -tags verif) and records what it does as Coq case files for the model.
package main

import (
	"flag"
	"fmt"
	"os"
)

type runner func(tier string, seed uint64, out string) error

var runners = map[string]runner{}

func main() {
	prop := flag.String("prop", "", "property id, e.g. C15")
	tier := flag.String("tier", "quick", "quick|thorough")
	seed := flag.Uint64("seed", 1, "PRNG seed")
	out := flag.String("out", "", "output directory")
	flag.Parse()
	r, ok := runners[*prop]
	if !ok || *out == "" {
		fmt.Fprintf(os.Stderr, "usage: harness -prop Cxx -tier quick|thorough -seed N -out DIR\n")
		os.Exit(2)
	}
	if err := r(*tier, *seed, *out); err != nil {
		fmt.Fprintf(os.Stderr, "harness %s: %v\n", *prop, err)
		os.Exit(3)
	}
}
