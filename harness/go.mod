module verifharness

go 1.26

require github.com/pascaldekloe/mqtt v0.0.0

replace github.com/pascaldekloe/mqtt => /repo
