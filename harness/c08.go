package main

import "fmt"

func init() { runners["C08"] = runC08 }

// pubInbound is a QoS 0 PUBLISH from the broker, so that ReadSlices returns.
func pubInbound(topic string, msg []byte) []byte {
	body := append([]byte{byte(len(topic) >> 8), byte(len(topic))}, topic...)
	body = append(body, msg...)
	return append([]byte{0x30, byte(len(body))}, body...)
}

// connectQuiet brings the client online without random faults.
func (h *hist) connectQuiet() {
	h.sc.noFaults = true
	h.sc.inject = append(h.sc.inject, pubInbound("in/0", []byte{1}))
	h.doRead()
	h.sc.noFaults = false
}

func runC08(tier string, seed uint64, out string) error {
	type split struct {
		label string
		ws    []writeAns
	}
	// head buffer of Publish("t", 3 bytes) is 5 bytes, the message 3; the
	// SUBSCRIBE below is 9 bytes in one buffer.
	var splits []split
	for k := 0; k <= 6; k++ {
		for _, kind := range []int{wTimeout, wHard, wClosed} {
			splits = append(splits, split{fmt.Sprintf("first %d %s", k, coqWRes(kind)), []writeAns{{kind, k}}})
		}
	}
	for j := 0; j <= 4; j++ {
		for _, kind := range []int{wTimeout, wHard} {
			splits = append(splits, split{fmt.Sprintf("second %d %s", j, coqWRes(kind)), []writeAns{{wOk, 0}, {kind, j}}})
		}
	}
	for k := 1; k <= 4; k++ {
		for j := 0; j <= 5-k; j++ {
			splits = append(splits, split{fmt.Sprintf("first %d then %d timeouts", k, j), []writeAns{{wTimeout, k}, {wTimeout, j}}})
			splits = append(splits, split{fmt.Sprintf("first %d timeout then %d hard", k, j), []writeAns{{wTimeout, k}, {wHard, j}}})
		}
	}
	for j := 1; j <= 2; j++ {
		splits = append(splits, split{fmt.Sprintf("second %d timeout twice", j), []writeAns{{wOk, 0}, {wTimeout, j}, {wTimeout, 1}}})
	}
	kinds := []string{"publish", "publish-empty", "pubp1", "pubp2", "subscribe", "ping"}
	var gens []histGen
	for _, sp := range splits {
		for _, kind := range kinds {
			sp, kind := sp, kind
			gens = append(gens, func(i int, r *rng, stats map[string]int) (string, bool, map[string]any) {
				o := seqOpts{bufSize: 256, pause: true, max1: 4, max2: 4, steps: 4}
				return runScripted(r, o, stats, func(h *hist) {
					h.label = "split " + kind + ": " + sp.label
					h.nontriv = true
					h.connectQuiet()
					h.sc.noFaults = true
					h.sc.wscript = append([]writeAns(nil), sp.ws...)
					switch kind {
					case "publish":
						h.publish(false, []byte{7, 8, 9}, "t")
					case "publish-empty":
						h.publish(true, nil, "t")
					case "pubp1":
						h.pubP(1, false, []byte{7, 8, 9}, "t")
					case "pubp2":
						h.pubP(2, true, []byte{7, 8, 9}, "t")
					case "subscribe":
						h.subscribe(1, []string{"a/b"})
					case "ping":
						h.ping()
					}
					h.sc.wscript = nil
					h.sc.inject = append(h.sc.inject, pubInbound("in/1", []byte{2}))
					h.doRead()
					// whatever became of the first request, the next one goes out as a whole packet
					// on a connection that carries whole packets only
					h.publish(false, []byte{1}, "u")
					h.sc.noFaults = false
					h.doRead()
				})
			})
		}
	}
	nrand := 40
	if tier == "thorough" {
		nrand = 1200
	}
	for i := 0; i < nrand; i++ {
		gens = append(gens, randomGen(func(r *rng, i int) seqOpts {
			return seqOpts{bufSize: 256, pause: r.chance(4, 5), max1: 8, max2: 8, clean: r.chance(1, 3),
				faultRate: []int{100, 200, 350}[r.intn(3)], lossRate: 100, steps: 15 + r.intn(25), adoptRate: 2}
		}))
	}
	return runGen("C08", "C08Check", "c08_run", seed, len(gens), func(i int, r *rng, stats map[string]int) (string, bool, map[string]any) {
		return gens[i](i, r, stats)
	}, out, 20)
}
