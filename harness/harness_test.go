package main

import (
	"os"
	"strings"
	"testing"
)

// TestHarness is the entry point of the test binary:
//
//	VERIF_ARGS="-prop C01 -tier quick -seed 1 -out DIR" harness.test -test.run '^TestHarness$' -test.timeout 0
func TestHarness(t *testing.T) {
	theT = t
	if code := realMain(strings.Fields(os.Getenv("VERIF_ARGS"))); code != 0 {
		t.Fatalf("harness exit code %d", code)
	}
}
