package main

// C06: inbound messages byte-exact under any fragmentation and size.
//
// A real mqtt.Client (volatile session) is connected through a scripted
// connection. The broker side serves a CONNACK and a stream of well-formed
// packets cut into conn.Read answers in many ways, with deadline expiries at
// the cuts. Every ReadSlices return (and BigMessage.ReadAll) is recorded
// together with every conn.Read (deadline armed since the last read, deadline
// set, slice size, answer) and the acknowledgements written.

import (
	"bufio"
	"bytes"
	"errors"
	"fmt"
	"io"
	"net"
	"os"
	"regexp"
	"strconv"
	"strings"
	"sync"
	"time"

	"context"

	"github.com/pascaldekloe/mqtt"
)

func init() { runners["C06"] = runC06 }

// c06Conn adds to simConn the one fact the read log lacks: whether a read
// deadline was (re)armed since the previous conn.Read.
type c06Conn struct {
	*simConn
	fresh    bool
	curFresh bool
	freshLog []bool
}

func (c *c06Conn) Read(p []byte) (int, error) {
	c.curFresh = c.fresh
	c.fresh = false
	c.freshLog = append(c.freshLog, c.curFresh)
	return c.simConn.Read(p)
}
func (c *c06Conn) SetReadDeadline(t time.Time) error {
	if !t.IsZero() {
		c.fresh = true
	}
	return c.simConn.SetReadDeadline(t)
}
func (c *c06Conn) SetDeadline(t time.Time) error {
	if !t.IsZero() {
		c.fresh = true
	}
	return c.simConn.SetDeadline(t)
}

// one step of the broker's delivery plan
type c06Op struct {
	n   int  // > 0: offer this many bytes; 0: deadline expiry
	any bool // expiry even when no byte arrived since the deadline was armed
}

type c06Req struct {
	kind    string // alo eo sub unsub ping
	topic   string
	msg     []byte
	filters []string
	expect  []byte // the packet the client must write
}

type c06Scenario struct {
	B       int // 0: default buffer size
	pause   bool
	stream  []byte
	plan    []c06Op
	reqs    []c06Req
	choices []bool
	strat   string
}

type c06Ret struct {
	kind       string // msg big err
	msg, topic []byte
	size       int
	read       bool
	cls        string
}

func (r c06Ret) String() string { return fmt.Sprintf("%s %s %d", r.kind, r.cls, r.size) }

type c06Result struct {
	events                []event
	fresh                 []bool
	returns               []c06Ret
	acks                  []byte
	nTimeout, nNoProgress int
	dials                 int
}

// c06Bytes renders long byte strings in segments, lengths as binary numbers.
func c06Bytes(b []byte) string {
	if len(b) <= 96 {
		return coqBytes(b)
	}
	const seg = 64
	var parts []string
	for off := 0; off < len(b); off += seg {
		end := min(off+seg, len(b))
		parts = append(parts, fmt.Sprintf("BN %d 0x%x", end-off, b[off:end]))
	}
	return "(" + strings.Join(parts, " ++ ") + ")"
}

func c06Varint(n int) []byte {
	var b []byte
	for ; n > 0x7f; n >>= 7 {
		b = append(b, byte(n|0x80))
	}
	return append(b, byte(n))
}

func c06Packet(head byte, body []byte) []byte {
	p := append([]byte{head}, c06Varint(len(body))...)
	return append(p, body...)
}

func c06Publish(qos int, retain, dup bool, topic string, id uint16, payload []byte) []byte {
	head := byte(0x30 | qos<<1)
	if retain {
		head |= 1
	}
	if dup {
		head |= 8
	}
	body := []byte{byte(len(topic) >> 8), byte(len(topic))}
	body = append(body, topic...)
	if qos > 0 {
		body = append(body, byte(id>>8), byte(id))
	}
	body = append(body, payload...)
	return c06Packet(head, body)
}

func c06Ack(head byte, id uint16) []byte { return []byte{head, 2, byte(id >> 8), byte(id)} }

func c06Class(err error) string {
	var ne net.Error
	switch {
	case errors.Is(err, io.EOF):
		return "CEOF"
	case errors.As(err, &ne) && ne.Timeout():
		return "CTimeout"
	case errors.Is(err, mqtt.VerifProtoReset()):
		return "CProto"
	}
	return "COther"
}

// c06Run executes one history.
func c06Run(sc *c06Scenario) (*c06Result, error) {
	if sc.B != 0 {
		restore := mqtt.VerifSetReadBufSize(sc.B)
		defer restore()
	}
	log := &evlog{}
	conn := &c06Conn{simConn: &simConn{id: 0, log: log}}
	pos := 0
	plan := sc.plan
	res := &c06Result{}
	conn.onRead = func(c *simConn, armed bool, want int) readAns {
		for len(plan) > 0 {
			op := plan[0]
			plan = plan[1:]
			if op.n > 0 {
				n := min(op.n, len(sc.stream)-pos)
				if n == 0 {
					continue
				}
				d := sc.stream[pos : pos+n]
				pos += n
				return readAns{kind: rData, data: d}
			}
			// Expiry only while a deadline is set, and not inside the CONNACK
			// (the handshake applies one deadline to the whole response).
			if !armed || pos < 4 || pos >= len(sc.stream) {
				continue
			}
			if !op.any && conn.curFresh {
				continue // would be an expiry without progress
			}
			res.nTimeout++
			if conn.curFresh {
				res.nNoProgress++
			}
			return readAns{kind: rTimeout}
		}
		if pos < len(sc.stream) {
			d := sc.stream[pos:]
			pos = len(sc.stream)
			return readAns{kind: rData, data: d}
		}
		return readAns{kind: rEOF}
	}
	sig := make(chan struct{}, 1)
	conn.onWrite = func(c *simConn, p []byte) writeAns {
		select {
		case sig <- struct{}{}:
		default:
		}
		return writeAns{kind: wOk}
	}
	written := func() []byte {
		conn.simConn.mu.Lock()
		defer conn.simConn.mu.Unlock()
		return append([]byte(nil), conn.simConn.written...)
	}
	waitWritten := func(n int) error {
		deadline := time.After(5 * time.Second)
		for {
			if len(written()) >= n {
				return nil
			}
			select {
			case <-sig:
			case <-time.After(5 * time.Millisecond):
			case <-deadline:
				return fmt.Errorf("request not written: have %d want %d bytes", len(written()), n)
			}
		}
	}
	dials := 0
	dial := func(ctx context.Context) (net.Conn, error) {
		dials++
		if dials > 1 {
			return nil, errSimDial
		}
		return conn, nil
	}
	cfg := &mqtt.Config{Dialer: dial, CleanSession: true, AtLeastOnceMax: 8, ExactlyOnceMax: 8}
	if sc.pause {
		cfg.PauseTimeout = time.Second
	}
	client, err := mqtt.VolatileSession("c06", cfg)
	if err != nil {
		return nil, err
	}
	var wg sync.WaitGroup
	reqErr := make(chan error, 16)
	ackStart := -1
	choices := sc.choices
	requested := false

	// a panic inside the client is a result like any other error (and the end of the history)
	safeRead := func() (msg, topic []byte, err error) {
		defer func() {
			if r := recover(); r != nil {
				fmt.Fprintf(os.Stderr, "client panic: %v\n", r)
				msg, topic, err = nil, nil, errPanic
			}
		}()
		return client.ReadSlices()
	}
	for {
		msg, topic, err := safeRead()
		if err == nil {
			res.returns = append(res.returns, c06Ret{kind: "msg", msg: append([]byte(nil), msg...), topic: append([]byte(nil), topic...)})
			if !requested {
				requested = true
				// the client is online: place the test's own requests
				for i := range sc.reqs {
					rq := &sc.reqs[i]
					before := len(written())
					switch rq.kind {
					case "alo":
						if _, err := client.PublishAtLeastOnce(rq.msg, rq.topic); err != nil {
							return nil, fmt.Errorf("PublishAtLeastOnce: %w", err)
						}
					case "eo":
						if _, err := client.PublishExactlyOnce(rq.msg, rq.topic); err != nil {
							return nil, fmt.Errorf("PublishExactlyOnce: %w", err)
						}
					case "sub":
						wg.Add(1)
						go func() { defer wg.Done(); reqErr <- client.Subscribe(nil, rq.filters...) }()
					case "unsub":
						wg.Add(1)
						go func() { defer wg.Done(); reqErr <- client.Unsubscribe(nil, rq.filters...) }()
					case "ping":
						wg.Add(1)
						go func() { defer wg.Done(); reqErr <- client.Ping(nil) }()
					}
					if err := waitWritten(before + len(rq.expect)); err != nil {
						return nil, err
					}
					w := written()
					if string(w[before:]) != string(rq.expect) {
						return nil, fmt.Errorf("request %s wrote %x, predicted %x", rq.kind, w[before:], rq.expect)
					}
				}
				ackStart = len(written())
			}
			continue
		}
		var big *mqtt.BigMessage
		if errors.As(err, &big) {
			read := false
			if len(choices) > 0 {
				read = choices[0]
				choices = choices[1:]
			}
			if !read {
				res.returns = append(res.returns, c06Ret{kind: "big", topic: []byte(big.Topic), size: big.Size})
				continue
			}
			content, rerr := big.ReadAll()
			if rerr != nil {
				res.returns = append(res.returns, c06Ret{kind: "big", topic: []byte(big.Topic), size: big.Size, read: true, cls: c06Class(rerr)})
				break
			}
			res.returns = append(res.returns, c06Ret{kind: "big", topic: []byte(big.Topic), size: big.Size, read: true, msg: content})
			continue
		}
		res.returns = append(res.returns, c06Ret{kind: "err", cls: c06Class(err)})
		if c06Class(err) == "CTimeout" {
			// The connection must have been dropped: the next call dials
			// again (refused by the harness) and reads nothing more.
			_, _, err2 := safeRead()
			if err2 == nil {
				res.returns = append(res.returns, c06Ret{kind: "msg"})
			} else if errors.As(err2, &big) {
				res.returns = append(res.returns, c06Ret{kind: "big", size: big.Size})
			} else {
				res.returns = append(res.returns, c06Ret{kind: "err", cls: c06Class(err2)})
			}
		}
		break
	}
	w := written()
	if ackStart < 0 {
		ackStart = len(w)
	}
	res.acks = w[ackStart:]
	res.dials = dials
	// the history ends here; what follows only lets the client wind down
	for _, e := range log.take() {
		if e.Kind == "read" {
			res.events = append(res.events, e)
		}
	}
	res.fresh = append([]bool(nil), conn.freshLog...)
	client.Close()
	for i := 0; i < 8; i++ {
		if _, _, err := safeRead(); errors.Is(err, mqtt.ErrClosed) {
			break
		}
	}
	done := make(chan struct{})
	go func() { wg.Wait(); close(done) }()
	select {
	case <-done:
	case <-time.After(5 * time.Second):
		return nil, errors.New("request goroutines did not finish")
	}
	if len(res.fresh) != len(res.events) {
		return nil, fmt.Errorf("read log: %d events, %d deadline flags", len(res.events), len(res.fresh))
	}
	return res, nil
}

func c06Term(sc *c06Scenario, res *c06Result) string {
	B := sc.B
	if B == 0 {
		B = defaultReadBuf()
	}
	if B < 16 {
		B = 16
	}
	// long byte strings that are slices of the stream are named by position
	ref := func(b []byte) string {
		if len(b) > 160 {
			if i := bytes.Index(sc.stream, b); i >= 0 {
				return fmt.Sprintf("(sub S %d %d)", i, len(b))
			}
		}
		return c06Bytes(b)
	}
	evs := make([]string, len(res.events))
	for i, e := range res.events {
		ans := coqRAns(e.Ans, e.Data)
		if e.Ans == rData {
			ans = "(RData " + ref(e.Data) + ")"
		}
		evs[i] = fmt.Sprintf("(%s, %s, %d, %s)", coqBool(res.fresh[i]), coqBool(e.Armed), e.Want, ans)
	}
	rets := make([]string, len(res.returns))
	for i, r := range res.returns {
		switch r.kind {
		case "msg":
			rets[i] = fmt.Sprintf("RetMsg %s %s", ref(r.msg), ref(r.topic))
		case "big":
			rd := "BigNotRead"
			if r.read && r.cls != "" {
				rd = "(BigReadErr " + r.cls + ")"
			} else if r.read {
				rd = "(BigContent " + ref(r.msg) + ")"
			}
			rets[i] = fmt.Sprintf("RetBig %s %d %s", ref(r.topic), r.size, rd)
		default:
			rets[i] = "RetErr " + r.cls
		}
	}
	ch := make([]string, len(sc.choices))
	for i, c := range sc.choices {
		ch[i] = coqBool(c)
	}
	return fmt.Sprintf("(let S := %s in StreamCase %d %s S %s [%s] [%s] %s %d)", c06Bytes(sc.stream), B, coqBool(sc.pause),
		coqList(ch), strings.Join(evs, "; "), strings.Join(rets, "; "), c06Bytes(res.acks), res.dials)
}

// ---------------------------------------------------------------------------
// stream generation

type c06Stream struct {
	bytes  []byte
	reqs   []c06Req
	nBig   int
	desc   []string
	bounds []int // packet boundaries (offsets)
}

func c06Topic(r *rng, n int) string {
	const alpha = "abcdefghijklmnopqrstuvwxyz/0123456789"
	b := make([]byte, n)
	for i := range b {
		b[i] = alpha[r.intn(len(alpha))]
	}
	if n > 0 && b[0] == '/' {
		b[0] = 't'
	}
	return string(b)
}

// payload sizes in relation to the buffer size and to the PUBLISH header
func c06PayloadSize(r *rng, B, hdr int, small bool) int {
	opts := []int{0, 1, 2, 5, B - hdr - 1, B - hdr, B - hdr + 1, B - 2, B - 1, B, B + 1, B + 2, 2 * B, 3*B + 1}
	if small {
		opts = []int{0, 1, 2, 3, 5, 7, B - hdr - 1, B - hdr}
	}
	n := opts[r.intn(len(opts))]
	if n < 0 {
		n = 0
	}
	return n
}

type c06Item struct {
	pkt  []byte
	desc string
	big  bool
}

// c06GenStream builds CONNACK, a first PUBLISH (after which the test places its
// requests), the responses to those requests and a mix of inbound publishes.
func c06GenStream(r *rng, B int, nIn int, smallOnly bool) *c06Stream {
	effB := B
	st := &c06Stream{}
	// the test's own requests, identifiers as the client will assign them
	nAlo, nEo := r.intn(3), r.intn(3)
	nSub, nUnsub, nPing := r.intn(3), r.intn(2), r.intn(2)
	var qAck, qEo, qUn, qPing []c06Item
	for i := 0; i < nAlo; i++ {
		topic, msg := c06Topic(r, 1+r.intn(6)), r.bytes(r.intn(9))
		id := uint16(0x8000 | i)
		st.reqs = append(st.reqs, c06Req{kind: "alo", topic: topic, msg: msg, expect: c06Publish(1, false, false, topic, id, msg)})
		qAck = append(qAck, c06Item{pkt: c06Ack(0x40, id), desc: "PUBACK"})
	}
	var rec, comp []c06Item
	for i := 0; i < nEo; i++ {
		topic, msg := c06Topic(r, 1+r.intn(6)), r.bytes(r.intn(9))
		id := uint16(0xc000 | i)
		st.reqs = append(st.reqs, c06Req{kind: "eo", topic: topic, msg: msg, expect: c06Publish(2, false, false, topic, id, msg)})
		rec = append(rec, c06Item{pkt: c06Ack(0x50, id), desc: "PUBREC"})
		comp = append(comp, c06Item{pkt: c06Ack(0x70, id), desc: "PUBCOMP"})
	}
	if r.chance(1, 2) {
		qEo = append(append(qEo, rec...), comp...)
	} else {
		for i := range rec {
			qEo = append(qEo, rec[i], comp[i])
		}
	}
	unordered := 0
	for i := 0; i < nSub; i++ {
		nf := 1 + r.intn(3)
		var filters []string
		body := []byte{0, 0}
		codes := []byte{}
		for j := 0; j < nf; j++ {
			f := c06Topic(r, 1+r.intn(5))
			filters = append(filters, f)
			body = append(body, byte(len(f)>>8), byte(len(f)))
			body = append(body, f...)
			body = append(body, 2)
			codes = append(codes, []byte{0, 1, 2, 0x80}[r.intn(4)])
		}
		id := uint16(unordered&0x1fff | 0x6000)
		unordered++
		body[0], body[1] = byte(id>>8), byte(id)
		st.reqs = append(st.reqs, c06Req{kind: "sub", filters: filters, expect: c06Packet(0x82, body)})
		qUn = append(qUn, c06Item{pkt: c06Packet(0x90, append([]byte{byte(id >> 8), byte(id)}, codes...)), desc: "SUBACK"})
	}
	for i := 0; i < nUnsub; i++ {
		f := c06Topic(r, 1+r.intn(5))
		id := uint16(unordered&0x1fff | 0x4000)
		unordered++
		body := []byte{byte(id >> 8), byte(id), byte(len(f) >> 8), byte(len(f))}
		body = append(body, f...)
		st.reqs = append(st.reqs, c06Req{kind: "unsub", filters: []string{f}, expect: c06Packet(0xa2, body)})
		qUn = append(qUn, c06Item{pkt: c06Ack(0xb0, id), desc: "UNSUBACK"})
	}
	// responses to SUBSCRIBE/UNSUBSCRIBE may come in any order
	for i := len(qUn) - 1; i > 0; i-- {
		j := r.intn(i + 1)
		qUn[i], qUn[j] = qUn[j], qUn[i]
	}
	for i := 0; i < nPing; i++ {
		st.reqs = append(st.reqs, c06Req{kind: "ping", expect: []byte{0xc0, 0}})
		qPing = append(qPing, c06Item{pkt: []byte{0xd0, 0}, desc: "PINGRESP"})
	}
	// inbound publishes; exactly-once ones get their PUBREL and sometimes a duplicate
	var qIn []c06Item
	usedID := map[uint16]bool{}
	var pendingRel [][]c06Item
	for i := 0; i < nIn; i++ {
		qos := r.intn(3)
		retain := r.chance(1, 4)
		dup := qos > 0 && r.chance(1, 6)
		maxTopic := min(effB-4, 24)
		topic := c06Topic(r, 1+r.intn(maxTopic))
		if r.chance(1, 8) {
			topic = c06Topic(r, maxTopic) // header right up to the buffer size when B = 16
		}
		hdr := 2 + len(topic)
		if qos > 0 {
			hdr += 2
		}
		size := c06PayloadSize(r, effB, hdr, smallOnly)
		payload := r.bytes(size)
		var id uint16
		if qos > 0 {
			for {
				id = uint16(1 + r.intn(200))
				if !usedID[id] {
					usedID[id] = true
					break
				}
			}
		}
		big := hdr+size > effB
		d := fmt.Sprintf("PUBLISH q%d %dB", qos, size)
		if big {
			d += " big"
		}
		qIn = append(qIn, c06Item{pkt: c06Publish(qos, retain, dup, topic, id, payload), desc: d, big: big})
		if qos == 2 {
			var follow []c06Item
			if r.chance(1, 2) {
				// the broker missed the PUBREC: same packet again with the DUP flag
				follow = append(follow, c06Item{pkt: c06Publish(qos, retain, true, topic, id, payload), desc: d + " duplicate"})
			}
			follow = append(follow, c06Item{pkt: c06Ack(0x62, id), desc: "PUBREL"})
			pendingRel = append(pendingRel, follow)
		}
		// release some of the open exactly-once flows
		for len(pendingRel) > 0 && r.chance(1, 2) {
			k := r.intn(len(pendingRel))
			qIn = append(qIn, pendingRel[k][0])
			pendingRel[k] = pendingRel[k][1:]
			if len(pendingRel[k]) == 0 {
				pendingRel = append(pendingRel[:k], pendingRel[k+1:]...)
			}
		}
	}
	for _, f := range pendingRel {
		qIn = append(qIn, f...)
	}
	// merge the queues, keeping the order inside each
	queues := [][]c06Item{qAck, qEo, qUn, qPing, qIn}
	st.bytes = []byte{0x20, 2, 0, 0}
	st.bounds = append(st.bounds, 4)
	first := c06Publish(0, false, false, "m", 0, []byte("go"))
	st.bytes = append(st.bytes, first...)
	st.bounds = append(st.bounds, len(st.bytes))
	st.desc = append(st.desc, "CONNACK", "PUBLISH q0 2B")
	for {
		total := 0
		for _, q := range queues {
			total += len(q)
		}
		if total == 0 {
			break
		}
		k := r.intn(total)
		for qi := range queues {
			if k < len(queues[qi]) {
				it := queues[qi][0]
				queues[qi] = queues[qi][1:]
				st.bytes = append(st.bytes, it.pkt...)
				st.bounds = append(st.bounds, len(st.bytes))
				st.desc = append(st.desc, it.desc)
				if it.big {
					st.nBig++
				}
				break
			}
			k -= len(queues[qi])
		}
	}
	return st
}

// ---------------------------------------------------------------------------
// fragmentation plans

func c06PlanCut(total, k int, timeout, any bool) []c06Op {
	p := []c06Op{{n: k}}
	if timeout {
		p = append(p, c06Op{any: any})
	}
	return append(p, c06Op{n: total - k})
}

func c06PlanBytes(total int, timeouts bool) []c06Op {
	var p []c06Op
	for i := 0; i < total; i++ {
		p = append(p, c06Op{n: 1})
		if timeouts {
			p = append(p, c06Op{})
		}
	}
	return p
}

func c06PlanRandom(r *rng, total, maxChunk int, toNum, toDen int, anyNum, anyDen int) []c06Op {
	var p []c06Op
	for left := total; left > 0; {
		n := 1 + r.intn(maxChunk)
		if n > left {
			n = left
		}
		left -= n
		p = append(p, c06Op{n: n})
		if r.chance(toNum, toDen) {
			p = append(p, c06Op{any: r.chance(anyNum, anyDen)})
		}
	}
	return p
}

// ---------------------------------------------------------------------------
// bufio.Reader micro-correspondence

type c06Source struct {
	r     *rng
	reads []string // (want, answer) per Read, as Coq terms
	left  int      // reads still to be answered from the script; then EOF
}

func (s *c06Source) Read(p []byte) (int, error) {
	kind := rEOF
	if s.left > 0 {
		s.left--
		switch k := s.r.intn(20); {
		case k < 14:
			kind = rData
		case k < 17:
			kind = rTimeout
		case k < 18:
			kind = rEOF
		case k < 19:
			kind = rClosed
		default:
			kind = rHard
		}
	}
	if kind == rData {
		n := 1 + s.r.intn(len(p))
		if s.r.chance(1, 4) {
			n = len(p)
		}
		d := s.r.bytes(n)
		copy(p, d)
		s.reads = append(s.reads, fmt.Sprintf("(%d, %s)", len(p), coqRAns(rData, d)))
		return n, nil
	}
	s.reads = append(s.reads, fmt.Sprintf("(%d, %s)", len(p), coqRAns(kind, nil)))
	switch kind {
	case rTimeout:
		return 0, errSimTimeout
	case rEOF:
		return 0, io.EOF
	case rClosed:
		return 0, net.ErrClosed
	}
	return 0, errSimHard
}

func c06ErrCode(err error) int {
	var ne net.Error
	switch {
	case err == nil:
		return 0
	case errors.Is(err, bufio.ErrBufferFull):
		return 5
	case errors.Is(err, io.EOF):
		return 2
	case errors.Is(err, net.ErrClosed):
		return 3
	case errors.As(err, &ne) && ne.Timeout():
		return 1
	case errors.Is(err, errSimHard):
		return 4
	}
	return 7
}

func c06BufioCase(r *rng, B int) (string, int) {
	src := &c06Source{r: r, left: 4 + r.intn(30)}
	br := bufio.NewReaderSize(src, B)
	nops := 5 + r.intn(40)
	var ops, results []string
	for i := 0; i < nops; i++ {
		switch r.intn(4) {
		case 0:
			b, err := br.ReadByte()
			ops = append(ops, "OpReadByte")
			if err != nil {
				results = append(results, fmt.Sprintf("([], 0, %d)", c06ErrCode(err)))
			} else {
				results = append(results, fmt.Sprintf("([%d], 1, 0)", b))
			}
		case 1:
			n := r.intn(B + 4)
			p, err := br.Peek(n)
			ops = append(ops, fmt.Sprintf("OpPeek %d", n))
			results = append(results, fmt.Sprintf("(%s, %d, %d)", coqBytes(p), len(p), c06ErrCode(err)))
		case 2:
			n := r.intn(2*B + 2)
			d, err := br.Discard(n)
			ops = append(ops, fmt.Sprintf("OpDiscard %d", n))
			results = append(results, fmt.Sprintf("([], %d, %d)", d, c06ErrCode(err)))
		default:
			n := 1 + r.intn(2*B+2)
			p := make([]byte, n)
			m, err := br.Read(p)
			ops = append(ops, fmt.Sprintf("OpRead %d", n))
			results = append(results, fmt.Sprintf("(%s, %d, %d)", coqBytes(p[:m]), m, c06ErrCode(err)))
		}
	}
	return fmt.Sprintf("BufioCase %d %s %s %s", B, coqList(ops), coqList(src.reads), coqList(results)), len(src.reads)
}

type c06Pending struct {
	term string
	desc any
	kind string
	nt   bool
}

const c06Shard = 60

func runC06(tier string, seed uint64, out string) error {
	r := newRng(seed)
	cs := newCaseSet("C06", "C06Check", "c06case", "c06_run")
	scale := 1
	if tier == "thorough" {
		scale = 10
	}
	var firstErr error
	var regular, heavy []c06Pending
	totals := map[string]int{}
	nTimeout, nNoProgress, nErrRet, nBigRet := 0, 0, 0, 0
	add := func(sc *c06Scenario, st *c06Stream) {
		if firstErr != nil {
			return
		}
		res, err := c06Run(sc)
		if err != nil {
			firstErr = fmt.Errorf("%s B=%d: %w", sc.strat, sc.B, err)
			return
		}
		nTimeout += res.nTimeout
		nNoProgress += res.nNoProgress
		for _, rt := range res.returns {
			if rt.kind == "big" {
				nBigRet++
			}
		}
		last := res.returns[len(res.returns)-1].String()
		if last != "err CEOF 0" {
			nErrRet++
		}
		desc := map[string]any{"kind": sc.strat, "B": sc.B, "pause": sc.pause, "stream_len": len(sc.stream),
			"packets": st.desc, "reads": len(res.events), "expiries": res.nTimeout,
			"expiries_without_progress": res.nNoProgress, "last_return": last}
		if len(sc.stream) <= 600 {
			desc["stream"] = fmt.Sprintf("%x", sc.stream)
			ops := make([]int, len(sc.plan))
			for i, op := range sc.plan {
				ops[i] = op.n
				if op.n == 0 && op.any {
					ops[i] = -1
				}
			}
			desc["plan"] = ops
		}
		pc := c06Pending{term: c06Term(sc, res), desc: desc, kind: sc.strat, nt: len(res.events) > 2}
		if sc.B == 0 {
			heavy = append(heavy, pc)
		} else {
			regular = append(regular, pc)
		}
		totals[sc.strat]++
	}
	mkChoices := func(n int, mode int) []bool {
		ch := make([]bool, n)
		for i := range ch {
			switch mode {
			case 0:
				ch[i] = true
			case 1:
				ch[i] = false
			default:
				ch[i] = r.chance(1, 2)
			}
		}
		return ch
	}
	for _, B := range []int{16, 32, 64, 256} {
		nStreams := 6 * scale
		for si := 0; si < nStreams; si++ {
			nIn := 3 + r.intn(4)
			st := c06GenStream(r, B, nIn, si%6 == 5)
			total := len(st.bytes)
			base := func(strat string, pause bool, plan []c06Op) *c06Scenario {
				return &c06Scenario{B: B, pause: pause, stream: st.bytes, plan: plan, reqs: st.reqs,
					choices: mkChoices(st.nBig+1, r.intn(3)), strat: strat}
			}
			// unfragmented, with and without PauseTimeout
			add(base("whole", true, []c06Op{{n: total}}), st)
			add(base("whole", false, []c06Op{{n: total}}), st)
			// every packet in its own read
			{
				var plan []c06Op
				prev := 0
				for _, b := range st.bounds {
					plan = append(plan, c06Op{n: b - prev})
					prev = b
				}
				add(base("per-packet", true, plan), st)
			}
			// all 1-byte reads
			add(base("bytes", false, c06PlanBytes(total, false)), st)
			add(base("bytes", true, c06PlanBytes(total, false)), st)
			add(base("bytes+expiry", true, c06PlanBytes(total, true)), st)
			// every single cut position (first two streams of each size: all of
			// them; others: sampled), plain and with an expiry at the cut
			step := 1
			if si >= 1 || total > 300 {
				step = 1 + total/20
			}
			for k := 1 + r.intn(step); k < total; k += step {
				add(base("cut", r.chance(1, 2), c06PlanCut(total, k, false, false)), st)
				add(base("cut+expiry", true, c06PlanCut(total, k, true, false)), st)
			}
			// random multi-cuts with progress-making expiries
			for i := 0; i < 8; i++ {
				maxChunk := []int{2, 3, 5, B / 2, B, 2 * B, 3 * B}[r.intn(7)]
				add(base("random", r.chance(1, 3), c06PlanRandom(r, total, maxChunk, 0, 1, 0, 1)), st)
				add(base("random+expiry", true, c06PlanRandom(r, total, maxChunk, 1, 2, 0, 1)), st)
			}
			// expiries without progress: an error is the correct outcome
			for i := 0; i < 6; i++ {
				maxChunk := []int{2, 5, B / 2, B, 2 * B}[r.intn(5)]
				add(base("no-progress", true, c06PlanRandom(r, total, maxChunk, 1, 3, 1, 3)), st)
			}
			for i := 0; i < 4; i++ {
				k := 5 + r.intn(total-5)
				add(base("no-progress-cut", true, c06PlanCut(total, k, true, true)), st)
			}
		}
	}
	// a stall while a duplicate big message is being skipped: the error return
	// must drop the connection (the stream position is inside the payload)
	for _, B := range []int{16, 32, 64, 256} {
		for v := 0; v < 6*scale; v++ {
			st := &c06Stream{bytes: []byte{0x20, 2, 0, 0}, bounds: []int{4}, desc: []string{"CONNACK"}}
			addPkt := func(p []byte, d string, big bool) {
				st.bytes = append(st.bytes, p...)
				st.bounds = append(st.bounds, len(st.bytes))
				st.desc = append(st.desc, d)
				if big {
					st.nBig++
				}
			}
			addPkt(c06Publish(0, false, false, "m", 0, []byte("go")), "PUBLISH q0 2B", false)
			topic := c06Topic(r, 1+r.intn(min(B-4, 10)))
			n := B + 1 + r.intn(2*B)
			payload := r.bytes(n)
			addPkt(c06Publish(2, false, false, topic, 5, payload), fmt.Sprintf("PUBLISH q2 %dB big", n), true)
			dupStart := len(st.bytes)
			addPkt(c06Publish(2, false, true, topic, 5, payload), fmt.Sprintf("PUBLISH q2 %dB big duplicate", n), false)
			addPkt(c06Ack(0x62, 5), "PUBREL", false)
			addPkt(c06Publish(0, false, false, "tail", 0, []byte{1, 2, 3}), "PUBLISH q0 3B", false)
			total := len(st.bytes)
			k := dupStart + B + 4 + r.intn(n-B)
			plan := []c06Op{{n: k}, {any: true}, {any: true}, {n: total - k}}
			if v%3 == 2 {
				plan = []c06Op{{n: k}, {}, {n: total - k}} // progress-making only: must be tolerated
			}
			add(&c06Scenario{B: B, pause: true, stream: st.bytes, plan: plan,
				choices: mkChoices(st.nBig+1, r.intn(3)), strat: "dup-big-stall"}, st)
		}
	}
	// the default buffer size (128 KiB)
	{
		B := defaultReadBuf()
		nDef := 3 * scale
		for si := 0; si < nDef; si++ {
			st := &c06Stream{bytes: []byte{0x20, 2, 0, 0}, bounds: []int{4}, desc: []string{"CONNACK"}}
			addPkt := func(p []byte, d string, big bool) {
				st.bytes = append(st.bytes, p...)
				st.bounds = append(st.bounds, len(st.bytes))
				st.desc = append(st.desc, d)
				if big {
					st.nBig++
				}
			}
			addPkt(c06Publish(0, false, false, "m", 0, []byte("go")), "PUBLISH q0 2B", false)
			topic := c06Topic(r, 1+r.intn(300))
			hdr := 4 + len(topic)
			var plan []c06Op
			strat := ""
			switch si % 3 {
			case 0: // exactly one buffer-load: not a big message
				n := B - hdr
				addPkt(c06Publish(1, false, false, topic, 7, r.bytes(n)), fmt.Sprintf("PUBLISH q1 %dB", n), false)
				strat = "default-random+expiry"
			case 1: // one byte more
				n := B - hdr + 1
				addPkt(c06Publish(1, true, false, topic, 7, r.bytes(n)), fmt.Sprintf("PUBLISH q1 %dB big", n), true)
				strat = "default-cut+expiry"
			default: // beyond two buffers, exactly-once, with its release
				n := 2*B + 1
				addPkt(c06Publish(2, false, false, topic, 9, r.bytes(n)), fmt.Sprintf("PUBLISH q2 %dB big", n), true)
				addPkt(c06Ack(0x62, 9), "PUBREL", false)
				strat = "default-whole"
			}
			addPkt(c06Publish(0, true, false, "after", 0, []byte("aligned")), "PUBLISH q0 7B", false)
			total := len(st.bytes)
			switch si % 3 {
			case 0:
				plan = c06PlanRandom(r, total, 70000, 1, 2, 0, 1)
			case 1:
				plan = c06PlanCut(total, B/2+r.intn(B/2), true, false)
			default:
				plan = []c06Op{{n: total}}
			}
			add(&c06Scenario{B: 0, pause: true, stream: st.bytes, plan: plan,
				choices: mkChoices(st.nBig+1, 0), strat: strat}, st)
		}
	}
	// the longest topics the protocol allows (the length is a 16-bit number: 65533..65535), at
	// each level, with the default buffer size
	for i, tl := range []int{65535, 65534, 65533} {
		for rep := 0; rep < scale; rep++ {
			st := &c06Stream{bytes: []byte{0x20, 2, 0, 0}, bounds: []int{4}, desc: []string{"CONNACK"}}
			addPkt := func(p []byte, d string) {
				st.bytes = append(st.bytes, p...)
				st.bounds = append(st.bounds, len(st.bytes))
				st.desc = append(st.desc, d)
			}
			q := (i + rep) % 3
			addPkt(c06Publish(q, false, false, c06Topic(r, tl), 11, []byte("hello")), fmt.Sprintf("PUBLISH q%d topic %dB", q, tl))
			if q == 2 {
				addPkt(c06Ack(0x62, 11), "PUBREL")
			}
			addPkt(c06Publish(0, true, false, "after", 0, []byte("aligned")), "PUBLISH q0 7B")
			total := len(st.bytes)
			plan := []c06Op{{n: total}}
			if rep%2 == 1 {
				plan = c06PlanRandom(r, total, 30000, 1, 2, 0, 1)
			}
			add(&c06Scenario{B: 0, pause: true, stream: st.bytes, plan: plan, choices: mkChoices(1, 0), strat: "longest-topic"}, st)
		}
	}
	if firstErr != nil {
		return firstErr
	}
	// bufio.Reader against its model: random call scripts over a scripted source
	for i := 0; i < 150*scale; i++ {
		B := []int{16, 17, 32, 64}[r.intn(4)]
		term, nreads := c06BufioCase(r, B)
		regular = append(regular, c06Pending{term: term, desc: map[string]any{"kind": "bufio", "B": B, "reads": nreads},
			kind: "bufio", nt: nreads > 1})
		totals["bufio"]++
	}
	// the default-size histories are expensive to parse: one per shard
	for i, pc := range regular {
		if i%(c06Shard-1) == 0 && len(heavy) > 0 {
			cs.add(heavy[0].term, heavy[0].desc, heavy[0].kind, heavy[0].nt)
			heavy = heavy[1:]
		}
		cs.add(pc.term, pc.desc, pc.kind, pc.nt)
	}
	for _, pc := range heavy {
		cs.add(pc.term, pc.desc, pc.kind, pc.nt)
	}
	cs.extra["by_strategy"] = totals
	cs.extra["expiries_served"] = nTimeout
	cs.extra["expiries_without_progress_served"] = nNoProgress
	cs.extra["histories_ending_in_error_other_than_EOF"] = nErrRet
	cs.extra["big_message_returns"] = nBigRet
	return cs.write(out, c06Shard)
}

// defaultReadBuf is the read buffer size the library uses when nobody overrides it, as the
// sources under test declare it (var readBufSize = a * b ...): the size is not part of any
// property, so the model follows the code here.
func defaultReadBuf() int {
	repo := os.Getenv("VERIF_REPO")
	if repo == "" {
		repo = "/repo"
	}
	src, err := os.ReadFile(repo + "/client.go")
	if err == nil {
		if m := regexp.MustCompile(`(?m)^var readBufSize = ([0-9 *]+)`).FindSubmatch(src); m != nil {
			n := 1
			for _, f := range strings.Split(string(m[1]), "*") {
				v, err := strconv.Atoi(strings.TrimSpace(f))
				if err != nil {
					n = 0
					break
				}
				n *= v
			}
			if n >= 16 {
				return n
			}
		}
	}
	return 128 * 1024
}
