package main

import (
	"encoding/binary"
	"fmt"
	"net"
	"strings"

	"github.com/pascaldekloe/mqtt"
)

// Runners of the properties judged on sequential histories. Each: a corpus of
// scripted scenarios (the witnesses of the repaired findings first), then seeded
// random histories with a generator tuned to the property.

type scripted struct {
	label string
	opts  seqOpts
	run   func(h *hist)
}

func baseOpts() seqOpts {
	return seqOpts{bufSize: 256, pause: true, max1: 12, max2: 12, steps: 8}
}

func brokerPublish(qos int, dup bool, id uint16, topic string, msg []byte) []byte {
	head := byte(0x30 | qos<<1)
	if dup {
		head |= 8
	}
	body := append([]byte{byte(len(topic) >> 8), byte(len(topic))}, topic...)
	if qos > 0 {
		body = append(body, byte(id>>8), byte(id))
	}
	body = append(body, msg...)
	pkt := []byte{head}
	l := len(body)
	for ; l > 0x7f; l >>= 7 {
		pkt = append(pkt, byte(l|0x80))
	}
	pkt = append(pkt, byte(l))
	return append(pkt, body...)
}

// storedValue is a Persistence value as the client encodes it.
func storedValue(packet []byte, seq uint64) []byte {
	var out []byte
	for _, b := range mqtt.VerifEncodeValue(net.Buffers{packet}, seq) {
		out = append(out, b...)
	}
	return out
}

// quiet runs f without random faults.
func (h *hist) quiet(f func()) {
	old := h.sc.noFaults
	h.sc.noFaults = true
	f()
	h.sc.noFaults = old
}

// readUntilErr calls ReadSlices until it returns an error (the scripted broker ran dry).
func (h *hist) drain(max int) {
	for i := 0; i < max; i++ {
		n := h.stats["read:msg"] + h.stats["read:big"]
		h.doRead()
		if h.stats["read:msg"]+h.stats["read:big"] == n {
			return
		}
	}
}

var corpus = []scripted{
	{"F2: publishes, restart, publish, restart again", baseOpts(), func(h *hist) {
		h.quiet(func() {
			h.sc.opts.lossRate = 1000 // the broker keeps every acknowledgement back
			h.pubP(1, false, []byte("A"), "t")
			h.pubP(1, false, []byte("B"), "t")
			h.pubP(2, false, []byte("C"), "t")
			h.adopt()
			h.pubP(1, false, []byte("D"), "t")
			h.pubP(2, false, []byte("E"), "t")
			h.adopt()
			h.connectQuiet()
			h.sc.opts.lossRate = 0
			h.adopt()
			h.connectQuiet()
			h.drain(3)
		})
	}},
	{"restart with the PUBREL as the newest record, publish, restart again", baseOpts(), func(h *hist) {
		h.quiet(func() {
			h.sc.budgetIn = 0
			h.sc.dropComp = true // PUBREC arrives, PUBCOMP never
			h.connectQuiet()
			h.pubP(2, false, []byte("A"), "t")
			h.pubP(2, false, []byte("B"), "t")
			h.doRead() // both PUBRECs: PUBRELs recorded, then the connection ends
			h.adopt()
			h.pubP(2, false, []byte("C"), "t")
			h.connectQuiet() // resends the two PUBRELs and C
			h.doRead()       // PUBREC for C: its PUBREL is recorded
			h.adopt()
			h.sc.dropComp = false
			h.connectQuiet()
			h.drain(4)
		})
	}},
	{"F3: retransmitted exactly-once PUBLISH after its PUBREC", baseOpts(), func(h *hist) {
		h.quiet(func() {
			h.sc.budgetIn = 0
			h.sc.inject = [][]byte{brokerPublish(2, false, 9, "in/x", []byte("m1"))}
			h.doRead() // connects, returns the message
			h.sc.inject = [][]byte{brokerPublish(2, true, 9, "in/x", []byte("m1")), brokerPublish(0, false, 0, "in/y", []byte("m2"))}
			h.doRead() // PUBREC, then the duplicate, then m2
			h.sc.inject = [][]byte{ack4(0x62, 9), brokerPublish(0, false, 0, "in/z", []byte("m3"))}
			h.doRead()
			h.doRead()
		})
	}},
	{"F4: another goroutine's write fails while the read routine owes an acknowledgement", baseOpts(), func(h *hist) {
		h.quiet(func() {
			h.sc.budgetIn = 0
			h.sc.inject = [][]byte{brokerPublish(1, false, 7, "in/x", []byte("m1"))}
			h.doRead()
			h.sc.wscript = []writeAns{{wHard, 2}}
			h.publish(false, []byte("p"), "t")
			h.sc.inject = [][]byte{brokerPublish(0, false, 0, "in/y", []byte("m2"))}
			h.doRead()
			h.doRead()
		})
	}},
	{"an acknowledgement owed across a reconnect to a broker that lost its session", baseOpts(), func(h *hist) {
		h.quiet(func() {
			h.sc.budgetIn = 0
			h.sc.inject = [][]byte{brokerPublish(1, false, 0xabc, "in/x", []byte("m1"))}
			h.doRead() // connects, returns the message
			h.sc.wscript = []writeAns{{wHard, 0}}
			h.doRead()                  // the PUBACK write fails: the acknowledgement is kept, the connection left
			h.sc.sessionPresent = false // the broker comes back without its session: CONNACK flags 0
			h.sc.inject = [][]byte{brokerPublish(0, false, 0, "in/y", []byte("m2"))}
			h.doRead() // redials; the PUBACK goes out on the new connection
			h.sc.inject = [][]byte{brokerPublish(2, false, 0xabd, "in/z", []byte("m3"))}
			h.doRead()
			h.sc.wscript = []writeAns{{wHard, 1}}
			h.doRead() // the marker is saved, the PUBREC write fails
			h.sc.sessionPresent = false
			h.doRead()
			h.goodSuffix()
		})
	}},
	{"Disconnect right after another goroutine's write failed, before the read routine noticed", baseOpts(), func(h *hist) {
		h.quiet(func() {
			h.sc.budgetIn = 0
			h.connectQuiet()
			h.sc.wscript = []writeAns{{wHard, 2}}
			h.publish(false, []byte("p"), "t") // the write fails: connect pending, Online still released
			h.disconnect()                     // ErrDown; Offline released and Online blocked all the same
			h.doRead()
			h.doRead()
		})
	}},
	{"Close right after another goroutine's write failed, before the read routine noticed", baseOpts(), func(h *hist) {
		h.quiet(func() {
			h.sc.budgetIn = 0
			h.connectQuiet()
			h.sc.wscript = []writeAns{{wHard, 2}}
			h.publish(false, []byte("p"), "t")
			h.close()
			h.doRead()
			h.doRead()
		})
	}},
	{"F28: Close after a write failed on a connection whose other end was closed", baseOpts(), func(h *hist) {
		h.quiet(func() {
			h.sc.budgetIn = 0
			h.connectQuiet()
			h.sc.wscript = []writeAns{{wClosed, 0}}
			h.sc.peerCloses = true
			h.publish(false, []byte("p"), "t") // closed-pipe error: the connection is left as is, connect pending
			h.close()
			h.doRead() // the left-over end of stream; the connection is closed now
			h.doRead() // ErrClosed
			h.doRead()
		})
	}},
	{"F28: Disconnect after a write failed on a connection whose other end was closed", baseOpts(), func(h *hist) {
		h.quiet(func() {
			h.sc.budgetIn = 0
			h.connectQuiet()
			h.sc.wscript = []writeAns{{wClosed, 1}}
			h.sc.peerCloses = true
			h.ping()
			h.disconnect()
			h.doRead()
			h.doRead()
			h.doRead()
		})
	}},
	{"F11: restart with only PUBRELs pending", baseOpts(), func(h *hist) {
		h.quiet(func() {
			h.sc.budgetIn = 0
			h.connectQuiet()
			h.sc.opts.lossRate = 0
			h.pubP(2, false, []byte("A"), "t")
			h.sc.opts.lossRate = 1000 // PUBCOMP is withheld
			h.sc.inject = nil
			h.doRead() // PUBREC arrives, PUBREL goes out, then the connection ends
			h.adopt()
			h.sc.opts.lossRate = 0
			h.connectQuiet()
			h.pubP(2, false, []byte("B"), "t")
			h.drain(3)
		})
	}},
	{"F13: adoption with negative limits", func() seqOpts { o := baseOpts(); o.max1, o.max2 = -1, -1; return o }(), func(h *hist) {
		h.quiet(func() {
			h.pubP(1, false, []byte("A"), "t")
			h.adopt()
			h.connectQuiet()
		})
	}},
	{"F16: persisted publish right after Close", baseOpts(), func(h *hist) {
		h.quiet(func() {
			h.connectQuiet()
			h.close()
			h.pubP(1, false, []byte("A"), "t")
			h.pubP(2, false, []byte("B"), "t")
			h.doRead()
			h.pubP(1, false, []byte("C"), "t")
		})
	}},
	{"F8: five byte remaining length", baseOpts(), func(h *hist) {
		h.quiet(func() {
			h.sc.budgetIn = 0
			h.connectQuiet()
			body := make([]byte, 5)
			binary.BigEndian.PutUint16(body, 1)
			body[2] = 'x'
			h.sc.inject = [][]byte{append([]byte{0x30, 0x85, 0x80, 0x80, 0x80, 0x00}, body...)}
			h.doRead()
			h.doRead()
		})
	}},
	{"F9a: SUBACK with a wrong number of return codes", baseOpts(), func(h *hist) {
		h.quiet(func() {
			h.sc.budgetIn = 0
			h.connectQuiet()
			h.sc.opts.lossRate = 1000
			h.subscribe(1, []string{"a/b"})
			h.sc.inject = [][]byte{{0x90, 4, 0x60, 0x00, 0, 0}}
			h.doRead()
			h.doRead()
		})
	}},
	{"F9b: DISCONNECT write fails", baseOpts(), func(h *hist) {
		h.quiet(func() {
			h.connectQuiet()
			h.sc.wscript = []writeAns{{wHard, 1}}
			h.disconnect()
			h.doRead()
		})
	}},
	{"Save fails at a persisted publish with limit 1: nothing may stay enqueued", func() seqOpts { o := baseOpts(); o.max1, o.max2 = 1, 1; return o }(), func(h *hist) {
		h.quiet(func() {
			h.sc.budgetIn = 0
			h.sc.sscript = []bool{true}
			h.pubP(1, false, []byte("A"), "t") // Persistence error
			h.pubP(1, false, []byte("B"), "t") // the level is empty: accepted
			h.sc.sscript = []bool{true}
			h.pubP(2, false, []byte("C"), "t")
			h.pubP(2, false, []byte("D"), "t")
			h.connectQuiet()
			h.goodSuffix()
		})
	}},
	{"Save fails at a persisted publish while online, the next one is confirmed", baseOpts(), func(h *hist) {
		h.quiet(func() {
			h.sc.budgetIn = 0
			h.connectQuiet()
			h.sc.sscript = []bool{true}
			h.pubP(1, false, []byte("A"), "t")
			h.pubP(1, false, []byte("B"), "t")
			h.sc.sscript = []bool{true}
			h.pubP(2, false, []byte("C"), "t")
			h.pubP(2, false, []byte("D"), "t")
			h.goodSuffix()
		})
	}},
	{"PUBREL Save fails once at the PUBREC, the transfer still completes", baseOpts(), func(h *hist) {
		h.quiet(func() {
			h.sc.budgetIn = 0
			h.connectQuiet()
			h.pubP(2, false, []byte("A"), "t")
			h.sc.sscript = []bool{true} // the Save of the PUBREL record
			h.doRead()
			h.goodSuffix()
		})
	}},
	{"Delete fails once at the PUBACK and at the PUBCOMP, the transfers still complete", baseOpts(), func(h *hist) {
		h.quiet(func() {
			h.sc.budgetIn = 0
			h.connectQuiet()
			h.pubP(1, false, []byte("A"), "t")
			h.sc.sscript = []bool{true}
			h.doRead()
			h.pubP(2, false, []byte("B"), "t")
			h.sc.sscript = []bool{false, true} // PUBREL saved, Delete at the PUBCOMP fails
			h.doRead()
			h.goodSuffix()
		})
	}},
	{"PUBREC for the identifier next in line while only PUBRELs are pending", baseOpts(), func(h *hist) {
		h.quiet(func() {
			h.sc.budgetIn = 0
			h.connectQuiet()
			h.sc.dropComp = true
			h.pubP(2, false, []byte("A"), "t")
			h.sc.inject = [][]byte{ack4(0x50, 0xc001)} // follows the genuine PUBREC 0xc000
			h.doRead()
			h.doRead()
			h.pubP(2, false, []byte("B"), "t")
			h.doRead()
			h.goodSuffix()
		})
	}},
	{"PUBACK and PUBCOMP for the identifiers next in line with nothing pending", baseOpts(), func(h *hist) {
		h.quiet(func() {
			h.sc.budgetIn = 0
			h.connectQuiet()
			h.sc.inject = [][]byte{ack4(0x40, 0x8000)}
			h.doRead()
			h.connectQuiet()
			h.sc.inject = [][]byte{ack4(0x70, 0xc000)}
			h.doRead()
			h.connectQuiet()
			h.sc.inject = [][]byte{ack4(0x50, 0xc000)}
			h.doRead()
			h.pubP(1, false, []byte("A"), "t")
			h.pubP(2, false, []byte("B"), "t")
			h.goodSuffix()
		})
	}},
	{"PUBCOMP next in line while the PUBLISH still awaits its PUBREC", baseOpts(), func(h *hist) {
		h.quiet(func() {
			h.sc.budgetIn = 0
			h.connectQuiet()
			h.sc.opts.lossRate = 1000 // the PUBREC is withheld
			h.pubP(2, false, []byte("A"), "t")
			h.sc.inject = [][]byte{ack4(0x70, 0xc000)}
			h.doRead()
			h.sc.opts.lossRate = 0
			h.goodSuffix()
		})
	}},
	{"restart at the identifier wrap: PUBREL 0xffff and PUBLISH 0xc000 pending", baseOpts(), func(h *hist) {
		h.quiet(func() {
			h.sc.budgetIn = 0
			h.rewrite(func(m map[uint][]byte) {
				m[0xffff] = storedValue([]byte{0x62, 2, 0xff, 0xff}, 70001)
				m[0xc000] = storedValue([]byte{0x34, 6, 0, 1, 't', 0xc0, 0x00, 'W'}, 70002)
				m[0xbfff] = storedValue([]byte{0x32, 6, 0, 1, 't', 0xbf, 0xff, 'X'}, 70003)
				m[0x8000] = storedValue([]byte{0x32, 6, 0, 1, 't', 0x80, 0x00, 'Y'}, 70004)
			})
			h.adopt()
			h.connectQuiet()
			h.pubP(2, false, []byte("Z"), "t")
			h.pubP(1, false, []byte("V"), "t")
			h.goodSuffix()
		})
	}},
	{"restart with storage sequence numbers beyond 32 bits, publish, restart again", baseOpts(), func(h *hist) {
		h.quiet(func() {
			h.sc.budgetIn = 0
			h.sc.opts.lossRate = 1000 // the broker keeps every acknowledgement back
			h.rewrite(func(m map[uint][]byte) {
				m[0x8000] = storedValue([]byte{0x32, 6, 0, 1, 't', 0x80, 0x00, 'X'}, 1<<32-1)
				m[0x8001] = storedValue([]byte{0x32, 6, 0, 1, 't', 0x80, 0x01, 'Y'}, 1<<32)
				m[0xc000] = storedValue([]byte{0x34, 6, 0, 1, 't', 0xc0, 0x00, 'W'}, 1<<32+1)
			})
			h.adopt()
			h.pubP(1, false, []byte("Z"), "t") // its record continues the numbering: 2^32 + 2
			h.pubP(2, false, []byte("V"), "t")
			h.adopt() // nothing may be dropped: the order of the records is intact
			h.sc.opts.lossRate = 0
			h.goodSuffix()
		})
	}},
	{"F24: a Ping waits, Close, another Ping before ReadSlices has seen the close", baseOpts(), func(h *hist) {
		h.quiet(func() {
			h.sc.budgetIn = 0
			h.connectQuiet()
			h.sc.opts.lossRate = 1000 // the PINGRESP is withheld
			h.ping()
			h.close()
			h.ping()
			h.subscribe(1, []string{"a/b"})
			h.doRead()
			h.ping()
		})
	}},
	{"UNSUBACK carrying the identifier of a pending SUBSCRIBE, SUBACK carrying that of a pending UNSUBSCRIBE", baseOpts(), func(h *hist) {
		h.quiet(func() {
			h.sc.budgetIn = 0
			h.connectQuiet()
			h.sc.opts.lossRate = 1000 // the genuine responses are withheld
			h.subscribe(1, []string{"a/b"})
			h.sc.inject = [][]byte{ack4(0xb0, 0x6000), brokerPublish(0, false, 0, "in/after1", []byte("v1"))}
			h.doRead()
			h.doRead()
			h.sc.opts.lossRate = 0
			h.connectQuiet()
			h.sc.opts.lossRate = 1000
			h.unsubscribe([]string{"a/b"})
			h.sc.inject = [][]byte{{0x90, 3, 0x40, 0x01, 0}, brokerPublish(0, false, 0, "in/after2", []byte("v2"))}
			h.doRead()
			h.doRead()
			h.sc.opts.lossRate = 0
			h.goodSuffix()
		})
	}},
	{"duplicate of a big exactly-once message after a reconnect, then the next exactly-once message", func() seqOpts { o := baseOpts(); o.bufSize = 64; return o }(), func(h *hist) {
		h.quiet(func() {
			h.sc.budgetIn = 0
			big := make([]byte, 150)
			for i := range big {
				big[i] = byte(i)
			}
			h.sc.opts.lossRate = 1000 // the scripted broker sends nothing of its own: every packet below is explicit
			h.sc.inject = [][]byte{brokerPublish(2, false, 7, "in/big", big)}
			h.doRead() // connects, hands out the BigMessage
			if h.bigMsg != nil {
				h.readAll()
			}
			h.doRead() // marker, PUBREC 7; then the connection ends
			h.sc.inject = [][]byte{brokerPublish(2, true, 7, "in/big", big), ack4(0x62, 7), brokerPublish(2, false, 8, "in/next", []byte("m")), brokerPublish(0, false, 0, "in/last", []byte("z"))}
			h.drain(6)
			h.goodSuffix()
		})
	}},
	{"connection lost in the payload of a skipped big at-least-once message; its PUBACK goes out on the next connection", func() seqOpts { o := baseOpts(); o.bufSize = 64; return o }(), func(h *hist) {
		h.quiet(func() {
			h.sc.budgetIn = 0
			big := make([]byte, 150)
			for i := range big {
				big[i] = byte(i)
			}
			h.sc.opts.lossRate = 1000 // the scripted broker sends nothing of its own: every packet below is explicit
			pk := brokerPublish(1, false, 7, "in/big", big)
			h.sc.inject = [][]byte{pk[:100]}
			h.doRead() // connects, hands out the BigMessage
			h.doRead() // the application skips it; the connection ends inside the payload
			h.sc.inject = [][]byte{brokerPublish(0, false, 0, "in/last", []byte("z"))}
			h.drain(4) // the acknowledgement of the returned message goes out on the new connection
			h.goodSuffix()
		})
	}},
	{"connection lost in the payload of a skipped big exactly-once message; marker and PUBREC on the next connection", func() seqOpts { o := baseOpts(); o.bufSize = 64; return o }(), func(h *hist) {
		h.quiet(func() {
			h.sc.budgetIn = 0
			big := make([]byte, 150)
			for i := range big {
				big[i] = byte(i)
			}
			h.sc.opts.lossRate = 1000 // the scripted broker sends nothing of its own: every packet below is explicit
			pk := brokerPublish(2, false, 7, "in/big", big)
			h.sc.inject = [][]byte{pk[:100]}
			h.doRead() // connects, hands out the BigMessage
			h.doRead() // the application skips it; the connection ends inside the payload
			h.sc.inject = [][]byte{brokerPublish(0, false, 0, "in/last", []byte("z"))}
			h.drain(4) // the acknowledgement of the returned message goes out on the new connection
			h.goodSuffix()
		})
	}},
	{"PUBREL carrying the identifiers of the client's own pending publishes: answered with PUBCOMP, the records stay", baseOpts(), func(h *hist) {
		h.quiet(func() {
			h.sc.budgetIn = 0
			h.connectQuiet()
			h.sc.opts.lossRate = 1000 // the broker keeps every acknowledgement back
			h.pubP(1, false, []byte("A"), "t")
			h.pubP(2, false, []byte("B"), "t")
			h.sc.inject = [][]byte{ack4(0x62, 0x8000), ack4(0x62, 0xc000), brokerPublish(0, false, 0, "in/x", []byte("x"))}
			h.doRead()
			h.sc.opts.lossRate = 0
			h.sc.forceDialFail = false
			h.sc.inject = nil
			h.doRead() // the connection ends
			h.goodSuffix() // both publishes are resent and complete
		})
	}},
	{"F25: the broker lost its session between PUBREC and PUBREL; its next message reuses the identifier", baseOpts(), func(h *hist) {
		h.quiet(func() {
			h.sc.budgetIn = 0
			h.sc.opts.lossRate = 1000 // every broker packet below is explicit
			h.sc.inject = [][]byte{brokerPublish(2, false, 1, "in/old", []byte("o"))}
			h.doRead()                  // connects, returns the message
			h.doRead()                  // marker saved, PUBREC written; the connection ends before the PUBREL
			h.sc.sessionPresent = false // the broker comes back without its session
			h.sc.inject = [][]byte{brokerPublish(2, false, 1, "in/new", []byte("n")), brokerPublish(0, false, 0, "in/last", []byte("z"))}
			h.drain(4)
		})
	}},
	{"requests issued between a failed write of another goroutine and the read routine going offline", baseOpts(), func(h *hist) {
		h.quiet(func() {
			h.sc.budgetIn = 0
			h.connectQuiet()
			h.sc.wscript = []writeAns{{wHard, 2}}
			h.publish(false, []byte("p"), "t") // the write fails: connect pending, Online still released
			h.ping()                           // installs its slot, then waits for the write semaphore
			h.subscribe(1, []string{"a/b"})
			h.unsubscribe([]string{"c"})
			h.doRead() // goes offline (releases slot and transactions); the redial fails: ErrDown for all three
			h.doRead()
			h.ping()
			h.goodSuffix()
		})
	}},
	{"the broker stops in the middle of a packet and stays silent", baseOpts(), func(h *hist) {
		h.quiet(func() {
			h.sc.budgetIn = 0
			h.connectQuiet()
			pk := brokerPublish(1, false, 5, "in/cut", []byte("0123456789"))
			h.sc.inject = [][]byte{pk[:7]}
			h.sc.silentAfter = true
			h.doRead() // gives up after a deadline expiry without progress
			h.doRead() // redials
			h.goodSuffix()
		})
	}},
	{"the broker stops inside a multi-byte remaining length and stays silent", baseOpts(), func(h *hist) {
		h.quiet(func() {
			h.sc.budgetIn = 0
			h.connectQuiet()
			h.sc.inject = [][]byte{{0x30, 0x80}} // head and the first of two length bytes in one transfer
			h.sc.silentAfter = true
			h.doRead() // the read of the second length byte has a deadline: expiry, connection left
			h.doRead() // redials
			h.sc.inject = [][]byte{{0x32, 0xff, 0x80}}
			h.sc.silentAfter = true
			h.doRead()
			h.doRead()
			h.goodSuffix()
		})
	}},
	{"refusing CONNACKs that carry flag bits (clean session requested)", func() seqOpts { o := baseOpts(); o.clean = true; return o }(), func(h *hist) {
		h.quiet(func() {
			h.sc.budgetIn = 0
			h.sc.connacks = [][]byte{{0x20, 2, 1, 5}, {0x20, 2, 2, 3}, {0x20, 2, 0x80, 1}, {0x20, 2, 0xff, 0xff}, {0x20, 2, 1, 4}}
			for i := 0; i < 5; i++ {
				h.doRead()
			}
			h.goodSuffix()
		})
	}},
	{"refusing CONNACKs that carry flag bits", baseOpts(), func(h *hist) {
		h.quiet(func() {
			h.sc.budgetIn = 0
			h.sc.connacks = [][]byte{{0x20, 2, 1, 2}, {0x20, 2, 3, 3}, {0x20, 2, 0x40, 200}}
			for i := 0; i < 3; i++ {
				h.doRead()
			}
			h.goodSuffix()
		})
	}},
	{"the broker stops in the middle of an acknowledgement and stays silent", baseOpts(), func(h *hist) {
		h.quiet(func() {
			h.sc.budgetIn = 0
			h.connectQuiet()
			h.sc.opts.lossRate = 1000
			h.pubP(1, false, []byte("A"), "t")
			h.sc.inject = [][]byte{{0x40, 2, 0x80}}
			h.sc.silentAfter = true
			h.doRead()
			h.sc.opts.lossRate = 0
			h.doRead()
			h.goodSuffix()
		})
	}},
	{"F26: the PINGRESP of an abandoned Ping completes the next Ping", baseOpts(), func(h *hist) {
		h.quiet(func() {
			h.sc.budgetIn = 0
			h.connectQuiet()
			h.sc.opts.lossRate = 1000 // the PINGRESP is late
			h.ping()
			h.quit(h.nextR - 1)                                                                // abandoned after submission
			h.ping()                                                                           // a second PINGREQ goes out
			h.sc.inject = [][]byte{{0xd0, 0}, brokerPublish(0, false, 0, "in/p", []byte("x"))} // the answer to the FIRST one
			h.doRead()
			h.sc.opts.lossRate = 0
			h.goodSuffix()
		})
	}},
	{"big message pending at Close", func() seqOpts { o := baseOpts(); o.bufSize = 32; return o }(), func(h *hist) {
		h.quiet(func() {
			h.sc.budgetIn = 0
			h.sc.inject = [][]byte{brokerPublish(1, false, 3, "in/big", make([]byte, 70))}
			h.doRead()
			h.close()
			h.doRead()
			h.doRead()
		})
	}},
}

// damage scenarios for C16: restart on a Persistence that was tampered with.
func damageCorpus() []scripted {
	type dmg struct {
		label string
		f     func(m map[uint][]byte)
	}
	flip := func(k uint, i int) func(m map[uint][]byte) {
		return func(m map[uint][]byte) {
			if v, ok := m[k]; ok && len(v) > 0 {
				v = append([]byte(nil), v...)
				v[(i%len(v)+len(v))%len(v)] ^= 0x5a
				m[k] = v
			}
		}
	}
	trunc := func(k uint, n int) func(m map[uint][]byte) {
		return func(m map[uint][]byte) {
			if v, ok := m[k]; ok && len(v) > n {
				m[k] = append([]byte(nil), v[:n]...)
			}
		}
	}
	del := func(k uint) func(m map[uint][]byte) { return func(m map[uint][]byte) { delete(m, k) } }
	ds := []dmg{
		{"F10: second exactly-once PUBLISH damaged after the first got its PUBREC", flip(0xc001, 3)},
		{"F10: second exactly-once PUBLISH removed", del(0xc001)},
		{"first at-least-once PUBLISH damaged", flip(0x8000, 1)},
		{"middle at-least-once PUBLISH removed", del(0x8001)},
		{"last at-least-once PUBLISH truncated", trunc(0x8002, 9)},
		{"PUBREL damaged", flip(0xc000, -2)},
		{"PUBREL removed", del(0xc000)},
		{"F14: reception marker damaged", flip(0x10009, 2)},
		{"reception marker removed", del(0x10009)},
		{"stray entries", func(m map[uint][]byte) {
			m[0x1234] = []byte("garbage")
			m[0x9fff] = []byte("x")
			m[0x1ffff] = []byte{}
		}},
		{"leftover of an interrupted save: empty value", func(m map[uint][]byte) { m[0x8003] = []byte{} }},
		{"F15: client identifier record damaged", flip(0, 0)},
		{"F15: client identifier record removed", del(0)},
		{"two records damaged", func(m map[uint][]byte) { flip(0x8001, 0)(m); flip(0xc002, 5)(m) }},
		{"two gaps with one good record between (at-least-once)", func(m map[uint][]byte) { del(0x8001)(m); trunc(0x8003, 9)(m) }},
		{"two gaps with one good record between (exactly-once)", func(m map[uint][]byte) { flip(0xc001, 2)(m); del(0xc003)(m) }},
		{"three gaps", func(m map[uint][]byte) { del(0x8001)(m); del(0x8003)(m); del(0x8005)(m) }},
	}
	var out []scripted
	for _, d := range ds {
		d := d
		out = append(out, scripted{"damage: " + d.label, baseOpts(), func(h *hist) {
			h.quiet(func() {
				h.sc.budgetIn = 0
				// a session with transfers at every stage and a reception marker
				h.sc.inject = [][]byte{brokerPublish(2, false, 9, "in/x", []byte("m1")), brokerPublish(0, false, 0, "in/y", []byte("m2"))}
				h.doRead()
				h.sc.opts.lossRate = 1000
				h.doRead() // marker saved, PUBREC written
				for _, m := range []string{"A", "B", "C", "A2", "B2", "C2"} {
					h.pubP(1, false, []byte(m), "t")
				}
				h.sc.opts.lossRate = 0
				h.pubP(2, false, []byte("D"), "t")
				h.sc.opts.lossRate = 1000
				h.doRead() // PUBREC for D: PUBREL recorded
				for _, m := range []string{"E", "F", "G", "H2", "I2"} {
					h.pubP(2, false, []byte(m), "t")
				}
				h.rewrite(d.f)
				h.adopt()
				h.sc.opts.lossRate = 0
				h.sc.inject = [][]byte{brokerPublish(2, true, 9, "in/x", []byte("m1")), brokerPublish(0, false, 0, "in/z", []byte("m3"))}
				h.drain(4)
				h.pubP(1, false, []byte("H"), "t")
				h.pubP(2, false, []byte("I"), "t")
				h.drain(4)
				h.adopt()
				h.drain(3)
			})
		}})
	}
	return out
}

// corrupt-record scenarios without a restart: the running client meets a record that no
// longer decodes (C15: reported as corrupt, never used, never taken for absent)
func corruptCorpus() []scripted {
	type dmg struct {
		label string
		key   uint
		f     func(v []byte) []byte
	}
	var ds []dmg
	for _, k := range []uint{0, 0x10009, 0x8000, 0x8001, 0xc000, 0xc001} {
		for _, n := range []int{0, 1, 11} {
			k, n := k, n
			ds = append(ds, dmg{fmt.Sprintf("record %#x truncated to %d bytes", k, n), k, func(v []byte) []byte {
				if len(v) < n {
					return v
				}
				return append([]byte{}, v[:n]...)
			}})
		}
		ds = append(ds, dmg{fmt.Sprintf("record %#x with one byte altered", k), k, func(v []byte) []byte {
			v = append([]byte(nil), v...)
			if len(v) > 0 {
				v[len(v)/2] ^= 0x11
			}
			return v
		}})
	}
	var out []scripted
	for _, d := range ds {
		d := d
		out = append(out, scripted{"corrupt: " + d.label, baseOpts(), func(h *hist) {
			h.quiet(func() {
				h.sc.budgetIn = 0
				h.sc.dropComp = true
				h.sc.opts.lossRate = 1000 // no PUBREL for the inbound message: its marker stays
				h.sc.inject = [][]byte{brokerPublish(2, false, 9, "in/x", []byte("m1")), brokerPublish(0, false, 0, "in/y", []byte("m2"))}
				h.doRead()
				h.doRead() // marker saved, PUBREC written
				h.sc.opts.lossRate = 0
				h.pubP(2, false, []byte("D"), "t")
				h.sc.inject = [][]byte{brokerPublish(0, false, 0, "in/z", []byte("m3"))}
				h.doRead() // PUBREC for D: PUBREL recorded
				h.sc.opts.lossRate = 1000
				h.pubP(1, false, []byte("A"), "t")
				h.pubP(1, false, []byte("B"), "t")
				h.pubP(2, false, []byte("E"), "t")
				h.rewrite(func(m map[uint][]byte) {
					if v, ok := m[d.key]; ok {
						m[d.key] = d.f(v)
					}
				})
				// a retransmission makes the client look at the marker; then the connection ends and
				// the reconnect loads the client identifier and every pending record
				h.sc.inject = [][]byte{brokerPublish(2, true, 9, "in/x", []byte("m1")), brokerPublish(0, false, 0, "in/w", []byte("m4"))}
				h.drain(3)
				h.doRead()
				h.doRead()
			})
		}})
	}
	return out
}

func scriptedGen(s scripted) histGen {
	return func(i int, r *rng, stats map[string]int) (string, bool, map[string]any) {
		o := s.opts
		return runScripted(r, o, stats, func(h *hist) {
			h.label = s.label
			h.nontriv = true
			s.run(h)
		})
	}
}

func histRunner(prop, runFn string, withDamage bool, nquick, nthorough int, mk func(r *rng, i int) seqOpts) runner {
	return func(tier string, seed uint64, out string) error {
		var gens []histGen
		for _, s := range corpus {
			gens = append(gens, scriptedGen(s))
		}
		if withDamage {
			for _, s := range damageCorpus() {
				gens = append(gens, scriptedGen(s))
			}
		}
		if withDamage || prop == "C02" {
			// both stores: the same scenarios once more on the library's FileSystem store
			fsv := append([]scripted(nil), corpus...)
			if withDamage {
				fsv = append(fsv, damageCorpus()...)
			}
			for _, s := range fsv {
				s.label += " [FileSystem]"
				s.opts.fsStore = true
				gens = append(gens, scriptedGen(s))
			}
		}
		n := nquick
		if tier == "thorough" {
			n = nthorough
		}
		for i := 0; i < n; i++ {
			if (withDamage || prop == "C02") && i%3 == 2 {
				gens = append(gens, randomGen(func(r *rng, i int) seqOpts { o := mk(r, i); o.fsStore = true; return o }))
				continue
			}
			gens = append(gens, randomGen(mk))
		}
		return runGen(prop, "HistChecks", runFn, seed, len(gens), func(i int, r *rng, stats map[string]int) (string, bool, map[string]any) {
			return gens[i](i, r, stats)
		}, out, 8)
	}
}

func pick(r *rng, xs ...int) int { return xs[r.intn(len(xs))] }

func init() {
	general := func(r *rng, i int) seqOpts {
		big := r.chance(1, 3)
		bs := 256
		if big {
			bs = pick(r, 32, 64)
		}
		return seqOpts{bigMsgs: big, hostile: r.chance(1, 4), bufSize: bs, pause: r.chance(3, 4),
			max1: pick(r, 0, 1, 2, 3, 8, -1), max2: pick(r, 0, 1, 2, 4, -1, 20000),
			clean: r.chance(1, 3), faultRate: pick(r, 0, 30, 80), storeFaults: pick(r, 0, 0, 40), lossRate: pick(r, 0, 100, 300),
			steps: 10 + r.intn(30), adoptRate: pick(r, 0, 3, 8)}
	}
	outbound := func(r *rng, i int) seqOpts {
		return seqOpts{bufSize: 256, pause: r.chance(3, 4), max1: pick(r, 1, 2, 3, 8, 16), max2: pick(r, 1, 2, 4, 16),
			clean: r.chance(1, 4), faultRate: pick(r, 0, 40, 120), storeFaults: pick(r, 0, 30, 80), lossRate: pick(r, 0, 150, 400),
			steps: 20 + r.intn(30), adoptRate: pick(r, 0, 4, 10)}
	}
	inbound := func(r *rng, i int) seqOpts {
		big := r.chance(1, 2)
		bs := 256
		if big {
			bs = pick(r, 32, 64)
		}
		return seqOpts{bigMsgs: big, bufSize: bs, pause: r.chance(3, 4), max1: 4, max2: 4,
			faultRate: pick(r, 0, 40, 100), storeFaults: pick(r, 0, 30), lossRate: pick(r, 0, 200),
			steps: 20 + r.intn(30), adoptRate: pick(r, 0, 5)}
	}
	hostile := func(r *rng, i int) seqOpts {
		o := general(r, i)
		o.hostile = true
		return o
	}
	limits := func(r *rng, i int) seqOpts {
		o := outbound(r, i)
		o.max1, o.max2 = pick(r, 0, 1, 2, 3, -1, 20000), pick(r, 0, 1, 2, 3, -1, 16384)
		o.storeFaults = 0
		return o
	}
	runners["SEQ"] = histRunner("SEQ", "all4_run", true, 60, 1500, general)
	runners["C01"] = histRunner("C01", "c01_run", false, 250, 3000, outbound)
	runners["C02"] = histRunner("C02", "c02_run", false, 250, 3000, func(r *rng, i int) seqOpts { o := outbound(r, i); o.adoptRate = pick(r, 6, 12); return o })
	runners["C03"] = histRunner("C03", "c03_run", false, 250, 3000, func(r *rng, i int) seqOpts {
		o := outbound(r, i)
		o.max1 = 0
		if r.chance(1, 6) {
			o.max2 = pick(r, -1, 16384, 20000, 1<<16) // the limit is cut down to the identifier space
		}
		return o
	})
	runners["C04"] = histRunner("C04", "c04_run_full", false, 250, 3000, inbound)
	runners["C05"] = histRunner("C05", "c05_run_full", false, 250, 3000, func(r *rng, i int) seqOpts {
		o := outbound(r, i)
		if r.chance(1, 8) {
			o.max1, o.max2 = pick(r, -1, 16384, 20000, 3), pick(r, -1, 16384, 20000, 1<<16) // cut down to the identifier space
		}
		return o
	})
	runners["C07"] = histRunner("C07", "c07_run", false, 250, 3000, inbound)
	runners["C10"] = histRunner("C10", "c10_run", false, 250, 3000, general)
	runners["C11"] = histRunner("C11", "c11_run", false, 250, 3000, func(r *rng, i int) seqOpts { o := general(r, i); o.hostile = r.chance(1, 3); return o })
	runners["C12"] = histRunner("C12", "c12_run", false, 250, 3000, general)
	runners["C13"] = histRunner("C13", "c13_run_full", false, 250, 3000, hostile)
	runners["C14"] = histRunner("C14", "c14_run", false, 250, 3000, general)
	runners["C16"] = histRunner("C16", "c16_run", true, 200, 2000, func(r *rng, i int) seqOpts {
		o := outbound(r, i)
		o.adoptRate, o.damageRate, o.storeFaults = pick(r, 6, 10), 70, 0
		o.max1, o.max2 = 16, 16
		return o
	})
	runners["C15S"] = func(tier string, seed uint64, out string) error {
		var gens []histGen
		for _, s := range corruptCorpus() {
			gens = append(gens, scriptedGen(s))
		}
		for _, s := range damageCorpus() {
			gens = append(gens, scriptedGen(s))
		}
		for _, s := range corpus { // restarts with crafted stores: what is saved afterwards continues their numbering
			if strings.Contains(s.label, "restart") {
				gens = append(gens, scriptedGen(s))
			}
		}
		return runGen("C15S", "HistChecks", "c15s_run", seed, len(gens), func(i int, r *rng, stats map[string]int) (string, bool, map[string]any) {
			return gens[i](i, r, stats)
		}, out, 6)
	}
	// C06 at the session level: inbound streams with Persistence faults at the markers
	runners["C06S"] = histRunner("C06S", "c06s_run", false, 120, 1500, func(r *rng, i int) seqOpts {
		o := inbound(r, i)
		o.storeFaults = pick(r, 30, 80, 150)
		return o
	})
	runners["C17"] = histRunner("C17", "c17_run", false, 250, 3000, limits)
	runners["C18"] = histRunner("C18", "c18_run", false, 250, 3000, general)
	_ = fmt.Sprint
}
