package main

func init() {
	runners["SEQ"] = func(tier string, seed uint64, out string) error {
		n := 60
		if tier == "thorough" {
			n = 1500
		}
		return runHistories("SEQ", "HistChecks", "histcase", "all3_run", seed, n, func(r *rng, i int) seqOpts {
			big := r.chance(1, 3)
			bs := 256
			if big {
				bs = []int{32, 64}[r.intn(2)]
			}
			return seqOpts{bigMsgs: big, hostile: r.chance(1, 4), bufSize: bs, pause: r.chance(3, 4), max1: []int{0, 1, 2, 3, 8, -1}[r.intn(6)], max2: []int{0, 1, 2, 4, -1, 20000}[r.intn(6)],
				clean: r.chance(1, 3), faultRate: []int{0, 30, 80}[r.intn(3)], storeFaults: []int{0, 0, 40}[r.intn(3)], lossRate: []int{0, 100, 300}[r.intn(3)],
				steps: 10 + r.intn(30), adoptRate: []int{0, 3, 8}[r.intn(3)]}
		}, out, 10)
	}
}
